----------------------------- MODULE CrdtOracle -----------------------------
(* What C39 demands of the VALUE a replica exposes, stated without any knowledge of  *)
(* dots, clocks or Merge: a ghost record `g` follows only which updates each replica *)
(* has received, and bounds the value from below and above.                          *)
(*                                                                                   *)
(*   smin[r]  updates r has certainly received: its own, the update of every delta   *)
(*            delivered to it, and smin of every replica whose full state it merged. *)
(*   smax[r]  updates r may know: additionally the whole causal past of every update *)
(*            it received (a delta is allowed to carry more than its own update).    *)
(*                                                                                   *)
(* Add-like operations create a unique tag; Remove(x) / register Set remove the tags *)
(* the issuing replica certainly has (rmin) resp. may have (rmax).  A replica must   *)
(* expose every value with a certainly-received tag that no possibly-known remove    *)
(* covers (no add lost), and may expose only values with a possibly-known tag that   *)
(* no certainly-received remove covers (nothing resurrected / invented).  When       *)
(* delivery is causal smin = smax and the bounds pin the value exactly.              *)
EXTENDS CrdtBase

NoSet == [v |-> "", ts |-> 0, n |-> ""]

\* summary of one update (a batch of mutator calls applied atomically at replica r)
NoSummary(r) == [r |-> r, inc |-> 0, dec |-> 0, en |-> FALSE, set |-> NoSet,
                 adds |-> {}, rmin |-> {}, rmax |-> {}]

GInit == [n |-> 0, u |-> <<>>, cause |-> <<>>,
          smin |-> [r \in Nodes |-> {}], smax |-> [r \in Nodes |-> {}]]

\* tags known / removes known, lower and upper bound
Amin(g, r)  == UNION {g.u[id].adds : id \in g.smin[r]}
Amax(g, r)  == UNION {g.u[id].adds : id \in g.smax[r]}
Tmin(g, r)  == UNION {g.u[id].rmin : id \in g.smin[r]}
Tmax(g, r)  == UNION {g.u[id].rmax : id \in g.smax[r]}

\* one mutator call folded into the summary; v = [s: summary, amin, amax, tmin, tmax] is the issuing
\* replica's view, extended as the batch proceeds.  Tag = [id, i, x].
OFold(ty, v, id, i, op) ==
  LET s == v.s
      tag == [id |-> id, i |-> i, x |-> op.x]
      remove(sel(_)) ==      \* remove the tags selected by sel
        LET lo == {t \in v.amin : sel(t)} \ v.tmax
            hi == {t \in v.amax : sel(t)}
        IN [v EXCEPT !.s.rmin = @ \cup lo, !.s.rmax = @ \cup hi, !.tmin = @ \cup lo, !.tmax = @ \cup hi]
      add(w) == [w EXCEPT !.s.adds = @ \cup {tag}, !.amin = @ \cup {tag}, !.amax = @ \cup {tag}]
      SameX(t) == t.x = op.x
      AnyTag(t) == TRUE
  IN CASE ty = "gcounter" -> [v EXCEPT !.s.inc = @ + op.n]
       [] ty = "pncounter" -> IF op.k = "inc" THEN [v EXCEPT !.s.inc = @ + op.n] ELSE [v EXCEPT !.s.dec = @ + op.n]
       [] ty = "flag" -> IF op.k = "enable" THEN [v EXCEPT !.s.en = TRUE] ELSE v
       [] ty = "lww" -> [v EXCEPT !.s.set = [v |-> op.x, ts |-> op.n, n |-> s.r]]
       [] ty = "mvreg" -> add(remove(AnyTag))
       [] ty \in {"orset", "ormap"} -> IF op.k \in {"add", "put"} THEN add(v) ELSE remove(SameX)

RECURSIVE OFoldAll(_, _, _, _, _)
OFoldAll(ty, v, id, i, ops) == IF i > Len(ops) THEN v ELSE OFoldAll(ty, OFold(ty, v, id, i, ops[i]), id, i + 1, ops)

GUpdate(g, ty, r, ops) ==
  LET id == g.n + 1
      v0 == [s |-> NoSummary(r), amin |-> Amin(g, r), amax |-> Amax(g, r), tmin |-> Tmin(g, r), tmax |-> Tmax(g, r)]
      v  == OFoldAll(ty, v0, id, 1, ops)
  IN [n |-> id, u |-> Append(g.u, v.s), cause |-> Append(g.cause, g.smax[r] \cup {id}),
      smin |-> [g.smin EXCEPT ![r] = @ \cup {id}], smax |-> [g.smax EXCEPT ![r] = @ \cup {id}]]

GDeliver(g, r, id) == [g EXCEPT !.smin[r] = @ \cup {id}, !.smax[r] = @ \cup g.cause[id]]
GMerge(g, r, q)    == [g EXCEPT !.smin[r] = @ \cup g.smin[q], !.smax[r] = @ \cup g.smax[q]]

\* ---- the bounds, evaluated on a recorded (or modelled) core state c of replica r ------------
Amount(g, id, n, inc) == IF g.u[id].r = n THEN (IF inc THEN g.u[id].inc ELSE g.u[id].dec) ELSE 0
RECURSIVE SumIds(_, _, _, _)
SumIds(g, S, n, inc) == IF S = {} THEN 0
                        ELSE LET id == CHOOSE id \in S : TRUE IN Amount(g, id, n, inc) + SumIds(g, S \ {id}, n, inc)
CntMin(g, r, n, inc) == SumIds(g, g.smin[r], n, inc)
CntMax(g, r, n, inc) == SumIds(g, g.smax[r], n, inc)
CntOK(g, r, m, inc) == \A n \in Nodes : CntMin(g, r, n, inc) <= Get0(m, n) /\ Get0(m, n) <= CntMax(g, r, n, inc)

Beats(a, b) == a.ts > b.ts \/ (a.ts = b.ts /\ Rank(a.n) > Rank(b.n))

\* values the replica must / may expose for the tag-based types
Must(g, r) == {t.x : t \in Amin(g, r) \ Tmax(g, r)}
May(g, r)  == {t.x : t \in Amax(g, r) \ Tmin(g, r)}

Shown(ty, c) == CASE ty = "mvreg" -> {x.v : x \in c.e}
                  [] ty \in {"orset", "ormap"} -> {x \in DOMAIN c.e : c.e[x] # {}}

\* Which bound fails: "" when fine.  c is the core of the replica's state (core of New when the key is unknown).
OracleVerdict(g, ty, r, c) ==
  CASE ty = "gcounter" -> IF CntOK(g, r, c.s, TRUE) THEN "" ELSE "count"
    [] ty = "pncounter" -> IF CntOK(g, r, c.p, TRUE) /\ CntOK(g, r, c.m, FALSE) THEN "" ELSE "count"
    [] ty = "flag" -> IF (\E id \in g.smin[r] : g.u[id].en) /\ ~c.en THEN "lost"
                      ELSE IF c.en /\ ~(\E id \in g.smax[r] : g.u[id].en) THEN "invented" ELSE ""
    [] ty = "lww" ->
         LET lo == {g.u[id].set : id \in {i \in g.smin[r] : g.u[i].set # NoSet}}
             hi == {g.u[id].set : id \in {i \in g.smax[r] : g.u[i].set # NoSet}}
         IN IF \E s \in lo : Beats(s, c) THEN "lost"             \* exposes something older than a write it received
            ELSE IF c # NoSet /\ c \notin hi THEN "invented"
            ELSE IF c = NoSet /\ lo # {} THEN "lost" ELSE ""
    [] ty \in {"mvreg", "orset", "ormap"} ->
         IF ~(Must(g, r) \subseteq Shown(ty, c)) THEN "lost"
         ELSE IF ~(Shown(ty, c) \subseteq May(g, r)) THEN "resurrected" ELSE ""
=============================================================================
