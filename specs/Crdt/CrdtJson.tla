----------------------------- MODULE CrdtJson -----------------------------
(* Recorded Abs(real) (JSON written by harness/cmd/crdt) -> the abstract states of    *)
(* CrdtTypes.tla: JSON arrays of dots / entries become sets.                          *)
EXTENDS CrdtBase

\* core of a recorded value
JCore(ty, j) ==
  CASE ty = "gcounter"  -> [s |-> j.s]
    [] ty = "pncounter" -> [p |-> j.p, m |-> j.m]
    [] ty = "flag"      -> [en |-> j.en]
    [] ty = "lww"       -> [v |-> j.v, ts |-> j.ts, n |-> j.n]
    [] ty = "mvreg"     -> [e |-> Range(j.e), clock |-> j.clock]
    [] ty = "orset"     -> [e |-> [x \in DOMAIN j.e |-> Range(j.e[x])], clock |-> j.clock]
    [] ty = "ormap"     -> [e |-> [x \in DOMAIN j.e |-> Range(j.e[x])], clock |-> j.clock, v |-> j.v]

JIsAbsent(j) == "absent" \in DOMAIN j
JIsNil(j) == "nil" \in DOMAIN j
\* [core, dirty] of a recorded value (absent / nil stay as they are)
JAbs(ty, j) == IF JIsAbsent(j) \/ JIsNil(j) THEN j ELSE [core |-> JCore(ty, j.core), dirty |-> j.dirty]

\* observable value from a core
CoreVal(ty, c) ==
  CASE ty = "gcounter"  -> SumMap(c.s)
    [] ty = "pncounter" -> SumMap(c.p) - SumMap(c.m)
    [] ty = "flag"      -> c.en
    [] ty = "lww"       -> c.v
    [] ty = "mvreg"     -> {x.v : x \in c.e}
    [] ty = "orset"     -> {x \in DOMAIN c.e : c.e[x] # {}}
    [] ty = "ormap"     -> [k \in {x \in DOMAIN c.e : c.e[x] # {}} \cap DOMAIN c.v |-> SumMap(c.v[k])]

\* core of the initial value (a replica that does not know the key exposes nothing)
NewCore(ty) ==
  CASE ty = "gcounter"  -> [s |-> EmptyMap]
    [] ty = "pncounter" -> [p |-> EmptyMap, m |-> EmptyMap]
    [] ty = "flag"      -> [en |-> FALSE]
    [] ty = "lww"       -> [v |-> "", ts |-> 0, n |-> ""]
    [] ty = "mvreg"     -> [e |-> {}, clock |-> EmptyMap]
    [] ty = "orset"     -> [e |-> EmptyMap, clock |-> EmptyMap]
    [] ty = "ormap"     -> [e |-> EmptyMap, clock |-> EmptyMap, v |-> EmptyMap]

\* "merging never shrinks the information already present": what a holds is still in a|b, in the order of
\* information of the type (counts and clocks grow; an enabled flag stays enabled; the register does not go
\* back; a dot of a survives unless b has seen it and does not have it any more, i.e. b removed it)
MapLeq(m1, m2) == \A n \in DOMAIN m1 : m1[n] <= Get0(m2, n)
DotsKept(ea, eb, cb, eab) ==
  \A x \in DOMAIN ea : \A d \in ea[x] : d \in GetS(eab, x) \/ (d.c <= Get0(cb, d.n) /\ d \notin GetS(eb, x))
Grows(ty, a, b, ab) ==
  CASE ty = "gcounter"  -> MapLeq(a.s, ab.s)
    [] ty = "pncounter" -> MapLeq(a.p, ab.p) /\ MapLeq(a.m, ab.m)
    [] ty = "flag"      -> a.en => ab.en
    [] ty = "lww"       -> ab.ts > a.ts \/ (ab.ts = a.ts /\ Rank(ab.n) >= Rank(a.n))
    [] ty = "mvreg"     -> /\ MapLeq(a.clock, ab.clock)
                           /\ \A d \in a.e : d \in ab.e \/ (d.c <= Get0(b.clock, d.n) /\ ~\E y \in b.e : y.n = d.n /\ y.c = d.c)
    [] ty = "orset"     -> MapLeq(a.clock, ab.clock) /\ DotsKept(a.e, b.e, b.clock, ab.e)
    [] ty = "ormap"     -> /\ MapLeq(a.clock, ab.clock) /\ DotsKept(a.e, b.e, b.clock, ab.e)
                           /\ \A k \in (DOMAIN a.v) \cap (DOMAIN ab.v) : MapLeq(a.v[k], ab.v[k])
=============================================================================
