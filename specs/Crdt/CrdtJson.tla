----------------------------- MODULE CrdtJson -----------------------------
(* Recorded Abs(real) (JSON written by harness/cmd/crdt) -> the abstract states of    *)
(* CrdtTypes.tla: JSON arrays of dots / entries become sets.                          *)
EXTENDS CrdtBase

\* core of a recorded value
JCore(ty, j) ==
  CASE ty = "gcounter"  -> [s |-> j.s]
    [] ty = "pncounter" -> [p |-> j.p, m |-> j.m]
    [] ty = "flag"      -> [en |-> j.en]
    [] ty = "lww"       -> [v |-> j.v, ts |-> j.ts, n |-> j.n]
    [] ty = "mvreg"     -> [e |-> Range(j.e), clock |-> j.clock]
    [] ty = "orset"     -> [e |-> [x \in DOMAIN j.e |-> Range(j.e[x])], clock |-> j.clock]
    [] ty = "ormap"     -> [e |-> [x \in DOMAIN j.e |-> Range(j.e[x])], clock |-> j.clock, v |-> j.v]

JIsAbsent(j) == "absent" \in DOMAIN j
JIsNil(j) == "nil" \in DOMAIN j
\* [core, dirty] of a recorded value (absent / nil stay as they are)
JAbs(ty, j) == IF JIsAbsent(j) \/ JIsNil(j) THEN j ELSE [core |-> JCore(ty, j.core), dirty |-> j.dirty]

\* observable value from a core
CoreVal(ty, c) ==
  CASE ty = "gcounter"  -> SumMap(c.s)
    [] ty = "pncounter" -> SumMap(c.p) - SumMap(c.m)
    [] ty = "flag"      -> c.en
    [] ty = "lww"       -> c.v
    [] ty = "mvreg"     -> {x.v : x \in c.e}
    [] ty = "orset"     -> {x \in DOMAIN c.e : c.e[x] # {}}
    [] ty = "ormap"     -> [k \in {x \in DOMAIN c.e : c.e[x] # {}} \cap DOMAIN c.v |-> SumMap(c.v[k])]

\* core of the initial value (a replica that does not know the key exposes nothing)
NewCore(ty) ==
  CASE ty = "gcounter"  -> [s |-> EmptyMap]
    [] ty = "pncounter" -> [p |-> EmptyMap, m |-> EmptyMap]
    [] ty = "flag"      -> [en |-> FALSE]
    [] ty = "lww"       -> [v |-> "", ts |-> 0, n |-> ""]
    [] ty = "mvreg"     -> [e |-> {}, clock |-> EmptyMap]
    [] ty = "orset"     -> [e |-> EmptyMap, clock |-> EmptyMap]
    [] ty = "ormap"     -> [e |-> EmptyMap, clock |-> EmptyMap, v |-> EmptyMap]
=============================================================================
