SPECIFICATION HSpec
CONSTANTS
  NodeSeq <- R2
  Keys = {"k"}
  Defects = {}
  MaxUpd = 2
  MaxDel = 1
  Depth = 5
CONSTRAINT Emit
