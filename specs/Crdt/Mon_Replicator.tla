---- MODULE Mon_Replicator ----
(* C41 monitor on recorded executions of REAL replicator actors.  It knows only which   *)
(* replica holds the tombstone of which key: the replica executed Delete for it, or was  *)
(* handed a tombstone message (as published by the real code) of another replica.  No    *)
(* tombstone expires during a run (TTL one hour).  After every step, the public Get of   *)
(* such a key on such a replica must return no value, whatever updates, deltas, digests  *)
(* and full states arrived in between.  Failures: <<"MISMATCH", line, replica, key>>.    *)
EXTENDS Integers, Sequences, FiniteSets, TLC, Json
Nodes == {"n1", "n2", "n3"}
Trace == ndJsonDeserialize("trace.ndjson")
VARIABLES l, has, msgs      \* has[r]: keys whose tombstone r holds; msgs: id -> [t, k, from] of published messages
Range(f) == {f[i] : i \in DOMAIN f}

Learn(e) == LET new == {p \in Range(e.pub) : p.id # 0}
            IN [id \in (DOMAIN msgs) \cup {p.id : p \in new} |->
                  IF \E p \in new : p.id = id THEN CHOOSE p \in new : p.id = id ELSE msgs[id]]

Judge(e) == \A r \in Nodes : \A k \in has'[r] :
              IF k \notin DOMAIN e.vals[r] THEN TRUE ELSE PrintT(<<"MISMATCH", l, r, k>>)

Step ==
  /\ l <= Len(Trace)
  /\ l' = l + 1
  /\ LET e == Trace[l] IN
     CASE e.a = "New" -> has' = [r \in Nodes |-> {}] /\ msgs' = <<>>
       [] e.a = "Abort" -> UNCHANGED <<has, msgs>>
       [] e.a = "Delete" -> has' = [has EXCEPT ![e.r] = @ \cup {e.k}] /\ msgs' = Learn(e) /\ Judge(e)
       [] e.a = "RecvTomb" ->
            /\ has' = IF e.id \in DOMAIN msgs /\ msgs[e.id].t = "tomb" /\ msgs[e.id].from # e.r
                      THEN [has EXCEPT ![e.r] = @ \cup {msgs[e.id].k}] ELSE has
            /\ msgs' = Learn(e) /\ Judge(e)
       [] OTHER -> UNCHANGED has /\ msgs' = Learn(e) /\ Judge(e)
Init == l = 1 /\ has = [r \in Nodes |-> {}] /\ msgs = <<>>
Spec == Init /\ [][Step]_<<l, has, msgs>>
====
