---- MODULE MC_Replicator ----
EXTENDS Replicator
CONSTANTS MaxUpd, MaxDel, MaxRecv
R2 == <<"n1", "n2">>
R3 == <<"n1", "n2", "n3">>
Bound == cnt.u <= MaxUpd /\ cnt.d <= MaxDel /\ cnt.r <= MaxRecv
View == <<store, tomb, vers, known, net, nmsg, cnt>>
====
