SPECIFICATION SSpec
CONSTANTS
  NodeSeq <- R3
  Keys = {"k", "j"}
  Defects = {}
  MaxUpd = 4
  MaxDel = 2
  Depth = 12
CONSTRAINT Emit
