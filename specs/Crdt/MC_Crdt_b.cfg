SPECIFICATION Spec
CONSTANTS
  NodeSeq <- N2
  Elems = {"x", "y"}
  Defects = {}
  Types = {"orset", "ormap", "mvreg"}
  Amounts = {1}
  MaxTs = 2
  MaxBatch = 2
  MaxUpd = 1
  MaxDeliver = 2
  MaxMerge = 1
  MaxCompact = 0
CONSTRAINT Bound
VIEW View
INVARIANTS Laws Growing Convergence
