SPECIFICATION Spec
CONSTANTS
  NodeSeq <- N3
  Elems = {"x", "y"}
  Defects = {}
  Types = {"gcounter", "pncounter", "flag", "lww", "mvreg", "orset", "ormap"}
  Amounts = {1}
  MaxTs = 2
  MaxBatch = 1
  MaxUpd = 2
  MaxDeliver = 2
  MaxMerge = 1
  MaxCompact = 1
CONSTRAINT Bound
VIEW View
INVARIANTS Laws Growing Convergence
