------------------------------- MODULE Crdt -------------------------------
(* Replication of ONE CRDT key of type `ty` between replicas (one per node), shaped  *)
(* like actor/replicator.go:                                                         *)
(*   Update(r, ops)   handleUpdate: Apply on the current (or initial) value, Delta(),*)
(*                    ResetDelta(), store, publish the delta                          *)
(*   Deliver(r, m)    handleDelta: store the delta when the key is unknown, else      *)
(*                    current.Merge(delta); any published delta, any time, any number *)
(*                    of times (reordering + duplication)                             *)
(*   FullMerge(r, q)  handleFullState: q's full state decoded, stored or merged       *)
(*   CompactR(r)      handlePrune: CompactData() of Compactable types                 *)
(* Everything that crosses the wire goes through the codec (Wire).                   *)
(* Properties: C38 (Laws) on every jointly reachable triple of states, C39           *)
(* (ConvSame, ConvAll, Oracle).                                                       *)
EXTENDS CrdtTypes, CrdtOracle

CONSTANTS Types,      \* CRDT types explored (subset of AllTypes)
          Amounts,    \* counter increments
          MaxTs,      \* LWW timestamps 1..MaxTs (strictly increasing per node)
          MaxBatch    \* mutator calls per update (1 or 2)

VARIABLES ty,         \* the type of the key (fixed by Init)
          st,         \* [Nodes -> state | Absent]
          net,        \* published deltas: set of [id, from, d]
          lts,        \* last LWW timestamp used by each node
          g,          \* ghost: who has received which update (CrdtOracle)
          cnt,        \* number of deliveries / merges / compactions (for bounding)
          last        \* the step just taken (output only)

vars == <<ty, st, net, lts, g, cnt, last>>

Absent == [absent |-> TRUE]
IsAbsent(s) == "absent" \in DOMAIN s
Cur(s, t) == IF IsAbsent(s) THEN New(t) ELSE s

\* what the codec preserves: value + causal metadata; delta trackers are not sent; decodeFlag rebuilds an
\* enabled flag with Enable(), which leaves it dirty
Wire(t, s) == IF t = "flag" THEN [en |-> s.en, dirty |-> s.en] ELSE Reset(t, s)

Op(k, x, n) == [k |-> k, x |-> x, n |-> n]
OpSet(t, r) ==
  CASE t = "gcounter"  -> {Op("inc", "", a) : a \in Amounts}
    [] t = "pncounter" -> {Op(k, "", a) : k \in {"inc", "dec"}, a \in Amounts}
    [] t = "flag"      -> {Op("enable", "", 0), Op("nop", "", 0)}     \* nop: a modify function that returns its argument
    [] t = "lww"       -> {Op("set", v, ts) : v \in Elems, ts \in (lts[r] + 1)..MaxTs}
    [] t = "mvreg"     -> {Op("set", v, 0) : v \in Elems}
    [] t = "orset"     -> {Op(k, x, 0) : k \in {"add", "rem"}, x \in Elems}
    [] t = "ormap"     -> {Op(k, x, 0) : k \in {"put", "rem"}, x \in Elems}
Batches(t, r) == {<<o>> : o \in OpSet(t, r)}
                 \cup (IF MaxBatch >= 2 /\ t # "lww" THEN {<<o1, o2>> : o1 \in OpSet(t, r), o2 \in OpSet(t, r)} ELSE {})

Init == /\ ty \in Types
        /\ st = [r \in Nodes |-> Absent]
        /\ net = {}
        /\ lts = [r \in Nodes |-> 0]
        /\ g = GInit
        /\ cnt = [d |-> 0, m |-> 0, c |-> 0]
        /\ last = [a |-> "Init", r |-> "", q |-> "", id |-> 0, ops |-> <<>>]

Update(r, ops) ==
  LET upd == ApplyOps(ty, Cur(st[r], ty), r, ops)
      d   == Delta(ty, upd)
      id  == g.n + 1
  IN /\ st' = [st EXCEPT ![r] = Reset(ty, upd)]
     /\ net' = IF IsNil(d) THEN net ELSE net \cup {[id |-> id, from |-> r, d |-> d]}
     /\ lts' = IF ty = "lww" THEN [lts EXCEPT ![r] = ops[Len(ops)].n] ELSE lts
     /\ g' = GUpdate(g, ty, r, ops)
     /\ last' = [a |-> "Update", r |-> r, q |-> "", id |-> id, ops |-> ops]
     /\ UNCHANGED <<ty, cnt>>

Deliver(r, m) ==
  /\ m.from # r
  /\ st' = [st EXCEPT ![r] = IF IsAbsent(@) THEN Wire(ty, m.d) ELSE Merge(ty, @, Wire(ty, m.d))]
  /\ g' = GDeliver(g, r, m.id)
  /\ cnt' = [cnt EXCEPT !.d = @ + 1]
  /\ last' = [a |-> "Deliver", r |-> r, q |-> m.from, id |-> m.id, ops |-> <<>>]
  /\ UNCHANGED <<ty, net, lts>>

FullMerge(r, q) ==
  /\ q # r /\ ~IsAbsent(st[q])
  /\ st' = [st EXCEPT ![r] = IF IsAbsent(@) THEN Wire(ty, st[q]) ELSE Merge(ty, @, Wire(ty, st[q]))]
  /\ g' = GMerge(g, r, q)
  /\ cnt' = [cnt EXCEPT !.m = @ + 1]
  /\ last' = [a |-> "Merge", r |-> r, q |-> q, id |-> 0, ops |-> <<>>]
  /\ UNCHANGED <<ty, net, lts>>

CompactR(r) ==
  /\ Compactable(ty) /\ ~IsAbsent(st[r])
  /\ st' = [st EXCEPT ![r] = Compact(ty, @)]
  /\ cnt' = [cnt EXCEPT !.c = @ + 1]
  /\ last' = [a |-> "Compact", r |-> r, q |-> "", id |-> 0, ops |-> <<>>]
  /\ UNCHANGED <<ty, net, lts, g>>

UpdateAny  == \E r \in Nodes : \E ops \in Batches(ty, r) : Update(r, ops)
DeliverAny == \E r \in Nodes : \E m \in net : Deliver(r, m)
MergeAny   == \E r, q \in Nodes : FullMerge(r, q)
CompactAny == \E r \in Nodes : CompactR(r)
Next == UpdateAny \/ DeliverAny \/ MergeAny \/ CompactAny

Spec == Init /\ [][Next]_vars

\* ---- C38: merge is a join ----------------------------------------------------------------------
\* operands: the replica states and the published deltas as they arrive (all are arguments of Merge)
Pool == {st[r] : r \in {x \in Nodes : ~IsAbsent(st[x])}} \cup {Wire(ty, m.d) : m \in net}
M(a, b) == Merge(ty, a, b)
V(a) == Val(ty, a)
C(a) == Core(ty, a)
Commutative == \A a, b \in Pool : C(M(a, b)) = C(M(b, a))
Associative == \A a, b, c \in Pool : C(M(M(a, b), c)) = C(M(a, M(b, c)))
Idempotent  == \A a \in Pool : C(M(a, a)) = C(a)
Absorbing   == \A a, b \in Pool : C(M(M(a, b), a)) = C(M(a, b)) /\ C(M(a, M(a, b))) = C(M(a, b))   \* a <= a |_| b
Laws == Commutative /\ Associative /\ Idempotent /\ Absorbing

\* ---- C39: replicas that have received the same updates expose the same value ---------------------
CoreOf(r) == Core(ty, Cur(st[r], ty))
ValOf(r) == Val(ty, Cur(st[r], ty))
RECURSIVE JoinSet(_)
JoinSet(S) == IF S = {} THEN New(ty) ELSE LET a == CHOOSE a \in S : TRUE IN Merge(ty, a, JoinSet(S \ {a}))
JoinAll == JoinSet({st[r] : r \in {x \in Nodes : ~IsAbsent(st[x])}})
ConvSame == \A r1, r2 \in Nodes : g.smin[r1] = g.smin[r2] => ValOf(r1) = ValOf(r2)
ConvAll  == \A r \in Nodes : g.smin[r] = 1..g.n => ValOf(r) = Val(ty, JoinAll)
Oracle   == \A r \in Nodes : OracleVerdict(g, ty, r, CoreOf(r)) = ""
Convergence == ConvSame /\ ConvAll /\ Oracle
=============================================================================
