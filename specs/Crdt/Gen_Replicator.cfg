SPECIFICATION HSpec
CONSTANTS
  NodeSeq <- R2
  Keys = {"k"}
  Defects = {}
  MaxUpd = 2
  MaxDel = 1
  Depth = 4
CONSTRAINT Emit
