---- MODULE MC_Crdt ----
EXTENDS Crdt
N2 == <<"n1", "n2">>
N3 == <<"n1", "n2", "n3">>
CONSTANTS MaxUpd, MaxDeliver, MaxMerge, MaxCompact
Bound == g.n <= MaxUpd /\ cnt.d <= MaxDeliver /\ cnt.m <= MaxMerge /\ cnt.c <= MaxCompact
View == <<ty, st, net, lts, g, cnt>>
====
