---- MODULE MC_Crdt ----
EXTENDS Crdt, CrdtJson
N2 == <<"n1", "n2">>
N3 == <<"n1", "n2", "n3">>
CONSTANTS MaxUpd, MaxDeliver, MaxMerge, MaxCompact
Bound == g.n <= MaxUpd /\ cnt.d <= MaxDeliver /\ cnt.m <= MaxMerge /\ cnt.c <= MaxCompact
\* C38 "merging never shrinks information", in the information order of each type (CrdtJson.Grows)
Growing == \A a, b \in Pool : Grows(ty, C(a), C(b), C(M(a, b))) /\ Grows(ty, C(b), C(a), C(M(a, b)))
View == <<ty, st, net, lts, g, cnt>>
====
