SPECIFICATION TSpec
CONSTANTS
  NodeSeq <- N3
  Elems = {"x", "y"}
  Defects = {"LWWSetOverwrites", "ORMapValueDrop"}
  Types = {"gcounter", "pncounter", "flag", "lww", "mvreg", "orset", "ormap"}
  Amounts = {1, 2}
  MaxTs = 9
  MaxBatch = 2
CHECK_DEADLOCK FALSE
