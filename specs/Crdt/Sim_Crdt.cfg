SPECIFICATION SSpec
CONSTANTS
  NodeSeq <- N3
  Elems = {"x", "y"}
  Defects = {}
  Types = {"gcounter", "pncounter", "flag", "lww", "mvreg", "orset", "ormap"}
  Amounts = {1, 2}
  MaxTs = 4
  MaxBatch = 2
  MaxUpd = 5
  Depth = 9
CONSTRAINT Emit
