SPECIFICATION Spec
CONSTANTS
  NodeSeq <- N3
  Elems = {"x", "y"}
  Defects = {"LWWSetOverwrites", "ORMapValueDrop"}
  Types = {"lww", "ormap"}
  Amounts = {1}
  MaxTs = 2
  MaxBatch = 1
  MaxUpd = 3
  MaxDeliver = 2
  MaxMerge = 1
  MaxCompact = 0
CONSTRAINT Bound
VIEW View
INVARIANTS Laws Growing Convergence
