SPECIFICATION Spec
CONSTANTS
  NodeSeq <- NS
  Elems = {"x", "y"}
CHECK_DEADLOCK FALSE
