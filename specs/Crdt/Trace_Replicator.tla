---- MODULE Trace_Replicator ----
(* Conformance of recorded executions of REAL replicator actors with Replicator.tla:   *)
(* after every step the projected store (GCounter states), tombstones, versions and     *)
(* known key types of every replica, and the kind / key / origin of every message the   *)
(* real replicator published, must be what the model says.  Rejection = drift.          *)
EXTENDS Replicator, Json
R3 == <<"n1", "n2", "n3">>
Trace == ndJsonDeserialize("trace.ndjson")
VARIABLE l
Range(f) == {f[i] : i \in DOMAIN f}

Matches(e) ==
  /\ \A r \in Nodes :
       /\ store'[r] = e.view[r].store
       /\ tomb'[r] = Range(e.view[r].tomb)
       /\ vers'[r] = e.view[r].vers
       /\ known'[r] = Range(e.view[r].known)
  \* exactly the messages the model publishes in this step were published by the real code
  /\ {[id |-> p.id, t |-> p.t, k |-> p.k, from |-> p.from] : p \in Range(e.pub)}
       = {[id |-> m.id, t |-> m.t, k |-> m.k, from |-> m.from] : m \in net' \ net}

TNew == /\ store' = [r \in Nodes |-> EmptyMap] /\ tomb' = [r \in Nodes |-> {}] /\ vers' = [r \in Nodes |-> EmptyMap]
        /\ known' = [r \in Nodes |-> {}] /\ net' = {} /\ nmsg' = 0 /\ cnt' = [u |-> 0, d |-> 0, r |-> 0]
        /\ last' = Step("Init", "", "", "", 0, 0)

TStep ==
  /\ l <= Len(Trace)
  /\ l' = l + 1
  /\ LET e == Trace[l] IN
     \/ e.a = "New" /\ TNew
     \/ e.a = "Update" /\ Update(e.r, e.k) /\ Matches(e)
     \/ e.a = "Delete" /\ Delete(e.r, e.k) /\ Matches(e)
     \/ e.a = "RecvDelta" /\ (\E m \in net : m.id = e.id /\ RecvDelta(e.r, m)) /\ Matches(e)
     \/ e.a = "RecvTomb" /\ (\E m \in net : m.id = e.id /\ RecvTomb(e.r, m)) /\ Matches(e)
     \/ e.a = "SendDigest" /\ SendDigest(e.r, e.q) /\ Matches(e)
     \/ e.a = "RecvDigest" /\ (\E m \in net : m.id = e.id /\ RecvDigest(e.r, m)) /\ Matches(e)
     \/ e.a = "RecvFull" /\ (\E m \in net : m.id = e.id /\ RecvFull(e.r, m)) /\ Matches(e)
     \/ e.a = "Prune" /\ Prune(e.r) /\ Matches(e)
TInit == Init /\ l = 1
TSpec == TInit /\ [][TStep]_<<vars, l>>
====
