---- MODULE Trace_Crdt ----
(* Conformance: the recorded execution of the real CRDTs + codec must be, step by     *)
(* step, the behaviour of the transcription (Crdt.tla with the Defects of the cfg):   *)
(* the same abstract state (value, dots, clocks, counters, timestamps, dirty bit) at  *)
(* every replica after every step, and the same delta emitted by every update.        *)
(* A rejection (TLC stops before the last line) is conformance drift, not a verdict.  *)
EXTENDS Crdt, CrdtJson, Json
N3 == <<"n1", "n2", "n3">>
Trace == ndJsonDeserialize("trace.ndjson")
VARIABLE l

AbsR(s) == IF IsAbsent(s) THEN s ELSE AbsOf(ty', s)
Matches(e) == /\ \A r \in Nodes : AbsR(st'[r]) = JAbs(ty', e.st[r])
              /\ e.a = "Update" =>
                   LET d == Delta(ty, ApplyOps(ty, Cur(st[e.r], ty), e.r, e.ops))
                   IN IF IsNil(d) THEN JIsNil(e.delta) ELSE ~JIsNil(e.delta) /\ AbsOf(ty, d) = JAbs(ty, e.delta)

TNew(e) == /\ ty' = e.ty
           /\ st' = [r \in Nodes |-> Absent]
           /\ net' = {}
           /\ lts' = [r \in Nodes |-> 0]
           /\ g' = GInit
           /\ cnt' = [d |-> 0, m |-> 0, c |-> 0]
           /\ last' = [a |-> "Init", r |-> "", q |-> "", id |-> 0, ops |-> <<>>]

TStep ==
  /\ l <= Len(Trace)
  /\ l' = l + 1
  /\ LET e == Trace[l] IN
     \/ e.a = "New" /\ TNew(e)
     \/ e.a = "Update" /\ Update(e.r, e.ops) /\ last'.id = e.id /\ Matches(e)
     \/ e.a = "Deliver" /\ (\E m \in net : m.id = e.id /\ Deliver(e.r, m)) /\ Matches(e)
     \/ e.a = "Merge" /\ FullMerge(e.r, e.q) /\ Matches(e)
     \/ e.a = "Compact" /\ CompactR(e.r) /\ Matches(e)
TInit == Init /\ l = 1
TSpec == TInit /\ [][TStep]_<<vars, l>>
====
