---- MODULE Mon_CrdtCodec ----
(* C40 monitor on codec.ndjson (real EncodeCRDT -> protobuf bytes -> DecodeCRDT):      *)
(*   value  decode(encode(x)) has the value AND the causal metadata of x               *)
(*   merge  decode(encode(x)) | b = x | b  and  b | decode(encode(x)) = b | x          *)
(*   key    EncodeCRDTKey / DecodeCRDTKey round-trips id and data type                 *)
(* Failures are printed as <<"MISMATCH", line, type, kind, flavour>>.                  *)
EXTENDS CrdtJson, Json
NS == <<"n1", "n2", "n3">>
Trace == ndJsonDeserialize("trace.ndjson")
VARIABLE l

Rep(ok, e, kind) == IF ok THEN TRUE ELSE PrintT(<<"MISMATCH", l, e.ty, kind, IF "fl" \in DOMAIN e THEN e.fl ELSE "">>)
Same(e, f1, f2) == JCore(e.ty, e[f1].core) = JCore(e.ty, e[f2].core)

Check(e) ==
  CASE e.rec = "value" -> Rep(e.err = "" /\ ~JIsAbsent(e.y) /\ Same(e, "x", "y"), e, "value")
    [] e.rec = "merge" -> Rep(Same(e, "xb", "yb") /\ Same(e, "bx", "by"), e, "merge")
    [] e.rec = "key"   -> Rep(e.err = "" /\ e.id2 = e.id /\ e.dt2 = e.dt, e, "key")

Init == l = 1
Step == l <= Len(Trace) /\ l' = l + 1 /\ Check(Trace[l])
Spec == Init /\ [][Step]_l
====
