---- MODULE Gen_Crdt ----
(* Behaviour generator: carries the step history of Crdt.tla and prints it as JSON   *)
(* when a walk reaches Depth (BFS: every history of that length; -simulate: random   *)
(* walks).  The printed histories are executed on the real CRDTs by harness/cmd/crdt.*)
EXTENDS Crdt, Json
CONSTANTS Depth, MaxUpd
N2 == <<"n1", "n2">>
N3 == <<"n1", "n2", "n3">>
VARIABLE hist
HInit == Init /\ hist = <<>>
HNext == Next /\ hist' = Append(hist, last')
HSpec == HInit /\ [][HNext]_<<vars, hist>>
\* random walks (-simulate): choose the kind of step first, so that deliveries and merges interleave with
\* updates although there are many more different updates than deliveries
SNext == /\ LET present == \E r \in Nodes : ~IsAbsent(st[r])
                kinds == (IF g.n < MaxUpd THEN 1..4 ELSE {}) \cup (IF net # {} THEN 5..7 ELSE {})
                         \cup (IF present THEN 8..9 ELSE {}) \cup (IF present /\ Compactable(ty) THEN {10} ELSE {})
            IN \E k \in {RandomElement(kinds)} :          \* evaluated once per step
               \/ k \in 1..4 /\ UpdateAny
               \/ k \in 5..7 /\ DeliverAny
               \/ k \in 8..9 /\ MergeAny
               \/ k = 10 /\ CompactAny
         /\ hist' = Append(hist, last')
SSpec == HInit /\ [][SNext]_<<vars, hist>>
\* an update that changes nothing and publishes nothing is pruned after the first few steps (keeps histories dense)
Emit == /\ g.n <= MaxUpd
        /\ (Len(hist) < Depth) \/ (PrintT(<<"BEHAVIOUR", ToJson([ty |-> ty, h |-> hist])>>) /\ FALSE)
====
