---- MODULE Gen_Replicator ----
(* Behaviour generator for Replicator.tla (see Gen_Crdt): step histories printed as JSON, *)
(* executed on real replicator actors by harness/cmd/crdt (subcommand replicator).         *)
EXTENDS Replicator, Json
CONSTANTS Depth, MaxUpd, MaxDel
R2 == <<"n1", "n2">>
R3 == <<"n1", "n2", "n3">>
VARIABLE hist
HInit == Init /\ hist = <<>>
HNext == Next /\ hist' = Append(hist, last')
HSpec == HInit /\ [][HNext]_<<vars, hist>>
\* random walks: choose the kind of step first
SNext == /\ LET kinds == (IF cnt.u < MaxUpd THEN 1..3 ELSE {}) \cup (IF cnt.d < MaxDel THEN {4} ELSE {})
                         \cup (IF net # {} THEN 5..9 ELSE {}) \cup {10, 11}
            IN \E c \in {RandomElement(kinds)} :
               \/ c \in 1..3 /\ \E r \in Nodes, k \in Keys : Update(r, k)
               \/ c = 4 /\ \E r \in Nodes, k \in Keys : Delete(r, k)
               \/ c \in 5..9 /\ \E r \in Nodes, m \in net : RecvDelta(r, m) \/ RecvTomb(r, m) \/ RecvDigest(r, m) \/ RecvFull(r, m)
               \/ c = 10 /\ \E r, q \in Nodes : SendDigest(r, q)
               \/ c = 11 /\ \E r \in Nodes : Prune(r)
         /\ hist' = Append(hist, last')
SSpec == HInit /\ [][SNext]_<<vars, hist>>
Emit == /\ cnt.u <= MaxUpd /\ cnt.d <= MaxDel
        /\ (Len(hist) < Depth) \/ (PrintT(<<"BEHAVIOUR", ToJson([h |-> hist])>>) /\ FALSE)
====
