SPECIFICATION Spec
CONSTANTS
  NMsgs = 4
  MaxOps = 2
  Buffers = {TRUE, FALSE}
  Kinds = {"unbounded"}
  MaxLog = 7
CONSTRAINT Bound
VIEW View
INVARIANTS NoDuplication NoLoss DeliveredOnlyReleased StashInOrder ReleaseOrder SendOrder
PROPERTIES UnstashOldest NoBufferReports UnstashAllMovesAll
