SPECIFICATION GSpec
CONSTANTS
  NMsgs = 6
  MaxOps = 3
  Buffers = {TRUE, FALSE}
  Depth = 22
CONSTRAINT Emit
