SPECIFICATION GSpec
CONSTANTS
  NMsgs = 6
  MaxOps = 3
  Buffers = {TRUE, FALSE}
  Kinds = {"unbounded", "bounded", "ring", "prio", "segmented"}
  Depth = 22
CONSTRAINT Emit
