SPECIFICATION Spec
CONSTANTS
  Defects = {}
CHECK_DEADLOCK FALSE
