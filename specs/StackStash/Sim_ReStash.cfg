SPECIFICATION GSpec
CONSTANTS
  NMsgs = 8
  MaxReq = 4
  MaxOps = 2
  Depth = 24
CONSTRAINT Emit
