SPECIFICATION Spec
CONSTANTS
  NMsgs = 4
  MaxReq = 2
  MaxOps = 2
VIEW View
CHECK_DEADLOCK FALSE
INVARIANTS NoLossNoDup StashInOrder ReleaseOrder ReleasedWhenUnblocked BlockingCount
PROPERTIES Exclusive
