SPECIFICATION Spec
CONSTANTS
  Behaviors = {"A", "B"}
  MaxOps = 2
  MaxRestarts = 1
  Defects = {}
  MaxDepth = 4
CONSTRAINT Bound
VIEW View
INVARIANTS Refines WellFormed TypeOK
PROPERTIES HandlerIsIdealTop FinishesUnderStarter RestartRestoresDefault
