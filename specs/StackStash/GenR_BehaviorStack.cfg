SPECIFICATION GSpec
CONSTANTS
  Behaviors = {"A", "B"}
  MaxOps = 2
  MaxRestarts = 1
  Defects = {}
  Depth = 5
CONSTRAINT Emit
