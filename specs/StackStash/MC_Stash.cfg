SPECIFICATION Spec
CONSTANTS
  NMsgs = 3
  MaxOps = 2
  Buffers = {TRUE, FALSE}
  Kinds = {"unbounded"}
  MaxLog = 4
CONSTRAINT Bound
VIEW View
INVARIANTS NoDuplication NoLoss DeliveredOnlyReleased StashInOrder ReleaseOrder SendOrder
PROPERTIES UnstashOldest NoBufferReports UnstashAllMovesAll
