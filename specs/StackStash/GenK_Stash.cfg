SPECIFICATION GSpec
CONSTANTS
  NMsgs = 3
  MaxOps = 2
  Buffers = {TRUE}
  Kinds = {"bounded", "ring", "prio"}
  Depth = 7
CONSTRAINT Emit
