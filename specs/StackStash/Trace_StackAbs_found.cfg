SPECIFICATION Spec
CONSTANTS
  Defects = {"UnBecomePushes"}
CHECK_DEADLOCK FALSE
