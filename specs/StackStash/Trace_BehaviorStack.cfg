SPECIFICATION TSpec
CONSTANTS
  Behaviors = {"A", "B", "C"}
  MaxOps = 8
  MaxRestarts = 99
  Defects = {}
CHECK_DEADLOCK FALSE
INVARIANTS Refines WellFormed
