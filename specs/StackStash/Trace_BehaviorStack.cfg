SPECIFICATION TSpec
CONSTANTS
  Behaviors = {"A", "B", "C"}
  MaxOps = 8
  Defects = {}
CHECK_DEADLOCK FALSE
INVARIANTS Refines WellFormed
