---- MODULE Trace_BehaviorStack ----
(* Conformance for C14: the recorded execution must be a behaviour of the            *)
(* transcription BehaviorStack, step by step, including the projected internal stack *)
(* (linked nodes, top first) and the separate length counter.  A rejection (TLC      *)
(* stops before the last line) is conformance drift, not a property verdict.         *)
EXTENDS BehaviorStack, Json
Trace == ndJsonDeserialize("trace.ndjson")
VARIABLE l
Matches(e) == stack' = e.stk /\ len' = e.len /\ last'.h = e.h
TNew == /\ stack' = <<Default>> /\ len' = 1 /\ ideal' = <<Default>> /\ cur' = "none" /\ nops' = 0 /\ nres' = 0
        /\ last' = [op |-> "Init", b |-> "", h |-> "none"]
TStep ==
  /\ l <= Len(Trace)
  /\ l' = l + 1
  /\ LET e == Trace[l] IN
     \/ e.op = "New" /\ TNew /\ stack' = e.stk /\ len' = e.len
     \/ e.op = "Send" /\ UNCHANGED vars /\ stack = e.stk /\ len = e.len
     \/ e.op = "Deliver" /\ Deliver /\ Matches(e)
     \/ e.op = "Become" /\ Become(e.b) /\ Matches(e)
     \/ e.op = "BecomeStacked" /\ BecomeStacked(e.b) /\ Matches(e)
     \/ e.op = "UnBecomeStacked" /\ UnBecomeStacked /\ Matches(e)
     \/ e.op = "UnBecome" /\ UnBecome /\ Matches(e)
     \/ e.op = "Restart" /\ Restart /\ Matches(e)
     \/ e.op = "Crash" /\ Crash /\ Matches(e)
TInit == Init /\ l = 1
TSpec == TInit /\ [][TStep]_<<vars, l>>
====
