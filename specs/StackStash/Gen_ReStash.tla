---- MODULE Gen_ReStash ----
(* Behaviour generator for the reentrancy-driven stash (see Gen_BehaviorStack). *)
EXTENDS ReStash, Json
CONSTANTS Depth
VARIABLE hist
GInit == Init /\ hist = <<>>
GNext == Next /\ hist' = Append(hist, last')
GSpec == GInit /\ [][GNext]_<<vars, hist>>
Emit == (Len(hist) < Depth) \/ (PrintT(<<"BEHAVIOUR", ToJson(hist)>>) /\ FALSE)
====
