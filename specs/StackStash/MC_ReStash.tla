---- MODULE MC_ReStash ----
EXTENDS ReStash
View == core
====
