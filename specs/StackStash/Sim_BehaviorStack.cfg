SPECIFICATION GSpec
CONSTANTS
  Behaviors = {"A", "B", "C"}
  MaxOps = 3
  MaxRestarts = 1
  Defects = {}
  Depth = 18
CONSTRAINT Emit
