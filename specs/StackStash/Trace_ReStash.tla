---- MODULE Trace_ReStash ----
(* Conformance for the reentrancy-driven stash: the recorded execution must be a     *)
(* behaviour of the transcription ReStash, step by step, including the projected     *)
(* content of the real mailbox (responses as -rq) and stash mailbox and the real     *)
(* blockingCount.  A rejection is conformance drift, not a property verdict.         *)
EXTENDS ReStash, Json
Trace == ndJsonDeserialize("trace.ndjson")
VARIABLE l
Item(x) == IF x.k = "r" THEN 0 - x.id ELSE x.id
Ids(s) == [i \in 1..Len(s) |-> Item(s[i])]
Matches(e) == /\ Ids(mbox') = e.mbox /\ Ids(stash') = e.stash /\ blocking' = e.blocking
              /\ cur'.id = e.cur /\ done' = e.done
TNew == /\ mbox' = <<>> /\ stash' = <<>> /\ blocking' = 0 /\ cur' = None /\ nops' = 0 /\ sent' = 0 /\ nreq' = 0
        /\ open' = {} /\ ntag' = 0 /\ dlog' = <<>> /\ done' = <<>>
        /\ last' = [op |-> "Init", id |-> 0]
TStep ==
  /\ l <= Len(Trace)
  /\ l' = l + 1
  /\ LET e == Trace[l] IN
     \/ e.op = "New" /\ TNew
     \/ e.op = "Send" /\ Send /\ last'.id = e.id /\ Matches(e)
     \/ e.op = "Request" /\ Request /\ last'.id = e.id /\ e.err = "" /\ Matches(e)
     \/ e.op = "Respond" /\ Respond(e.id) /\ Matches(e)
     \/ e.op = "Finish" /\ Finish /\ last'.id = e.id /\ Matches(e)
     \/ e.op = "Reply" /\ UNCHANGED vars
TInit == Init /\ l = 1
TSpec == TInit /\ [][TStep]_<<vars, l>>
====
