------------------------------ MODULE ReStash ------------------------------
(* C13, second mechanism using the stash: reentrancy mode StashNonReentrant.        *)
(* Transcription of the turn of actor/pid.go: dispatchOne (enableReentrancyStash:    *)
(* while a stash-mode request is in flight every user message taken from the         *)
(* mailbox is cloned into the stash box instead of being handled), handleAsyncResponse*)
(* -> completeRequest -> deregisterRequestState (blockingCount--, and unstashAll     *)
(* when it reaches 0: the stashed messages re-enter at the tail of the mailbox),     *)
(* registerRequestState (blockingCount++ when the handler calls Request).            *)
(* The runtime is eager: after every external step it runs until a handler is        *)
(* invoked (`cur`) or the mailbox is empty, so every state of this model is a        *)
(* settled one - exactly the states a driver can observe.                            *)
(* Mailbox items: user message [k |-> "m", id, tag] or response [k |-> "r", id = rq].*)
EXTENDS Integers, Sequences, FiniteSets, TLC

CONSTANTS NMsgs,     \* user messages sent (ids 1..NMsgs in this order)
          MaxReq,    \* stash-mode requests issued in one behaviour
          MaxOps     \* requests per handled message

VARIABLES mbox, stash, blocking, cur, nops, sent, nreq, open, ntag, dlog, done, last

vars == <<mbox, stash, blocking, cur, nops, sent, nreq, open, ntag, dlog, done, last>>
core == <<mbox, stash, blocking, cur, nops, sent, nreq, open, ntag, dlog, done>>

None == [k |-> "m", id |-> 0, tag |-> 0]
Msg(id, tag) == [k |-> "m", id |-> id, tag |-> tag]
Rsp(rq)      == [k |-> "r", id |-> rq, tag |-> 0]

\* ---- runTurn until a handler is invoked or the mailbox is empty --------------------
\* s = [mbox, stash, blocking, cur, ntag, dlog, done]
RECURSIVE Settle(_)
Settle(s) ==
  IF s.cur # None \/ s.mbox = <<>> THEN s
  ELSE LET h == Head(s.mbox) rest == Tail(s.mbox) IN
    IF h.k = "r"
    THEN \* handleAsyncResponse: complete the request; last blocking one => unstashAll
         LET b == s.blocking - 1 IN
         Settle([s EXCEPT !.mbox = IF b = 0 THEN rest \o s.stash ELSE rest,
                          !.stash = IF b = 0 THEN <<>> ELSE s.stash,
                          !.blocking = b,
                          !.done = Append(s.done, h.id)])
    ELSE IF s.blocking > 0
    THEN \* dispatchOne: enableReentrancyStash => pid.stash(received)
         Settle([s EXCEPT !.mbox = rest,
                          !.stash = Append(s.stash, Msg(h.id, s.ntag + 1)),
                          !.ntag = s.ntag + 1])
    ELSE \* handleReceived: the behavior is invoked
         [s EXCEPT !.mbox = rest, !.cur = h, !.dlog = Append(s.dlog, h)]

Pack == [mbox |-> mbox, stash |-> stash, blocking |-> blocking, cur |-> cur, ntag |-> ntag, dlog |-> dlog, done |-> done]
Unpack(s) == /\ mbox' = s.mbox /\ stash' = s.stash /\ blocking' = s.blocking /\ cur' = s.cur
             /\ ntag' = s.ntag /\ dlog' = s.dlog /\ done' = s.done

Init == /\ mbox = <<>> /\ stash = <<>> /\ blocking = 0 /\ cur = None /\ nops = 0 /\ sent = 0 /\ nreq = 0
        /\ open = {} /\ ntag = 0 /\ dlog = <<>> /\ done = <<>>
        /\ last = [op |-> "Init", id |-> 0]

\* ---- the sender tells the next message
Send ==
  /\ sent < NMsgs
  /\ sent' = sent + 1
  /\ Unpack(Settle([Pack EXCEPT !.mbox = Append(mbox, Msg(sent + 1, 0))]))
  /\ nops' = IF cur = None THEN 0 ELSE nops
  /\ last' = [op |-> "Send", id |-> sent + 1]
  /\ UNCHANGED <<nreq, open>>

\* ---- the current handler calls ctx.Request(responder, .., StashNonReentrant)
Request ==
  /\ cur # None /\ nops < MaxOps /\ nreq < MaxReq
  /\ nreq' = nreq + 1 /\ nops' = nops + 1
  /\ open' = open \cup {nreq + 1}
  /\ blocking' = blocking + 1                       \* registerRequestState
  /\ last' = [op |-> "Request", id |-> nreq + 1]
  /\ UNCHANGED <<mbox, stash, cur, sent, ntag, dlog, done>>

\* ---- responder rq answers: the AsyncResponse is told to the requester (mailbox tail)
Respond(rq) ==
  /\ rq \in open
  /\ open' = open \ {rq}
  /\ Unpack(Settle([Pack EXCEPT !.mbox = Append(mbox, Rsp(rq))]))
  /\ nops' = IF cur = None THEN 0 ELSE nops
  /\ last' = [op |-> "Respond", id |-> rq]
  /\ UNCHANGED <<sent, nreq>>

\* ---- the current handler returns
Finish ==
  /\ cur # None
  /\ Unpack(Settle([Pack EXCEPT !.cur = None]))
  /\ nops' = 0
  /\ last' = [op |-> "Finish", id |-> cur.id]
  /\ UNCHANGED <<sent, nreq, open>>

Next == Send \/ Request \/ Finish \/ \E rq \in open : Respond(rq)
Spec == Init /\ [][Next]_vars

\* ---- properties ---------------------------------------------------------------
Copies(s, id, tag) == Cardinality({i \in 1..Len(s) : s[i].k = "m" /\ s[i].id = id /\ s[i].tag = tag})
\* every message is, at any time, in exactly one place in exactly one copy
\* (original still queued, or one stash clone queued / stashed, or handled once)
Total(id) == LET U == (0..ntag) IN
   Cardinality({t \in U : Copies(mbox, id, t) + Copies(stash, id, t) > 0})
Handled(id) == Cardinality({i \in 1..Len(dlog) : dlog[i].id = id})
NoLossNoDup == \A id \in 1..sent :
   /\ Handled(id) <= 1
   /\ \A t \in 0..ntag : Copies(mbox, id, t) + Copies(stash, id, t) <= 1
   /\ Handled(id) + Total(id) = 1
\* stash mode: no user message starts being handled while a stash-mode request is in flight
Exclusive == [][(cur' # cur /\ cur' # None) => blocking' = 0]_vars
\* the stash keeps stash order (oldest clone first), and what one completion releases is
\* handled in that order.  NOTE: arrival order is NOT an invariant of this mechanism: a
\* message sent after the response was enqueued overtakes the stashed ones, because
\* unstashAll re-enters them at the mailbox TAIL (TLC counterexample with 4 messages;
\* see docs/stackstash.md, "observations")
StashInOrder == \A i, j \in 1..Len(stash) : i < j => stash[i].tag < stash[j].tag
ReleaseOrder == \A i, j \in 1..Len(dlog) : (i < j /\ dlog[i].tag # 0 /\ dlog[j].tag # 0) => dlog[i].tag < dlog[j].tag
\* everything stashed is released when the last blocking request completes
ReleasedWhenUnblocked == blocking = 0 => stash = <<>>
\* the blocking counter is the number of requests whose response has not been processed
BlockingCount == blocking = Cardinality(open) + Cardinality({i \in 1..Len(mbox) : mbox[i].k = "r"})
=============================================================================
