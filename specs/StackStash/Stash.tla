------------------------------- MODULE Stash -------------------------------
(* C13 - stashed messages are neither lost, duplicated nor reordered.              *)
(* Transcription of actor/stash.go (stash / unstash / unstashAll: clone into the   *)
(* stash mailbox, dequeue the oldest, re-enter through doReceive = tail of the     *)
(* main mailbox) together with the main-mailbox turn of actor/pid.go (doReceive    *)
(* enqueues at the tail, runTurn dequeues the head and calls the handler).         *)
(* One sender; the handler of the current message `cur` performs up to MaxOps      *)
(* stash calls.  Every copy of a message that enters a queue carries a unique      *)
(* `tag` (0 = the original send, k = created by the k-th successful Stash call)    *)
(* and the number `rel` of the Unstash/UnstashAll call that released it, so that   *)
(* loss / duplication / order can be stated on the delivery log `dlog` without     *)
(* referring to how the queues are implemented.                                    *)
EXTENDS Integers, Sequences, FiniteSets, TLC

CONSTANTS NMsgs,     \* messages the sender sends (ids 1..NMsgs, in this order)
          MaxOps,    \* stash calls per handled message
          Buffers,   \* subset of BOOLEAN: actor spawned WithStashing() or not
          Kinds      \* main-mailbox implementations the actor is spawned with ("unbounded" = default
                     \* intrusive UnboundedMailbox; "bounded", "ring" = NonBlockingBoundedMailbox, "prio" =
                     \* UnboundedStablePriorityMailbox with a constant priority, "segmented"): all FIFO for one
                     \* sender, so the kind changes no transition - it is a dimension of the replay, because
                     \* the non-intrusive mailboxes RECYCLE the previously dequeued context on the next
                     \* Dequeue, which is only safe because stash() enqueues a clone

VARIABLES mbox,      \* main mailbox: Seq([id, tag, rel])
          stash,     \* stash mailbox: Seq([id, tag, rel])
          buffer,    \* stashState # nil
          kind,      \* mailbox implementation (never changes)
          cur,       \* entry being handled, or None
          nops,      \* stash calls made by the current handler
          held,      \* the current handler has already stashed its message (a message is stashed at most once per delivery)
          sent,      \* number of messages sent so far
          ntag,      \* successful Stash calls so far
          nrel,      \* Unstash/UnstashAll calls so far
          dlog,      \* ghost: entries in delivery order
          last       \* output only: last step and its observable result

vars == <<mbox, stash, buffer, kind, cur, nops, held, sent, ntag, nrel, dlog, last>>
core == <<mbox, stash, buffer, kind, cur, nops, held, sent, ntag, nrel, dlog>>

None == [id |-> 0, tag |-> 0, rel |-> 0]
Out(op, id, err) == [op |-> op, id |-> id, err |-> err, buffer |-> buffer, kind |-> kind]

Init == /\ mbox = <<>> /\ stash = <<>>
        /\ buffer \in Buffers
        /\ kind \in Kinds /\ (~buffer => kind = "unbounded")   \* without a stash buffer the kind is irrelevant
        /\ cur = None /\ nops = 0 /\ held = FALSE /\ sent = 0 /\ ntag = 0 /\ nrel = 0
        /\ dlog = <<>>
        /\ last = [op |-> "Init", id |-> 0, err |-> "", buffer |-> buffer, kind |-> kind]

\* ---- Tell/doReceive by the sender: enqueue at the tail of the main mailbox
Send ==
  /\ sent < NMsgs
  /\ sent' = sent + 1
  /\ mbox' = Append(mbox, [id |-> sent + 1, tag |-> 0, rel |-> 0])
  /\ last' = Out("Send", sent + 1, "")
  /\ UNCHANGED <<stash, buffer, kind, cur, nops, held, ntag, nrel, dlog>>

\* ---- runTurn: the previous handler has returned; dequeue the head, call the handler
Deliver ==
  /\ mbox # <<>>
  /\ cur' = Head(mbox)
  /\ mbox' = Tail(mbox)
  /\ nops' = 0 /\ held' = FALSE
  /\ dlog' = Append(dlog, Head(mbox))
  /\ last' = Out("Deliver", Head(mbox).id, "")
  /\ UNCHANGED <<stash, buffer, kind, sent, ntag, nrel>>

InHandler == cur # None /\ nops < MaxOps

\* ---- ReceiveContext.Stash -> pid.stash(ctx): enqueue a clone into the stash box
StashOp ==
  /\ InHandler /\ ~held
  /\ nops' = nops + 1 /\ held' = buffer
  /\ IF ~buffer
     THEN /\ last' = Out("Stash", cur.id, "nobuffer")         \* ErrStashBufferNotSet recorded
          /\ UNCHANGED <<stash, ntag>>
     ELSE /\ stash' = Append(stash, [id |-> cur.id, tag |-> ntag + 1, rel |-> 0])
          /\ ntag' = ntag + 1
          /\ last' = Out("Stash", cur.id, "")
  /\ UNCHANGED <<mbox, buffer, kind, cur, sent, nrel, dlog>>

\* ---- ReceiveContext.Unstash -> pid.unstash(): oldest entry re-enters the mailbox
UnstashOp ==
  /\ InHandler
  /\ nops' = nops + 1
  /\ IF ~buffer
     THEN /\ last' = Out("Unstash", 0, "nobuffer")
          /\ UNCHANGED <<stash, mbox, nrel>>
     ELSE IF stash = <<>>
     THEN /\ last' = Out("Unstash", 0, "empty")               \* "stash buffer may be closed"
          /\ UNCHANGED <<stash, mbox, nrel>>
     ELSE /\ stash' = Tail(stash)
          /\ mbox' = Append(mbox, [Head(stash) EXCEPT !.rel = nrel + 1])
          /\ nrel' = nrel + 1
          /\ last' = Out("Unstash", Head(stash).id, "")
  /\ UNCHANGED <<buffer, kind, cur, held, sent, ntag, dlog>>

\* ---- ReceiveContext.UnstashAll -> pid.unstashAll(): for !IsEmpty { Dequeue; doReceive(clone) }
UnstashAllOp ==
  /\ InHandler
  /\ nops' = nops + 1
  /\ IF ~buffer
     THEN /\ last' = Out("UnstashAll", 0, "nobuffer")
          /\ UNCHANGED <<stash, mbox, nrel>>
     ELSE /\ stash' = <<>>
          /\ mbox' = mbox \o [i \in 1..Len(stash) |-> [stash[i] EXCEPT !.rel = nrel + 1]]
          /\ nrel' = nrel + 1
          /\ last' = Out("UnstashAll", Len(stash), "")
  /\ UNCHANGED <<buffer, kind, cur, held, sent, ntag, dlog>>

Next == Send \/ Deliver \/ StashOp \/ UnstashOp \/ UnstashAllOp

Spec == Init /\ [][Next]_vars

\* ---- properties ---------------------------------------------------------------
Range(s)  == {s[i] : i \in 1..Len(s)}
Copies(s, id, tag) == Cardinality({i \in 1..Len(s) : s[i].id = id /\ s[i].tag = tag})

\* no duplication: no copy (original or stash clone) is ever delivered twice
NoDuplication == \A i, j \in 1..Len(dlog) : i # j => <<dlog[i].id, dlog[i].tag>> # <<dlog[j].id, dlog[j].tag>>

\* no loss: every copy that exists is in exactly one place (mailbox, stash, or already delivered)
\* originals: 1..sent ; clones: tags 1..ntag
CopyAccounted(id, tag) == Copies(mbox, id, tag) + Copies(stash, id, tag) + Copies(dlog, id, tag) = 1
NoLoss == /\ \A id \in 1..sent : CopyAccounted(id, 0)
          /\ \A t \in 1..ntag : \E id \in 1..sent : CopyAccounted(id, t)
                                  /\ \A id2 \in 1..sent : id2 # id =>
                                        Copies(mbox, id2, t) + Copies(stash, id2, t) + Copies(dlog, id2, t) = 0

\* a stashed copy is delivered only after it has been released by an unstash call
DeliveredOnlyReleased == \A i \in 1..Len(dlog) : dlog[i].tag # 0 => dlog[i].rel # 0

\* no reordering (1): the stash is in stash-call order, so Unstash releases the oldest
StashInOrder == \A i, j \in 1..Len(stash) : i < j => stash[i].tag < stash[j].tag
UnstashOldest == [][(last'.op = "Unstash" /\ last'.err = "") =>
                      /\ stash # <<>>
                      /\ \A i \in 1..Len(stash) : Head(stash).tag <= stash[i].tag
                      /\ stash' = Tail(stash)]_vars
\* no reordering (2): copies released by one UnstashAll are delivered in stash order, and
\* copies released by an earlier call are delivered before those released by a later one
ReleaseOrder == \A i, j \in 1..Len(dlog) :
                   (i < j /\ dlog[i].rel # 0 /\ dlog[j].rel # 0) =>
                      /\ dlog[i].rel <= dlog[j].rel
                      /\ (dlog[i].rel = dlog[j].rel => dlog[i].tag < dlog[j].tag)
\* originals are delivered in send order
SendOrder == \A i, j \in 1..Len(dlog) : (i < j /\ dlog[i].tag = 0 /\ dlog[j].tag = 0) => dlog[i].id < dlog[j].id

\* without a stash buffer nothing is ever stashed and every stash call reports the error
NoBufferReports == [][(~buffer /\ last'.op \in {"Stash", "Unstash", "UnstashAll"}) =>
                        (last'.err = "nobuffer" /\ stash' = <<>> /\ mbox' = mbox)]_vars
\* UnstashAll empties the stash and appends exactly its content
UnstashAllMovesAll == [][(last'.op = "UnstashAll" /\ last'.err = "") =>
                        (stash' = <<>> /\ Len(mbox') = Len(mbox) + Len(stash))]_vars
=============================================================================
