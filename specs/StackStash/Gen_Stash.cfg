SPECIFICATION GSpec
CONSTANTS
  NMsgs = 3
  MaxOps = 2
  Buffers = {TRUE, FALSE}
  Kinds = {"unbounded"}
  Depth = 8
CONSTRAINT Emit
