SPECIFICATION GSpec
CONSTANTS
  NMsgs = 3
  MaxOps = 2
  Buffers = {TRUE, FALSE}
  Depth = 8
CONSTRAINT Emit
