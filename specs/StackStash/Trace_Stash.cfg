SPECIFICATION TSpec
CONSTANTS
  NMsgs = 64
  MaxOps = 8
  Buffers = {TRUE, FALSE}
  Kinds = {"unbounded", "bounded", "ring", "prio", "segmented"}
CHECK_DEADLOCK FALSE
INVARIANTS NoDuplication NoLoss DeliveredOnlyReleased StashInOrder ReleaseOrder SendOrder
