---- MODULE Trace_Stash ----
(* Conformance for C13: the recorded execution must be a behaviour of the            *)
(* transcription Stash, step by step, including the projected content of the real    *)
(* main mailbox and stash mailbox (message ids, oldest first).  A rejection is       *)
(* conformance drift, not a property verdict.                                        *)
EXTENDS Stash, Json
Trace == ndJsonDeserialize("trace.ndjson")
VARIABLE l
Ids(s) == [i \in 1..Len(s) |-> s[i].id]
\* the content of the main mailbox can be projected only for the intrusive UnboundedMailbox; for the
\* other kinds the trace carries its length ("mlen") instead
Matches(e) == /\ IF "mbox" \in DOMAIN e THEN Ids(mbox') = e.mbox ELSE Len(mbox') = e.mlen
              /\ Ids(stash') = e.stash /\ buffer' = e.hasbuf
TNew(e) == /\ mbox' = <<>> /\ stash' = <<>> /\ buffer' = e.buffer /\ kind' = e.kind
           /\ cur' = None /\ nops' = 0 /\ held' = FALSE /\ sent' = 0 /\ ntag' = 0 /\ nrel' = 0 /\ dlog' = <<>>
           /\ last' = [op |-> "Init", id |-> 0, err |-> "", buffer |-> e.buffer, kind |-> e.kind]
TStep ==
  /\ l <= Len(Trace)
  /\ l' = l + 1
  /\ LET e == Trace[l] IN
     \/ e.op = "New" /\ TNew(e) /\ Matches(e)
     \/ e.op = "Send" /\ Send /\ last'.id = e.id /\ Matches(e)
     \/ e.op = "Deliver" /\ e.id # 0 /\ Deliver /\ last'.id = e.id /\ Matches(e)
     \/ e.op = "Deliver" /\ e.id = 0 /\ mbox = <<>> /\ cur' = None /\ nops' = 0 /\ held' = FALSE
           /\ UNCHANGED <<mbox, stash, buffer, kind, sent, ntag, nrel, dlog, last>>
     \/ e.op = "Stash" /\ StashOp /\ last'.err = e.err /\ Matches(e)
     \/ e.op = "Unstash" /\ UnstashOp /\ last'.err = e.err /\ Matches(e)
     \/ e.op = "UnstashAll" /\ UnstashAllOp /\ last'.err = e.err /\ Matches(e)
     \/ e.op = "Reply" /\ UNCHANGED vars
TInit == Init /\ l = 1
TSpec == TInit /\ [][TStep]_<<vars, l>>
====
