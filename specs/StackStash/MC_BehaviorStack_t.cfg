SPECIFICATION Spec
CONSTANTS
  Behaviors = {"A", "B", "C"}
  MaxOps = 3
  MaxRestarts = 2
  Defects = {}
  MaxDepth = 7
CONSTRAINT Bound
VIEW View
INVARIANTS Refines WellFormed TypeOK
PROPERTIES HandlerIsIdealTop FinishesUnderStarter RestartRestoresDefault
