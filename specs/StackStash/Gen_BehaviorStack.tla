---- MODULE Gen_BehaviorStack ----
(* Behaviour generator for C14: carries the history of steps and prints it as JSON   *)
(* when a walk reaches Depth (BFS: every history of that length; -simulate: random). *)
EXTENDS BehaviorStack, Json
CONSTANTS Depth
VARIABLE hist
GInit == Init /\ hist = <<>>
GNext == Next /\ hist' = Append(hist, last')
GSpec == GInit /\ [][GNext]_<<vars, hist>>
Emit == (Len(hist) < Depth) \/ (PrintT(<<"BEHAVIOUR", ToJson(hist)>>) /\ FALSE)
====
