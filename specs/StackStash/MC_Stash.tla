---- MODULE MC_Stash ----
EXTENDS Stash
CONSTANTS MaxLog
Bound == Len(dlog) <= MaxLog
View == core
====
