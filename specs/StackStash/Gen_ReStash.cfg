SPECIFICATION GSpec
CONSTANTS
  NMsgs = 4
  MaxReq = 2
  MaxOps = 2
  Depth = 9
CONSTRAINT Emit
