SPECIFICATION GSpec
CONSTANTS
  NMsgs = 4
  MaxReq = 2
  MaxOps = 2
  Depth = 8
CONSTRAINT Emit
