--------------------------- MODULE BehaviorStack ---------------------------
(* C14 - behavior switching follows stack semantics.                               *)
(* Transcription of actor/behavior_stack.go (Push / Pop / Peek / Reset and the     *)
(* separate length counter) and of the four PID helpers in actor/pid.go            *)
(* (setBehavior, resetBehavior, setBehaviorStacked, unsetBehaviorStacked) together *)
(* with the dispatch step handleReceived (Peek, nil => the message is dropped),    *)
(* next to the DOCUMENTED stack `ideal` (receive_context.go / docs/actor/          *)
(* behaviors.mdx): Become replaces everything by one behavior, BecomeStacked       *)
(* pushes, UnBecomeStacked pops, UnBecome "resets to the default behavior,         *)
(* clearing any stacked or currently swapped behavior".                            *)
(* A message is handled by one call of the behavior that was on top when it was    *)
(* dispatched (`cur`); the ops of the handler change the stack, never `cur`.       *)
(* Stacks are sequences with the top FIRST.  "D" is the default behavior           *)
(* (Actor.Receive); "none" means no handler ran (empty stack => message dropped).  *)
EXTENDS Integers, Sequences, FiniteSets, TLC

CONSTANTS Behaviors,  \* extra behaviors, e.g. {"A","B"}
          MaxOps,     \* max number of switch calls made while handling one message
          MaxRestarts,\* how often the actor may be restarted (PID.Restart from outside, or panic + Restart directive); 0 = never
          Defects     \* {} = repaired design; "UnBecomePushes" = resetBehavior only pushes Receive

VARIABLES stack,      \* implementation: linked nodes, top first
          len,        \* implementation: behaviorStack.length
          ideal,      \* documented stack, top first
          cur,        \* behavior handling the current message ("none": nothing is being handled)
          nops,       \* switch calls made so far by the current handler
          nres,       \* restarts so far
          last        \* output only: last step and what was observable

vars == <<stack, len, ideal, cur, nops, nres, last>>
core == <<stack, len, ideal, cur, nops, nres>>

Default == "D"
All     == Behaviors \cup {Default}
Top(s)  == IF s = <<>> THEN "none" ELSE Head(s)

Init == /\ stack = <<Default>>          \* newPID: newBehaviorStack(); Push(actor.Receive)
        /\ len = 1
        /\ ideal = <<Default>>
        /\ cur = "none"
        /\ nops = 0 /\ nres = 0
        /\ last = [op |-> "Init", b |-> "", h |-> "none"]

\* ---- behavior_stack.go --------------------------------------------------------
Push(s, b) == <<b>> \o s
Pop(s)     == IF s = <<>> THEN s ELSE Tail(s)
PopLen(s, n) == IF s = <<>> THEN n ELSE n - 1

\* ---- handleReceived: the previous handler (if any) has returned; Peek picks the
\* behavior for the next message; nil => dropped without any handler
Deliver ==
  /\ cur' = Top(stack)
  /\ nops' = 0
  /\ last' = [op |-> "Deliver", b |-> "", h |-> Top(stack)]
  /\ UNCHANGED <<stack, len, ideal, nres>>

\* ---- PID.Restart called from outside between two messages (restartSubtree): the running
\* actor is shut down (reset(): behaviorStack.Reset()), then resetBehavior(), init(), PostStart;
\* a restarted actor starts again with its default behavior only
Restart ==
  /\ nres < MaxRestarts
  /\ nres' = nres + 1
  /\ stack' = <<Default>> /\ len' = 1       \* Reset() in reset(), then Push(actor.Receive) (with either resetBehavior)
  /\ ideal' = <<Default>>
  /\ cur' = "none" /\ nops' = 0
  /\ last' = [op |-> "Restart", b |-> "", h |-> "none"]

\* ---- the behavior handling the current message panics; the supervisor's directive is Restart:
\* recovery -> notifyParent suspends the actor and tells the parent, handlePanicking ->
\* handleRestartDirective -> restartChild -> Restart -> restartSubtree.  The actor is SUSPENDED,
\* not running, so restartSubtree skips the embedded Shutdown (no reset(), the stack is NOT
\* cleared there): only resetBehavior() stands between the pre-failure behaviors and the
\* restarted actor
Crash ==
  /\ cur # "none"
  /\ nres < MaxRestarts
  /\ nres' = nres + 1
  /\ IF "UnBecomePushes" \in Defects
     THEN stack' = Push(stack, Default) /\ len' = len + 1     \* the code as found
     ELSE stack' = <<Default>> /\ len' = 1                    \* resetBehavior: Reset(); Push(actor.Receive)
  /\ ideal' = <<Default>>
  /\ cur' = "none" /\ nops' = 0
  /\ last' = [op |-> "Crash", b |-> "", h |-> cur]

InHandler == cur # "none" /\ nops < MaxOps

\* ---- setBehavior: Reset(); Push(b)
Become(b) ==
  /\ InHandler
  /\ stack' = <<b>> /\ len' = 1
  /\ ideal' = <<b>>
  /\ nops' = nops + 1
  /\ last' = [op |-> "Become", b |-> b, h |-> cur]
  /\ UNCHANGED <<cur, nres>>

\* ---- setBehaviorStacked: Push(b)
BecomeStacked(b) ==
  /\ InHandler
  /\ stack' = Push(stack, b) /\ len' = len + 1
  /\ ideal' = Push(ideal, b)
  /\ nops' = nops + 1
  /\ last' = [op |-> "BecomeStacked", b |-> b, h |-> cur]
  /\ UNCHANGED <<cur, nres>>

\* ---- unsetBehaviorStacked: Pop()
UnBecomeStacked ==
  /\ InHandler
  /\ stack' = Pop(stack) /\ len' = PopLen(stack, len)
  /\ ideal' = Pop(ideal)
  /\ nops' = nops + 1
  /\ last' = [op |-> "UnBecomeStacked", b |-> "", h |-> cur]
  /\ UNCHANGED <<cur, nres>>

\* ---- resetBehavior
UnBecome ==
  /\ InHandler
  /\ IF "UnBecomePushes" \in Defects
     THEN stack' = Push(stack, Default) /\ len' = len + 1     \* the code as found: Push(actor.Receive)
     ELSE stack' = <<Default>> /\ len' = 1                    \* repaired: Reset(); Push(actor.Receive)
  /\ ideal' = <<Default>>
  /\ nops' = nops + 1
  /\ last' = [op |-> "UnBecome", b |-> "", h |-> cur]
  /\ UNCHANGED <<cur, nres>>

Next == \/ Deliver
        \/ \E b \in Behaviors : Become(b) \/ BecomeStacked(b)
        \/ UnBecomeStacked
        \/ UnBecome
        \/ Restart
        \/ Crash

Spec == Init /\ [][Next]_vars

\* ---- properties ---------------------------------------------------------------
\* C14: the handler of every message is the one the documented stack predicts
HandlerIsIdealTop == [][last'.op = "Deliver" => last'.h = Top(ideal)]_vars
\* stronger, state-based: the implementation stack IS the documented stack
Refines == stack = ideal
\* the message being handled finishes under the behavior that started it
FinishesUnderStarter == [][last'.op \notin {"Deliver", "Restart"} => (last'.h = cur /\ (last'.op # "Crash" => cur' = cur))]_vars
\* a restarted actor (explicit Restart, or restarted by its supervisor after a panic) handles its
\* next message with the default behavior and has nothing else on its stack
RestartRestoresDefault == [][last'.op \in {"Restart", "Crash"} => stack' = <<Default>>]_vars
\* the separate length counter is the number of linked nodes
WellFormed == len = Len(stack)
\* the default behavior is never lost while something is stacked on it ... unless popped explicitly
TypeOK == /\ stack \in Seq(All) /\ ideal \in Seq(All) /\ cur \in All \cup {"none"} /\ nops \in 0..MaxOps
=============================================================================
