SPECIFICATION Spec
CONSTANTS
  Behaviors = {"A", "B"}
  MaxOps = 2
  MaxRestarts = 0
  Defects = {"UnBecomePushes"}
  MaxDepth = 4
CONSTRAINT Bound
VIEW View
PROPERTIES HandlerIsIdealTop
