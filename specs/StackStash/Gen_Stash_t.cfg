SPECIFICATION GSpec
CONSTANTS
  NMsgs = 4
  MaxOps = 2
  Buffers = {TRUE, FALSE}
  Kinds = {"unbounded"}
  Depth = 10
CONSTRAINT Emit
