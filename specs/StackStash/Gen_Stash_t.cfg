SPECIFICATION GSpec
CONSTANTS
  NMsgs = 4
  MaxOps = 2
  Buffers = {TRUE, FALSE}
  Depth = 10
CONSTRAINT Emit
