---- MODULE Gen_Stash ----
(* Behaviour generator for C13 (see Gen_BehaviorStack). *)
EXTENDS Stash, Json
CONSTANTS Depth
VARIABLE hist
GInit == Init /\ hist = <<last>>
GNext == Next /\ hist' = Append(hist, last')
GSpec == GInit /\ [][GNext]_<<vars, hist>>
Emit == (Len(hist) <= Depth) \/ (PrintT(<<"BEHAVIOUR", ToJson(hist)>>) /\ FALSE)
====
