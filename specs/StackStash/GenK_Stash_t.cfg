SPECIFICATION GSpec
CONSTANTS
  NMsgs = 3
  MaxOps = 2
  Buffers = {TRUE}
  Kinds = {"bounded", "ring", "prio", "segmented"}
  Depth = 9
CONSTRAINT Emit
