---- MODULE Trace_StashAbs ----
(* Property monitor for C13 on recorded executions of a REAL goakt actor.  It knows  *)
(* only the contract: the mailbox is FIFO for the single sender; Stash keeps a copy  *)
(* of the current message aside, in stash order; Unstash puts the oldest stashed     *)
(* message back into the mailbox, UnstashAll all of them in stash order; each copy   *)
(* is delivered exactly once after its release and never before; without a stash     *)
(* buffer the three calls record ErrStashBufferNotSet and change nothing.  It        *)
(* predicts the id of every delivery ("0" = nothing is delivered: the actor is idle  *)
(* with an empty mailbox), the public StashSize after every step, the recorded       *)
(* error of every call, that a re-delivered message is the very object that was sent *)
(* with its sender, and that an Ask-delivered message can still be answered after    *)
(* having been stashed.  Every line is consumed; deviations are printed as           *)
(* <<"MISMATCH", line, kind, expected, observed>>.                                   *)
EXTENDS Integers, Sequences, TLC, Json
Trace == ndJsonDeserialize("trace.ndjson")
VARIABLES l, mbox, stash, buffer, cur
Report(kind, exp, got) == IF exp = got THEN TRUE ELSE PrintT(<<"MISMATCH", l, kind, exp, got>>)
\* the driver sends message id by Tell (1 mod 3), Ask (2 mod 3) or Tell from actor "S" (0 mod 3)
SenderOf(id) == IF id % 3 = 0 THEN "S" ELSE "nosender"
Init == l = 1 /\ mbox = <<>> /\ stash = <<>> /\ buffer = FALSE /\ cur = 0
Step ==
  /\ l <= Len(Trace)
  /\ l' = l + 1
  /\ LET e == Trace[l] IN
     CASE e.op = "New" -> mbox' = <<>> /\ stash' = <<>> /\ buffer' = e.buffer /\ cur' = 0
       [] e.op = "Send" -> /\ Report("send", "", e.res)
                           /\ mbox' = Append(mbox, e.id) /\ UNCHANGED <<stash, buffer, cur>>
       [] e.op = "Deliver" ->
            LET exp == IF mbox = <<>> THEN 0 ELSE Head(mbox) IN
            /\ Report("deliver", exp, e.id)
            /\ e.id # 0 => /\ Report("sender", SenderOf(e.id), e.sender)
                           /\ Report("same-object", TRUE, e.ptr)
                           /\ Report("handler", "D", e.h)
            /\ Report("stashsize", Len(stash), e.ssize)
            /\ Report("foreign-payloads", 0, e.foreign)   \* a handler was invoked with a nil / unknown payload
            /\ mbox' = IF mbox = <<>> THEN mbox ELSE Tail(mbox)
            /\ cur' = e.id
            /\ UNCHANGED <<stash, buffer>>
       [] e.op = "Stash" ->
            /\ Report("stash-err", IF buffer THEN "" ELSE "nobuffer", e.err)
            /\ stash' = IF buffer THEN Append(stash, cur) ELSE stash
            /\ Report("stashsize", Len(stash'), e.ssize)
            /\ UNCHANGED <<mbox, buffer, cur>>
       [] e.op = "Unstash" ->
            LET ok == buffer /\ stash # <<>> IN
            /\ Report("unstash-err", IF ~buffer THEN "nobuffer" ELSE IF stash = <<>> THEN "empty" ELSE "", e.err)
            /\ stash' = IF ok THEN Tail(stash) ELSE stash
            /\ mbox' = IF ok THEN Append(mbox, Head(stash)) ELSE mbox
            /\ Report("stashsize", Len(stash'), e.ssize)
            /\ UNCHANGED <<buffer, cur>>
       [] e.op = "UnstashAll" ->
            /\ Report("unstashall-err", IF buffer THEN "" ELSE "nobuffer", e.err)
            /\ stash' = <<>>
            /\ mbox' = mbox \o stash
            /\ Report("stashsize", 0, e.ssize)
            /\ UNCHANGED <<buffer, cur>>
       [] e.op = "Reply" ->
            /\ Report("reply-err", "", e.err)
            /\ e.err = "" => Report("reply-id", e.id, e.rid)
            /\ UNCHANGED <<mbox, stash, buffer, cur>>
       [] e.op = "Corrupt" ->   \* the real mailbox / stash list is cyclic or delivers without end
            /\ Report("queues-intact", TRUE, FALSE)
            /\ UNCHANGED <<mbox, stash, buffer, cur>>
       [] OTHER -> UNCHANGED <<mbox, stash, buffer, cur>>
Spec == Init /\ [][Step]_<<l, mbox, stash, buffer, cur>>
====
