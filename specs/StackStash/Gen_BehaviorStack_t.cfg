SPECIFICATION GSpec
CONSTANTS
  Behaviors = {"A", "B"}
  MaxOps = 2
  MaxRestarts = 0
  Defects = {}
  Depth = 8
CONSTRAINT Emit
