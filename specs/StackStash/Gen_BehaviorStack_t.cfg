SPECIFICATION GSpec
CONSTANTS
  Behaviors = {"A", "B"}
  MaxOps = 2
  Defects = {}
  Depth = 8
CONSTRAINT Emit
