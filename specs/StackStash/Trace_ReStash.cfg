SPECIFICATION TSpec
CONSTANTS
  NMsgs = 64
  MaxReq = 64
  MaxOps = 8
CHECK_DEADLOCK FALSE
INVARIANTS NoLossNoDup StashInOrder ReleaseOrder ReleasedWhenUnblocked BlockingCount
