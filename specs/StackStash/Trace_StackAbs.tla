---- MODULE Trace_StackAbs ----
(* Property monitor for C14 on recorded executions of a REAL goakt actor.  It knows  *)
(* only the documented contract: a stack of behaviors, top first, "D" = the default  *)
(* behavior; Become replaces everything, BecomeStacked pushes, UnBecomeStacked pops, *)
(* UnBecome leaves only the default; a restarted actor (PID.Restart, or its handler   *)
(* panicked and the supervisor's directive is Restart) starts again with the default *)
(* only.  For every message it checks which behavior function the   *)
(* runtime really invoked ("none" = no function was invoked, the message was         *)
(* dropped) and that every switch call was made by that same invocation.             *)
(* Every line is consumed; a deviation is printed as                                 *)
(* <<"MISMATCH", line, kind, expected, observed>>.                                   *)
(* Defects = {} is the documented contract; {"UnBecomePushes"} is the contract of    *)
(* the code as found (used only to classify mismatches, never to excuse them).       *)
EXTENDS Integers, Sequences, TLC, Json
CONSTANTS Defects
Trace == ndJsonDeserialize("trace.ndjson")
VARIABLES l, ideal, cur
Top(s) == IF s = <<>> THEN "none" ELSE Head(s)
Pop(s) == IF s = <<>> THEN s ELSE Tail(s)
Report(kind, exp, got) == IF exp = got THEN TRUE ELSE PrintT(<<"MISMATCH", l, kind, exp, got>>)
Init == l = 1 /\ ideal = <<"D">> /\ cur = "none"
Step ==
  /\ l <= Len(Trace)
  /\ l' = l + 1
  /\ LET e == Trace[l] IN
     CASE e.op = "New"     -> ideal' = <<"D">> /\ cur' = "none"
       [] e.op = "Deliver" -> Report("handler", Top(ideal), e.h) /\ cur' = e.h /\ UNCHANGED ideal
       [] e.op = "Become"  -> Report("executing", cur, e.h) /\ ideal' = <<e.b>> /\ UNCHANGED cur
       [] e.op = "BecomeStacked"   -> Report("executing", cur, e.h) /\ ideal' = <<e.b>> \o ideal /\ UNCHANGED cur
       [] e.op = "UnBecomeStacked" -> Report("executing", cur, e.h) /\ ideal' = Pop(ideal) /\ UNCHANGED cur
       [] e.op = "UnBecome" -> /\ Report("executing", cur, e.h)
                               /\ ideal' = IF "UnBecomePushes" \in Defects THEN <<"D">> \o ideal ELSE <<"D">>
                               /\ UNCHANGED cur
       [] e.op = "Restart" -> /\ Report("restart", "", e.err)
                              /\ ideal' = <<"D">> /\ cur' = "none"     \* a restarted actor starts with its default behavior only
       [] e.op = "Crash"   -> /\ Report("executing", cur, e.h)        \* the handler panicked, the supervisor restarted the actor
                              /\ Report("crash", "", e.err)
                              /\ ideal' = <<"D">> /\ cur' = "none"
       [] OTHER            -> UNCHANGED <<ideal, cur>>
Spec == Init /\ [][Step]_<<l, ideal, cur>>
====
