SPECIFICATION GSpec
CONSTANTS
  NMsgs = 5
  MaxReq = 3
  MaxOps = 2
  Depth = 11
CONSTRAINT Emit
