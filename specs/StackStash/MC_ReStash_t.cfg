SPECIFICATION Spec
CONSTANTS
  NMsgs = 6
  MaxReq = 3
  MaxOps = 2
VIEW View
CHECK_DEADLOCK FALSE
INVARIANTS NoLossNoDup StashInOrder ReleaseOrder ReleasedWhenUnblocked BlockingCount
PROPERTIES Exclusive
