---- MODULE Trace_ReStashAbs ----
(* Property monitor for C13 (reentrancy-driven stash) on recorded executions of a    *)
(* REAL goakt actor spawned with reentrancy mode StashNonReentrant.  Contract: the   *)
(* mailbox is FIFO; while a stash-mode request is in flight no user message is       *)
(* handled: each one taken from the mailbox is put aside in stash order; when the    *)
(* response of the last in-flight request is processed every stashed message         *)
(* re-enters the mailbox (tail) in stash order; nothing is lost or duplicated.       *)
(* After every step it predicts which message (if any) is being handled, the public  *)
(* StashSize and the order in which the request continuations have run.  Queue       *)
(* items are integers: id > 0 = user message, -rq = response to request rq.          *)
EXTENDS Integers, Sequences, TLC, Json
Trace == ndJsonDeserialize("trace.ndjson")
VARIABLES l, mbox, stash, blocking, cur, done
Report(kind, exp, got) == IF exp = got THEN TRUE ELSE PrintT(<<"MISMATCH", l, kind, exp, got>>)
RECURSIVE Settle(_)
Settle(s) ==
  IF s.cur # 0 \/ s.mbox = <<>> THEN s
  ELSE LET h == Head(s.mbox) rest == Tail(s.mbox) IN
    IF h < 0 THEN LET b == s.blocking - 1 IN
         Settle([s EXCEPT !.mbox = IF b = 0 THEN rest \o s.stash ELSE rest,
                          !.stash = IF b = 0 THEN <<>> ELSE s.stash,
                          !.blocking = b, !.done = Append(s.done, -h)])
    ELSE IF s.blocking > 0 THEN Settle([s EXCEPT !.mbox = rest, !.stash = Append(s.stash, h)])
    ELSE [s EXCEPT !.mbox = rest, !.cur = h]
Pack == [mbox |-> mbox, stash |-> stash, blocking |-> blocking, cur |-> cur, done |-> done]
Unpack(s) == mbox' = s.mbox /\ stash' = s.stash /\ blocking' = s.blocking /\ cur' = s.cur /\ done' = s.done
Check(e) == /\ Report("handling", cur', e.cur)
            /\ Report("stashsize", Len(stash'), e.ssize)
            /\ Report("continuations", done', e.done)
            /\ Report("message-intact", TRUE, e.ok)
            /\ e.cur # 0 => Report("handler", "D", e.h)
Init == l = 1 /\ mbox = <<>> /\ stash = <<>> /\ blocking = 0 /\ cur = 0 /\ done = <<>>
Step ==
  /\ l <= Len(Trace)
  /\ l' = l + 1
  /\ LET e == Trace[l] IN
     CASE e.op = "New" -> mbox' = <<>> /\ stash' = <<>> /\ blocking' = 0 /\ cur' = 0 /\ done' = <<>>
       [] e.op = "Send" -> Unpack(Settle([Pack EXCEPT !.mbox = Append(mbox, e.id)])) /\ Check(e)
       [] e.op = "Request" -> /\ Report("request-err", "", e.err)
                              /\ blocking' = blocking + 1 /\ UNCHANGED <<mbox, stash, cur, done>> /\ Check(e)
       [] e.op = "Respond" -> /\ Report("respond-err", "", e.err)
                              /\ Unpack(Settle([Pack EXCEPT !.mbox = Append(mbox, 0 - e.id)])) /\ Check(e)
       [] e.op = "Finish" -> /\ Report("finished", cur, e.id)
                             /\ Unpack(Settle([Pack EXCEPT !.cur = 0])) /\ Check(e)
       [] e.op = "Reply" -> /\ Report("reply-err", "", e.err)
                            /\ e.err = "" => Report("reply-id", e.id, e.rid)
                            /\ UNCHANGED <<mbox, stash, blocking, cur, done>>
       [] e.op = "Corrupt" -> Report("queues-intact", TRUE, FALSE) /\ UNCHANGED <<mbox, stash, blocking, cur, done>>
       [] OTHER -> UNCHANGED <<mbox, stash, blocking, cur, done>>
Spec == Init /\ [][Step]_<<l, mbox, stash, blocking, cur, done>>
====
