---- MODULE MC_BehaviorStack ----
EXTENDS BehaviorStack
CONSTANTS MaxDepth
Bound == Len(stack) <= MaxDepth /\ Len(ideal) <= MaxDepth
View == core
====
