SPECIFICATION GSpec
CONSTANTS
  Behaviors = {"A", "B"}
  MaxOps = 2
  MaxRestarts = 2
  Defects = {}
  Depth = 6
CONSTRAINT Emit
