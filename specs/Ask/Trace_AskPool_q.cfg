SPECIFICATION TSpec
CONSTANTS
  Askers = {"a1", "a2"}
  Tellers = {}
  RankOf <- Rank
  NAsks <- N11
  MaxResp = 1
  MaxCtx = 8
  MaxCh = 4
  Defects = {}
CHECK_DEADLOCK FALSE
INVARIANTS OwnReply InTime PoolClean
