---------------------------- MODULE Trace_AskPool ----------------------------
(* Conformance: the recorded puppet replay on the real actor system must be a         *)
(* behaviour of AskPool.tla step by step, including the projected state of the real    *)
(* pooled objects (context pool, reply-channel pool, responseClosed of every context,  *)
(* buffered replies, the target's mailbox and sentinel, the dead-letter actor's        *)
(* sentinel, the message being handled).  Objects are named in allocation order on     *)
(* both sides.  A rejection (TLC stops before the last line) is conformance drift.     *)
EXTENDS AskPool, Json
Rank == [x \in {"a1", "a2", "a3", "t1", "t2"} |-> CASE x = "a1" -> 1 [] x = "a2" -> 2 [] x = "a3" -> 3 [] x = "t1" -> 1 [] x = "t2" -> 2]
N11  == [x \in {"a1", "a2"} |-> 1]
N21  == [x \in {"a1", "a2"} |-> IF x = "a1" THEN 2 ELSE 1]
N211 == [x \in {"a1", "a2", "a3"} |-> IF x = "a1" THEN 2 ELSE 1]
Trace == ndJsonDeserialize("trace.ndjson")
VARIABLE l

SeqEq(s, t) == Len(s) = Len(t) /\ \A i \in 1..Len(s) : s[i] = t[i]
Matches(e) ==
  /\ SeqEq(ctxPool', e.cpool) /\ SeqEq(chPool', e.hpool)
  /\ nctx' = e.nctx /\ nch' = e.nch
  /\ \A c \in 1..e.nctx : closed'[c] = (e.closed[c] = 1)
  /\ \A r \in 1..e.nch : (chan'[r] # 0) = (e.clen[r] = 1)
  /\ SeqEq(mbox', e.mbox) /\ sentinel' = e.sent /\ dlSentinel' = e.dls
  /\ (IF apc' = "handling" THEN hid' ELSE 0) = e.hid

\* responseClosed of the two pre-existing sentinels is whatever their earlier use left behind (logged in the New line)
TNew(e) ==
  /\ ctxPool' = <<>> /\ chPool' = <<>> /\ nctx' = 2 /\ nch' = 0
  /\ closed' = [c \in Ctxs |-> IF c <= 2 THEN e.closed[c] = 1 ELSE FALSE] /\ cresp' = [c \in Ctxs |-> 0] /\ cmsg' = [c \in Ctxs |-> 0]
  /\ chan' = [r \in Chs |-> 0]
  /\ mbox' = <<>> /\ sentinel' = 1 /\ dlSentinel' = 2
  /\ apc' = "idle" /\ hid' = 0 /\ nresp' = 0 /\ rpc' = "none"
  /\ pc' = [a \in Askers |-> "call"] /\ k' = [a \in Askers |-> 1]
  /\ actx' = [a \in Askers |-> 0] /\ ach' = [a \in Askers |-> 0] /\ res' = [a \in Askers |-> 0]
  /\ tdone' = {} /\ dfired' = {} /\ intime' = {} /\ last' = "init"

TStep ==
  /\ l <= Len(Trace)
  /\ l' = l + 1
  /\ LET e == Trace[l] IN
     IF e.ev = "New" THEN TNew(e)
     ELSE IF e.ev # "step" THEN UNCHANGED vars
     ELSE /\ \/ e.a = "GetCtx" /\ GetCtx(e.t)
             \/ e.a = "Build" /\ Build(e.t)
             \/ e.a = "GetChan" /\ GetChan(e.t)
             \/ e.a = "Enq" /\ Enq(e.t)
             \/ e.a = "Select" /\ Select(e.t)
             \/ e.a = "Deadline" /\ Deadline(e.t)
             \/ e.a = "WokeR" /\ WokeR(e.t)
             \/ e.a = "WokeC" /\ WokeC(e.t)
             \/ e.a = "Drain" /\ Drain(e.t)
             \/ e.a = "Put" /\ Put(e.t)
             \/ e.a = "Ret" /\ Ret(e.t)
             \/ e.a = "TellStep" /\ TellStep(e.t)
             \/ e.a = "RespCall" /\ RespCall
             \/ e.a = "RespSend" /\ RespSend
             \/ e.a = "Finish" /\ Finish
          /\ Matches(e)

TInit == Init /\ l = 1
TSpec == TInit /\ [][TStep]_<<vars, l>>
=============================================================================
