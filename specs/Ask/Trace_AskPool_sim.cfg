SPECIFICATION TSpec
CONSTANTS
  Askers = {"a1", "a2", "a3"}
  Tellers = {"t1"}
  RankOf <- Rank
  NAsks <- N211
  MaxResp = 2
  MaxCtx = 12
  MaxCh = 6
  Defects = {}
CHECK_DEADLOCK FALSE
INVARIANTS OwnReply InTime PoolClean
