---- MODULE Gen_AskPool ----
(* Behaviour generator: carries the (action, thread) history and prints it as JSON   *)
(* when a walk has let every caller finish (-simulate: random complete walks).        *)
EXTENDS AskPool, Json
VARIABLE hist
Rank == [x \in {"a1", "a2", "a3", "t1", "t2"} |-> CASE x = "a1" -> 1 [] x = "a2" -> 2 [] x = "a3" -> 3 [] x = "t1" -> 1 [] x = "t2" -> 2]
N111 == [x \in {"a1", "a2", "a3"} |-> 1]
N21  == [x \in {"a1", "a2"} |-> IF x = "a1" THEN 2 ELSE 1]
N11  == [x \in {"a1", "a2"} |-> 1]
N22  == [x \in {"a1", "a2"} |-> 2]
N211 == [x \in {"a1", "a2", "a3"} |-> IF x = "a1" THEN 2 ELSE 1]
GInit == Init /\ hist = <<>>
Lbl(a, t) == hist' = Append(hist, [a |-> a, t |-> t])
AStep(a) == \/ GetCtx(a) /\ Lbl("GetCtx", a)
            \/ Build(a) /\ Lbl("Build", a)
            \/ GetChan(a) /\ Lbl("GetChan", a)
            \/ Enq(a) /\ Lbl("Enq", a)
            \/ Select(a) /\ Lbl("Select", a)
            \/ Deadline(a) /\ Lbl("Deadline", a)
            \/ WokeR(a) /\ Lbl("WokeR", a)
            \/ WokeC(a) /\ Lbl("WokeC", a)
            \/ Drain(a) /\ Lbl("Drain", a)
            \/ Put(a) /\ Lbl("Put", a)
            \/ Ret(a) /\ Lbl("Ret", a)
GNext == \/ \E a \in Askers : AStep(a)
         \/ \E t \in Tellers : TellStep(t) /\ Lbl("TellStep", t)
         \/ RespCall /\ Lbl("RespCall", "")
         \/ RespSend /\ Lbl("RespSend", "")
         \/ Finish /\ Lbl("Finish", "")
GSpec == GInit /\ [][GNext]_<<vars, hist>>
Emit == ~AllDone \/ (PrintT(<<"BEHAVIOUR", ToJson(hist)>>) /\ FALSE)
====
