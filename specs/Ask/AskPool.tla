------------------------------ MODULE AskPool ------------------------------
(* The synchronous Ask of goakt at verifhook granularity: actor/pid.go PID.Ask,      *)
(* actor/api.go Ask, actor_system.go handleRemoteAsk (same statement sequence),      *)
(* actor/receive_context.go build / Response, actor/pools.go (ReceiveContext pool    *)
(* contextCh, reply-channel pool responseCh, both FIFO channels), and the recycling  *)
(* of the previous mailbox sentinel by UnboundedMailbox.Dequeue.                     *)
(*                                                                                   *)
(* Objects are numbered in allocation order: contexts 1.. (1 = the initial sentinel  *)
(* of the target's mailbox, 2 = the initial sentinel of the dead-letter actor's      *)
(* mailbox), reply channels 1..  .  0 = none.                                         *)
(*                                                                                   *)
(* Threads and their steps (every action is the code between two gates):             *)
(*  asker a:  GetCtx  (call -> ask.build)        getContext()                         *)
(*            Build   (ask.build -> ask.getchan)  responseClosed := false             *)
(*            GetChan (ask.getchan -> ask.enq)    response := getResponseChannel()    *)
(*            Enq     (ask.enq -> ask.select)     doReceive (mailbox enqueue)         *)
(*            Select  (ask.select -> blocked | ask.woke(1))                           *)
(*            Deadline (driver cancels the caller's context: blocked -> ask.woke(2))  *)
(*            Woke    (ask.woke -> pool.chan.drain | return)  dead letter on the      *)
(*                     error branch; as-is code: responseClosed := true               *)
(*            Drain   (pool.chan.drain -> pool.chan.put)                              *)
(*            Put     (pool.chan.put -> return)                                       *)
(*            Ret                                                                     *)
(*  teller t: TellStep: getContext + async build + enqueue (one step)                 *)
(*  target actor: eager single consumer.  Whenever it is idle and its mailbox is not  *)
(*            empty it dequeues (recycling the previous sentinel into the context     *)
(*            pool) and enters the handler; this happens inside the step that made    *)
(*            it possible (Enq / TellStep / Finish).  The handler's Response calls    *)
(*            are steps of their own:                                                 *)
(*            RespCall (-> resp.send | returned)  nil check, CAS responseClosed       *)
(*            RespSend (resp.send -> returned)    non-blocking channel send           *)
(*            Finish   the handler returns                                            *)
(* Deviations of the code as found are guarded by Defects:                           *)
(*   "CloseAfterReply"  reply branch stores responseClosed := true on its context     *)
(*   "CloseOnTimeout"   error branches store responseClosed := true on their context  *)
(*   "PoolOnTimeout"    error branches return the reply channel to the pool           *)
(*   "NoCasGuard"       (mutant only) Response sends without the CAS guard            *)
EXTENDS Integers, Sequences, FiniteSets, TLC

CONSTANTS Askers, Tellers, RankOf, NAsks, MaxResp, MaxCtx, MaxCh, Defects

VARIABLES ctxPool, chPool,      \* FIFO pools (sequences of object numbers)
          nctx, nch,            \* objects allocated so far
          closed, cresp, cmsg,  \* per context: responseClosed, response channel, message id
          chan,                 \* per channel: 0 = empty, else the reply id it holds
          mbox, sentinel,       \* target mailbox (after the sentinel) and its sentinel context
          dlSentinel,           \* sentinel context of the dead-letter actor's mailbox
          apc, hid, nresp, rpc, \* handler: "idle"|"handling", id handled, Response calls made, "none"|"send"
          pc, k, actx, ach, res,\* askers
          tdone,                \* tellers that have sent
          dfired,               \* ids of running asks whose deadline has fired
          intime,               \* ids of running asks for which a Response call returned before the deadline fired
          last                  \* label of the last step (output only)

vars == <<ctxPool, chPool, nctx, nch, closed, cresp, cmsg, chan, mbox, sentinel, dlSentinel, apc, hid, nresp, rpc,
          pc, k, actx, ach, res, tdone, dfired, intime, last>>
core == <<ctxPool, chPool, nctx, nch, closed, cresp, cmsg, chan, mbox, sentinel, dlSentinel, apc, hid, nresp, rpc,
          pc, k, actx, ach, res, tdone, dfired, intime>>

Ctxs == 1..MaxCtx
Chs  == 1..MaxCh
Id(a, j) == RankOf[a] * 10 + j
AskIds == {Id(a, j) : a \in Askers, j \in 1..3} 
TellId(t) == 90 + RankOf[t]
Has(d) == d \in Defects

Init == /\ ctxPool = <<>> /\ chPool = <<>> /\ nctx = 2 /\ nch = 0
        /\ closed = [c \in Ctxs |-> FALSE] /\ cresp = [c \in Ctxs |-> 0] /\ cmsg = [c \in Ctxs |-> 0]
        /\ chan = [r \in Chs |-> 0]
        /\ mbox = <<>> /\ sentinel = 1 /\ dlSentinel = 2
        /\ apc = "idle" /\ hid = 0 /\ nresp = 0 /\ rpc = "none"
        /\ pc = [a \in Askers |-> "call"] /\ k = [a \in Askers |-> 1]
        /\ actx = [a \in Askers |-> 0] /\ ach = [a \in Askers |-> 0] /\ res = [a \in Askers |-> 0]
        /\ tdone = {}
        /\ dfired = {} /\ intime = {}
        /\ last = "init"

\* ---- the eager consumer: result of "actor idle, mailbox non-empty => dequeue and enter the handler"
\* Given the mailbox mb, pool cp, context fields after the triggering step, produce the settled values.
Settled(mb, cp, cr, cm, idle) ==
  IF idle /\ mb # <<>>
  THEN [mbox |-> Tail(mb), pool |-> Append(cp, sentinel), sent |-> Head(mb),
        cresp |-> [cr EXCEPT ![sentinel] = 0], cmsg |-> [cm EXCEPT ![sentinel] = 0],
        apc |-> "handling", hid |-> cm[Head(mb)], fresh |-> TRUE]
  ELSE [mbox |-> mb, pool |-> cp, sent |-> sentinel, cresp |-> cr, cmsg |-> cm, apc |-> IF idle THEN "idle" ELSE apc,
        hid |-> hid, fresh |-> FALSE]

ApplySettled(s) ==
  /\ mbox' = s.mbox /\ ctxPool' = s.pool /\ sentinel' = s.sent /\ cresp' = s.cresp /\ cmsg' = s.cmsg
  /\ apc' = s.apc /\ hid' = s.hid
  /\ nresp' = IF s.fresh THEN 0 ELSE nresp
  /\ rpc' = IF s.fresh THEN "none" ELSE rpc

\* ---- askers
GetCtx(a) ==
  /\ pc[a] = "call" /\ k[a] <= NAsks[a]
  /\ IF ctxPool # <<>>
     THEN /\ actx' = [actx EXCEPT ![a] = Head(ctxPool)] /\ ctxPool' = Tail(ctxPool) /\ UNCHANGED nctx
     ELSE /\ nctx < MaxCtx
          /\ actx' = [actx EXCEPT ![a] = nctx + 1] /\ nctx' = nctx + 1 /\ UNCHANGED ctxPool
  /\ pc' = [pc EXCEPT ![a] = "build"] /\ last' = "GetCtx"
  /\ UNCHANGED <<chPool, nch, closed, cresp, cmsg, chan, mbox, sentinel, dlSentinel, apc, hid, nresp, rpc, k, ach, res, tdone, dfired, intime>>

Build(a) ==
  /\ pc[a] = "build"
  /\ closed' = [closed EXCEPT ![actx[a]] = FALSE]
  /\ cmsg' = [cmsg EXCEPT ![actx[a]] = Id(a, k[a])]
  /\ pc' = [pc EXCEPT ![a] = "getchan"] /\ last' = "Build"
  /\ UNCHANGED <<ctxPool, chPool, nctx, nch, cresp, chan, mbox, sentinel, dlSentinel, apc, hid, nresp, rpc, k, actx, ach, res, tdone, dfired, intime>>

GetChan(a) ==
  /\ pc[a] = "getchan"
  /\ IF chPool # <<>>
     THEN /\ ach' = [ach EXCEPT ![a] = Head(chPool)] /\ chPool' = Tail(chPool) /\ UNCHANGED nch
          /\ cresp' = [cresp EXCEPT ![actx[a]] = Head(chPool)]
     ELSE /\ nch < MaxCh
          /\ ach' = [ach EXCEPT ![a] = nch + 1] /\ nch' = nch + 1 /\ UNCHANGED chPool
          /\ cresp' = [cresp EXCEPT ![actx[a]] = nch + 1]
  /\ pc' = [pc EXCEPT ![a] = "enq"] /\ last' = "GetChan"
  /\ UNCHANGED <<ctxPool, nctx, closed, cmsg, chan, mbox, sentinel, dlSentinel, apc, hid, nresp, rpc, k, actx, res, tdone, dfired, intime>>

Enq(a) ==
  /\ pc[a] = "enq"
  /\ ApplySettled(Settled(Append(mbox, actx[a]), ctxPool, cresp, cmsg, apc = "idle"))
  /\ pc' = [pc EXCEPT ![a] = "select"] /\ last' = "Enq"
  /\ UNCHANGED <<chPool, nctx, nch, closed, chan, dlSentinel, k, actx, ach, res, tdone, dfired, intime>>

Select(a) ==
  /\ pc[a] = "select"
  /\ IF chan[ach[a]] # 0
     THEN /\ res' = [res EXCEPT ![a] = chan[ach[a]]] /\ chan' = [chan EXCEPT ![ach[a]] = 0]
          /\ pc' = [pc EXCEPT ![a] = "wokeR"]
     ELSE /\ pc' = [pc EXCEPT ![a] = "wait"] /\ UNCHANGED <<res, chan>>
  /\ last' = "Select"
  /\ UNCHANGED <<ctxPool, chPool, nctx, nch, closed, cresp, cmsg, mbox, sentinel, dlSentinel, apc, hid, nresp, rpc, k, actx, ach, tdone, dfired, intime>>

\* the caller's deadline: only while no reply is waiting in its channel (when both are ready Go's select
\* tosses a coin; that case is outside the property: the caller then observes its deadline first)
Deadline(a) ==
  /\ pc[a] = "wait" /\ chan[ach[a]] = 0
  /\ pc' = [pc EXCEPT ![a] = "wokeC"] /\ dfired' = dfired \cup {Id(a, k[a])} /\ last' = "Deadline"
  /\ UNCHANGED <<ctxPool, chPool, nctx, nch, closed, cresp, cmsg, chan, mbox, sentinel, dlSentinel, apc, hid, nresp, rpc, k, actx, ach, res, tdone, intime>>

\* reply branch
WokeR(a) ==
  /\ pc[a] = "wokeR"
  /\ closed' = IF Has("CloseAfterReply") THEN [closed EXCEPT ![actx[a]] = TRUE] ELSE closed
  /\ pc' = [pc EXCEPT ![a] = "drain"] /\ last' = "WokeR"
  /\ UNCHANGED <<ctxPool, chPool, nctx, nch, cresp, cmsg, chan, mbox, sentinel, dlSentinel, apc, hid, nresp, rpc, k, actx, ach, res, tdone, dfired, intime>>

\* error branch: the dead letter is a Tell to the dead-letter actor (takes a context from the pool; the dead-letter
\* actor dequeues it and recycles its previous sentinel), then the as-is code closes and recycles
WokeC(a) ==
  /\ pc[a] = "wokeC"
  /\ LET fromPool == ctxPool # <<>>
         d  == IF fromPool THEN Head(ctxPool) ELSE nctx + 1
         p1 == IF fromPool THEN Tail(ctxPool) ELSE ctxPool
     IN /\ (fromPool \/ nctx < MaxCtx)
        /\ nctx' = IF fromPool THEN nctx ELSE nctx + 1
        /\ ctxPool' = Append(p1, dlSentinel)
        /\ dlSentinel' = d
        /\ cmsg' = [cmsg EXCEPT ![d] = 0, ![dlSentinel] = 0]
        /\ cresp' = [cresp EXCEPT ![dlSentinel] = 0]
  /\ closed' = IF Has("CloseOnTimeout") THEN [closed EXCEPT ![actx[a]] = TRUE] ELSE closed
  /\ pc' = [pc EXCEPT ![a] = IF Has("PoolOnTimeout") THEN "drain" ELSE "ret"]
  /\ res' = [res EXCEPT ![a] = -1] /\ last' = "WokeC"
  /\ UNCHANGED <<chPool, nch, chan, mbox, sentinel, apc, hid, nresp, rpc, k, actx, ach, tdone, dfired, intime>>

Drain(a) ==
  /\ pc[a] = "drain"
  /\ chan' = [chan EXCEPT ![ach[a]] = 0]
  /\ pc' = [pc EXCEPT ![a] = "put"] /\ last' = "Drain"
  /\ UNCHANGED <<ctxPool, chPool, nctx, nch, closed, cresp, cmsg, mbox, sentinel, dlSentinel, apc, hid, nresp, rpc, k, actx, ach, res, tdone, dfired, intime>>

Put(a) ==
  /\ pc[a] = "put"
  /\ chPool' = Append(chPool, ach[a])
  /\ pc' = [pc EXCEPT ![a] = "ret"] /\ last' = "Put"
  /\ UNCHANGED <<ctxPool, nctx, nch, closed, cresp, cmsg, chan, mbox, sentinel, dlSentinel, apc, hid, nresp, rpc, k, actx, ach, res, tdone, dfired, intime>>

Ret(a) ==
  /\ pc[a] = "ret"
  /\ dfired' = dfired \ {Id(a, k[a])} /\ intime' = intime \ {Id(a, k[a])}
  /\ k' = [k EXCEPT ![a] = @ + 1]
  /\ pc' = [pc EXCEPT ![a] = "call"]
  /\ actx' = [actx EXCEPT ![a] = 0] /\ ach' = [ach EXCEPT ![a] = 0] /\ res' = [res EXCEPT ![a] = 0]
  /\ last' = "Ret"
  /\ UNCHANGED <<ctxPool, chPool, nctx, nch, closed, cresp, cmsg, chan, mbox, sentinel, dlSentinel, apc, hid, nresp, rpc, tdone>>

\* ---- concurrent Tell traffic (one step: getContext, async build, enqueue)
TellStep(t) ==
  /\ t \notin tdone
  /\ LET fromPool == ctxPool # <<>>
         c  == IF fromPool THEN Head(ctxPool) ELSE nctx + 1
         p1 == IF fromPool THEN Tail(ctxPool) ELSE ctxPool
     IN /\ (fromPool \/ nctx < MaxCtx)
        /\ nctx' = IF fromPool THEN nctx ELSE nctx + 1
        /\ ApplySettled(Settled(Append(mbox, c), p1, cresp, [cmsg EXCEPT ![c] = TellId(t)], apc = "idle"))
  /\ tdone' = tdone \cup {t} /\ last' = "TellStep"
  /\ UNCHANGED <<chPool, nch, closed, chan, dlSentinel, pc, k, actx, ach, res, dfired, intime>>

\* ---- the handler of the target actor
Running == {Id(a, k[a]) : a \in {x \in Askers : pc[x] # "call"}}
MarkInTime == intime' = IF hid \in Running /\ hid \notin dfired THEN intime \cup {hid} ELSE intime

RespCall ==
  /\ apc = "handling" /\ rpc = "none" /\ nresp < MaxResp
  /\ nresp' = nresp + 1
  /\ IF cresp[sentinel] = 0
     THEN /\ UNCHANGED <<closed, rpc, intime>>                    \* Tell message: Response is a no-op
     ELSE IF closed[sentinel] /\ ~Has("NoCasGuard")
          THEN /\ MarkInTime /\ UNCHANGED <<closed, rpc>>          \* CAS failed: reply dropped
          ELSE /\ closed' = [closed EXCEPT ![sentinel] = TRUE] /\ rpc' = "send" /\ UNCHANGED intime
  /\ last' = "RespCall"
  /\ UNCHANGED <<ctxPool, chPool, nctx, nch, cresp, cmsg, chan, mbox, sentinel, dlSentinel, apc, hid, pc, k, actx, ach, res, tdone, dfired>>

RespSend ==
  /\ apc = "handling" /\ rpc = "send"
  /\ LET r == cresp[sentinel]
         waiters == {a \in Askers : pc[a] = "wait" /\ ach[a] = r}
     IN IF chan[r] # 0
        THEN UNCHANGED <<chan, pc, res>>                           \* channel full: dropped
        ELSE IF waiters # {}
             THEN \E a \in waiters :                                \* hand-off to the blocked receiver
                    /\ res' = [res EXCEPT ![a] = hid] /\ pc' = [pc EXCEPT ![a] = "wokeR"] /\ UNCHANGED chan
             ELSE /\ chan' = [chan EXCEPT ![r] = hid] /\ UNCHANGED <<pc, res>>
  /\ rpc' = "none" /\ MarkInTime /\ last' = "RespSend"
  /\ UNCHANGED <<ctxPool, chPool, nctx, nch, closed, cresp, cmsg, mbox, sentinel, dlSentinel, apc, hid, nresp, k, actx, ach, tdone, dfired>>

Finish ==
  /\ apc = "handling" /\ rpc = "none"
  /\ ApplySettled(Settled(mbox, ctxPool, cresp, cmsg, TRUE))
  /\ last' = "Finish"
  /\ UNCHANGED <<chPool, nctx, nch, closed, chan, dlSentinel, pc, k, actx, ach, res, tdone, dfired, intime>>

Next == \/ \E a \in Askers : GetCtx(a) \/ Build(a) \/ GetChan(a) \/ Enq(a) \/ Select(a) \/ Deadline(a)
                             \/ WokeR(a) \/ WokeC(a) \/ Drain(a) \/ Put(a) \/ Ret(a)
        \/ \E t \in Tellers : TellStep(t)
        \/ RespCall \/ RespSend \/ Finish

Spec == Init /\ [][Next]_vars

AllDone == /\ \A a \in Askers : pc[a] = "call" /\ k[a] > NAsks[a]
           /\ tdone = Tellers /\ apc = "idle" /\ mbox = <<>>

\* ---- C15
\* an Ask returns its own reply or an error
OwnReply == \A a \in Askers : pc[a] \in {"wokeR", "drain", "put", "ret"} /\ res[a] # -1 => res[a] = Id(a, k[a])
\* a reply given before the caller's deadline is not lost
InTime == \A a \in Askers : pc[a] = "ret" /\ res[a] = -1 => Id(a, k[a]) \notin intime
\* no pooled reply channel holds a value or is about to receive one
PoolClean == \A j \in 1..Len(chPool) : /\ chan[chPool[j]] = 0
                                       /\ ~(rpc = "send" /\ cresp[sentinel] = chPool[j])
\* a context is owned by at most one party
TypeOK == /\ nctx <= MaxCtx /\ nch <= MaxCh
=============================================================================
