---- MODULE MC_AskPool ----
EXTENDS AskPool
Rank == [x \in {"a1", "a2", "a3", "t1", "t2"} |-> CASE x = "a1" -> 1 [] x = "a2" -> 2 [] x = "a3" -> 3 [] x = "t1" -> 1 [] x = "t2" -> 2]
N111 == [x \in {"a1", "a2", "a3"} |-> 1]
N21  == [x \in {"a1", "a2"} |-> IF x = "a1" THEN 2 ELSE 1]
N11  == [x \in {"a1", "a2"} |-> 1]
N22  == [x \in {"a1", "a2"} |-> 2]
N211 == [x \in {"a1", "a2", "a3"} |-> IF x = "a1" THEN 2 ELSE 1]
View == core
====
