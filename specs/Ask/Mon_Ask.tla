------------------------------ MODULE Mon_Ask ------------------------------
(* Property monitor for C15 on recorded executions of REAL Ask calls.  It knows only  *)
(* the observable contract, nothing about pools or contexts.  Events:                 *)
(*   New                    history separator                                          *)
(*   call     (t, id)       caller t starts the Ask whose message carries id           *)
(*   resp     (id)          a Response call made while handling message id returned    *)
(*   deadline (id)          the caller's deadline for Ask id fires (driver cancels the *)
(*                          caller's context / stress: timeout may already have fired) *)
(*   ret      (id, res, err) the Ask returned: res = id carried by the reply (0 none,   *)
(*                          -2 not a reply), err = 0 none | 1 time-out | 2 other        *)
(*                          | 3 error of a batch (which member failed is unknown)       *)
(*   End      (id = 1: clean end, every caller was released)                            *)
(* Every line is consumed; violations are printed as <<"MISMATCH", "C15", line, what>>. *)
EXTENDS Integers, Sequences, FiniteSets, TLC, Json

Trace == ndJsonDeserialize("trace.ndjson")

VARIABLES l, called, returned, dfired, intime
vars == <<l, called, returned, dfired, intime>>

Init == l = 1 /\ called = {} /\ returned = {} /\ dfired = {} /\ intime = {}

Check(cond, what) == IF cond THEN TRUE ELSE PrintT(<<"MISMATCH", "C15", l, what>>)

Step ==
  /\ l <= Len(Trace)
  /\ l' = l + 1
  /\ LET e == Trace[l] IN
     CASE e.ev = "New" -> called' = {} /\ returned' = {} /\ dfired' = {} /\ intime' = {}
       [] e.ev = "call" -> called' = called \cup {e.id} /\ UNCHANGED <<returned, dfired, intime>>
       [] e.ev = "resp" ->
            /\ intime' = IF e.id \in called /\ e.id \notin returned /\ e.id \notin dfired THEN intime \cup {e.id} ELSE intime
            /\ UNCHANGED <<called, returned, dfired>>
       [] e.ev = "deadline" -> dfired' = dfired \cup {e.id} /\ UNCHANGED <<called, returned, intime>>
       [] e.ev = "ret" ->
            /\ Check(e.res = 0 \/ e.res = e.id, "an Ask returned the reply to another message")
            /\ Check(e.err # 0 \/ e.res # 0, "an Ask returned neither a reply nor an error")
            /\ Check(e.err = 0 \/ e.res = 0, "an Ask returned both a reply and an error")
            /\ Check(e.err \in {0, 3} \/ e.id \notin intime, "an Ask failed although the target replied before the caller's deadline")
            /\ Check(e.id \notin returned, "an Ask returned twice")
            /\ returned' = returned \cup {e.id}
            /\ UNCHANGED <<called, dfired, intime>>
       [] e.ev = "End" ->
            /\ Check(e.id # 1 \/ called \subseteq returned, "an Ask never returned")
            /\ UNCHANGED <<called, returned, dfired, intime>>
       [] OTHER -> UNCHANGED <<called, returned, dfired, intime>>

Spec == Init /\ [][Step]_vars
=============================================================================
