SPECIFICATION Spec
CONSTANTS
  Askers = {"a1", "a2"}
  Tellers = {}
  RankOf <- Rank
  NAsks <- N11
  MaxResp = 1
  MaxCtx = 8
  MaxCh = 4
  Defects = {"PoolOnTimeout"}
VIEW View
INVARIANTS OwnReply InTime
