SPECIFICATION Spec
CONSTANTS
  Askers = {"a1", "a2"}
  Tellers = {"t1"}
  RankOf <- Rank
  NAsks <- N21
  MaxResp = 2
  MaxCtx = 8
  MaxCh = 4
  Defects = {}
VIEW View
INVARIANTS OwnReply InTime PoolClean TypeOK
