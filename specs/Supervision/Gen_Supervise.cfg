SPECIFICATION GSpec
CONSTANTS
  Kids = {"c1", "c2"}
  Defects = {}
  Configs <- CoreWinConfigs
  PConfigs <- FullPConfigs
  Overlap = FALSE
  MaxOps = 4
  MaxTicks = 1
  Depth = 2
  PFault <- PFaultConfigs
  Sym = TRUE
  DeepConfigs <- WinConfigs
  DeepDepth = 4
CONSTRAINT Emit
INVARIANTS Conforms
CHECK_DEADLOCK FALSE
