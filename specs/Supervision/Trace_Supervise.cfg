SPECIFICATION TSpec
CONSTANTS
  Kids = {"c1", "c2"}
  Defects = {"DWRace"}
  Configs = {}
  PConfigs = {}
  Overlap = FALSE
  MaxOps = 1000
  MaxTicks = 1000
CHECK_DEADLOCK FALSE
