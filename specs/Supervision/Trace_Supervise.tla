--------------------------- MODULE Trace_Supervise ---------------------------
(* Conformance: a recorded execution of the REAL actor system must be a behaviour of   *)
(* Supervise.tla, step by step.  Every recorded internal step (handler turn, consumer  *)
(* decision, handlePanicking, restartChild completion) is matched against the action   *)
(* of the same name with the recorded arguments; an "Obs" line is the projected state  *)
(* of every family member at quiescence and must equal the model state.  A rejection   *)
(* (TLC stops before the last line) is conformance drift, not a property verdict.      *)
EXTENDS Supervise, Json

Trace == ndJsonDeserialize("trace.ndjson")
VARIABLES l, bad

Dummy == [strat |-> "one", typed |-> "none", ptyped |-> "default", any |-> "none", late |-> FALSE,
          max |-> 0, win |-> "zero", backoff |-> FALSE, mix |-> FALSE]

TNew(e) == /\ S' = InitS /\ now' = 1 /\ mb' = Empty /\ sys' = Empty /\ sigq' = <<>> /\ rst' = <<>>
           /\ cfg' = e.cfg /\ pcfg' = e.pcfg /\ nops' = 0 /\ nticks' = 0 /\ out' = [op |-> "Init"]

Matches(e) == \A a \in Actors :
  /\ S.st[a] = e.st[a] /\ S.inc[a] = e.inc[a] /\ S.rc[a] = e.rc[a] /\ S.mk[a] = e.mk[a]
  /\ S.flt[a] = e.flt[a] /\ S.ps[a] = e.ps[a] /\ S.esc[a] = e.esc[a] /\ S.intree[a] = e.intree[a]
  /\ \A k \in EvKinds : S.ev[a][k] = e.ev[a][k]
  /\ Answer(S, a) = e.q[a]

(* A line that no action of the model matches puts the checker into "bad" mode: the    *)
(* rest of that behaviour is skipped (canonical state), the next "New" line starts      *)
(* afresh.  Every Obs line that the model accepts is printed as <<"OK", line>>; a       *)
(* behaviour with an Obs line that was not printed has drifted.                         *)
Canonical == /\ S' = InitS /\ now' = 1 /\ mb' = Empty /\ sys' = Empty /\ sigq' = <<>> /\ rst' = <<>>
             /\ cfg' = Dummy /\ pcfg' = [dir |-> "Stop", onsig |-> "ignore"]
             /\ nops' = 0 /\ nticks' = 0 /\ out' = [op |-> "Init"]
TStep ==
  /\ l <= Len(Trace)
  /\ l' = l + 1
  /\ LET e == Trace[l] IN
     \/ e.op = "New" /\ TNew(e) /\ bad' = FALSE
     \/ e.op # "New" /\ Canonical /\ bad' = TRUE
     \/ /\ ~bad /\ bad' = FALSE
        /\ \/ e.op = "Fault" /\ EnvFault(e.a, e.e) /\ out'.res = e.res
           \/ e.op = "Tick" /\ EnvTick
           \/ e.op = "Reinstate" /\ EnvReinstate(e.a)
           \/ e.op = "Handle" /\ e.k = "Fault" /\ Turn(e.a) /\ out' = [op |-> "Handle", a |-> e.a, k |-> "Fault", e |-> e.e]
           \/ e.op = "Handle" /\ e.k = "Sig" /\ Turn(e.a) /\ out' = [op |-> "Handle", a |-> e.a, k |-> "Sig", c |-> e.c]
           \/ e.op = "Consume" /\ Consume /\ out' = [op |-> "Consume", a |-> e.a, d |-> e.d]
           \/ e.op = "Panicking" /\ Turn(e.a) /\ out' = [op |-> "Panicking", a |-> e.a, c |-> e.c, d |-> e.d, strat |-> e.strat]
           \/ e.op = "Faults" /\ S.flt[e.c] = e.flt /\ UNCHANGED vars
           \/ e.op = "Restarted" /\ \E i \in 1..Len(rst) : rst[i].c = e.c /\ RestartChild(i)
           \/ e.op = "Obs" /\ Quiet /\ Matches(e) /\ PrintT(<<"OK", l>>) /\ UNCHANGED vars

TInit == /\ S = InitS /\ now = 1 /\ mb = Empty /\ sys = Empty /\ sigq = <<>> /\ rst = <<>>
         /\ cfg = Dummy /\ pcfg = [dir |-> "Stop", onsig |-> "ignore"]
         /\ nops = 0 /\ nticks = 0 /\ out = [op |-> "Init"] /\ l = 1 /\ bad = FALSE
TSpec == TInit /\ [][TStep]_<<vars, l, bad>>
=============================================================================
