----------------------------- MODULE SupMonitor -----------------------------
(* Property monitor for C07 on recorded executions of the REAL actor system.  It knows *)
(* only the observable contract (SupOracle): for every failure injected by the driver  *)
(* it computes, in one big step, what the configured supervision must have done to the *)
(* failing actor, its siblings, its parent and its grandparent, and compares that with  *)
(* every observation recorded at quiescence: lifecycle state, PreStart count, restart   *)
(* count, user-state marker, the answer to an Ask, PanicSignals received, and the       *)
(* suspended / reinstated / restarted / stopped events seen on the event stream.        *)
(* Internal lines of the trace are skipped.  Every line is consumed; a difference is    *)
(* printed as <<"MISMATCH", line, behaviour, actor, field, expected, observed>>.        *)
(* The window rule is applied to the REAL clock: x[m] of the Obs line says whether the  *)
(* previous recorded fault of m was older than the window (computed by the driver from  *)
(* the real timestamps exactly as recordFault does).                                    *)
EXTENDS SupOracle, Json

Trace == ndJsonDeserialize("trace.ndjson")
VARIABLES l, A, cfg, pcfg, nb, ov

RECURSIVE NextObs(_)
NextObs(j) == IF j > Len(Trace) THEN 0 ELSE IF Trace[j].op = "Obs" THEN j ELSE NextObs(j + 1)
NoX == [a \in Actors |-> FALSE]

Rep(a, f, exp, got) == IF exp = got THEN TRUE ELSE PrintT(<<"MISMATCH", l, nb, a, f, exp, got>>)

(* Behaviours that contain an OVERLAPPING failure (Fault line with when = "pending": injected   *)
(* while restartChild goroutines of the previous failure are still pending) are judged on the  *)
(* final lifecycle state only: the decisions, carried out one after the other in the order     *)
(* they were taken, must give the observed state; counters and events of a superseded restart  *)
(* are not prescribed.                                                                         *)
Pending(e) == "when" \in DOMAIN e /\ e.when = "pending"
Check(e) == \A a \in Actors :
  /\ Rep(a, "st", A.st[a], e.st[a])
  /\ IF ov THEN TRUE
     ELSE /\ Rep(a, "inc", A.inc[a], e.inc[a])
          /\ Rep(a, "rc", A.rc[a], e.rc[a])
          /\ Rep(a, "mk", A.mk[a], e.mk[a])
          /\ Rep(a, "q", Answer(A, a), e.q[a])
          /\ Rep(a, "esc", A.esc[a], e.esc[a])
          /\ Rep(a, "susp", A.ev[a]["susp"], e.ev[a]["susp"])
          /\ Rep(a, "rein", A.ev[a]["rein"], e.ev[a]["rein"])
          /\ Rep(a, "rest", A.ev[a]["rest"], e.ev[a]["rest"])
          /\ Rep(a, "stop", A.ev[a]["stop"], e.ev[a]["stop"])

Init == l = 1 /\ A = InitS /\ nb = 0 /\ ov = FALSE
        /\ cfg = [strat |-> "one", typed |-> "none", ptyped |-> "default", any |-> "none", late |-> FALSE,
                  max |-> 0, win |-> "zero", backoff |-> FALSE, mix |-> FALSE]
        /\ pcfg = [dir |-> "Stop", onsig |-> "ignore"]

Step ==
  /\ l <= Len(Trace)
  /\ l' = l + 1
  /\ LET e == Trace[l] IN
     CASE e.op = "New"   -> A' = InitS /\ cfg' = e.cfg /\ pcfg' = e.pcfg /\ nb' = nb + 1 /\ ov' = FALSE
       [] e.op = "Fault" ->
            LET B == IF Pending(e) THEN Dirty(A) ELSE Dirty(ClearEv(A))
                o == NextObs(l)
                X == IF o = 0 THEN NoX ELSE Trace[o].x
            IN /\ Rep(e.a, "tell", IF A.st[e.a] = "running" THEN "ok" ELSE "dead", e.res)
               /\ A' = IF e.res = "ok" THEN Fail(B, e.a, e.e, X, l, cfg, pcfg) ELSE B
               /\ ov' = (ov \/ Pending(e))
               /\ UNCHANGED <<cfg, pcfg, nb>>
       [] e.op = "Tick"  -> A' = ClearEv(A) /\ UNCHANGED <<cfg, pcfg, nb, ov>>
       [] e.op = "Reinstate" -> A' = Reinstated(ClearEv(A), e.a) /\ UNCHANGED <<cfg, pcfg, nb, ov>>
       [] e.op = "Obs"   -> /\ Check(e)
                            \* known finding StaleTerminatedDeletesLiveNode (C09, group tree), identified by its witness: an actor that is
                            \* running, was restarted with a shutdown in this very step, and has lost its tree
                            \* node.  The monitor reports it and follows the real tree from here on.
                            /\ LET lost == {a \in Actors : A.intree[a] /\ ~e.intree[a] /\ e.st[a] = "running"
                                                            /\ e.ev[a]["rest"] > 0 /\ e.ev[a]["stop"] > 0}
                               IN /\ \A a \in lost : PrintT(<<"KNOWN", "StaleTerminatedDeletesLiveNode", l, nb, a>>)
                                  /\ A' = [A EXCEPT !.intree = [a \in Actors |-> A.intree[a] /\ a \notin lost]]
                            /\ UNCHANGED <<cfg, pcfg, nb, ov>>
       [] e.op = "NotQuiet" -> PrintT(<<"NOTQUIET", l, nb>>) /\ UNCHANGED <<A, cfg, pcfg, nb, ov>>
       [] OTHER          -> UNCHANGED <<A, cfg, pcfg, nb, ov>>
Spec == Init /\ [][Step]_<<l, A, cfg, pcfg, nb, ov>>
=============================================================================
