SPECIFICATION GSpec
CONSTANTS
  Kids = {"c1", "c2"}
  Defects = {}
  Configs <- WinConfigs
  PConfigs <- FullPConfigs
  Overlap = FALSE
  MaxOps = 4
  MaxTicks = 1
  Depth = 4
  PFault <- NoConfigs
  Sym = TRUE
CONSTRAINT Emit
INVARIANTS Conforms
CHECK_DEADLOCK FALSE
