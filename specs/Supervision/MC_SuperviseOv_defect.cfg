SPECIFICATION OvSpec
CONSTANTS
  Kids = {"c1", "c2"}
  Defects = {"ResurrectStopped"}
  Configs <- OvStopConfigs
  PConfigs <- OvPConfigs
  Overlap = TRUE
  MaxOps = 2
  MaxTicks = 0
VIEW OvView
INVARIANTS NoResurrection
CHECK_DEADLOCK FALSE
