---------------------------- MODULE Gen_Supervise ----------------------------
(* Behaviour generator: the code-shaped model is run with the environment acting only  *)
(* at quiescence; the history of environment operations (with the configuration) is    *)
(* printed as JSON when Depth operations have been digested.  BFS = every history of   *)
(* that length for every configuration in the chosen set; -simulate = random ones.     *)
(* The printed behaviours are executed on the real actor system by the Go driver.      *)
(* The generator carries the ghost contract state of MC_Supervise, so the same run     *)
(* also checks the design-level obligation Conforms on everything it generates.        *)
EXTENDS MC_Supervise, GenSample, Json
CONSTANTS Depth,      \* number of environment operations per behaviour
          DeepConfigs, \* configurations whose behaviours have DeepDepth operations instead
          DeepDepth,
          PFault,     \* configurations under which the environment also makes p fail / reinstates p
          Sym         \* TRUE: break the c1/c2 symmetry (c2 only after c1 has failed once)

VARIABLE hist

HasEscalate(c) == \E e \in ErrTypes : Lookup(c, e) = "Escalate"

(* the whole generated domain *)
GenConfigs  == FullConfigs({"one", "all"}, {"default", "Restart", "Resume", "Escalate"}, {0, 1, 2}, {"zero", "short", "long"}, BOOLEAN, BOOLEAN)
(* a core used for exhaustive short histories: every lookup shape, one window per budget *)
CoreConfigs == {c \in FullConfigs({"one", "all"}, {"default", "Restart"}, {0, 1}, {"zero", "long"}, {FALSE}, BOOLEAN) :
                  (c.max = 1) = (c.win = "long") /\ (c.mix => c.ptyped = "default")}
CorePConfigs == {[dir |-> "Stop", onsig |-> "ignore"], [dir |-> "Restart", onsig |-> "fail"],
                 [dir |-> "Resume", onsig |-> "fail"], [dir |-> "Escalate", onsig |-> "fail"]}
(* p's own failures: a few child configurations, every configuration of p *)
PFaultConfigs == {c \in CoreConfigs : c.typed \in {"Escalate", "Restart"} /\ c.ptyped = "default" /\ c.any = "none" /\ c.strat = "all" /\ ~c.mix}
(* restart windows: a Restart rule with a budget inside the short window, with and without backoff; the  *)
(* histories over these contain Ticks (time passing beyond the window)                                    *)
WinConfigs == {c \in FullConfigs({"one", "all"}, {"default"}, {1, 2}, {"short"}, BOOLEAN, {FALSE}) :
                 c.typed = "Restart" /\ c.any = "none" /\ ~c.late}
CoreWinConfigs == CoreConfigs \cup WinConfigs
(* the seeded sample *)
SampleConfigs  == {c \in RawConfigs : Canon(c)}
SamplePConfigs == RawPConfigs
NoConfigs == {}

DefaultP == [dir |-> "Stop", onsig |-> "ignore"]
FaultSet == IF cfg \in PFault THEN Kids \cup {"p"} ELSE Kids
IsEnv == nops' # nops
Failed(a) == \E i \in 1..Len(hist) : hist[i].op = "Fault" /\ hist[i].a = a
(* p's configuration is only varied when p can fail: every configuration of p when the  *)
(* environment makes it fail, the four core ones when a child can escalate               *)
GInit == /\ MCInit /\ hist = <<>>
         /\ \/ cfg \in PFault
            \/ cfg \notin PFault /\ HasEscalate(cfg) /\ pcfg \in CorePConfigs
            \/ cfg \notin PFault /\ ~HasEscalate(cfg) /\ pcfg = DefaultP
GNext == /\ MCNext
         /\ (IsEnv /\ out'.op = "Fault" => out'.res = "ok" /\ out'.a \in FaultSet)   \* only deliverable failures
         /\ (IsEnv /\ out'.op = "Fault" /\ Sym /\ out'.a = "c2" => Failed("c1"))
         /\ (IsEnv /\ out'.op = "Reinstate" => S.st[out'.a] = "suspended" /\ out'.a \in FaultSet)
         /\ (IsEnv /\ out'.op = "Tick" => cfg.win = "short" /\ hist # <<>> /\ hist[Len(hist)].op # "Tick")
         /\ hist' = IF IsEnv THEN Append(hist, out') ELSE hist
GSpec == GInit /\ [][GNext]_<<vars, abs, hist>>

Beh == [cfg |-> cfg, pcfg |-> pcfg, kids |-> SetToSeq(Kids), ops |-> hist]
DepthOf == IF cfg \in DeepConfigs THEN DeepDepth ELSE Depth
Emit == ~(Len(hist) = DepthOf /\ Quiet) \/ (PrintT(<<"BEHAVIOUR", ToJson(Beh)>>) /\ FALSE)
=============================================================================
