SPECIFICATION GSpec
CONSTANTS
  Kids = {"c1", "c2"}
  Defects = {}
  Configs <- CoreConfigs
  PConfigs <- FullPConfigs
  Overlap = FALSE
  MaxOps = 3
  MaxTicks = 1
  Depth = 3
  PFault <- PFaultConfigs
  Sym = TRUE
  DeepConfigs <- NoConfigs
  DeepDepth = 0
CONSTRAINT Emit
INVARIANTS Conforms
CHECK_DEADLOCK FALSE
