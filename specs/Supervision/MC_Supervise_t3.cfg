SPECIFICATION MCSpec
CONSTANTS
  Kids = {"c1", "c2"}
  Defects = {}
  Configs <- MCConfigsQ
  PConfigs <- MCPConfigs
  Overlap = FALSE
  MaxOps = 3
  MaxTicks = 1
VIEW View
INVARIANTS Conforms TypeOK
CHECK_DEADLOCK FALSE
