------------------------------ MODULE GenSample ------------------------------
(* Random sample of raw configurations for the -simulate behaviour generator.  The     *)
(* check (tools/groups/supervision.py) overwrites this module in its scratch copy with  *)
(* a seeded sample of the whole generated domain; this default keeps the specs          *)
(* self-contained.                                                                      *)
RawConfigs == {
  [strat |-> "all", typed |-> "Restart", ptyped |-> "default", any |-> "none", late |-> FALSE, max |-> 1, win |-> "short", backoff |-> FALSE, mix |-> FALSE],
  [strat |-> "one", typed |-> "Escalate", ptyped |-> "Restart", any |-> "none", late |-> FALSE, max |-> 2, win |-> "long", backoff |-> TRUE, mix |-> TRUE],
  [strat |-> "all", typed |-> "Stop", ptyped |-> "default", any |-> "Restart", late |-> TRUE, max |-> 0, win |-> "short", backoff |-> FALSE, mix |-> FALSE] }
RawPConfigs == { [dir |-> "Restart", onsig |-> "fail"], [dir |-> "Stop", onsig |-> "ignore"] }
=============================================================================
