---------------------------- MODULE MC_Supervise ----------------------------
(* Design-level check of C07: the asynchronous, code-shaped model agrees with the      *)
(* sequential contract (SupOracle!Fail) whenever the family is quiescent, for every    *)
(* configuration and every sequence of environment operations within the bounds.       *)
(* `abs` is the ghost contract state: it takes one big step per environment operation. *)
EXTENDS Supervise

VARIABLE abs

AllDirs == Dirs \cup {"none"}
(* every configuration of the generated domain, irrelevant dimensions collapsed:       *)
(*   late only matters when a typed rule and the any-error rule are both present;      *)
(*   ptyped is wiped by an any-error rule;                                             *)
(*   budget / window / backoff only matter when some rule says Restart.                *)
HasRestart(c) == \E e \in ErrTypes : Lookup(c, e) = "Restart"
Canon(c) == /\ (c.late => (c.typed # "none" /\ c.any # "none"))
            /\ (c.any # "none" => c.ptyped = "default")
            /\ (~HasRestart(c) => (c.max = 0 /\ c.win = "zero" /\ ~c.backoff))
            /\ (c.max = 0 => c.win \in {"zero", "short"})           \* no budget: only the counter reset is observable
            /\ (c.backoff => c.win # "zero")                        \* backoff always installs a positive window
            /\ (c.mix => \E e \in ErrTypes : Lookup(c, e) \in {"Stop", "Restart"})   \* strategies only matter for group directives
FullConfigs(strats, ptypeds, maxes, wins, backoffs, mixes) ==
  {c \in [strat : strats, typed : AllDirs, ptyped : ptypeds, any : AllDirs, late : BOOLEAN,
          max : maxes, win : wins, backoff : backoffs, mix : mixes] : Canon(c)}
FullPConfigs == [dir : Dirs, onsig : {"ignore", "fail"}]

(* p's configuration only matters when p can fail: directly or through an escalation   *)
MCConfigsQ  == FullConfigs({"one", "all"}, {"default", "Restart"}, {0, 1, 2}, {"zero", "short", "long"}, {FALSE}, BOOLEAN)
MCConfigsT  == FullConfigs({"one", "all"}, {"default", "Restart", "Resume", "Escalate"}, {0, 1, 2}, {"zero", "short", "long"}, BOOLEAN, BOOLEAN)
MCPConfigs  == FullPConfigs

MCInit == Init /\ abs = InitS
MCNext ==
  /\ Next
  /\ abs' = CASE out'.op = "Fault" /\ nops' # nops ->
                   LET A == Dirty(ClearEv(abs)) IN
                   IF out'.res = "ok" THEN Fail(A, out'.a, out'.e, Expired(A, now, cfg), now, cfg, pcfg) ELSE A
              [] out'.op = "Tick" -> ClearEv(abs)
              [] out'.op = "Reinstate" -> Reinstated(ClearEv(abs), out'.a)
              [] OTHER -> abs
MCSpec == MCInit /\ [][MCNext]_<<vars, abs>>

(* C07 in the model: at quiescence the real (modelled) family state is exactly what    *)
(* the contract prescribes: lifecycle state, PreStart / restart counts, user marker,   *)
(* fault counters, escalations received and the lifecycle events published.            *)
Conforms == Quiet => S = abs
TypeOK == /\ \A a \in Actors : S.st[a] \in {"running", "suspended", "stopped"}
          /\ \A a \in Actors : Len(mb[a]) <= MaxOps /\ Len(sys[a]) <= 2 * MaxOps
(* every environment operation is eventually digested (no step is enabled for ever      *)
(* without the family coming to rest): checked as absence of deadlock-free cycles is    *)
(* not needed, the model has no internal cycles; Settles is checked as a property.      *)
Settles == <>[]Quiet
View == <<S, now, mb, sys, sigq, rst, cfg, pcfg, nops, nticks, abs>>
=============================================================================
