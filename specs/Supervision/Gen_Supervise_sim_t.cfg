SPECIFICATION GSpec
CONSTANTS
  Kids = {"c1", "c2"}
  Defects = {}
  Configs <- SampleConfigs
  PConfigs <- SamplePConfigs
  Overlap = FALSE
  MaxOps = 6
  MaxTicks = 2
  Depth = 6
  PFault <- SampleConfigs
  Sym = FALSE
  DeepConfigs <- NoConfigs
  DeepDepth = 0
CONSTRAINT Emit
INVARIANTS Conforms
CHECK_DEADLOCK FALSE
