----------------------------- MODULE Supervise -----------------------------
(* C07 -- goakt supervision, shaped like the code (actor/pid.go, actor/supervision.go, *)
(* supervisor/supervisor.go).  One action per handler / goroutine step:                *)
(*                                                                                     *)
(*   Turn(a)        a dispatcher worker runs one message of actor a: system mailbox    *)
(*                  first (Panicking -> handlePanicking, PanicSignal -> user handler), *)
(*                  then the user mailbox (a Fault command makes the handler fail:     *)
(*                  recovery() -> submitSupervision -> the shared supervision queue)   *)
(*   Consume        the single supervision consumer (supervision.run) takes one        *)
(*                  signal: dropped unless the actor IsRunning, else notifyParent:     *)
(*                  directive lookup, Resume short cut, suspend + Tell(parent,         *)
(*                  Panicking)                                                         *)
(*   HandlePanicking (inside the parent's Turn) Stop / Restart (recordFault, budget,   *)
(*                  `go restartChild` per group member) / Resume / Escalate            *)
(*   RestartChild   one restartChild goroutine: optional backoff delay, then           *)
(*                  PID.Restart (restartSubtree)                                       *)
(*   Env*           the test driver: make an actor fail, let time pass, Reinstate      *)
(*                                                                                     *)
(* The lifecycle primitives (suspend, Shutdown, restartSubtree) and the family state   *)
(* record S are shared with SupOracle.tla; the control flow here is asynchronous       *)
(* (three queues and a bag of goroutines) whereas the oracle is one big step.          *)
EXTENDS SupOracle

CONSTANTS Configs,    \* set of supervisor configurations of the children
          PConfigs,   \* set of configurations of p: [dir, onsig]
          Overlap,    \* TRUE: the environment may act while effects are still in flight
          MaxOps,     \* bound on environment operations
          MaxTicks    \* bound on Tick operations

VARIABLES S,      \* family state (see SupOracle)
          now,    \* discrete clock; a Tick is longer than the short window
          mb,     \* user mailbox of every actor: Seq([k, e])
          sys,    \* system mailbox of every actor: Seq(Panicking / Sig records)
          sigq,   \* supervision queue: Seq([a, e])
          rst,    \* pending restartChild goroutines: Seq([par, c, delay])
          cfg, pcfg,
          nops, nticks,
          out     \* the last step (action name and arguments; output only)

vars == <<S, now, mb, sys, sigq, rst, cfg, pcfg, nops, nticks, out>>

WinLen(c) == CASE c.win = "short" -> 1 [] c.win = "long" -> 1000 [] OTHER -> 0
Expired(T, t, c) == [m \in Actors |-> t - T.lf[m] > WinLen(c)]     \* recordFault: now-last > window

Empty == [a \in Actors |-> <<>>]
Quiet == sigq = <<>> /\ rst = <<>> /\ mb = Empty /\ sys = Empty
Ready == Overlap \/ Quiet

Init == /\ S = InitS /\ now = 1 /\ mb = Empty /\ sys = Empty /\ sigq = <<>> /\ rst = <<>>
        /\ cfg \in Configs /\ pcfg \in PConfigs
        /\ nops = 0 /\ nticks = 0 /\ out = [op |-> "Init"]

Faultable == Kids \cup {"p"}

(* mailboxes of actors that are no longer alive are gone (reset -> mailbox.Dispose) *)
Purge(q, T) == [a \in Actors |-> IF T.st[a] = "stopped" THEN <<>> ELSE q[a]]

-----------------------------------------------------------------------------
(* ---- environment ----                                                       *)
(* The driver first marks the user state of every running actor (so that       *)
(* "state kept" and "state fresh" differ), then tells `a` to fail with e.      *)
EnvFault(a, e) ==
  /\ Ready /\ nops < MaxOps
  /\ nops' = nops + 1
  /\ S' = Dirty(ClearEv(S))
  /\ IF S.st[a] = "running"
     THEN /\ mb' = [mb EXCEPT ![a] = Append(@, [k |-> "Fault", e |-> e])]
          /\ out' = [op |-> "Fault", a |-> a, e |-> e, res |-> "ok"]
     ELSE /\ UNCHANGED mb
          /\ out' = [op |-> "Fault", a |-> a, e |-> e, res |-> "dead"]
  /\ UNCHANGED <<now, sys, sigq, rst, cfg, pcfg, nticks>>

EnvTick ==
  /\ Ready /\ nops < MaxOps /\ nticks < MaxTicks
  /\ nops' = nops + 1 /\ nticks' = nticks + 1
  /\ now' = now + 2
  /\ S' = ClearEv(S)
  /\ out' = [op |-> "Tick"]
  /\ UNCHANGED <<mb, sys, sigq, rst, cfg, pcfg>>

EnvReinstate(a) ==
  /\ Ready /\ nops < MaxOps
  /\ nops' = nops + 1
  /\ S' = Reinstated(ClearEv(S), a)
  /\ out' = [op |-> "Reinstate", a |-> a]
  /\ UNCHANGED <<now, mb, sys, sigq, rst, cfg, pcfg, nticks>>

-----------------------------------------------------------------------------
(* ---- supervision consumer: supervision.run + notifyParent ----               *)
Consume ==
  /\ sigq # <<>>
  /\ LET w  == Head(sigq)
         a  == w.a
         c  == CfgOf(a, cfg, pcfg)
         d  == Lookup(c, w.e)
         pa == Par(a)
     IN /\ sigq' = Tail(sigq)
        /\ IF S.st[a] # "running"
           THEN /\ UNCHANGED <<S, sys>>                       \* IsRunning() false: dropped
                /\ out' = [op |-> "Consume", a |-> a, d |-> "drop"]
           ELSE /\ out' = [op |-> "Consume", a |-> a, d |-> d]
                /\ CASE d = "none"   -> S' = Susp(S, a) /\ UNCHANGED sys
                     [] d = "Resume" -> UNCHANGED <<S, sys>>
                     [] OTHER ->
                          /\ S' = Susp(S, a)
                          /\ IF pa # "ug" /\ S.st[pa] = "running"      \* Tell: ErrDead otherwise
                             THEN sys' = [sys EXCEPT ![pa] = Append(@, [k |-> "Panicking", c |-> a, d |-> d, strat |-> c.strat])]
                             ELSE UNCHANGED sys
  /\ UNCHANGED <<now, mb, rst, cfg, pcfg, nops, nticks>>

-----------------------------------------------------------------------------
(* ---- handlePanicking, executed by the parent's turn ----                     *)
SetToSeq(set) == LET RECURSIVE f(_)
                     f(s) == IF s = {} THEN <<>> ELSE LET x == CHOOSE y \in s : TRUE IN <<x>> \o f(s \ {x})
                 IN f(set)

HandlePanicking(par, m) ==
  LET c  == m.c
      cc == CfgOf(c, cfg, pcfg)
      G  == Group(S, c, [strat |-> m.strat])
      rest == [sys EXCEPT ![par] = Tail(@)]
  IN /\ out' = [op |-> "Panicking", a |-> par, c |-> c, d |-> m.d, strat |-> m.strat]
     /\ CASE m.d = "Stop" ->                                   \* handleStopDirective: Shutdown + deleteNode
               LET T == FoldSet(StopMember, S, G) IN
               /\ S' = T /\ mb' = Purge(mb, T) /\ sys' = Purge(rest, T)
               /\ UNCHANGED <<rst, now>>
          [] m.d = "Restart" ->                                \* handleRestartDirective
               LET T == Recorded(S, G, cc, Expired(S, now, cc), now) IN
               IF cc.max > 0 /\ WinPos(cc) /\ T.flt[c] > cc.max
               THEN /\ S' = SuspRunning(T, G \ {c})            \* suspendGroup
                    /\ sys' = rest /\ UNCHANGED <<rst, mb, now>>
               ELSE /\ S' = T
                    /\ rst' = rst \o [i \in 1..Cardinality(G) |-> [par |-> par, c |-> SetToSeq(G)[i], delay |-> cc.backoff]]
                    /\ sys' = rest /\ UNCHANGED <<mb, now>>
          [] m.d = "Resume" ->                                 \* cid.doReinstate()
               /\ S' = IF S.st[c] = "suspended" THEN [S EXCEPT !.st[c] = "running", !.ev[c]["rein"] = @ + 1] ELSE S
               /\ sys' = rest /\ UNCHANGED <<rst, mb, now>>
          [] m.d = "Escalate" ->                               \* cid.Tell(pid, PanicSignal)
               /\ sys' = IF S.st[par] = "running"
                         THEN [rest EXCEPT ![par] = Append(@, [k |-> "Sig", c |-> c])]
                         ELSE rest
               /\ UNCHANGED <<S, rst, mb, now>>

HandleSig(a, m) ==
  /\ S' = [S EXCEPT !.esc[a] = @ + 1]
  /\ sys' = [sys EXCEPT ![a] = Tail(@)]
  /\ sigq' = IF a = "p" /\ pcfg.onsig = "fail" THEN Append(sigq, [a |-> "p", e |-> "A"]) ELSE sigq
  /\ out' = [op |-> "Handle", a |-> a, k |-> "Sig", c |-> m.c]
  /\ UNCHANGED <<mb, rst, now>>

HandleUser(a, m) ==
  /\ m.k = "Fault"
  /\ mb' = [mb EXCEPT ![a] = Tail(@)]
  /\ sigq' = Append(sigq, [a |-> a, e |-> m.e])               \* recovery -> submitSupervision
  /\ out' = [op |-> "Handle", a |-> a, k |-> "Fault", e |-> m.e]
  /\ UNCHANGED <<S, sys, rst, now>>

Turn(a) ==
  /\ S.st[a] # "stopped"
  /\ \/ /\ sys[a] # <<>> /\ Head(sys[a]).k = "Panicking"
        /\ HandlePanicking(a, Head(sys[a])) /\ UNCHANGED sigq
     \/ /\ sys[a] # <<>> /\ Head(sys[a]).k = "Sig"
        /\ HandleSig(a, Head(sys[a]))
     \/ /\ sys[a] = <<>> /\ mb[a] # <<>>
        /\ HandleUser(a, Head(mb[a]))
  /\ UNCHANGED <<cfg, pcfg, nops, nticks>>

-----------------------------------------------------------------------------
(* ---- one restartChild goroutine ----                                         *)
(* Defect "DWRace" (known finding StaleTerminatedDeletesLiveNode (C09, group tree)): the Shutdown embedded in the  *)
(* restart of a RUNNING actor sends Terminated to the death watch, whose handler        *)
(* deletes the actor's tree node whenever it gets to run -- possibly after              *)
(* restartSubtree has re-attached the node: the restarted actor is alive but no longer  *)
(* in the tree (not a sibling, not a child).                                            *)
(* Defect "ResurrectStopped" (finding PendingRestartResurrectsStopped, fixed): restartChild  *)
(* restarted its target whatever had happened to it since the decision -- a child stopped    *)
(* in the meantime (Stop directive of an overlapping failure, explicit stop during a long    *)
(* backoff delay) was re-initialised and re-attached.  Repaired: a dead target is skipped.   *)
LostSets(T, c) == IF "DWRace" \in Defects
                  THEN SUBSET {a \in {c} \cup KidsOf(c) : T.st[a] = "running" /\ T.intree[a]}
                  ELSE {{}}
RestartChild(i) ==
  /\ i \in 1..Len(rst)
  /\ LET r == rst[i] IN
     /\ rst' = [j \in 1..(Len(rst) - 1) |-> IF j < i THEN rst[j] ELSE rst[j + 1]]
     /\ IF \/ r.delay /\ S.st[r.par] # "running"             \* the parent went away during the delay
           \/ S.st[r.c] = "stopped" /\ "ResurrectStopped" \notin Defects   \* the child is no longer alive
        THEN /\ UNCHANGED <<S, mb, sys>>
             /\ out' = [op |-> "Restarted", c |-> r.c, res |-> "skip"]
        ELSE \E lost \in LostSets(S, r.c) :
             LET T0 == RestartTree(S, r.c)
                 T  == [T0 EXCEPT !.intree = [a \in Actors |-> T0.intree[a] /\ a \notin lost]] IN
             /\ S' = T
             /\ mb' = [a \in Actors |-> IF T.inc[a] # S.inc[a] /\ S.st[a] = "running" THEN <<>> ELSE mb[a]]
             /\ UNCHANGED sys
             /\ out' = [op |-> "Restarted", c |-> r.c, res |-> "ok"]
  /\ UNCHANGED <<now, sigq, cfg, pcfg, nops, nticks>>

-----------------------------------------------------------------------------
Internal == Consume \/ (\E a \in Actors : Turn(a)) \/ (\E i \in 1..Len(rst) : RestartChild(i))
Env == \/ \E a \in Faultable, e \in ErrTypes : EnvFault(a, e)
       \/ EnvTick
       \/ \E a \in Faultable : EnvReinstate(a)
Next == Internal \/ Env
Spec == Init /\ [][Next]_vars
=============================================================================
