----------------------------- MODULE SupOracle -----------------------------
(* C07 -- the OBSERVABLE CONTRACT of goakt supervision, as a sequential big-step    *)
(* function: Fail(S, a, e, X) is the family state after actor `a` failed with error *)
(* type `e` and every consequence of that failure has been carried out.             *)
(*                                                                                  *)
(* It is written from the property statement (directive lookup: typed, then         *)
(* any-error, then suspension; Stop / Restart / Resume / Escalate; one-for-all      *)
(* groups; restart budget inside a positive window) and is used                     *)
(*   - by the monitor SupMonitor.tla to judge recorded executions of the real code, *)
(*   - as the ghost "abs" of MC_Supervise.tla: the code-shaped asynchronous model   *)
(*     Supervise.tla must agree with it whenever the family is quiescent.           *)
(*                                                                                  *)
(* Family:  g  (top level)  --  p  --  Kids.   Kids share the supervisor `cfg`,     *)
(* p has `pcfg` (one any-error directive, and what its handler does with a          *)
(* PanicSignal: ignore it or fail itself), g only counts the PanicSignals it gets.  *)
EXTENDS Integers, Sequences, FiniteSets, TLC

CONSTANTS Kids,      \* names of the children of p
          Defects    \* named deviations of the real code from the ideal contract

Actors == Kids \cup {"p", "g"}
Par(a) == IF a \in Kids THEN "p" ELSE IF a = "p" THEN "g" ELSE "ug"
KidsOf(a) == {x \in Actors : Par(x) = a}

Dirs     == {"Stop", "Resume", "Restart", "Escalate"}
ErrTypes == {"A", "B", "P"}     \* ctx.Err(&ErrA{}), ctx.Err(&ErrB{}), panic(...) => PanicError
Keys     == ErrTypes \cup {"Any"}
EvKinds  == {"susp", "rein", "rest", "stop", "start"}

(* ---- supervisor.NewSupervisor / Supervisor.Directive -------------------------- *)
(* cfg: [strat, typed, ptyped, any, late, max, win, backoff, mix]                   *)
(*   mix     c2 is spawned with its own supervisor: same rules, the OTHER strategy   *)
(*           (the group, budget and window of a failure are those of the failing     *)
(*           child's supervisor)                                                     *)
(*   typed   directive registered for ErrA ("none" = not registered)                *)
(*   ptyped  directive for PanicError ("default" = the built-in Stop)               *)
(*   any     WithAnyErrorDirective ("none" = absent); it wipes every other rule     *)
(*   late    the ErrA rule is added with SetDirectiveByType AFTER construction      *)
(*           (the only way a typed rule and the any-error rule coexist)             *)
Base(c) == [k \in Keys |->
              IF k = "P" THEN (IF c.ptyped = "default" THEN "Stop" ELSE c.ptyped)
              ELSE IF k = "A" /\ ~c.late THEN c.typed
              ELSE "none"]
Table(c) == LET t1 == IF c.any # "none"
                      THEN [k \in Keys |-> IF k = "Any" THEN c.any ELSE "none"]
                      ELSE Base(c)
            IN IF c.late /\ c.typed # "none" THEN [t1 EXCEPT !["A"] = c.typed] ELSE t1
(* notifyParent: the rule of the error's own type, else the any-error rule, else   *)
(* "none" (= suspend).                                                             *)
Lookup(c, e) == LET t == Table(c) IN IF t[e] # "none" THEN t[e] ELSE t["Any"]

WinPos(c) == c.win \in {"short", "long"}

PCfgAsCfg(pc) == [strat |-> "one", typed |-> "none", ptyped |-> "default", any |-> pc.dir, late |-> FALSE,
                  max |-> 0, win |-> "zero", backoff |-> FALSE, mix |-> FALSE]
GCfg == [strat |-> "one", typed |-> "none", ptyped |-> "default", any |-> "Resume", late |-> FALSE,
         max |-> 0, win |-> "zero", backoff |-> FALSE, mix |-> FALSE]
Other(s) == IF s = "one" THEN "all" ELSE "one"
CfgOf(a, cfg, pcfg) == IF a = "c2" /\ cfg.mix THEN [cfg EXCEPT !.strat = Other(cfg.strat)]
                       ELSE IF a \in Kids THEN cfg ELSE IF a = "p" THEN PCfgAsCfg(pcfg) ELSE GCfg

(* ---- family state -------------------------------------------------------------- *)
(* S: [st, inc, rc, mk, flt, lf, ps, esc, intree, ev]  (functions on Actors)         *)
(*   st   running / suspended / stopped        inc  number of PreStart runs          *)
(*   rc   PID.RestartCount()                   mk   user-state marker (0 = fresh)    *)
(*   flt  consecutive fault counter            lf   time of the last recorded fault  *)
(*                                                  (0 = never; unit chosen by user) *)
(*   ps   number of PostStop runs              esc  PanicSignals received            *)
(*   intree  has a node in the actors tree     ev   lifecycle events since last op   *)
ZeroEv == [k \in EvKinds |-> 0]
InitS == [st  |-> [a \in Actors |-> "running"], inc |-> [a \in Actors |-> 1], rc |-> [a \in Actors |-> 0],
          mk  |-> [a \in Actors |-> 0], flt |-> [a \in Actors |-> 0], lf |-> [a \in Actors |-> 0],
          ps  |-> [a \in Actors |-> 0], esc |-> [a \in Actors |-> 0], intree |-> [a \in Actors |-> TRUE],
          ev  |-> [a \in Actors |-> ZeroEv]]
ClearEv(S) == [S EXCEPT !.ev = [a \in Actors |-> ZeroEv]]
Dirty(S)   == [S EXCEPT !.mk = [a \in Actors |-> IF S.st[a] = "running" THEN 1 ELSE S.mk[a]]]

FoldSet(Op(_, _), S, set) ==
  LET RECURSIVE it(_, _)
      it(T, s) == IF s = {} THEN T ELSE LET x == CHOOSE y \in s : TRUE IN it(Op(T, x), s \ {x})
  IN it(S, set)

Susp(S, a) == [S EXCEPT !.st[a] = "suspended", !.ev[a]["susp"] = @ + 1]

(* PID.Shutdown of one actor (its children are handled by the callers below).       *)
(* reset() zeroes the restart counter.                                              *)
ShutOne(S, m) ==
  IF S.st[m] = "stopped" THEN S
  ELSE [S EXCEPT !.st[m] = "stopped", !.rc[m] = 0, !.ps[m] = @ + 1, !.ev[m]["stop"] = @ + 1]
(* Shutdown of m: children first (freeChildren), they leave the tree.               *)
ShutTree(S, m) ==
  LET live == {k \in KidsOf(m) : S.st[k] # "stopped"}
      S1 == FoldSet(ShutOne, S, live)
      S2 == [S1 EXCEPT !.intree = [a \in Actors |-> IF a \in KidsOf(m) THEN FALSE ELSE S1.intree[a]]]
  IN IF S.st[m] = "stopped" THEN S ELSE ShutOne(S2, m)
(* Stop directive: Shutdown + deleteNode.                                            *)
StopMember(S, m) == LET S1 == ShutTree(S, m) IN [S1 EXCEPT !.intree[m] = FALSE]

(* restartSubtree of one node: a running actor is shut down first (PostStop, the    *)
(* restart counter is wiped by reset -- defect "RcReset": the ideal contract keeps  *)
(* counting), a suspended one is re-initialised in place; then PreStart runs again, *)
(* user state is fresh, the actor runs, the restart count is bumped.                *)
ReinitOne(S, m) ==
  LET shut == S.st[m] = "running"
      rc0  == IF S.st[m] = "suspended" \/ "RcReset" \notin Defects THEN S.rc[m] ELSE 0
      S1   == IF shut THEN [S EXCEPT !.ps[m] = @ + 1, !.ev[m]["stop"] = @ + 1] ELSE S
  IN [S1 EXCEPT !.st[m] = "running", !.inc[m] = @ + 1, !.mk[m] = 0, !.rc[m] = rc0 + 1,
                !.ev[m]["start"] = @ + 1, !.ev[m]["rest"] = @ + 1, !.intree[m] = TRUE]
(* PID.Restart: the live descendants are snapshotted first and restarted after m.   *)
(* Children of a RUNNING m are stopped by m's Shutdown (freeChildren) before being  *)
(* re-initialised.                                                                  *)
RestartTree(S, m) ==
  LET snap == {k \in KidsOf(m) : S.st[k] # "stopped" /\ S.intree[k]}
      S0 == IF S.st[m] = "running"
            THEN LET T == FoldSet(ShutOne, S, snap) IN
                 [T EXCEPT !.rc = [a \in Actors |-> IF a \in snap /\ "RcReset" \notin Defects THEN S.rc[a] ELSE T.rc[a]]]
            ELSE S
  IN FoldSet(ReinitOne, ReinitOne(S0, m), snap)

Siblings(S, a) == {x \in Actors : Par(x) = Par(a) /\ x # a /\ S.intree[x]}
Group(S, a, c) == IF c.strat = "all" THEN {a} \cup Siblings(S, a) ELSE {a}

SuspRunning(S, set) == FoldSet(LAMBDA T, m : IF T.st[m] = "running" THEN Susp(T, m) ELSE T, S, set)

(* recordFault for every group member at time t; X[m] = "the previous fault of m is *)
(* older than the window" (decided by the caller's clock).                          *)
Recorded(S, G, c, X, t) ==
  [S EXCEPT !.flt = [m \in Actors |-> IF m \in G
                                      THEN (IF WinPos(c) /\ S.lf[m] > 0 /\ X[m] THEN 0 ELSE S.flt[m]) + 1
                                      ELSE S.flt[m]],
            !.lf  = [m \in Actors |-> IF m \in G THEN t ELSE S.lf[m]]]

(* The failure of a with error type e, big step.                                    *)
RECURSIVE Fail(_, _, _, _, _, _, _)
Fail(S, a, e, X, t, cfg, pcfg) ==
  IF S.st[a] # "running" THEN S          \* not deliverable / signal of a non-running actor is dropped
  ELSE
  LET c == CfgOf(a, cfg, pcfg)
      d == Lookup(c, e)
      pa == Par(a)
      S1 == Susp(S, a)
      told == pa = "ug" \/ S.st[pa] = "running"     \* Tell(parent, Panicking) needs a running parent
  IN CASE d = "none"   -> S1
       [] d = "Resume" -> S
       [] ~told        -> S1
       [] d = "Stop"   -> FoldSet(StopMember, S1, Group(S1, a, c))
       [] d = "Restart" ->
            LET G  == Group(S1, a, c)
                S2 == Recorded(S1, G, c, X, t)
            IN IF c.max > 0 /\ WinPos(c) /\ S2.flt[a] > c.max
               THEN SuspRunning(S2, G \ {a})
               ELSE FoldSet(RestartTree, S2, G)
       [] d = "Escalate" ->
            IF pa = "ug" THEN S1
            ELSE LET S2 == [S1 EXCEPT !.esc[pa] = @ + 1] IN
                 IF pa = "p" /\ pcfg.onsig = "fail" THEN Fail(S2, "p", "A", X, t, cfg, pcfg) ELSE S2

(* PID.Reinstate(child) by the parent.                                              *)
Reinstated(S, a) ==
  IF S.st[Par(a)] = "running" /\ S.intree[a] /\ S.st[a] = "suspended"
  THEN [S EXCEPT !.st[a] = "running", !.ev[a]["rein"] = @ + 1] ELSE S

(* What an Ask(query) answers: the marker of a running actor, -1 otherwise.         *)
Answer(S, a) == IF S.st[a] = "running" THEN S.mk[a] ELSE -1
=============================================================================
