--------------------------- MODULE MC_SuperviseOv ---------------------------
(* Exploration of OVERLAPPING failures (the environment does not wait for quiescence). *)
(* The contract is applied per DECISION instead of per operation: the ghost `abs` takes *)
(* the sequential effect of a directive at the step where the real system commits to    *)
(* it (Consume for "none"/Resume, HandlePanicking for Stop / Restart), in that order.   *)
(* `(* The part of linearizability that the repaired code guarantees (finding                *)
(* PendingRestartResurrectsStopped): whoever the contract has stopped stays stopped --    *)
(* a restartChild goroutine still pending from an earlier decision does not bring it back. *)
NoResurrection == Quiet => \A a \in Kids : abs.st[a] = "stopped" => S.st[a] = "stopped"
Linearizable == Quiet => st/inc agree` then says: however the failures overlap, the *)
(* family ends up as if the decisions had been carried out one after the other.         *)
(* Children only (no escalation chains), markers and events are not compared.           *)
(* Known counterexamples are documented in docs/supervision.md (overlap section).       *)
EXTENDS Supervise

VARIABLE abs

AllDirs == Dirs \cup {"none"}
OvConfigs == {c \in [strat : {"one", "all"}, typed : {"Stop", "Restart", "Resume", "none"}, ptyped : {"default", "Restart"},
                     any : {"none"}, late : {FALSE}, max : {0, 1}, win : {"zero", "long"}, backoff : {FALSE}, mix : {FALSE}] :
                /\ (c.max = 1) = (c.win = "long")
                /\ ((c.typed # "Restart" /\ c.ptyped # "Restart") => c.max = 0)}
OvPConfigs == {[dir |-> "Stop", onsig |-> "ignore"]}
(* one-for-all groups in which one error type restarts and another one stops *)
OvStopConfigs == {c \in OvConfigs : c.strat = "all" /\ {c.typed, IF c.ptyped = "default" THEN "Stop" ELSE c.ptyped} = {"Stop", "Restart"}}

EnvFaultOv(a, e) ==
  /\ nops < MaxOps /\ nops' = nops + 1
  /\ S.st[a] = "running"
  /\ mb' = [mb EXCEPT ![a] = Append(@, [k |-> "Fault", e |-> e])]
  /\ out' = [op |-> "Fault", a |-> a, e |-> e, res |-> "ok"]
  /\ UNCHANGED <<S, now, sys, sigq, rst, cfg, pcfg, nticks>>

(* the sequential effect of directive d decided for c *)
Apply(T, c, d, strat) ==
  LET cc == CfgOf(c, cfg, pcfg)
      T1 == IF T.st[c] = "running" THEN Susp(T, c) ELSE T
      G  == Group(T1, c, [strat |-> strat])
  IN CASE d = "none"   -> T1
       [] d = "Resume" -> T
       [] d = "Stop"   -> FoldSet(StopMember, T1, G)
       [] d = "Restart" ->
            LET T2 == Recorded(T1, G, cc, Expired(T1, now, cc), now) IN
            IF cc.max > 0 /\ WinPos(cc) /\ T2.flt[c] > cc.max THEN SuspRunning(T2, G \ {c}) ELSE FoldSet(RestartTree, T2, G)
       [] OTHER -> T1

OvNext ==
  /\ \/ Internal
     \/ \E a \in Kids, e \in ErrTypes : EnvFaultOv(a, e)
  /\ abs' = CASE out'.op = "Consume" /\ out'.d \in {"none", "Resume"} /\ sigq' # sigq -> Apply(abs, out'.a, out'.d, "one")
              [] out'.op = "Panicking" /\ sys' # sys /\ sys[out'.a] # <<>> /\ Head(sys[out'.a]).k = "Panicking"
                   -> Apply(abs, out'.c, out'.d, out'.strat)
              [] OTHER -> abs
OvInit == Init /\ abs = InitS
OvSpec == OvInit /\ [][OvNext]_<<vars, abs>>

(* The part of linearizability that the repaired code guarantees (finding                *)
(* PendingRestartResurrectsStopped): whoever the contract has stopped stays stopped --    *)
(* a restartChild goroutine still pending from an earlier decision does not bring it back. *)
NoResurrection == Quiet => \A a \in Kids : abs.st[a] = "stopped" => S.st[a] = "stopped"
Linearizable == Quiet => (abs.st = S.st /\ abs.inc = S.inc)
OvView == <<S, now, mb, sys, sigq, rst, cfg, pcfg, nops, abs>>
=============================================================================
