SPECIFICATION MCSpec
CONSTANTS
  Kids = {"c1", "c2"}
  Defects = {"DWRace"}
  Configs <- MCConfigsQ
  PConfigs <- MCPConfigs
  Overlap = FALSE
  MaxOps = 2
  MaxTicks = 0
VIEW View
INVARIANTS Conforms
CHECK_DEADLOCK FALSE
