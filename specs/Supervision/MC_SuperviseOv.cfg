SPECIFICATION OvSpec
CONSTANTS
  Kids = {"c1", "c2"}
  Defects = {}
  Configs <- OvConfigs
  PConfigs <- OvPConfigs
  Overlap = TRUE
  MaxOps = 2
  MaxTicks = 0
VIEW OvView
INVARIANTS Linearizable
CHECK_DEADLOCK FALSE
