SPECIFICATION Spec
CONSTANTS
  Kids = {"c1", "c2"}
  Defects = {}
CHECK_DEADLOCK FALSE
