SPECIFICATION GSpec
CONSTANTS
  Kids = {"c1", "c2"}
  Defects = {}
  Configs <- SampleConfigs
  PConfigs <- SamplePConfigs
  Overlap = FALSE
  MaxOps = 4
  MaxTicks = 2
  Depth = 4
  PFault <- SampleConfigs
  Sym = FALSE
CONSTRAINT Emit
INVARIANTS Conforms
CHECK_DEADLOCK FALSE
