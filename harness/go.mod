module github.com/tochemey/goakt/v4/verifharness

go 1.26.0

require (
	github.com/flowchartsman/retry v1.2.0
	github.com/tochemey/goakt/v4 v4.0.0
	github.com/tochemey/olric v0.3.18
	google.golang.org/protobuf v1.36.12-0.20260120151049-f2248ac996af
)

require (
	github.com/RoaringBitmap/roaring/v2 v2.24.0 // indirect
	github.com/Workiva/go-datastructures v1.1.7 // indirect
	github.com/andybalholm/brotli v1.2.2 // indirect
	github.com/armon/go-metrics v0.4.1 // indirect
	github.com/bits-and-blooms/bitset v1.24.6 // indirect
	github.com/bytedance/gopkg v0.1.4 // indirect
	github.com/bytedance/sonic v1.15.2 // indirect
	github.com/bytedance/sonic/loader v0.5.2 // indirect
	github.com/cespare/xxhash/v2 v2.3.0 // indirect
	github.com/cloudwego/base64x v0.1.7 // indirect
	github.com/deckarep/golang-set/v2 v2.9.0 // indirect
	github.com/fxamacker/cbor/v2 v2.9.2 // indirect
	github.com/go-logr/logr v1.4.4 // indirect
	github.com/go-logr/stdr v1.2.2 // indirect
	github.com/google/btree v1.1.3 // indirect
	github.com/google/uuid v1.6.0 // indirect
	github.com/hashicorp/errwrap v1.1.0 // indirect
	github.com/hashicorp/go-immutable-radix v1.3.1 // indirect
	github.com/hashicorp/go-metrics v0.6.1 // indirect
	github.com/hashicorp/go-msgpack/v2 v2.1.5 // indirect
	github.com/hashicorp/go-multierror v1.1.1 // indirect
	github.com/hashicorp/go-sockaddr v1.0.7 // indirect
	github.com/hashicorp/golang-lru v1.0.2 // indirect
	github.com/hashicorp/logutils v1.0.0 // indirect
	github.com/hashicorp/memberlist v0.6.0 // indirect
	github.com/klauspost/compress v1.19.2 // indirect
	github.com/klauspost/cpuid/v2 v2.4.0 // indirect
	github.com/miekg/dns v1.1.72 // indirect
	github.com/mschoch/smat v0.2.0 // indirect
	github.com/pkg/errors v0.9.1 // indirect
	github.com/redis/go-redis/v9 v9.22.0 // indirect
	github.com/reugn/go-quartz v0.15.2 // indirect
	github.com/sean-/seed v0.0.0-20170313163322-e2103e2c3529 // indirect
	github.com/tidwall/btree v1.8.1 // indirect
	github.com/tidwall/match v1.2.0 // indirect
	github.com/tidwall/redcon v1.6.4 // indirect
	github.com/twitchyliquid64/golang-asm v0.15.1 // indirect
	github.com/vmihailenco/msgpack/v5 v5.4.1 // indirect
	github.com/vmihailenco/tagparser/v2 v2.0.0 // indirect
	github.com/x448/float16 v0.8.4 // indirect
	github.com/zeebo/xxh3 v1.1.0 // indirect
	go.etcd.io/bbolt v1.5.0 // indirect
	go.mongodb.org/mongo-driver v1.17.9 // indirect
	go.opentelemetry.io/auto/sdk v1.2.1 // indirect
	go.opentelemetry.io/otel v1.45.0 // indirect
	go.opentelemetry.io/otel/metric v1.45.0 // indirect
	go.opentelemetry.io/otel/trace v1.45.0 // indirect
	go.uber.org/atomic v1.11.0 // indirect
	go.uber.org/multierr v1.11.0 // indirect
	go.uber.org/zap v1.28.0 // indirect
	golang.org/x/arch v0.29.0 // indirect
	golang.org/x/net v0.57.0 // indirect
	golang.org/x/sync v0.22.0 // indirect
	golang.org/x/sys v0.47.0 // indirect
)

replace github.com/tochemey/goakt/v4 => /repo
