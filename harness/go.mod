module github.com/tochemey/goakt/v4/verifharness

go 1.26.0

require github.com/tochemey/goakt/v4 v4.0.0

replace github.com/tochemey/goakt/v4 => /repo
