// Package sched is the "puppet scheduler": it turns goakt's verifhook call
// sites into gates so that a driver can execute a TLC-generated behaviour on the
// real objects, one atomic step of one logical thread at a time.
//
// A logical thread is a goroutine started with (*Sched).Go. Every time such a
// goroutine reaches verifhook.At on a *controlled* object (or calls Yield itself)
// it parks; Step(name) lets it perform the step it is parked in front of and run
// until it parks again or finishes. Goroutines that are not logical threads, and
// hooks on objects that are not controlled, pass through untouched.
package sched

import (
	"bytes"
	"fmt"
	"runtime"
	"strconv"
	"sync"
	"time"

	"github.com/tochemey/goakt/v4/internal/verifhook"
)

// Pending describes where a logical thread is parked.
type Pending struct {
	Point string // hook name; "" when Done
	A, B  int64
	Obj   any
	Done  bool // thread function returned
}

func (p Pending) String() string {
	if p.Done {
		return "<done>"
	}
	return fmt.Sprintf("%s(%d,%d)", p.Point, p.A, p.B)
}

type thread struct {
	name    string
	gid     uint64
	resume  chan struct{}
	parked  chan Pending // thread -> scheduler: parked at / done
	cur     Pending
	running bool
	done    bool
	adopted bool // goroutine started by the code under test: it may end without telling us
}

// Observer is called for every hook hit on a controlled object (gated or not),
// under the scheduler lock, before the thread parks. thread is "" for goroutines
// that are not logical threads.
type Observer func(thread, point string, obj any, a, b int64)

// Sched implements verifhook.Handler.
type Sched struct {
	mu         sync.Mutex
	threads    map[string]*thread
	byGid      map[uint64]*thread
	controlled map[any]bool
	all        bool // control every object
	free       bool // gates open
	faults     map[string][]int
	Watchdog   time.Duration
	Obs        Observer
	skip       map[string]bool // hook points that never gate
	only       map[string]bool // if non-empty: only these points gate
	adopt      map[string]string // hook point -> name prefix: unknown goroutines reaching it become logical threads
	detach     map[string]bool   // hook points at which an adopted thread leaves control (reported as Done)
	nadopt     int
	adopted    chan string
}

// New creates a scheduler and installs it as the verifhook handler.
func New() *Sched {
	s := &Sched{
		threads:    map[string]*thread{},
		byGid:      map[uint64]*thread{},
		controlled: map[any]bool{},
		faults:     map[string][]int{},
		// observation-only hook points of other groups (never gates): wire.alloc is the frame-buffer request
		// recorded by the wirecodec driver; it sits on every remoting path
		skip:       map[string]bool{"wire.alloc": true},
		only:       map[string]bool{},
		adopt:      map[string]string{},
		detach:     map[string]bool{},
		adopted:    make(chan string, 1024),
		Watchdog:   5 * time.Second,
	}
	verifhook.Install(s)
	return s
}

// Close opens all gates and uninstalls the handler.
func (s *Sched) Close() {
	s.FreeRun()
	verifhook.Uninstall()
}

// Control registers obj (a pointer) as controlled.
func (s *Sched) Control(obj any) { s.mu.Lock(); s.controlled[obj] = true; s.mu.Unlock() }

// ControlAll gates hooks on every object.
func (s *Sched) ControlAll() { s.mu.Lock(); s.all = true; s.mu.Unlock() }

// SkipPoints marks hook points that are observed but never gate.
func (s *Sched) SkipPoints(points ...string) {
	s.mu.Lock()
	for _, p := range points {
		s.skip[p] = true
	}
	s.mu.Unlock()
}

// OnlyPoints restricts gating to the given points (others are observed only).
func (s *Sched) OnlyPoints(points ...string) {
	s.mu.Lock()
	for _, p := range points {
		s.only[p] = true
	}
	s.mu.Unlock()
}

// AdoptAt makes goroutines the harness did not start (goakt's dispatcher workers)
// logical threads: the first time such a goroutine reaches hook `point` on a
// controlled object it is registered as "<prefix><n>" (n = 1, 2, ... in arrival
// order), parks there, and its name is delivered to WaitAdopted.
func (s *Sched) AdoptAt(point, prefix string) { s.mu.Lock(); s.adopt[point] = prefix; s.mu.Unlock() }

// DetachAt marks a hook point at which a logical thread leaves control: the
// thread is reported as Done to its stepper and its goroutine continues freely
// (it may be adopted again later under a new name).
func (s *Sched) DetachAt(points ...string) {
	s.mu.Lock()
	for _, p := range points {
		s.detach[p] = true
	}
	s.mu.Unlock()
}

// WaitAdopted waits for the next adopted thread and returns its name.
func (s *Sched) WaitAdopted(d time.Duration) (string, bool) {
	select {
	case n := <-s.adopted:
		return n, true
	case <-time.After(d):
		return "", false
	}
}

// ScriptFault queues fault decisions returned by verifhook.Fault at point (FIFO).
func (s *Sched) ScriptFault(point string, decisions ...int) {
	s.mu.Lock()
	s.faults[point] = append(s.faults[point], decisions...)
	s.mu.Unlock()
}

func gid() uint64 {
	var buf [64]byte
	b := buf[:runtime.Stack(buf[:], false)]
	// "goroutine 123 [running]:"
	b = bytes.TrimPrefix(b, []byte("goroutine "))
	i := bytes.IndexByte(b, ' ')
	n, _ := strconv.ParseUint(string(b[:i]), 10, 64)
	return n
}

// Gid returns the calling goroutine's id (harness-side observation only).
func Gid() uint64 { return gid() }

// ErrWatchdog is returned when a released thread neither parks nor finishes.
type ErrWatchdog struct{ Thread string }

func (e ErrWatchdog) Error() string { return "watchdog: thread " + e.Thread + " did not park or finish" }

// Go starts fn as logical thread name and waits until it parks at its first gate
// or finishes.
func (s *Sched) Go(name string, fn func()) (Pending, error) {
	t := &thread{name: name, resume: make(chan struct{}), parked: make(chan Pending, 1)}
	s.mu.Lock()
	if _, dup := s.threads[name]; dup {
		s.mu.Unlock()
		return Pending{}, fmt.Errorf("duplicate thread %q", name)
	}
	s.threads[name] = t
	t.running = true
	s.mu.Unlock()
	registered := make(chan struct{})
	go func() {
		g := gid()
		s.mu.Lock()
		t.gid = g
		s.byGid[g] = t
		s.mu.Unlock()
		close(registered)
		defer func() {
			s.mu.Lock()
			t.done = true
			delete(s.byGid, g)
			s.mu.Unlock()
			t.parked <- Pending{Done: true}
		}()
		fn()
	}()
	<-registered
	return s.await(t)
}

func (s *Sched) await(t *thread) (Pending, error) {
	select {
	case p := <-t.parked:
		s.mu.Lock()
		t.cur = p
		t.running = false
		s.mu.Unlock()
		return p, nil
	case <-time.After(s.Watchdog):
		return Pending{}, ErrWatchdog{t.name}
	}
}

// Pending returns where thread name is parked.
func (s *Sched) Pending(name string) (Pending, bool) {
	s.mu.Lock()
	defer s.mu.Unlock()
	t, ok := s.threads[name]
	if !ok {
		return Pending{}, false
	}
	return t.cur, !t.running
}

// Step releases thread name for exactly one step and waits until it parks again
// or finishes.
func (s *Sched) Step(name string) (Pending, error) {
	s.mu.Lock()
	t, ok := s.threads[name]
	if !ok {
		s.mu.Unlock()
		return Pending{}, fmt.Errorf("unknown thread %q", name)
	}
	if t.done || t.cur.Done {
		s.mu.Unlock()
		return Pending{Done: true}, fmt.Errorf("thread %q already finished", name)
	}
	if t.running {
		s.mu.Unlock()
		return Pending{}, fmt.Errorf("thread %q is running", name)
	}
	t.running = true
	s.mu.Unlock()
	t.resume <- struct{}{}
	return s.await(t)
}

// Release lets thread name run without waiting for it to park (used for steps
// that block inside the code until another thread acts). Follow with Await.
func (s *Sched) Release(name string) error {
	s.mu.Lock()
	t, ok := s.threads[name]
	if !ok || t.done || t.running {
		s.mu.Unlock()
		return fmt.Errorf("cannot release %q", name)
	}
	t.running = true
	s.mu.Unlock()
	t.resume <- struct{}{}
	return nil
}

// Await waits for a thread released with Release to park or finish.
func (s *Sched) Await(name string) (Pending, error) {
	s.mu.Lock()
	t, ok := s.threads[name]
	s.mu.Unlock()
	if !ok {
		return Pending{}, fmt.Errorf("unknown thread %q", name)
	}
	return s.await(t)
}

// TryAwait is Await with a custom (short) timeout; ok=false means still running.
func (s *Sched) TryAwait(name string, d time.Duration) (Pending, bool) {
	s.mu.Lock()
	t, ok := s.threads[name]
	s.mu.Unlock()
	if !ok {
		return Pending{}, false
	}
	select {
	case p := <-t.parked:
		s.mu.Lock()
		t.cur = p
		t.running = false
		s.mu.Unlock()
		return p, true
	case <-time.After(d):
		return Pending{}, false
	}
}

// FreeRun opens all gates for good: parked threads continue, later hooks pass.
func (s *Sched) FreeRun() {
	s.mu.Lock()
	if s.free {
		s.mu.Unlock()
		return
	}
	s.free = true
	var parked []*thread
	for _, t := range s.threads {
		if !t.running && !t.done && !t.cur.Done {
			t.running = true
			parked = append(parked, t)
		}
	}
	s.mu.Unlock()
	for _, t := range parked {
		t.resume <- struct{}{}
	}
}

// Join waits (bounded) for all logical threads to finish after FreeRun.
func (s *Sched) Join(d time.Duration) bool {
	deadline := time.Now().Add(d)
	for {
		s.mu.Lock()
		all := true
		for _, t := range s.threads {
			if !t.done && !(t.adopted && s.free) { // once the gates are open an adopted goroutine is on its own
				all = false
			}
		}
		s.mu.Unlock()
		if all {
			return true
		}
		if time.Now().After(deadline) {
			return false
		}
		time.Sleep(time.Millisecond)
	}
}

func (s *Sched) park(t *thread, p Pending) {
	t.parked <- p
	<-t.resume
}

// Yield is a driver-side gate: a logical thread calls it to create a step
// boundary of its own (e.g. "call"/"ret" of a public operation).
func (s *Sched) Yield(point string, a, b int64) {
	g := gid()
	s.mu.Lock()
	t := s.byGid[g]
	if s.Obs != nil {
		name := ""
		if t != nil {
			name = t.name
		}
		s.Obs(name, point, nil, a, b)
	}
	pass := s.free || s.skip[point]
	s.mu.Unlock()
	if t == nil || pass {
		return
	}
	s.park(t, Pending{Point: point, A: a, B: b})
}

// At implements verifhook.Handler.
func (s *Sched) At(point string, obj any, a, b int64) {
	s.mu.Lock()
	if !s.all && !s.controlled[obj] {
		s.mu.Unlock()
		return
	}
	g := gid()
	t := s.byGid[g]
	if t == nil && !s.free {
		if prefix, ok := s.adopt[point]; ok {
			s.nadopt++
			t = &thread{name: prefix + strconv.Itoa(s.nadopt), gid: g, resume: make(chan struct{}), parked: make(chan Pending, 1), adopted: true}
			t.cur = Pending{Point: point, A: a, B: b, Obj: obj}
			s.threads[t.name] = t
			s.byGid[g] = t
			if s.Obs != nil {
				s.Obs(t.name, point, obj, a, b)
			}
			s.mu.Unlock()
			s.adopted <- t.name
			<-t.resume
			return
		}
	}
	if s.Obs != nil {
		name := ""
		if t != nil {
			name = t.name
		}
		s.Obs(name, point, obj, a, b)
	}
	if t != nil && s.detach[point] {
		t.done = true
		delete(s.byGid, g)
		s.mu.Unlock()
		t.parked <- Pending{Done: true, Point: point}
		return
	}
	gate := t != nil && !s.free && !s.skip[point] && (len(s.only) == 0 || s.only[point])
	s.mu.Unlock()
	if !gate {
		return
	}
	s.park(t, Pending{Point: point, A: a, B: b, Obj: obj})
}

// Fault implements verifhook.Handler.
func (s *Sched) Fault(point string, obj any, a int64) int {
	s.mu.Lock()
	defer s.mu.Unlock()
	q := s.faults[point]
	if len(q) == 0 {
		return 0
	}
	d := q[0]
	s.faults[point] = q[1:]
	return d
}
