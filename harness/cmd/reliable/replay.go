package main

import (
	"fmt"

	"github.com/tochemey/goakt/v4/actor"
)

// Step is one step of a TLC-generated behaviour (specs/Reliable/Gen_*.tla).
type Step struct {
	A   string `json:"a"`
	W   string `json:"w"`
	M   abs    `json:"m"`
	PC  any    `json:"pc"`
	CC  any    `json:"cc"`
	Out []abs  `json:"out"`
}

type replayStats struct {
	Behaviours   int      `json:"behaviours"`
	Steps        int      `json:"steps"`
	DrainSteps   int      `json:"drain_steps"`
	Lines        int64    `json:"lines"`
	PredMismatch int      `json:"pred_mismatch"`
	FirstPred    string   `json:"first_pred_mismatch,omitempty"`
	Unmatched    int      `json:"unmatched_steps"`
	Undrained    int      `json:"undrained"`
	Completed    int      `json:"completed"`
	Stray        int      `json:"stray_events"`
	Notes        []string `json:"notes,omitempty"`
	Deliveries   int      `json:"deliveries"`
}

func (f *Flow) emit(ev abs) { f.h.w.Raw(ev) }

func (f *Flow) snapshot(who string, c *Consumer, ctl any) abs {
	switch p := ctl.(type) {
	case pcProjector:
		f.pSnap = f.projectPC(p.VerifState())
		return f.pSnap
	case wpProjector:
		f.pSnap = f.projectWP(p.VerifState())
		return f.pSnap
	case ccProjector:
		c.snap = f.projectCC(c, p.VerifState())
		return c.snap
	}
	return abs{}
}

// classify resolves the role of a captured tell and computes its abstraction.
func (f *Flow) classify(env *Envelope) {
	if env.ToRole == "obs" {
		if env.FromRole == "" {
			env.FromRole = "cc"
		}
		env.Abs = env.Msg.(abs)
		return
	}
	switch {
	case (f.prod != nil && env.To.Equals(f.prod)) || env.To.Name() == f.prodName:
		env.FromRole, env.ToRole = "pc", "p"
		env.Abs = f.abstract(env.Msg, nil, false)
	case f.pctl != nil && env.To.Equals(f.pctl):
		c := f.consumerByCtl(env.From)
		env.FromRole, env.ToRole = "cc", "pc"
		if c != nil {
			env.W = c.name
			env.Abs = f.abstract(env.Msg, c, true)
		}
	default:
		if c := f.consumerByCtl(env.To); c != nil {
			env.FromRole, env.ToRole, env.W = "pc", "cc", c.name
			env.Abs = f.abstract(env.Msg, c, false)
		} else if c := f.consumerByEP(env.To); c != nil {
			env.FromRole, env.ToRole, env.W = "cc", "c", c.name
			env.Abs = f.abstract(env.Msg, c, false)
		}
	}
	if env.Abs == nil {
		env.Abs = abs{"t": "Unroutable", "go": fmt.Sprintf("%T", env.Msg)}
		env.ToRole = "nowhere"
	}
}

// settle logs and routes what a controller handed to its tell helper while it
// handled one message: network legs go into the bags, local legs are handled by
// the endpoint at once (its reply is queued on the FIFO leg back).
func (f *Flow) settle(who string, c *Consumer, in abs, ctl any) error {
	w := ""
	if c != nil {
		w = c.name
	}
	f.emit(abs{"e": "begin", "who": who, "w": w, "m": in})
	raw := f.raw
	f.raw = nil
	f.stepOut = nil
	for _, env := range raw {
		f.classify(env)
		ew := env.W
		if ew == "" {
			ew = w
		}
		f.emit(abs{"e": "send", "from": env.FromRole, "to": env.ToRole, "w": ew, "m": env.Abs})
		out := abs{"to": env.ToRole, "m": env.Abs}
		if f.kind == "wp" && who == "pc" {
			switch env.ToRole {
			case "cc":
				out["w"] = env.W
			case "obs":
				out["w"] = w
			default:
				out["w"] = ""
			}
		}
		f.stepOut = append(f.stepOut, out)
	}
	st := f.snapshot(who, c, ctl)
	f.emit(abs{"e": "end", "who": who, "w": w, "m": in, "st": st})
	for _, env := range raw {
		switch env.ToRole {
		case "p", "c":
			if err := env.From.Tell(f.h.ctx, env.To, env.Msg); err != nil {
				continue // endpoint gone
			}
			if err := f.h.waitEndpoint(); err != nil {
				if !env.To.IsRunning() {
					continue
				}
				return err
			}
		case "pc":
			cc := f.cons[env.W]
			cc.c2p = append(cc.c2p, env)
		case "cc":
			cc := f.cons[env.W]
			cc.p2c = append(cc.p2c, env)
		}
	}
	return nil
}

// handle makes controller `target` handle msg and waits until it is done.
func (f *Flow) handle(target *actor.PID, who string, c *Consumer, sender *actor.PID, msg any, in abs) error {
	f.raw = nil
	var err error
	if sender != nil {
		err = sender.Tell(f.h.ctx, target, msg)
	} else {
		err = actor.Tell(f.h.ctx, target, msg)
	}
	if err != nil {
		f.lost(who, c, in)
		return nil // the target is gone: the message is lost
	}
	ev, err := f.h.waitRecvFrom(target, func(ev recvEvent) bool { return ev.self.Equals(target) && ev.msg == msg })
	if err == errGone {
		f.lost(who, c, in)
		return nil
	}
	if err != nil {
		return err
	}
	return f.settle(who, c, in, ev.ctl)
}

// lost: a controller that stopped (terminal failure, endpoint shut down) receives nothing any more
func (f *Flow) lost(who string, c *Consumer, in abs) {
	w := ""
	if c != nil {
		w = c.name
	}
	f.raw = nil
	f.stepOut = nil
	f.emit(abs{"e": "lost", "who": who, "w": w, "m": in})
}

func take(bag *[]*Envelope, m abs) *Envelope {
	for i, env := range *bag {
		if same(env.Abs, m) {
			*bag = append((*bag)[:i:i], (*bag)[i+1:]...)
			return env
		}
	}
	return nil
}

func netChannel(c *Consumer, m abs) *[]*Envelope {
	switch m["t"] {
	case "Register", "Request", "Ack":
		return &c.c2p
	default:
		return &c.p2c
	}
}

func stripW(m abs) abs {
	out := abs{}
	for k, v := range m {
		if k != "w" {
			out[k] = v
		}
	}
	return out
}

// exec executes one model step on the real system. matched=false: the real
// system cannot take the step (the model and the code have diverged).
func (f *Flow) exec(s Step) (matched bool, err error) {
	wname := s.W
	if wname == "" {
		wname = f.order[0]
	}
	c := f.cons[wname]
	switch s.A {
	case "PCRecvNet":
		env := take(&c.c2p, s.M)
		if env == nil {
			return false, nil
		}
		return true, f.handle(f.pctl, "pc", c, env.From, env.Msg, env.Abs)
	case "PCRecvLocal":
		if len(f.fromP) == 0 || !same(f.fromP[0].Abs, s.M) {
			return false, nil
		}
		env := f.fromP[0]
		f.fromP = f.fromP[1:]
		return true, f.handle(f.pctl, "pc", nil, env.From, env.Msg, env.Abs)
	case "TickPC":
		return true, f.handle(f.pctl, "pc", nil, nil, f.pctl.Actor().(ticker).VerifTick(), abs{"t": "Tick"})
	case "CCRecvNet":
		env := take(&c.p2c, s.M)
		if env == nil {
			return false, nil
		}
		return true, f.handle(c.ctl, "cc", c, env.From, env.Msg, env.Abs)
	case "CCRecvLocal":
		if len(c.fromC) == 0 || !same(c.fromC[0].Abs, s.M) {
			return false, nil
		}
		env := c.fromC[0]
		c.fromC = c.fromC[1:]
		return true, f.handle(c.ctl, "cc", c, env.From, env.Msg, env.Abs)
	case "TickCC":
		return true, f.handle(c.ctl, "cc", c, nil, c.ctl.Actor().(ticker).VerifTick(), abs{"t": "Tick"})
	case "ElapseGap":
		c.ctl.Actor().(gapElapser).VerifElapseGapLimit()
		if c.snap != nil {
			c.snap["gapLim"] = false
		}
		f.stepOut = nil
		return true, nil
	case "Drop":
		f.stepOut = nil
		return take(netChannel(c, s.M), s.M) != nil, nil
	case "Dup":
		f.stepOut = nil
		ch := netChannel(c, s.M)
		for _, env := range *ch {
			if same(env.Abs, s.M) {
				cp := *env
				*ch = append(*ch, &cp)
				return true, nil
			}
		}
		return false, nil
	case "Join":
		return true, f.join(c)
	case "Leave":
		return true, f.leave(c)
	}
	return false, infraError{"unknown action " + s.A}
}

// complete: every offered message was produced, confirmed by the consumer side
// and reported to the producer endpoint exactly once.
func (f *Flow) complete() bool {
	if f.produced != f.n {
		return false
	}
	for k := 1; k <= f.n; k++ {
		if f.dconf[k] != 1 {
			return false
		}
	}
	return true
}

// drain continues the execution without faults: everything in flight is
// delivered (oldest first), then one resend interval passes (gap limit expires,
// both controllers tick), until the flow is complete or nothing helps.
func (f *Flow) drain(stats *replayStats) (bool, error) {
	maxRounds := 12 + 4*f.n
	// fairness of the work-pulling model: a worker that is going to join does join
	for _, name := range f.order {
		if c := f.cons[name]; f.kind == "wp" && c.ep == nil {
			if _, err := f.exec(Step{A: "Join", W: name}); err != nil {
				return false, err
			}
		}
	}
	for round := 0; round < maxRounds; round++ {
		for guard := 0; ; guard++ {
			if guard > 20000 {
				return false, infraError{"drain: message storm"}
			}
			progressed := false
			if len(f.fromP) > 0 {
				if _, err := f.exec(Step{A: "PCRecvLocal", M: f.fromP[0].Abs}); err != nil {
					return false, err
				}
				progressed = true
			}
			for _, name := range f.order {
				c := f.cons[name]
				if !c.alive {
					continue
				}
				switch {
				case len(c.fromC) > 0:
					_, err := f.exec(Step{A: "CCRecvLocal", W: name, M: c.fromC[0].Abs})
					if err != nil {
						return false, err
					}
				case len(c.p2c) > 0:
					_, err := f.exec(Step{A: "CCRecvNet", W: name, M: c.p2c[0].Abs})
					if err != nil {
						return false, err
					}
				case len(c.c2p) > 0:
					_, err := f.exec(Step{A: "PCRecvNet", W: name, M: c.c2p[0].Abs})
					if err != nil {
						return false, err
					}
				default:
					continue
				}
				progressed = true
			}
			if !progressed {
				break
			}
			stats.DrainSteps++
		}
		if f.complete() {
			return true, nil
		}
		for _, name := range f.order {
			c := f.cons[name]
			if !c.alive {
				continue
			}
			if _, err := f.exec(Step{A: "ElapseGap", W: name}); err != nil {
				return false, err
			}
			if _, err := f.exec(Step{A: "TickCC", W: name}); err != nil {
				return false, err
			}
		}
		if _, err := f.exec(Step{A: "TickPC"}); err != nil {
			return false, err
		}
	}
	return f.complete(), nil
}

func (f *Flow) finLine(done bool) {
	dconf := make([]int, f.n)
	for k := 1; k <= f.n; k++ {
		dconf[k-1] = f.dconf[k]
	}
	delivs := abs{}
	for name, c := range f.cons {
		delivs[name] = append([]int{}, c.delivs...)
	}
	notes := f.notes
	if notes == nil {
		notes = []string{}
	}
	// free: a free-running flow that did not finish inside its wall-clock limit is inconclusive, not a verdict
	f.emit(abs{"e": "fin", "done": done, "free": f.free, "produced": f.produced, "n": f.n, "dconf": dconf, "delivs": delivs, "notes": notes})
}
