package main

import (
	"math/rand"
	"strings"
	"time"

	"github.com/tochemey/goakt/v4/actor"
)

// Work-pulling flows: one work-pulling producer controller, workers that join
// (spawn) and leave (real Shutdown of the worker endpoint).

var workerNames []string // every worker name of the model, e.g. w1,w2,w3

func noBinding() abs {
	return abs{"on": false, "nonce": 0, "cur": 0, "conf": 0, "dem": 0, "unc": []abs{}}
}

func (f *Flow) consumerByEpName(ep string) *Consumer {
	for _, c := range f.cons {
		if c.epName == ep {
			return c
		}
	}
	return nil
}

func (f *Flow) projectWP(s actor.VerifWorkPullingState) abs {
	f.sessOK(s.SessionID)
	b := abs{}
	for _, name := range workerNames {
		b[name] = noBinding()
	}
	ord := []string{}
	for _, bs := range s.Bindings {
		c := f.consumerByEpName(bs.EndpointName)
		if c == nil {
			continue
		}
		unc := make([]abs, 0, len(bs.UnconfirmedSeqs))
		for i := range bs.UnconfirmedSeqs {
			unc = append(unc, abs{"seq": bs.UnconfirmedSeqs[i], "id": idNum(bs.UnconfirmedIDs[i]), "sseq": bs.UnconfirmedStore[i]})
		}
		b[c.name] = abs{"on": true, "nonce": c.nonceNum(bs.RegistrationNonce, false), "cur": bs.CurrentSeq, "conf": bs.ConfirmedSeq,
			"dem": bs.DemandUpTo, "unc": unc}
		ord = append(ord, c.name)
	}
	pend := make([]abs, 0, len(s.PendingIDs))
	for i := range s.PendingIDs {
		pend = append(pend, abs{"id": idNum(s.PendingIDs[i]), "sseq": s.PendingStoreSeqs[i]})
	}
	return abs{"sseq": s.StoreSeq, "pend": pend, "b": b, "ord": ord, "nw": s.NextWorker, "hs": s.Handshake,
		"tok": f.tokNum(s.Token), "tokCtr": len(f.tokens), "pid": idNum(s.PendingMessageID), "pseq": s.PendingStoreSeq,
		"lastTok": f.tokNum(s.LastCompletedToken), "lastId": idNum(s.LastCompletedMessageID), "failed": s.Failed}
}

func (f *Flow) startWP(initial []string) error {
	for _, name := range workerNames {
		f.addConsumer(name)
	}
	if err := f.spawnProducer(longInterval); err != nil {
		return err
	}
	ev, err := f.h.waitRecv(func(ev recvEvent) bool { _, ok := ev.msg.(*actor.PostStart); return ok && ev.self.Equals(f.pctl) })
	if err != nil {
		return err
	}
	if err := f.settle("pc", nil, abs{"t": "PostStart"}, ev.ctl); err != nil {
		return err
	}
	for _, name := range initial {
		if err := f.join(f.cons[name]); err != nil {
			return err
		}
	}
	return nil
}

func (f *Flow) join(c *Consumer) error {
	f.emit(abs{"e": "join", "w": c.name})
	if err := f.spawnConsumer(c, longInterval); err != nil {
		return err
	}
	ev, err := f.h.waitRecv(func(ev recvEvent) bool { _, ok := ev.msg.(*actor.PostStart); return ok && ev.self.Equals(c.ctl) })
	if err != nil {
		return err
	}
	return f.settle("cc", c, abs{"t": "PostStart", "up": true}, ev.ctl)
}

func (f *Flow) bound(name string) bool {
	b, _ := f.pSnap["b"].(abs)
	e, _ := b[name].(abs)
	on, _ := e["on"].(bool)
	return on
}

func (f *Flow) leave(c *Consumer) error {
	f.emit(abs{"e": "leave", "w": c.name})
	bound := f.bound(c.name)
	c.alive = false
	f.raw = nil
	_ = c.ep.Shutdown(f.h.ctx)
	c.c2p, c.p2c, c.fromC = nil, nil, nil
	f.stepOut = nil
	if !bound {
		return nil // no binding, no death watch: the controller is not told
	}
	ev, err := f.h.waitRecv(func(ev recvEvent) bool { _, ok := ev.msg.(*actor.Terminated); return ok && ev.self.Equals(f.pctl) })
	if err != nil {
		return err
	}
	return f.settle("pc", c, abs{"t": "Terminated"}, ev.ctl)
}

// freeWP: free-running work-pulling flow with workers joining and leaving.
func (f *Flow) freeWP(rng *rand.Rand, resend, retry time.Duration) bool {
	for _, name := range workerNames {
		f.addConsumer(name)
	}
	must(f.spawnProducer(retry))
	spawn := func(name string) {
		c := f.cons[name]
		f.mu.Lock()
		free.spawning = c
		f.emit(abs{"e": "join", "w": name})
		f.mu.Unlock()
		must(f.spawnConsumerFree(c, resend))
	}
	spawn(workerNames[0])
	late := append([]string{}, workerNames[1:]...)
	leaver := ""
	if len(workerNames) > 1 && rng.Intn(4) > 0 {
		leaver = workerNames[rng.Intn(len(workerNames)-1)] // never the last one: somebody stays
	}
	joinAt := make([]time.Duration, len(late))
	for i := range late {
		joinAt[i] = time.Duration(rng.Intn(60)) * time.Millisecond
	}
	leaveAt := time.Duration(20+rng.Intn(80)) * time.Millisecond
	start := time.Now()
	deadline := start.Add(8 * time.Second)
	for time.Now().Before(deadline) {
		el := time.Since(start)
		for i, name := range late {
			if name != "" && el >= joinAt[i] {
				spawn(name)
				late[i] = ""
			}
		}
		if leaver != "" && el >= leaveAt {
			f.mu.Lock()
			c := f.cons[leaver]
			up := c.alive
			if up {
				f.emit(abs{"e": "leave", "w": leaver})
				c.alive = false
			}
			f.mu.Unlock()
			if up {
				_ = c.ep.Shutdown(f.h.ctx)
				leaver = ""
			} else if c.ep == nil {
				// not spawned yet: leave later
			}
		}
		f.mu.Lock()
		ok := f.complete()
		f.mu.Unlock()
		if ok && allSpawned(late) {
			return true
		}
		time.Sleep(2 * time.Millisecond)
	}
	return false
}

func allSpawned(late []string) bool { return strings.Join(late, "") == "" }
