package main

import (
	"encoding/json"
	"fmt"
	"os"
	"strconv"
	"strings"

	"github.com/tochemey/goakt/v4/actor"
	"github.com/tochemey/goakt/v4/verifharness/vtrace"
)

func usage() {
	fmt.Fprintln(os.Stderr, `usage:
  reliable p2p-replay <behaviours.ndjson> <trace.ndjson> <window> <n>
  reliable p2p-free   <trace.ndjson> <window> <n> <seed> <runs>
  reliable wp-replay  <behaviours.ndjson> <trace.ndjson> <window> <n>
  reliable wp-free    <trace.ndjson> <window> <n> <seed> <runs>
  reliable p2pch-replay / p2pch-free: as p2p with chunking on (WithReliableChunking(1024))
environment: VERIF_WORKERS=w1,w2,w3 (model worker names, wp modes)
             VERIF_CHUNKS=2,1,2     (chunks per message, p2pch modes; n = number of entries)`)
	os.Exit(2)
}

func envOr(k, d string) string {
	if v := os.Getenv(k); v != "" {
		return v
	}
	return d
}

func atoi(s string) int {
	n, err := strconv.Atoi(s)
	must(err)
	return n
}

func main() {
	if len(os.Args) < 2 {
		usage()
	}
	workerNames = strings.Split(envOr("VERIF_WORKERS", "w1,w2"), ",")
	for _, c := range strings.Split(envOr("VERIF_CHUNKS", ""), ",") {
		if c != "" {
			chunkPattern = append(chunkPattern, atoi(c))
		}
	}
	switch os.Args[1] {
	case "p2p-replay", "wp-replay", "p2pch-replay":
		if len(os.Args) != 6 {
			usage()
		}
		replay(os.Args[1][:len(os.Args[1])-7], os.Args[2], os.Args[3], atoi(os.Args[4]), atoi(os.Args[5]))
	case "p2p-free", "wp-free", "p2pch-free":
		if len(os.Args) != 7 {
			usage()
		}
		freeRuns(os.Args[1][:len(os.Args[1])-5], os.Args[2], atoi(os.Args[3]), atoi(os.Args[4]), int64(atoi(os.Args[5])), atoi(os.Args[6]))
	default:
		usage()
	}
}

// startP2P spawns the two endpoints in the given order and logs both PostStart steps.
func (f *Flow) startP2P(order string) error {
	c := f.addConsumer("c")
	producerFirst := order != "cp"
	postStartPC := func() error {
		ev, err := f.h.waitRecv(func(ev recvEvent) bool { _, ok := ev.msg.(*actor.PostStart); return ok && ev.self.Equals(f.pctl) })
		if err != nil {
			return err
		}
		return f.settle("pc", nil, abs{"t": "PostStart"}, ev.ctl)
	}
	postStartCC := func() error {
		ev, err := f.h.waitRecv(func(ev recvEvent) bool { _, ok := ev.msg.(*actor.PostStart); return ok && ev.self.Equals(c.ctl) })
		if err != nil {
			return err
		}
		return f.settle("cc", c, abs{"t": "PostStart", "up": producerFirst}, ev.ctl)
	}
	if producerFirst {
		if err := f.spawnProducer(longInterval); err != nil {
			return err
		}
		if err := postStartPC(); err != nil {
			return err
		}
		if err := f.spawnConsumer(c, longInterval); err != nil {
			return err
		}
		return postStartCC()
	}
	if err := f.spawnConsumer(c, longInterval); err != nil {
		return err
	}
	if err := postStartCC(); err != nil {
		return err
	}
	if err := f.spawnProducer(longInterval); err != nil {
		return err
	}
	return postStartPC()
}

func (f *Flow) predicted(s Step, stats *replayStats, idx int) {
	var ccSnap any
	if f.kind == "p2p" {
		ccSnap = f.cons["c"].snap
	} else {
		m := abs{}
		for name, c := range f.cons {
			if c.snap != nil {
				m[name] = c.snap
			}
		}
		ccSnap = m
		if want, ok := s.CC.(map[string]any); ok {
			// the model lists every worker; compare the spawned ones only
			only := abs{}
			for name := range m {
				only[name] = want[name]
			}
			s.CC = only
		}
	}
	out := f.stepOut
	if out == nil {
		out = []abs{}
	}
	var diff string
	switch {
	case !same(f.pSnap, s.PC):
		diff = fmt.Sprintf("pc: real %s model %s", js(f.pSnap), js(s.PC))
	case !same(ccSnap, s.CC):
		diff = fmt.Sprintf("cc: real %s model %s", js(ccSnap), js(s.CC))
	case s.A != "Init" && s.A != "Join" && s.A != "Leave" && !same(out, s.Out):
		diff = fmt.Sprintf("out: real %s model %s", js(out), js(s.Out))
	}
	if diff != "" {
		stats.PredMismatch++
		if stats.FirstPred == "" {
			stats.FirstPred = fmt.Sprintf("behaviour %d step %d (%s %s): %s", stats.Behaviours, idx, s.A, js(s.M), diff)
		}
	}
}

func js(v any) string { b, _ := json.Marshal(v); return string(b) }

func replay(kind, behavioursPath, tracePath string, window, n int) {
	behaviours, err := vtrace.ReadLines[[]Step](behavioursPath)
	must(err)
	h := newHarness(tracePath)
	stats := &replayStats{}
	for _, b := range behaviours {
		if len(b) == 0 || b[0].A != "Init" {
			must(infraError{"behaviour does not start with Init"})
		}
		stats.Behaviours++
		f := h.newFlow(kind, window, n, false)
		f.emit(abs{"e": "new", "kind": kind, "w": window, "n": n, "order": b[0].M["t"]})
		if kind == "p2p" || kind == "p2pch" {
			err = f.startP2P(fmt.Sprint(b[0].M["t"]))
		} else {
			var initial []string
			if ws, ok := b[0].M["ws"].([]any); ok {
				for _, w := range ws {
					initial = append(initial, fmt.Sprint(w))
				}
			}
			err = f.startWP(initial)
		}
		must(err)
		f.predicted(b[0], stats, 0)
		diverged := false
		for i, s := range b[1:] {
			matched, err := f.exec(s)
			must(err)
			if !matched {
				stats.Unmatched++
				diverged = true
				break
			}
			stats.Steps++
			f.predicted(s, stats, i+1)
		}
		_ = diverged
		done, err := f.drain(stats)
		must(err)
		if done {
			stats.Completed++
		} else {
			stats.Undrained++
		}
		for _, c := range f.cons {
			stats.Deliveries += len(c.delivs)
		}
		f.finLine(done)
		stats.Notes = append(stats.Notes, f.notes...)
		f.stop()
	}
	stats.Stray = h.stray
	stats.Lines = h.w.Count()
	h.close()
	out, _ := json.Marshal(stats)
	fmt.Println(string(out))
}
