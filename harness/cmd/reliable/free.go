package main

import (
	"encoding/json"
	"fmt"
	"math/rand"
	"sync"
	"time"

	"github.com/tochemey/goakt/v4/actor"
)

// Free-running mode: real timers (short intervals), endpoints that answer at
// once (with a little random pacing), and seeded random faults on the
// controller<->controller legs decided in the tell hook: drop, duplicate,
// delay (= reorder).  Every hook writes its observation under f.mu, so the log
// order is a real-time order in which a send precedes the matching receive.

type freeState struct {
	rng      *rand.Rand
	budget   int
	spawning *Consumer
	faults   map[string]int
}

var free *freeState

// retired: controllers of finished flows (they may still handle a few messages while
// their endpoint is shutting down)
var retired sync.Map

func (f *Flow) freeRole(pid *actor.PID) (string, *Consumer) {
	switch {
	case f.pctl != nil && pid.Equals(f.pctl):
		return "pc", nil
	case (f.prod != nil && pid.Equals(f.prod)) || pid.Name() == f.prodName:
		return "p", nil
	}
	if c := f.consumerByCtl(pid); c != nil {
		return "cc", c
	}
	if c := f.consumerByEP(pid); c != nil {
		return "c", c
	}
	return "", nil
}

// freeSelf identifies the controller that is running the current handler.
func (f *Flow) freeSelf(rc *actor.ReceiveContext) (string, *Consumer) {
	role, c := f.freeRole(rc.Self())
	if role != "" {
		return role, c
	}
	// a controller that reports before Spawn returned its endpoint: adopt it only if it
	// is the child of the endpoint being spawned (late events of an earlier flow's
	// controllers must never be mistaken for this flow's)
	parent := ""
	if p := rc.Self().Parent(); p != nil {
		parent = p.Name()
	}
	if _, gone := retired.Load(rc.Self().ID()); gone {
		return "", nil
	}
	switch rc.Self().Actor().(type) {
	case ccProjector:
		if sp := free.spawning; sp != nil && sp.ctl == nil && (parent == sp.epName || parent == "") {
			sp.ctl = rc.Self()
			return "cc", sp
		}
	case pcProjector, wpProjector:
		if f.pctl == nil && (parent == f.prodName || parent == "") {
			f.pctl = rc.Self()
			return "pc", nil
		}
	}
	return "", nil
}

func (f *Flow) freeBegin(rc *actor.ReceiveContext, who string, c *Consumer) abs {
	key := rc.Self().ID()
	w := ""
	if c != nil {
		w = c.name
	}
	var in abs
	if who == "pc" {
		var from *Consumer
		if rc.Sender() != nil {
			from = f.consumerByCtl(rc.Sender())
		}
		if t, ok := rc.Message().(*actor.Terminated); ok {
			for _, c := range f.cons {
				if c.ctl != nil && t.ActorPath().Equals(c.ctl.Path()) {
					from = c
				}
			}
		}
		if from == nil && f.kind == "p2p" && len(f.order) > 0 {
			from = f.cons[f.order[0]]
		}
		in = f.abstract(rc.Message(), from, false)
		if from != nil && f.kind == "wp" {
			w = from.name
		}
		f.curW = w
	} else {
		in = f.abstract(rc.Message(), c, false)
		if in["t"] == "PostStart" {
			in["up"] = f.pctl != nil
		}
	}
	if f.begun[key] != rc.Message() {
		f.begun[key] = rc.Message()
		ev := abs{"e": "begin", "who": who, "w": w, "m": in}
		if n, ok := in["n"].(int); ok && n < 0 {
			sender := "<nil>"
			if rc.Sender() != nil {
				sender = rc.Sender().ID()
			}
			ev["dbg"] = abs{"self": rc.Self().ID(), "sender": sender, "flow": f.id}
		}
		f.emit(ev)
	}
	return in
}

func (f *Flow) freeTell(rc *actor.ReceiveContext, env *Envelope) int {
	f.mu.Lock()
	defer f.mu.Unlock()
	if f.closed {
		return 0
	}
	who, c := f.freeSelf(rc)
	if who == "" {
		return 0
	}
	f.freeBegin(rc, who, c)
	f.classify(env)
	w := env.W
	if w == "" && c != nil {
		w = c.name
	}
	fate := "pass"
	net := (env.FromRole == "pc" && env.ToRole == "cc") || (env.FromRole == "cc" && env.ToRole == "pc")
	if net && free.budget > 0 {
		switch x := free.rng.Intn(100); {
		case x < 14:
			fate = "drop"
		case x < 24:
			fate = "dup"
		case x < 44:
			fate = "delay"
		}
	}
	ev := abs{"e": "send", "from": env.FromRole, "to": env.ToRole, "w": w, "m": env.Abs}
	if fate != "pass" {
		free.budget--
		free.faults[fate]++
		ev["fate"] = fate
	}
	f.emit(ev)
	h := f.h
	from, to, msg := env.From, env.To, env.Msg
	later := func(d time.Duration) {
		time.AfterFunc(d, func() { _ = from.Tell(h.ctx, to, msg) })
	}
	switch fate {
	case "drop":
		return 1
	case "dup":
		later(time.Duration(free.rng.Intn(20000)) * time.Microsecond)
		return 0
	case "delay":
		later(time.Duration(1000+free.rng.Intn(40000)) * time.Microsecond)
		return 1
	}
	return 0
}

func (f *Flow) freeBufFull(obj any, seq int64) {
	f.mu.Lock()
	defer f.mu.Unlock()
	if f.closed {
		return
	}
	for _, c := range f.cons {
		if c.ctl != nil && c.ctl.Actor() == obj {
			f.emit(abs{"e": "send", "from": "cc", "to": "obs", "w": c.name, "m": abs{"t": "BufFull", "seq": seq}})
		}
	}
}

func (f *Flow) freeIllegal() {
	f.mu.Lock()
	defer f.mu.Unlock()
	if f.closed {
		return
	}
	f.emit(abs{"e": "send", "from": "pc", "to": "obs", "w": f.curW, "m": abs{"t": "Illegal"}})
}

func (f *Flow) freeReceived(rc *actor.ReceiveContext) {
	f.mu.Lock()
	defer f.mu.Unlock()
	if f.closed {
		return
	}
	who, c := f.freeSelf(rc)
	if who == "" {
		return
	}
	in := f.freeBegin(rc, who, c)
	delete(f.begun, rc.Self().ID())
	w := ""
	if c != nil {
		w = c.name
	} else if f.kind == "wp" {
		w = f.curW
	}
	f.emit(abs{"e": "end", "who": who, "w": w, "m": in, "st": f.snapshot(who, c, rc.Self().Actor())})
}

func (f *Flow) freeConsumerPace() {
	f.mu.Lock()
	d := time.Duration(free.rng.Intn(3000)) * time.Microsecond
	f.mu.Unlock()
	time.Sleep(d)
}

func (f *Flow) freeEndpointReply(rc *actor.ReceiveContext, c *Consumer, msg any) {
	rc.Tell(rc.Sender(), msg)
}

type freeStats struct {
	Runs       int            `json:"runs"`
	Completed  int            `json:"completed"`
	Incomplete int            `json:"incomplete"`
	Lines      int64          `json:"lines"`
	Faults     map[string]int `json:"faults"`
	Deliveries int            `json:"deliveries"`
	Notes      []string       `json:"notes,omitempty"`
}

func freeRuns(kind, tracePath string, window, n int, seed int64, runs int) {
	h := newHarness(tracePath)
	stats := &freeStats{Faults: map[string]int{}}
	rng := rand.New(rand.NewSource(seed))
	for r := 0; r < runs; r++ {
		free = &freeState{rng: rng, budget: 2 + rng.Intn(8), faults: stats.Faults}
		f := h.newFlow(kind, window, n, true)
		f.emit(abs{"e": "new", "kind": kind, "w": window, "n": n, "order": "pc"})
		resend := time.Duration(15+rng.Intn(25)) * time.Millisecond
		retry := time.Duration(10+rng.Intn(20)) * time.Millisecond
		var done bool
		if kind == "p2p" || kind == "p2pch" {
			c := f.addConsumer("c")
			must(f.spawnProducer(retry))
			f.mu.Lock()
			free.spawning = c
			f.mu.Unlock()
			must(f.spawnConsumerFree(c, resend))
			done = f.await(6 * time.Second)
		} else {
			done = f.freeWP(rng, resend, retry)
		}
		h.mu.Lock()
		h.cur = nil
		h.mu.Unlock()
		f.mu.Lock()
		f.closed = true // a hook that picked this flow up before h.cur was cleared must not log after "fin"
		if f.pctl != nil {
			retired.Store(f.pctl.ID(), true)
		}
		for _, c := range f.cons {
			if c.ctl != nil {
				retired.Store(c.ctl.ID(), true)
			}
		}
		f.finLine(done)
		for _, c := range f.cons {
			stats.Deliveries += len(c.delivs)
		}
		stats.Notes = append(stats.Notes, f.notes...)
		f.mu.Unlock()
		f.stop()
		stats.Runs++
		if done {
			stats.Completed++
		} else {
			stats.Incomplete++
		}
	}
	stats.Lines = h.w.Count()
	h.close()
	out, _ := json.Marshal(stats)
	fmt.Println(string(out))
}

// spawnConsumerFree spawns a consumer whose controller identifies itself to
// the hooks while Spawn is still running (its PostStart registers at once).
func (f *Flow) spawnConsumerFree(c *Consumer, resend time.Duration) error {
	pid, err := f.h.sys.Spawn(f.h.ctx, c.epName, &consumerEndpoint{f: f, c: c},
		actor.AsReliableConsumer(f.prodName, actor.WithReliableFlowControlWindow(f.window), actor.WithReliableResendInterval(resend)), actor.WithLongLived())
	if err != nil {
		return err
	}
	ctl, err := actor.VerifReliableCompanion(f.h.ctx, f.h.sys, c.epName, actor.ReliableControllerRoleConsumer)
	f.mu.Lock()
	c.ep = pid
	c.alive = true
	if c.ctl == nil {
		c.ctl = ctl
	}
	f.mu.Unlock()
	return err
}

func (f *Flow) await(d time.Duration) bool {
	deadline := time.Now().Add(d)
	for time.Now().Before(deadline) {
		f.mu.Lock()
		ok := f.complete()
		f.mu.Unlock()
		if ok {
			return true
		}
		time.Sleep(3 * time.Millisecond)
	}
	return false
}
