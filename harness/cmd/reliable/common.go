// Command reliable drives goakt's REAL reliable-delivery controllers (producer,
// consumer and work-pulling controller inside a real in-process actor system)
// either along TLC-generated behaviours, one handled message at a time
// ("replay"), or free-running with real timers and seeded random message faults
// ("free"), and records an NDJSON observation log that TLC judges afterwards
// (specs/Reliable/Mon_*.tla = property monitors, Trace_*.tla = conformance).
//
// The only instrumentation used is the verifhook line in the controllers' tell
// helpers (the harness takes over the transport of controller messages: bags
// for the controller<->controller legs, FIFO queues for the local legs) and the
// verifhook line at the end of each controller's Receive (state projection).
package main

import (
	"context"
	"encoding/json"
	"fmt"
	"os"
	"reflect"
	"strconv"
	"strings"
	"sync"
	"time"

	"google.golang.org/protobuf/types/known/wrapperspb"

	"github.com/tochemey/goakt/v4/actor"
	"github.com/tochemey/goakt/v4/internal/commands"
	"github.com/tochemey/goakt/v4/internal/verifhook"
	"github.com/tochemey/goakt/v4/log"
	"github.com/tochemey/goakt/v4/verifharness/vtrace"
)

type abs = map[string]any

// Envelope is one message handed to a controller's tell helper (or produced by
// an endpoint) whose transport the harness owns.
type Envelope struct {
	From, To *actor.PID
	Msg      any
	Abs      abs
	FromRole string // "pc" | "cc" | "p" | "c"
	ToRole   string
	W        string // consumer / worker the leg belongs to ("" on the producer's local leg)
}

type recvEvent struct {
	self *actor.PID
	msg  any
	ctl  any // controller actor (for the state projection)
}

// Consumer is one consumer (P2P: "c") or worker endpoint with its controller.
type Consumer struct {
	name     string // model name
	epName   string // actor name
	ep, ctl  *actor.PID
	alive    bool
	nonces   map[string]int
	c2p, p2c []*Envelope // network legs (bags, kept in capture order)
	fromC    []*Envelope // endpoint -> controller (FIFO)
	delivs   []int       // ids handed to the endpoint, in order
	snap     abs
}

// Flow is one producer endpoint + controller with its consumers.
type Flow struct {
	h        *Harness
	id       int
	kind     string // "p2p" | "wp"
	window   int
	n        int
	free     bool
	chunks   []int // chunk count per message (kind p2pch); nil = chunking off
	prodName string
	prod     *actor.PID
	pctl     *actor.PID
	cons     map[string]*Consumer
	order    []string
	tokens   map[string]int
	session  string
	fromP    []*Envelope
	pSnap    abs

	mu           sync.Mutex // endpoint state (free-running: several goroutines)
	produced     int
	lastTok      string
	lastProduced *actor.Produced
	dconf        map[int]int
	notes        []string

	raw     []*Envelope // tells captured and not yet classified
	stepOut []abs       // abstract sends of the current step in program order
	begun   map[string]any
	closed  bool   // free-running: the flow is over, late hooks are ignored
	curW    string // free-running: worker the WP controller's current message concerns
}

// Harness owns the actor system and is the verifhook handler.
type Harness struct {
	ctx    context.Context
	sys    actor.ActorSystem
	w      *vtrace.Writer
	mu     sync.Mutex
	cur    *Flow
	events chan recvEvent
	epDone chan struct{}
	flows  int
	stray  int
	fault  func(f *Flow, env *Envelope) int // free-running fault decisions
}

func newHarness(tracePath string) *Harness {
	w, err := vtrace.Create(tracePath)
	must(err)
	sys, err := actor.NewActorSystem("verifreliable", actor.WithLogger(log.DiscardLogger))
	must(err)
	ctx := context.Background()
	must(sys.Start(ctx))
	h := &Harness{ctx: ctx, sys: sys, w: w, events: make(chan recvEvent, 4096), epDone: make(chan struct{}, 64)}
	verifhook.Install(h)
	return h
}

func (h *Harness) close() {
	verifhook.Uninstall()
	_ = h.sys.Stop(h.ctx)
	must(h.w.Close())
}

func must(err error) {
	if err != nil {
		fmt.Fprintln(os.Stderr, "reliable:", err)
		os.Exit(2)
	}
}

type infraError struct{ msg string }

func (e infraError) Error() string { return e.msg }

// ---------------------------------------------------------------- abstraction

func idNum(messageID string) int {
	if n, err := strconv.Atoi(strings.TrimPrefix(messageID, "m-")); err == nil && strings.HasPrefix(messageID, "m-") {
		return n
	}
	if messageID == "" {
		return 0
	}
	return -1
}

func (f *Flow) tokNum(tok string) int {
	if tok == "" {
		return 0
	}
	if n, ok := f.tokens[tok]; ok {
		return n
	}
	f.tokens[tok] = len(f.tokens) + 1
	return f.tokens[tok]
}

func (c *Consumer) nonceNum(nonce string, create bool) int {
	if nonce == "" {
		return 0
	}
	if n, ok := c.nonces[nonce]; ok {
		return n
	}
	if !create {
		return -1
	}
	c.nonces[nonce] = len(c.nonces) + 1
	return c.nonces[nonce]
}

func (f *Flow) sessOK(s string) bool {
	if f.session == "" {
		f.session = s
	}
	return f.session == s
}

// abstract maps a real protocol message to the model's record. c is the consumer
// the leg belongs to (nil on the producer's local leg).
func (f *Flow) abstract(msg any, c *Consumer, fromCC bool) abs {
	bad := func(a abs) abs { a["badsession"] = true; return a }
	switch m := msg.(type) {
	case *commands.RegisterConsumer:
		return abs{"t": "Register", "n": c.nonceNum(m.Nonce(), fromCC)}
	case *commands.RegistrationAck:
		a := abs{"t": "RegAck", "n": c.nonceNum(m.Nonce(), false), "next": m.NextSeq()}
		if !f.sessOK(m.SessionID()) {
			return bad(a)
		}
		return a
	case *commands.Request:
		a := abs{"t": "Request", "n": c.nonceNum(m.RegistrationNonce(), false), "conf": m.ConfirmedSeq(), "upTo": m.RequestUpToSeq(), "via": m.ViaTimeout()}
		if !f.sessOK(m.SessionID()) {
			return bad(a)
		}
		return a
	case *commands.Ack:
		a := abs{"t": "Ack", "n": c.nonceNum(m.RegistrationNonce(), false), "conf": m.ConfirmedSeq()}
		if !f.sessOK(m.SessionID()) {
			return bad(a)
		}
		return a
	case *commands.SequencedMessage:
		a := abs{"t": "Seq", "seq": m.Seq(), "id": idNum(m.MessageID())}
		if f.chunks != nil {
			a["ch"], a["first"], a["last"] = m.Chunked(), m.FirstChunk(), m.LastChunk()
		} else if m.Chunked() {
			return bad(a)
		}
		if !f.sessOK(m.SessionID()) {
			return bad(a)
		}
		return a
	case *actor.RequestNext:
		return abs{"t": "ReqNext", "tok": f.tokNum(m.Token())}
	case *actor.Stored:
		return abs{"t": "Stored", "tok": f.tokNum(m.Token()), "id": idNum(m.MessageID()), "seq": m.Seq()}
	case *actor.DeliveryConfirmed:
		return abs{"t": "DConf", "id": idNum(m.MessageID()), "seq": m.Seq()}
	case *actor.Delivery:
		id := idNum(m.MessageID())
		if s, ok := m.Payload().(*wrapperspb.StringValue); !ok || s.GetValue() != f.payloadFor(idNum(m.MessageID())) {
			id = -2 // payload does not belong to the message id
		}
		return abs{"t": "Delivery", "seq": m.Seq(), "id": id}
	case *actor.Produced:
		a := abs{"t": "Produced", "tok": f.tokNum(m.Token()), "id": idNum(m.MessageID())}
		if f.chunks != nil {
			a["c"] = f.chunkCount(idNum(m.MessageID()))
		}
		return a
	case *actor.StoredAck:
		return abs{"t": "StoredAck", "tok": f.tokNum(m.Token()), "id": idNum(m.MessageID())}
	case *actor.Confirmed:
		return abs{"t": "Confirmed", "seq": m.Seq(), "id": idNum(m.MessageID())}
	case *actor.PostStart:
		return abs{"t": "PostStart"}
	case *actor.Terminated:
		return abs{"t": "Terminated"}
	}
	if strings.HasSuffix(fmt.Sprintf("%T", msg), "ControllerTick") {
		return abs{"t": "Tick"}
	}
	return abs{"t": "Other", "go": fmt.Sprintf("%T", msg)}
}

func norm(v any) any {
	b, err := json.Marshal(v)
	must(err)
	var out any
	must(json.Unmarshal(b, &out))
	return out
}

func same(a, b any) bool { return reflect.DeepEqual(norm(a), norm(b)) }

// ---------------------------------------------------------------- state projections

type pcProjector interface {
	VerifState() actor.VerifProducerControllerState
}
type ccProjector interface {
	VerifState() actor.VerifConsumerControllerState
}
type wpProjector interface {
	VerifState() actor.VerifWorkPullingState
}
type ticker interface{ VerifTick() any }
type gapElapser interface{ VerifElapseGapLimit() }

func pairs(seqs []int64, ids []string, marks [][3]bool) []abs {
	out := make([]abs, 0, len(seqs))
	for i := range seqs {
		e := abs{"seq": seqs[i], "id": idNum(ids[i])}
		if marks != nil {
			e["ch"], e["first"], e["last"] = marks[i][0], marks[i][1], marks[i][2]
		}
		out = append(out, e)
	}
	return out
}

// chunk mode: message k is encoded into exactly chunks[k-1] chunks of at most 1024 bytes
const chunkBytes = 1024

func (f *Flow) chunkCount(id int) int {
	if f.chunks == nil || id < 1 || id > len(f.chunks) {
		return 1
	}
	return f.chunks[id-1]
}

func (f *Flow) payloadFor(id int) string {
	name := fmt.Sprintf("m-%d", id)
	if c := f.chunkCount(id); c > 1 {
		return name + "|" + strings.Repeat("x", (c-1)*chunkBytes+300)
	}
	return name
}

func (f *Flow) projectPC(s actor.VerifProducerControllerState) abs {
	c := f.cons[f.order[0]]
	f.sessOK(s.SessionID)
	st := abs{
		"cur": s.CurrentSeq, "conf": s.ConfirmedSeq, "unc": pairs(s.UnconfirmedSeqs, s.UnconfirmedIDs, f.marks(s.UnconfirmedMarks, len(s.UnconfirmedSeqs))),
		"reg": s.Registered, "nonce": c.nonceNum(s.RegistrationNonce, false), "dem": s.DemandUpTo,
		"hs": s.Handshake, "tok": f.tokNum(s.Token), "tokCtr": len(f.tokens), "pid": idNum(s.PendingMessageID),
		"pseq": s.PendingSeq, "lastTok": f.tokNum(s.LastCompletedToken), "lastId": idNum(s.LastCompletedMessageID),
		"failed": s.Failed,
	}
	if f.chunks != nil {
		st["pn"], st["span"] = s.PendingChunks, s.WindowSpan
	}
	return st
}

func (f *Flow) marks(m [][3]bool, n int) [][3]bool {
	if f.chunks == nil {
		return nil
	}
	if m == nil {
		m = make([][3]bool, n)
	}
	return m
}

func (f *Flow) projectCC(c *Consumer, s actor.VerifConsumerControllerState) abs {
	sess := 0
	if s.SessionID != "" {
		sess = 1
		if !f.sessOK(s.SessionID) {
			sess = 2
		}
	}
	st := abs{
		"res": s.Resolved, "sess": sess, "nonce": c.nonceNum(s.RegistrationNonce, false), "nonceCtr": len(c.nonces),
		"exp": s.ExpectedSeq, "conf": s.ConfirmedSeq, "upTo": s.RequestUpToSeq, "buf": pairs(s.BufferSeqs, s.BufferIDs, f.marks(s.BufferMarks, len(s.BufferSeqs))),
		"inf": abs{"seq": s.InFlightSeq, "id": idNum(s.InFlightID)}, "saw": s.SawValidTraffic, "gapLim": s.GapLimited,
		"failed": s.Failed,
	}
	if f.chunks != nil {
		st["runLast"] = s.RunLastSeq
	}
	return st
}

func (f *Flow) consumerByCtl(pid *actor.PID) *Consumer {
	for _, c := range f.cons {
		if c.ctl != nil && c.ctl.Equals(pid) {
			return c
		}
	}
	return nil
}

// consumerByEP finds the consumer whose endpoint actor is pid (by name: the hooks may see
// the endpoint before Spawn has returned it to the driver).
func (f *Flow) consumerByEP(pid *actor.PID) *Consumer {
	for _, c := range f.cons {
		if (c.ep != nil && c.ep.Equals(pid)) || pid.Name() == c.epName {
			return c
		}
	}
	return nil
}

// ---------------------------------------------------------------- verifhook.Handler

// Fault is called from the controllers' tell helpers: obj = [3]any{ctx, to, message}.
// A non-zero result means the harness took over the transport of the message.
func (h *Harness) Fault(point string, obj any, a int64) int {
	if !strings.HasPrefix(point, "reliable.") {
		return 0
	}
	arr, ok := obj.([3]any)
	if !ok {
		return 0
	}
	rc, _ := arr[0].(*actor.ReceiveContext)
	to, _ := arr[1].(*actor.PID)
	if rc == nil || to == nil {
		return 0
	}
	h.mu.Lock()
	f := h.cur
	h.mu.Unlock()
	if f == nil {
		return 0
	}
	env := &Envelope{From: rc.Self(), To: to, Msg: arr[2]}
	if f.free {
		return f.freeTell(rc, env)
	}
	f.raw = append(f.raw, env) // scripted: single-threaded by construction (driver waits for every step)
	return 1
}

// At is called at the end of each controller Receive (obj = *ReceiveContext) and
// at the consumer controller's buffer-overflow drop (obj = controller).
func (h *Harness) At(point string, obj any, a, b int64) {
	if !strings.HasPrefix(point, "reliable.") {
		return // hooks of other mechanisms (mailboxes, scheduler, ...) are not ours
	}
	h.mu.Lock()
	f := h.cur
	h.mu.Unlock()
	if f == nil {
		return
	}
	if point == "reliable.consumer.bufferfull" {
		if f.free {
			f.freeBufFull(obj, a)
		} else {
			f.raw = append(f.raw, &Envelope{Msg: abs{"t": "BufFull", "seq": a}, ToRole: "obs"})
		}
		return
	}
	if point == "reliable.workpulling.illegal" {
		if f.free {
			f.freeIllegal()
		} else {
			f.raw = append(f.raw, &Envelope{Msg: abs{"t": "Illegal"}, ToRole: "obs", FromRole: "pc"})
		}
		return
	}
	rc, ok := obj.(*actor.ReceiveContext)
	if !ok {
		return
	}
	if f.free {
		f.freeReceived(rc)
		return
	}
	h.events <- recvEvent{self: rc.Self(), msg: rc.Message(), ctl: rc.Self().Actor()}
}

// waitRecv waits until controller `to` has finished handling msg.
func (h *Harness) waitRecv(pred func(recvEvent) bool) (recvEvent, error) {
	return h.waitRecvFrom(nil, pred)
}

// errGone: the controller stopped (it failed the flow terminally, or its endpoint is gone)
// before it handled the message: the message is lost, which is an observation, not an error.
var errGone = infraError{"controller is gone"}

func (h *Harness) waitRecvFrom(target *actor.PID, pred func(recvEvent) bool) (recvEvent, error) {
	deadline := time.After(45 * time.Second)
	gone := 0
	for {
		select {
		case ev := <-h.events:
			if pred(ev) {
				return ev, nil
			}
			h.stray++
		case <-time.After(100 * time.Millisecond):
			if target != nil && !target.IsRunning() {
				if gone++; gone >= 3 {
					return recvEvent{}, errGone
				}
			}
		case <-deadline:
			return recvEvent{}, infraError{"watchdog: controller did not finish handling a message"}
		}
	}
}

func (h *Harness) waitEndpoint() error {
	select {
	case <-h.epDone:
		return nil
	case <-time.After(45 * time.Second):
		return infraError{"watchdog: endpoint did not handle a message"}
	}
}

func (h *Harness) drainEvents() {
	for {
		select {
		case <-h.events:
		case <-h.epDone:
		default:
			return
		}
	}
}

// ---------------------------------------------------------------- endpoints (application code following the contract)

type producerEndpoint struct{ f *Flow }

func (p *producerEndpoint) PreStart(*actor.Context) error { return nil }
func (p *producerEndpoint) PostStop(*actor.Context) error { return nil }
func (p *producerEndpoint) Receive(rc *actor.ReceiveContext) {
	f := p.f
	switch m := rc.Message().(type) {
	case *actor.RequestNext:
		if !m.IsAuthorizedFor(rc.Self(), rc.Sender()) {
			f.note("RequestNext not authorised for this endpoint")
			break
		}
		f.mu.Lock()
		var reply *actor.Produced
		if m.Token() == f.lastTok && f.lastProduced != nil {
			reply = f.lastProduced // the grant was retried: idempotent resend
		} else if f.produced < f.n {
			id := fmt.Sprintf("m-%d", f.produced+1)
			produced, err := actor.NewProduced(m, id, wrapperspb.String(f.payloadFor(f.produced+1)))
			if err != nil {
				f.mu.Unlock()
				f.note("NewProduced: " + err.Error())
				break
			}
			f.produced++
			f.lastTok, f.lastProduced, reply = m.Token(), produced, produced
		}
		f.mu.Unlock()
		if reply != nil {
			f.endpointReply(rc, nil, reply)
		}
	case *actor.Stored:
		if !m.IsAuthorizedFor(rc.Self(), rc.Sender()) {
			f.note("Stored not authorised for this endpoint")
			break
		}
		ack, err := actor.NewStoredAck(m)
		if err != nil {
			f.note("NewStoredAck: " + err.Error())
			break
		}
		f.endpointReply(rc, nil, ack)
	case *actor.DeliveryConfirmed:
		f.mu.Lock()
		f.dconf[idNum(m.MessageID())]++
		f.mu.Unlock()
	default:
		return // PostStart and friends: not injected by the driver
	}
	if !f.free {
		f.h.epDone <- struct{}{}
	}
}

type consumerEndpoint struct {
	f *Flow
	c *Consumer
}

func (e *consumerEndpoint) PreStart(*actor.Context) error { return nil }
func (e *consumerEndpoint) PostStop(*actor.Context) error { return nil }
func (e *consumerEndpoint) Receive(rc *actor.ReceiveContext) {
	f := e.f
	m, ok := rc.Message().(*actor.Delivery)
	if !ok {
		return
	}
	if !m.IsAuthorizedFor(rc.Self(), rc.Sender()) {
		f.note("Delivery not authorised for this endpoint")
	} else {
		f.mu.Lock()
		e.c.delivs = append(e.c.delivs, idNum(m.MessageID()))
		f.mu.Unlock()
		if f.free {
			f.freeConsumerPace()
		}
		confirmed, err := actor.NewConfirmed(m)
		if err != nil {
			f.note("NewConfirmed: " + err.Error())
		} else {
			f.endpointReply(rc, e.c, confirmed)
		}
	}
	if !f.free {
		f.h.epDone <- struct{}{}
	}
}

func (f *Flow) note(s string) {
	f.mu.Lock()
	f.notes = append(f.notes, s)
	f.mu.Unlock()
}

// endpointReply: scripted = queue on the local FIFO leg; free-running = tell at once.
func (f *Flow) endpointReply(rc *actor.ReceiveContext, c *Consumer, msg any) {
	if f.free {
		f.freeEndpointReply(rc, c, msg)
		return
	}
	env := &Envelope{From: rc.Self(), To: rc.Sender(), Msg: msg}
	if c == nil {
		env.Abs = f.abstract(msg, nil, false)
		f.fromP = append(f.fromP, env)
	} else {
		env.Abs = f.abstract(msg, c, false)
		c.fromC = append(c.fromC, env)
	}
}

// ---------------------------------------------------------------- flow set-up

var chunkPattern []int // VERIF_CHUNKS, kind p2pch

func (h *Harness) newFlow(kind string, window, n int, free bool) *Flow {
	h.flows++
	defer func() {
		if kind == "p2pch" {
			h.cur.kind = "p2p"
			h.cur.chunks = chunkPattern
		}
	}()
	f := &Flow{h: h, id: h.flows, kind: kind, window: window, n: n, free: free, cons: map[string]*Consumer{},
		tokens: map[string]int{}, dconf: map[int]int{}, begun: map[string]any{}}
	f.prodName = fmt.Sprintf("prod-%d", f.id)
	h.drainEvents()
	h.mu.Lock()
	h.cur = f
	h.mu.Unlock()
	return f
}

func (f *Flow) addConsumer(name string) *Consumer {
	c := &Consumer{name: name, epName: fmt.Sprintf("%s-%d", name, f.id), nonces: map[string]int{}}
	f.cons[name] = c
	f.order = append(f.order, name)
	return c
}

var (
	longInterval = time.Hour
)

func (f *Flow) spawnProducer(retry time.Duration) error {
	var opt actor.SpawnOption
	if f.kind == "wp" {
		opt = actor.AsReliableWorkPullingProducer(actor.WithReliableRetryInterval(retry), actor.WithReliableDeliveryConfirmation())
	} else if f.chunks != nil {
		opt = actor.AsReliableProducer(f.cons[f.order[0]].epName, actor.WithReliableRetryInterval(retry), actor.WithReliableDeliveryConfirmation(),
			actor.WithReliableChunking(chunkBytes))
	} else {
		opt = actor.AsReliableProducer(f.cons[f.order[0]].epName, actor.WithReliableRetryInterval(retry), actor.WithReliableDeliveryConfirmation())
	}
	pid, err := f.h.sys.Spawn(f.h.ctx, f.prodName, &producerEndpoint{f: f}, opt, actor.WithLongLived())
	if err != nil {
		return err
	}
	ctl, err := actor.VerifReliableCompanion(f.h.ctx, f.h.sys, f.prodName, actor.ReliableControllerRoleProducer)
	f.mu.Lock()
	f.prod = pid
	if f.pctl == nil {
		f.pctl = ctl
	}
	f.mu.Unlock()
	return err
}

func (f *Flow) spawnConsumer(c *Consumer, resend time.Duration) error {
	pid, err := f.h.sys.Spawn(f.h.ctx, c.epName, &consumerEndpoint{f: f, c: c},
		actor.AsReliableConsumer(f.prodName, actor.WithReliableFlowControlWindow(f.window), actor.WithReliableResendInterval(resend)), actor.WithLongLived())
	if err != nil {
		return err
	}
	c.ep = pid
	c.alive = true
	c.ctl, err = actor.VerifReliableCompanion(f.h.ctx, f.h.sys, c.epName, actor.ReliableControllerRoleConsumer)
	return err
}

func (f *Flow) stop() {
	h := f.h
	h.mu.Lock()
	h.cur = nil
	h.mu.Unlock()
	for _, c := range f.cons {
		if c.ep != nil && c.alive {
			_ = c.ep.Shutdown(h.ctx)
		}
	}
	if f.prod != nil {
		_ = f.prod.Shutdown(h.ctx)
	}
}
