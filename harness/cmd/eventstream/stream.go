package main

import (
	"fmt"
	"math/rand"
	"runtime"
	"sort"
	"strconv"
	"sync"
	"sync/atomic"
	"time"

	"github.com/tochemey/goakt/v4/eventstream"
	"github.com/tochemey/goakt/v4/internal/queue"
	"github.com/tochemey/goakt/v4/internal/verifhook"
	"github.com/tochemey/goakt/v4/verifharness/sched"
	"github.com/tochemey/goakt/v4/verifharness/vtrace"
)

const topic = "t"

// sbeh is one behaviour for the real EventsStream: thread programs plus the step sequence
// (thread, hook point it must be parked at, optionally the subscriber the hook must concern).
type sbeh struct {
	Subs  []string           `json:"subs"`  // subscribers to add (all active)
	Init  []string           `json:"init"`  // initially subscribed to the topic
	Progs map[string][][]any `json:"progs"` // thread -> [[op, arg], ...]; op = pub|iter|sub|unsub|rm|shutdown
	Gates []string           `json:"gates"` // hook points that gate
	Steps []sstep            `json:"steps"`
}

type sstep struct {
	T   string `json:"t"`
	At  string `json:"at"`
	Obj string `json:"obj,omitempty"` // subscriber name the hook object must be (or own the queue)
	A   string `json:"a,omitempty"`   // model action (conformance log)
	S   string `json:"s,omitempty"`   // subscriber argument of a controller call
	Res *[]int `json:"res,omitempty"` // model's prediction of the Iterator result returned by this step
}

// recorder buffers the lines of one behaviour (a behaviour may be retried when Go's map iteration
// order differs from the order the model chose).
type recorder struct {
	mu   sync.Mutex
	rows []map[string]any
}

func (r *recorder) add(m map[string]any) { r.mu.Lock(); r.rows = append(r.rows, m); r.mu.Unlock() }
func (r *recorder) call(t, op string, e int, s string) {
	r.add(map[string]any{"ev": "call", "t": t, "op": op, "e": e, "s": s, "res": []int{}, "panic": false})
}
func (r *recorder) ret(t, op string, res []int, panicked bool) {
	if res == nil {
		res = []int{}
	}
	r.add(map[string]any{"ev": "ret", "t": t, "op": op, "e": 0, "s": "", "res": res, "panic": panicked})
}
func (r *recorder) flush(w *vtrace.Writer) {
	for _, m := range r.rows {
		w.Raw(m)
	}
}

type world struct {
	b     eventstream.Stream
	subs  map[string]eventstream.Subscriber
	names []string
	byID  map[string]string
}

func newWorld(names, init []string) *world {
	w := &world{b: eventstream.New(), subs: map[string]eventstream.Subscriber{}, names: names, byID: map[string]string{}}
	for _, n := range names {
		s := w.b.AddSubscriber()
		w.subs[n] = s
		w.byID[s.ID()] = n
	}
	for _, n := range init {
		w.b.Subscribe(w.subs[n], topic)
	}
	return w
}

func payloadID(m *eventstream.Message) int {
	if m == nil {
		return -2
	}
	if id, ok := m.Payload().(int); ok {
		return id
	}
	return -1
}

// iterate calls Iterator and collects the payload ids; a panic inside Iterator is reported, not propagated.
func iterate(sub eventstream.Subscriber) (res []int, panicked bool) {
	defer func() {
		if r := recover(); r != nil {
			panicked = true
		}
	}()
	for m := range sub.Iterator() {
		res = append(res, payloadID(m))
	}
	return res, false
}

// op executes one program operation on the real stream and records call / return.
func (w *world) op(rec *recorder, t string, o []any) {
	kind := o[0].(string)
	switch kind {
	case "pub":
		e := int(o[1].(float64))
		rec.call(t, "pub", e, "")
		w.b.Publish(topic, e)
		rec.ret(t, "pub", nil, false)
	case "iter":
		s := o[1].(string)
		rec.call(t, "iter", 0, s)
		res, p := iterate(w.subs[s])
		rec.ret(t, "iter", res, p)
	case "sub":
		s := o[1].(string)
		rec.call(t, "sub", 0, s)
		w.b.Subscribe(w.subs[s], topic)
		rec.ret(t, "sub", nil, false)
	case "unsub":
		s := o[1].(string)
		rec.call(t, "unsub", 0, s)
		w.b.Unsubscribe(w.subs[s], topic)
		rec.ret(t, "unsub", nil, false)
	case "rm":
		s := o[1].(string)
		rec.call(t, "rm", 0, s)
		w.b.RemoveSubscriber(w.subs[s])
		rec.ret(t, "rm", nil, false)
	case "shutdown":
		s := o[1].(string)
		rec.call(t, "shutdown", 0, s)
		w.subs[s].Shutdown()
		rec.ret(t, "shutdown", nil, false)
	default:
		fatal("unknown op", kind)
	}
}

// project: the real stream state in the model's terms (only while every thread is parked).
func (w *world) project() map[string]any {
	tops := []string{}
	for _, id := range eventstream.VerifTopicSubscribers(w.b, topic) {
		tops = append(tops, w.byID[id])
	}
	sort.Strings(tops)
	active, selfT, qlen, qs := map[string]any{}, map[string]any{}, map[string]any{}, map[string]any{}
	for _, n := range w.names {
		s := w.subs[n]
		active[n] = s.Active()
		selfT[n] = len(s.Topics()) > 0
		q := eventstream.VerifQueue(s)
		h, _, l := q.VerifPtrs()
		qlen[n] = int(l)
		ids := []int{}
		for p := queue.VerifNext(h); p != nil && len(ids) < 64; p = queue.VerifNext(p) {
			m, _ := queue.VerifValue(p).(*eventstream.Message)
			ids = append(ids, payloadID(m))
		}
		qs[n] = ids
	}
	return map[string]any{"topics": tops, "active": active, "selfT": selfT, "qlen": qlen, "q": qs}
}

func (w *world) objName(obj any) string {
	for n, s := range w.subs {
		if obj == any(s) || obj == any(eventstream.VerifQueue(s)) {
			return n
		}
	}
	return ""
}

const (
	stOK = iota
	stDrift
	stOrder // Go map iteration order differs from the model's choice
)

func runStreamBehaviour(bi int, b sbeh, st *replayStats) (rec *recorder, conf []map[string]any, status int, note string, pred int) {
	rec = &recorder{}
	w := newWorld(b.Subs, b.Init)
	s := sched.New()
	s.Watchdog = 10 * time.Second
	s.ControlAll()
	s.OnlyPoints(b.Gates...)
	names := make([]string, 0, len(b.Progs))
	for t := range b.Progs {
		names = append(names, t)
	}
	sort.Strings(names)
	for _, t := range names {
		t, prog := t, b.Progs[t]
		if _, err := s.Go(t, func() {
			for _, o := range prog {
				s.Yield("call", 0, 0)
				w.op(rec, t, o)
			}
		}); err != nil {
			fatal("go", err)
		}
	}
	lastIterOf := func(t string) []int {
		rec.mu.Lock()
		defer rec.mu.Unlock()
		for i := len(rec.rows) - 1; i >= 0; i-- {
			r := rec.rows[i]
			if r["ev"] == "ret" && r["op"] == "iter" && r["t"] == t {
				return r["res"].([]int)
			}
		}
		return nil
	}
	for si, x := range b.Steps {
		pend, parked := s.Pending(x.T)
		if !parked || pend.Done || pend.Point != x.At {
			status, note = stDrift, fmt.Sprintf("behaviour %d step %d %s(%s): thread at %s, expected %s", bi, si, x.A, x.T, pend.String(), x.At)
			break
		}
		if x.Obj != "" && pend.Obj != nil && w.objName(pend.Obj) != x.Obj {
			status = stOrder
			break
		}
		if _, err := s.Step(x.T); err != nil {
			if _, ok := err.(sched.ErrWatchdog); ok {
				st.Watchdog++
			}
			status, note = stDrift, fmt.Sprintf("behaviour %d step %d %s: %v", bi, si, x.A, err)
			break
		}
		st.Steps++
		line := w.project()
		line["a"], line["t"], line["s"] = x.A, x.T, x.S
		conf = append(conf, line)
		if x.Res != nil {
			got := lastIterOf(x.T)
			if fmt.Sprint(got) != fmt.Sprint(*x.Res) {
				pred++
			}
		}
	}
	s.FreeRun()
	if !s.Join(15 * time.Second) {
		st.Watchdog++
	}
	s.Close()
	// quiescent: one final Iterator per subscriber must return everything that is still buffered
	for _, n := range b.Subs {
		rec.call("z", "iter", 0, n)
		res, p := iterate(w.subs[n])
		rec.ret("z", "iter", res, p)
	}
	return rec, conf, status, note, pred
}

func sreplay(behaviours []sbeh, hw, cw *vtrace.Writer, st *replayStats) {
	newConf := map[string]any{"a": "New", "t": "", "s": "", "topics": []string{}, "active": map[string]any{}, "selfT": map[string]any{},
		"qlen": map[string]any{}, "q": map[string]any{}}
	for bi, b := range behaviours {
		var rec *recorder
		var conf []map[string]any
		var status, pred int
		var note string
		for attempt := 0; attempt < 48; attempt++ {
			rec, conf, status, note, pred = runStreamBehaviour(bi, b, st)
			if status != stOrder {
				break
			}
		}
		hw.Raw(map[string]any{"ev": "New", "subs": b.Subs, "init": b.Init})
		rec.flush(hw)
		switch status {
		case stOrder:
			st.Unreproduced++
		case stDrift:
			st.Drift++
			if st.DriftAt == "" {
				st.DriftAt = note
			}
		}
		if status == stOK {
			newConf["init"] = b.Init
			cw.Raw(newConf)
			for _, l := range conf {
				cw.Raw(l)
			}
			st.PredMismatch += pred
		}
		st.Behaviours++
	}
	hw.Raw(map[string]any{"ev": "New", "subs": []string{}, "init": []string{}})
	newConf["init"] = []string{}
	cw.Raw(newConf)
}

// chaos is a verifhook handler for free-running runs: it yields the processor at random hook points
// so that goroutines interleave inside the instrumented operations.
type chaos struct{ x uint64 }

func (c *chaos) At(point string, obj any, a, b int64) {
	v := atomic.AddUint64(&c.x, 0x9E3779B97F4A7C15)
	v ^= v >> 29
	v *= 0xBF58476D1CE4E5B9
	v ^= v >> 32
	if v%4 == 0 {
		runtime.Gosched()
	} else if v%61 == 0 {
		time.Sleep(time.Microsecond)
	}
}
func (c *chaos) Fault(point string, obj any, a int64) int { return 0 }

// sstress: free-running publishers, drainers (all on subscriber s1; s2 has a single drainer) and a
// controller that subscribes / unsubscribes s1 and finally may remove s2.
func sstress(npub, nev, ndrain, histories int, seed int64, hw *vtrace.Writer) int {
	rng := rand.New(rand.NewSource(seed))
	verifhook.Install(&chaos{x: uint64(seed)})
	defer verifhook.Uninstall()
	for i := 0; i < histories; i++ {
		subs := []string{"s1", "s2"}
		init := []string{"s1", "s2"}
		if rng.Intn(3) == 0 {
			init = []string{"s2"}
		}
		w := newWorld(subs, init)
		rec := &recorder{}
		var wg, pw sync.WaitGroup
		var prodDone int64
		for p := 1; p <= npub; p++ {
			p := p
			name := "p" + strconv.Itoa(p)
			yields := make([]int, nev)
			for k := range yields {
				yields[k] = rng.Intn(4)
			}
			wg.Add(1)
			pw.Add(1)
			go func() {
				defer wg.Done()
				defer pw.Done()
				for k := 1; k <= nev; k++ {
					for y := 0; y < yields[k-1]; y++ {
						runtime.Gosched()
					}
					w.op(rec, name, []any{"pub", float64(p*10 + k)})
				}
			}()
		}
		go func() { pw.Wait(); atomic.StoreInt64(&prodDone, 1) }()
		drain := func(name, sub string, pause int) {
			defer wg.Done()
			for it := 0; it < 6; it++ {
				for y := 0; y < pause; y++ {
					runtime.Gosched()
				}
				w.op(rec, name, []any{"iter", sub})
				if atomic.LoadInt64(&prodDone) == 1 {
					return
				}
				time.Sleep(20 * time.Microsecond)
			}
		}
		for d := 1; d <= ndrain; d++ {
			wg.Add(1)
			go drain("d"+strconv.Itoa(d), "s1", rng.Intn(4))
		}
		wg.Add(1)
		go drain("d9", "s2", rng.Intn(4))
		// controller
		var kprog [][]any
		switch rng.Intn(4) {
		case 0:
			kprog = [][]any{{"unsub", "s1"}, {"sub", "s1"}}
		case 1:
			kprog = [][]any{{"sub", "s1"}, {"unsub", "s1"}}
		case 2:
			kprog = [][]any{{"unsub", "s1"}, {"rm", "s2"}}
		case 3:
			kprog = [][]any{{"shutdown", "s1"}}
		}
		kpause := rng.Intn(6)
		wg.Add(1)
		go func() {
			defer wg.Done()
			for _, o := range kprog {
				for y := 0; y < kpause; y++ {
					runtime.Gosched()
				}
				w.op(rec, "k1", o)
			}
		}()
		wg.Wait()
		for _, n := range subs {
			rec.call("z", "iter", 0, n)
			res, p := iterate(w.subs[n])
			rec.ret("z", "iter", res, p)
		}
		hw.Raw(map[string]any{"ev": "New", "subs": subs, "init": init})
		rec.flush(hw)
	}
	hw.Raw(map[string]any{"ev": "New", "subs": []string{}, "init": []string{}})
	return histories
}
