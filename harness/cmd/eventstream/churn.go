package main

import (
	"math/rand"
	"runtime"
	"strconv"
	"sync/atomic"

	"github.com/tochemey/goakt/v4/verifharness/vtrace"
)

// schurn: free-running subscribe / unsubscribe churn on ONE topic, so that the topic's subscriber map is created
// and deleted all the time while a probe subscriber does  Subscribe, Publish, Iterator, Unsubscribe.
//
//	probe "b1" (subscriber s1): per round `iters` times  Subscribe(s1) ; Publish(1k) ; Iterator(s1) ; Unsubscribe(s1)
//	togglers "k2".. (subscribers s2..): Subscribe / Unsubscribe in a tight loop, no pauses inside a round
//	publisher "p2": publishes 21..2k during the round
//
// A round is a self-contained history: between rounds every thread is parked, every subscriber is drained by a
// recorded quiescent Iterator, and the "New" line names the subscribers that are subscribed at that point.
// Hundreds of thousands of operations cannot all be handed to TLC, so only some rounds are written out: every round
// a cheap screen flags (the probe's Iterator did not return exactly one copy of the event it had just published - a
// subset of what StreamMon.tla checks) and `keep` randomly chosen other rounds. The verdict on a written round is
// StreamMon's, not the screen's.
type cline struct {
	seq int64
	m   map[string]any
}

type cthread struct {
	name string
	buf  []cline
}

var cseq int64

func (c *cthread) call(op string, e int, s string) {
	c.buf = append(c.buf, cline{atomic.AddInt64(&cseq, 1), map[string]any{"ev": "call", "t": c.name, "op": op, "e": e, "s": s, "res": []int{}, "panic": false}})
}
func (c *cthread) ret(op string, res []int, p bool) {
	if res == nil {
		res = []int{}
	}
	c.buf = append(c.buf, cline{atomic.AddInt64(&cseq, 1), map[string]any{"ev": "ret", "t": c.name, "op": op, "e": 0, "s": "", "res": res, "panic": p}})
}

type churnStats struct {
	Rounds     int `json:"rounds"`
	Iterations int `json:"iterations"`
	Flagged    int `json:"flagged"`
	Written    int `json:"written"`
	ToggleOps  int `json:"toggle_ops"`
}

func schurn(ntog, rounds, iters, keep int, seed int64, hw *vtrace.Writer) churnStats {
	if iters > 9 {
		iters = 9
	}
	rng := rand.New(rand.NewSource(seed))
	names := []string{"s1"}
	for j := 2; j <= ntog+1; j++ {
		names = append(names, "s"+strconv.Itoa(j))
	}
	w := newWorld(names, nil)
	var st churnStats
	keepP := float64(keep) / float64(rounds)

	// togglers
	type tog struct {
		th         *cthread
		sub        string
		pause      atomic.Bool
		ack        chan bool // true: currently subscribed
		resume     chan struct{}
		ops        atomic.Int64
		base       int64 // ops at the start of the round
		subscribed bool
	}
	const pace = 4
	var biter atomic.Int64 // probe iterations completed in this round
	togs := make([]*tog, ntog)
	quit := atomic.Bool{}
	for j := range togs {
		tg := &tog{th: &cthread{name: "k" + strconv.Itoa(j+2)}, sub: names[j+1], ack: make(chan bool), resume: make(chan struct{})}
		tg.pause.Store(true)
		togs[j] = tg
		go func() {
			for {
				if tg.pause.Load() {
					tg.ack <- tg.subscribed
					<-tg.resume
					if quit.Load() {
						return
					}
				}
				// pace: at most `pace` toggles per probe iteration, so that a round stays small enough for TLC
				for tg.ops.Load()-tg.base >= pace*(biter.Load()+1) && !tg.pause.Load() {
					runtime.Gosched()
				}
				if tg.pause.Load() {
					continue
				}
				if !tg.subscribed {
					tg.th.call("sub", 0, tg.sub)
					w.b.Subscribe(w.subs[tg.sub], topic)
					tg.th.ret("sub", nil, false)
				} else {
					tg.th.call("unsub", 0, tg.sub)
					w.b.Unsubscribe(w.subs[tg.sub], topic)
					tg.th.ret("unsub", nil, false)
				}
				tg.subscribed = !tg.subscribed
				tg.ops.Add(1)
			}
		}()
	}
	// second publisher
	p2 := &cthread{name: "p2"}
	p2start, p2done := make(chan struct{}), make(chan struct{})
	go func() {
		for range p2start {
			for k := 1; k <= iters; k++ {
				p2.call("pub", 20+k, "")
				w.b.Publish(topic, 20+k)
				p2.ret("pub", nil, false)
				runtime.Gosched()
			}
			p2done <- struct{}{}
		}
	}()
	b1 := &cthread{name: "b1"}
	z := &cthread{name: "z"}
	probe := w.subs["s1"]

	for _, tg := range togs {
		<-tg.ack // initial park
	}
	for r := 0; r < rounds; r++ {
		init := []string{}
		for _, tg := range togs {
			if tg.subscribed {
				init = append(init, tg.sub)
			}
			tg.th.buf = tg.th.buf[:0]
		}
		b1.buf, p2.buf, z.buf = b1.buf[:0], p2.buf[:0], z.buf[:0]
		// resume togglers and wait until each has completed an operation (they really run concurrently)
		biter.Store(0)
		for _, tg := range togs {
			tg.base = tg.ops.Load()
			tg.pause.Store(false)
			before := tg.ops.Load()
			tg.resume <- struct{}{}
			for tg.ops.Load() == before {
				runtime.Gosched()
			}
		}
		p2start <- struct{}{}
		flagged := false
		for k := 1; k <= iters; k++ {
			id := 10 + k
			b1.call("sub", 0, "s1")
			w.b.Subscribe(probe, topic)
			b1.ret("sub", nil, false)
			b1.call("pub", id, "")
			w.b.Publish(topic, id)
			b1.ret("pub", nil, false)
			b1.call("iter", 0, "s1")
			res, p := iterate(probe)
			b1.ret("iter", res, p)
			n := 0
			for _, x := range res {
				if x == id {
					n++
				}
			}
			if n != 1 || p {
				flagged = true
			}
			b1.call("unsub", 0, "s1")
			w.b.Unsubscribe(probe, topic)
			b1.ret("unsub", nil, false)
			biter.Add(1)
		}
		<-p2done
		for _, tg := range togs {
			tg.pause.Store(true)
		}
		for _, tg := range togs {
			tg.subscribed = <-tg.ack
			st.ToggleOps += len(tg.th.buf) / 2
		}
		// quiescent: drain every subscriber
		for _, n := range names {
			z.call("iter", 0, n)
			res, p := iterate(w.subs[n])
			z.ret("iter", res, p)
		}
		st.Rounds++
		st.Iterations += iters
		if flagged {
			st.Flagged++
		}
		if (flagged && st.Flagged <= 12) || (!flagged && rng.Float64() < keepP) {
			all := append([]cline{}, b1.buf...)
			all = append(all, p2.buf...)
			for _, tg := range togs {
				all = append(all, tg.th.buf...)
			}
			all = append(all, z.buf...)
			// merge by sequence number (insertion sort of nearly sorted runs is fine at this size)
			for i := 1; i < len(all); i++ {
				for j := i; j > 0 && all[j-1].seq > all[j].seq; j-- {
					all[j-1], all[j] = all[j], all[j-1]
				}
			}
			hw.Raw(map[string]any{"ev": "New", "subs": names, "init": init})
			for _, l := range all {
				hw.Raw(l.m)
			}
			st.Written++
		}
	}
	quit.Store(true)
	for _, tg := range togs {
		tg.resume <- struct{}{}
	}
	close(p2start)
	hw.Raw(map[string]any{"ev": "New", "subs": []string{}, "init": []string{}})
	return st
}
