// Command eventstream drives the REAL goakt internal/queue.Queue and
// eventstream.EventsStream and records NDJSON traces for the specs in
// specs/EventStream.
//
//	eventstream qreplay <behaviours.ndjson> <hist.ndjson> <conf.ndjson>
//	    executes TLC behaviours of MSQueue.tla step by step on a real queue.Queue through the
//	    puppet scheduler (verifhook gates at every atomic step). hist = call/return history for
//	    LinFifo.tla; conf = per-step projection of the real queue for Trace_MSQueue.tla.
//	eventstream qstress <enqueuers> <msgs> <dequeuers> <histories> <seed> <hist.ndjson>
//	    free-running concurrent enqueuers/dequeuers on a real queue.Queue.
//	eventstream sreplay <behaviours.ndjson> <hist.ndjson> <conf.ndjson>
//	    executes TLC behaviours of Stream.tla on a real EventsStream.
//	eventstream sstress <publishers> <events> <drainers> <histories> <seed> <hist.ndjson>
//	    free-running publishers / drainers / subscribe-unsubscribe on a real EventsStream.
//	eventstream schurn <togglers> <rounds> <iters> <keep> <seed> <hist.ndjson> -
//	    free-running subscribe/unsubscribe churn of several subscribers on one topic around a probe subscriber.
//
// Assumption of the step-wise replays: runtime.GOMAXPROCS(1) and GC off, so that sync.Pool (if the
// tree under test recycles queue nodes) behaves as its one-P model (private slot, LIFO shared list).
package main

import (
	"encoding/json"
	"fmt"
	"os"
	"runtime"
	"runtime/debug"
	"strconv"
	"unsafe"

	"github.com/tochemey/goakt/v4/internal/queue"
	"github.com/tochemey/goakt/v4/verifharness/vtrace"
)

func fatal(v ...any) {
	fmt.Fprintln(os.Stderr, v...)
	os.Exit(2)
}

type hist struct{ w *vtrace.Writer }

func (h hist) call(t, op string, id int) {
	h.w.Emit(map[string]any{"ev": "call", "t": t, "op": op, "id": id, "res": 0})
}
func (h hist) ret(t, op string, res int) {
	h.w.Emit(map[string]any{"ev": "ret", "t": t, "op": op, "id": 0, "res": res})
}

// valID maps a dequeued value to the integer id the specs use (0 = nil).
func valID(v any) int {
	switch x := v.(type) {
	case nil:
		return 0
	case int:
		return x
	}
	return -1
}

// nodeTable numbers queue nodes in the order the harness first sees them (1 = initial dummy),
// which is the allocation order the model uses.
type nodeTable struct {
	id   map[uintptr]int
	ptrs []unsafe.Pointer // index = id-1; nil while only the address is known
}

func newNodeTable() *nodeTable { return &nodeTable{id: map[uintptr]int{}} }

func (nt *nodeTable) byAddr(a uintptr) int {
	if a == 0 {
		return 0
	}
	if i, ok := nt.id[a]; ok {
		return i
	}
	nt.ptrs = append(nt.ptrs, nil)
	nt.id[a] = len(nt.ptrs)
	return len(nt.ptrs)
}

func (nt *nodeTable) byPtr(p unsafe.Pointer) int {
	if p == nil {
		return 0
	}
	i := nt.byAddr(uintptr(p))
	if nt.ptrs[i-1] == nil {
		nt.ptrs[i-1] = p
	}
	return i
}

// discover follows next pointers from every known node until nothing new appears.
func (nt *nodeTable) discover(roots ...unsafe.Pointer) {
	for _, r := range roots {
		nt.byPtr(r)
	}
	for i := 0; i < len(nt.ptrs); i++ {
		if p := nt.ptrs[i]; p != nil {
			if n := queue.VerifNext(p); n != nil {
				nt.byPtr(n)
			}
		}
	}
	// nodes registered by address only may have become reachable
	for changed := true; changed; {
		changed = false
		for i := 0; i < len(nt.ptrs); i++ {
			if p := nt.ptrs[i]; p != nil {
				if n := queue.VerifNext(p); n != nil {
					j := nt.byAddr(uintptr(n))
					if nt.ptrs[j-1] == nil {
						nt.ptrs[j-1] = n
						changed = true
					}
				}
			}
		}
	}
}

// project returns head, tail, len and the next / value arrays over the known nodes (-1 = not observable yet).
func (nt *nodeTable) project(q *queue.Queue) map[string]any {
	h, t, l := q.VerifPtrs()
	nt.discover(h, t)
	nxt := make([]int, len(nt.ptrs))
	val := make([]int, len(nt.ptrs))
	for i, p := range nt.ptrs {
		if p == nil {
			nxt[i], val[i] = -1, -1
			continue
		}
		nxt[i] = nt.byPtr(queue.VerifNext(p))
		val[i] = valID(queue.VerifValue(p))
	}
	// byPtr above may have appended nodes; pad
	for len(nxt) < len(nt.ptrs) {
		nxt = append(nxt, -1)
		val = append(val, -1)
	}
	return map[string]any{"head": nt.byPtr(h), "tail": nt.byPtr(t), "len": int(l), "nxt": nxt, "val": val}
}

func pin() {
	runtime.GOMAXPROCS(1)
	debug.SetGCPercent(-1)
}

func atoi(s string) int {
	n, err := strconv.Atoi(s)
	if err != nil {
		fatal("bad number", s)
	}
	return n
}

func main() {
	if len(os.Args) < 2 {
		fatal("usage: eventstream qreplay|qstress|sreplay|sstress ...")
	}
	switch os.Args[1] {
	case "qreplay":
		if len(os.Args) != 5 {
			fatal("usage: eventstream qreplay <behaviours> <hist> <conf>")
		}
		pin()
		behaviours, err := vtrace.ReadLines[[]qstep](os.Args[2])
		if err != nil {
			fatal(err)
		}
		hw, err := vtrace.Create(os.Args[3])
		if err != nil {
			fatal(err)
		}
		cw, err := vtrace.Create(os.Args[4])
		if err != nil {
			fatal(err)
		}
		st := &replayStats{}
		qreplay(behaviours, hist{hw}, cw, st)
		st.Events, st.ConfLines = hw.Count(), cw.Count()
		if err := hw.Close(); err != nil {
			fatal(err)
		}
		if err := cw.Close(); err != nil {
			fatal(err)
		}
		out, _ := json.Marshal(st)
		fmt.Println(string(out))
	case "qstress":
		if len(os.Args) != 8 {
			fatal("usage: eventstream qstress <enqueuers> <msgs> <dequeuers> <histories> <seed> <hist>")
		}
		hw, err := vtrace.Create(os.Args[7])
		if err != nil {
			fatal(err)
		}
		seed, _ := strconv.ParseInt(os.Args[6], 10, 64)
		n := qstress(atoi(os.Args[2]), atoi(os.Args[3]), atoi(os.Args[4]), atoi(os.Args[5]), seed, hist{hw})
		ev := hw.Count()
		if err := hw.Close(); err != nil {
			fatal(err)
		}
		fmt.Printf("{\"histories\":%d,\"events\":%d}\n", n, ev)
	case "sreplay":
		if len(os.Args) != 5 {
			fatal("usage: eventstream sreplay <behaviours> <hist> <conf>")
		}
		pin()
		behaviours, err := vtrace.ReadLines[sbeh](os.Args[2])
		if err != nil {
			fatal(err)
		}
		hw, err := vtrace.Create(os.Args[3])
		if err != nil {
			fatal(err)
		}
		cw, err := vtrace.Create(os.Args[4])
		if err != nil {
			fatal(err)
		}
		st := &replayStats{}
		sreplay(behaviours, hw, cw, st)
		st.Events, st.ConfLines = hw.Count(), cw.Count()
		if err := hw.Close(); err != nil {
			fatal(err)
		}
		if err := cw.Close(); err != nil {
			fatal(err)
		}
		out, _ := json.Marshal(st)
		fmt.Println(string(out))
	case "sstress":
		if len(os.Args) != 8 {
			fatal("usage: eventstream sstress <publishers> <events> <drainers> <histories> <seed> <hist>")
		}
		hw, err := vtrace.Create(os.Args[7])
		if err != nil {
			fatal(err)
		}
		seed, _ := strconv.ParseInt(os.Args[6], 10, 64)
		n := sstress(atoi(os.Args[2]), atoi(os.Args[3]), atoi(os.Args[4]), atoi(os.Args[5]), seed, hw)
		ev := hw.Count()
		if err := hw.Close(); err != nil {
			fatal(err)
		}
		fmt.Printf("{\"histories\":%d,\"events\":%d}\n", n, ev)
	case "schurn":
		if len(os.Args) != 9 {
			fatal("usage: eventstream schurn <togglers> <rounds> <iters> <keep> <seed> <hist> <unused>")
		}
		hw, err := vtrace.Create(os.Args[7])
		if err != nil {
			fatal(err)
		}
		seed, _ := strconv.ParseInt(os.Args[6], 10, 64)
		st := schurn(atoi(os.Args[2]), atoi(os.Args[3]), atoi(os.Args[4]), atoi(os.Args[5]), seed, hw)
		if err := hw.Close(); err != nil {
			fatal(err)
		}
		out, _ := json.Marshal(st)
		fmt.Println(string(out))
	default:
		fatal("unknown subcommand", os.Args[1])
	}
}
