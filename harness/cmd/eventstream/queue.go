package main

import (
	"math/rand"
	"runtime"
	"strconv"
	"sync"
	"sync/atomic"
	"time"

	"github.com/tochemey/goakt/v4/internal/queue"
	"github.com/tochemey/goakt/v4/internal/verifhook"
	"github.com/tochemey/goakt/v4/verifharness/sched"
	"github.com/tochemey/goakt/v4/verifharness/vtrace"
)

// qstep is one step of a TLC behaviour of MSQueue.tla: action, thread, and the model's values of the
// thread's locals after the step (node ids in allocation order, 0 = nil).
type qstep struct {
	A    string `json:"a"`
	Args []any  `json:"args"`
	Node int    `json:"node"`
	Lt   int    `json:"lt"`
	Ln   int    `json:"ln"`
	Res  *int   `json:"res,omitempty"` // model's lastRes after a step that returns from Dequeue
}

type replayStats struct {
	Behaviours   int    `json:"behaviours"`
	Steps        int    `json:"steps"`
	Drift        int    `json:"drift"`
	Unreproduced int    `json:"unreproduced"` // the pool handed out another node than the one-P model predicts
	PredMismatch int    `json:"pred_mismatch"`
	Watchdog     int    `json:"watchdog"`
	Events       int64  `json:"events"`
	ConfLines    int64  `json:"conf_lines"`
	DriftAt      string `json:"drift_at,omitempty"`
}

// hook point in front of which a thread must be parked for a model action to be its next step
var qExpect = map[string]string{
	"ECall": "call", "ELoadTail": "msq.enq.loadtail", "ELoadNext": "msq.enq.loadnext", "EHelp": "msq.enq.help",
	"ELink": "msq.enq.link", "ESwing": "msq.enq.swing", "EInc": "msq.enq.len",
	"DCall": "call", "DLoadHead": "msq.deq.loadhead", "DLoadNext": "msq.deq.loadnext", "DCas": "msq.deq.cas",
	"DReadV": "msq.deq.readv", "DRelV": "msq.deq.release", "DRelNext": "msq.rel.next", "DRelPut": "msq.rel.put",
	"DDec": "msq.deq.len",
}

// expected hook arguments (as model node ids) by hook point, from the thread's locals; ok=false: not checked
func qHookArgs(point string, x qstep) (a, b int, ok bool) {
	switch point {
	case "msq.enq.loadtail":
		return x.Node, 0, true
	case "msq.enq.loadnext", "msq.deq.loadnext", "msq.deq.release", "msq.rel.next", "msq.rel.put":
		return x.Lt, 0, true
	case "msq.enq.help", "msq.deq.cas":
		return x.Lt, x.Ln, true
	case "msq.enq.link", "msq.enq.swing":
		return x.Lt, x.Node, true
	case "msq.deq.readv":
		return x.Ln, 0, true
	}
	return 0, 0, false
}

// skipUnknown lets thread t pass hook points that are not steps of the model being replayed (the tree
// under test may carry more hooks than the model has actions); the code up to the next modelled
// point then belongs to the previous step.
func skipUnknown(s *sched.Sched, t string, known map[string]bool) {
	for i := 0; i < 32; i++ {
		pend, parked := s.Pending(t)
		if !parked || pend.Done || known[pend.Point] {
			return
		}
		if _, err := s.Step(t); err != nil {
			return
		}
	}
}

func qreplay(behaviours [][]qstep, h hist, cw *vtrace.Writer, st *replayStats) {
	known := map[string]bool{"call": true}
	for _, b := range behaviours {
		for _, x := range b {
			known[qExpect[x.A]] = true
		}
	}
	for bi, b := range behaviours {
		h.w.Raw(map[string]any{"ev": "New"})
		cw.Raw(map[string]any{"a": "New", "t": "", "head": 0, "tail": 0, "len": 0, "nxt": []int{}, "val": []int{}})
		q := queue.NewQueue()
		nt := newNodeTable()
		nt.project(q)
		s := sched.New()
		s.Watchdog = 10 * time.Second
		s.Control(q)
		nenq := map[string]int{}
		ndeq := map[string]int{}
		var order []string
		for _, x := range b {
			t := x.Args[0].(string)
			switch x.A {
			case "ECall":
				if nenq[t] == 0 {
					order = append(order, t)
				}
				nenq[t]++
			case "DCall":
				if ndeq[t] == 0 {
					order = append(order, t)
				}
				ndeq[t]++
			}
		}
		var mu sync.Mutex
		lastRes := 0
		for _, t := range order {
			t := t
			var fn func()
			if n := nenq[t]; n > 0 {
				rank, _ := strconv.Atoi(t[1:])
				fn = func() {
					for k := 1; k <= n; k++ {
						s.Yield("call", 0, 0)
						id := rank*10 + k
						h.call(t, "enq", id)
						q.Enqueue(id)
						h.ret(t, "enq", 1)
					}
				}
			} else {
				n := ndeq[t]
				fn = func() {
					for k := 1; k <= n; k++ {
						s.Yield("call", 0, 0)
						h.call(t, "deq", 0)
						r := valID(q.Dequeue())
						mu.Lock()
						lastRes = r
						mu.Unlock()
						h.ret(t, "deq", r)
					}
				}
			}
			if _, err := s.Go(t, fn); err != nil {
				fatal("go", err)
			}
		}
		drift, unrep := "", false
		for si, x := range b {
			t := x.Args[0].(string)
			skipUnknown(s, t, known)
			pend, parked := s.Pending(t)
			if !parked || pend.Done || pend.Point != qExpect[x.A] {
				drift = "behaviour " + strconv.Itoa(bi) + " step " + strconv.Itoa(si) + " " + x.A + "(" + t + "): thread at " + pend.String()
				break
			}
			np, err := s.Step(t)
			if err != nil {
				if _, ok := err.(sched.ErrWatchdog); ok {
					st.Watchdog++
				}
				drift = "behaviour " + strconv.Itoa(bi) + " step " + strconv.Itoa(si) + " " + x.A + ": " + err.Error()
				break
			}
			st.Steps++
			skipUnknown(s, t, known)
			np, _ = s.Pending(t)
			line := nt.project(q)
			if ea, eb, ok := qHookArgs(np.Point, x); ok && !np.Done {
				ra, rb := nt.byAddr(uintptr(np.A)), nt.byAddr(uintptr(np.B))
				if ra != ea || rb != eb {
					if x.A == "ECall" {
						unrep = true // sync.Pool returned a different node than the one-P model: cannot follow this behaviour
					} else {
						drift = "behaviour " + strconv.Itoa(bi) + " step " + strconv.Itoa(si) + " " + x.A + "(" + t + "): hook " + np.String() +
							" = nodes (" + strconv.Itoa(ra) + "," + strconv.Itoa(rb) + "), model (" + strconv.Itoa(ea) + "," + strconv.Itoa(eb) + ")"
					}
				}
			}
			if unrep {
				break
			}
			// the ECall step may have registered a new node: project again so that arrays cover it
			if x.A == "ECall" {
				line = nt.project(q)
			}
			line["a"], line["t"] = x.A, t
			cw.Raw(line)
			if drift != "" {
				break
			}
			if x.Res != nil {
				mu.Lock()
				if lastRes != *x.Res {
					st.PredMismatch++
				}
				mu.Unlock()
			}
		}
		if unrep {
			st.Unreproduced++
		} else if drift != "" {
			st.Drift++
			if st.DriftAt == "" {
				st.DriftAt = drift
			}
		}
		s.FreeRun()
		if !s.Join(15 * time.Second) {
			st.Watchdog++
		}
		s.Close()
		// drain what is left through the public API; a completed Enqueue that never comes out makes the
		// history non-linearizable
		for i := 0; i < 64; i++ {
			h.call("z", "deq", 0)
			r := valID(q.Dequeue())
			h.ret("z", "deq", r)
			if r == 0 {
				break
			}
		}
		st.Behaviours++
	}
	h.w.Raw(map[string]any{"ev": "New"})
	cw.Raw(map[string]any{"a": "New", "t": "", "head": 0, "tail": 0, "len": 0, "nxt": []int{}, "val": []int{}})
}

// qstress records free-running histories: nenq enqueuers x nmsgs, ndeq concurrent dequeuers.
func qstress(nenq, nmsgs, ndeq, histories int, seed int64, h hist) int {
	rng := rand.New(rand.NewSource(seed))
	verifhook.Install(&chaos{x: uint64(seed)}) // random yields at the hook points inside Enqueue / Dequeue
	defer verifhook.Uninstall()
	total := nenq * nmsgs
	for i := 0; i < histories; i++ {
		h.w.Raw(map[string]any{"ev": "New"})
		q := queue.NewQueue()
		// warm the node pool (if the tree has one) so that recycling happens from the first operation on
		warm := rng.Intn(3)
		for k := 0; k < warm; k++ {
			q.Enqueue(900 + k)
		}
		for k := 0; k < warm; k++ {
			q.Dequeue()
		}
		var wg, pw sync.WaitGroup
		var got, prodDone int64
		for p := 1; p <= nenq; p++ {
			p := p
			name := "p" + strconv.Itoa(p)
			yields := make([]int, nmsgs)
			for k := range yields {
				yields[k] = rng.Intn(4)
			}
			wg.Add(1)
			pw.Add(1)
			go func() {
				defer wg.Done()
				defer pw.Done()
				for k := 1; k <= nmsgs; k++ {
					for y := 0; y < yields[k-1]; y++ {
						runtime.Gosched()
					}
					id := p*10 + k
					h.call(name, "enq", id)
					q.Enqueue(id)
					h.ret(name, "enq", 1)
				}
			}()
		}
		go func() { pw.Wait(); atomic.StoreInt64(&prodDone, 1) }()
		for c := 1; c <= ndeq; c++ {
			name := "c" + strconv.Itoa(c)
			cy := rng.Intn(4)
			wg.Add(1)
			go func() {
				defer wg.Done()
				empties := 0
				deadline := time.Now().Add(2 * time.Second)
				for atomic.LoadInt64(&got) < int64(total) && time.Now().Before(deadline) {
					for y := 0; y < cy; y++ {
						runtime.Gosched()
					}
					h.call(name, "deq", 0)
					r := valID(q.Dequeue())
					h.ret(name, "deq", r)
					if r != 0 {
						atomic.AddInt64(&got, 1)
						continue
					}
					if atomic.LoadInt64(&prodDone) == 1 {
						return // producers finished and the queue reports empty: the final drain decides
					}
					empties++
					if empties > 4 {
						for atomic.LoadInt64(&prodDone) == 0 && time.Now().Before(deadline) {
							time.Sleep(20 * time.Microsecond) // do not flood the history with empty polls
						}
					} else {
						time.Sleep(20 * time.Microsecond)
					}
				}
			}()
		}
		wg.Wait()
		for k := 0; k < 64; k++ {
			h.call("z", "deq", 0)
			r := valID(q.Dequeue())
			h.ret("z", "deq", r)
			if r == 0 {
				break
			}
		}
	}
	h.w.Raw(map[string]any{"ev": "New"})
	return histories
}
