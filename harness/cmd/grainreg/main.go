// Command grainreg drives 2-3 REAL goakt actor systems that share one fake cluster registry
// (see fake.go) and executes behaviours of specs/Grain/Registry.tla (C30) and
// specs/Cluster/Singleton.tla (C36) on them with the puppet scheduler: every registry
// operation of goakt's cluster engine is a verifhook gate ("cluster.<Op>" on the node's
// engine), the test grain / test actor add gates inside OnActivate / OnDeactivate / PreStart.
//
//	grainreg grain-replay  <behaviours.ndjson> <trace.ndjson>
//	grainreg grain-explore <runs> <seed> <mix> <trace.ndjson>
//	grainreg single-replay  <behaviours.ndjson> <trace.ndjson>
//	grainreg single-explore <runs> <seed> <trace.ndjson>
package main

import (
	"context"
	"encoding/json"
	"fmt"
	"net"
	"os"
	"sort"
	"strconv"
	"strings"
	"sync"
	"sync/atomic"
	"time"

	"github.com/tochemey/goakt/v4/actor"
	"github.com/tochemey/goakt/v4/discovery"
	"github.com/tochemey/goakt/v4/internal/cluster"
	"github.com/tochemey/goakt/v4/log"
	"github.com/tochemey/goakt/v4/remote"
	"github.com/tochemey/goakt/v4/verifharness/sched"
	"github.com/tochemey/goakt/v4/verifharness/vtrace"
)

func fatal(v ...any) {
	fmt.Fprintln(os.Stderr, v...)
	os.Exit(2)
}

// ---------------------------------------------------------------- nodes

type node struct {
	name   string
	idx    int
	sys    actor.ActorSystem
	cl     cluster.Cluster
	client *fakeClient
	dn     *discovery.Node
	port   int
}

type world struct {
	nodes  []*node
	byName map[string]*node
	byPort map[int]*node
	byObj  map[any]*node
	st     *store
	w      *vtrace.Writer
	s      atomic.Pointer[sched.Sched]
	dport  int // remoting port of the departed node "D" (nothing listens there)
}

var W *world // the grain / actor callbacks reach the harness through this

func freePorts(n int) []int {
	var ls []net.Listener
	var ports []int
	for i := 0; i < n; i++ {
		l, err := net.Listen("tcp", "127.0.0.1:0")
		if err != nil {
			fatal("no free port:", err)
		}
		ls = append(ls, l)
		ports = append(ports, l.Addr().(*net.TCPAddr).Port)
	}
	for _, l := range ls {
		l.Close()
	}
	return ports
}

func newWorld(names []string, w *vtrace.Writer) *world {
	ctx := context.Background()
	wd := &world{byName: map[string]*node{}, byPort: map[int]*node{}, byObj: map[any]*node{}, w: w}
	wd.st = newStore(w, func(host string, port int) string {
		if n, ok := wd.byPort[port]; ok {
			return n.name
		}
		if port == wd.dport {
			return "D"
		}
		return "?"
	})
	ports := freePorts(2*len(names) + 1)
	wd.dport = ports[2*len(names)]
	var dns []*discovery.Node
	for i, name := range names {
		dns = append(dns, &discovery.Node{Name: name, Host: "127.0.0.1", DiscoveryPort: 0, PeersPort: ports[2*i+1], RemotingPort: ports[2*i]})
	}
	for i, name := range names {
		sys, err := actor.NewActorSystem("sys"+name, actor.WithLogger(log.DiscardLogger),
			actor.WithRemote(remote.NewConfig("127.0.0.1", ports[2*i])))
		if err != nil {
			fatal(err)
		}
		if err := sys.Start(ctx); err != nil {
			fatal("start", name, err)
		}
		n := &node{name: name, idx: i, sys: sys, dn: dns[i], port: ports[2*i]}
		n.client = &fakeClient{nodes: dns, leader: names[0], w: w, self: name}
		n.cl = cluster.NewVerif("sys"+name, dns[i], &fakeDMap{st: wd.st, node: name}, n.client)
		wd.nodes = append(wd.nodes, n)
		wd.byName[name] = n
		wd.byPort[n.port] = n
		wd.byObj[n.cl] = n
	}
	route := func(host string, port int) actor.ActorSystem {
		if n, ok := wd.byPort[port]; ok {
			return n.sys
		}
		return nil
	}
	for _, n := range wd.nodes {
		if err := actor.VerifJoinCluster(ctx, n.sys, n.cl, n.dn, route); err != nil {
			fatal("join", n.name, err)
		}
	}
	return wd
}

func (wd *world) stop() {
	ctx, cancel := context.WithTimeout(context.Background(), 20*time.Second)
	defer cancel()
	for _, n := range wd.nodes {
		actor.VerifLeaveCluster(n.sys)
		_ = n.sys.Stop(ctx)
	}
}

func (wd *world) nodeOfSystem(sys actor.ActorSystem) *node {
	return wd.byName[strings.TrimPrefix(sys.Name(), "sys")]
}

func (wd *world) yield(point string, a int) {
	if s := wd.s.Load(); s != nil {
		s.Yield(point, int64(a), 0)
	}
}

func (wd *world) threadName() string {
	if v, ok := wd.st.thread.Load(sched.Gid()); ok {
		return v.(string)
	}
	return ""
}

// newSched creates the puppet scheduler of one behaviour: the nodes' cluster engines are the
// controlled objects; `gates` are the cluster hook points that gate (others are observed only).
func (wd *world) newSched(gates ...string) *sched.Sched {
	s := sched.New()
	s.Watchdog = 8 * time.Second
	for _, n := range wd.nodes {
		s.Control(n.cl)
	}
	all := []string{"cluster.PutActor", "cluster.PutActorIfAbsent", "cluster.GetActor", "cluster.RemoveActor", "cluster.ActorExists",
		"cluster.PutGrain", "cluster.GetGrain", "cluster.GrainExists", "cluster.RemoveGrain", "cluster.PutGrainIfAbsent",
		"cluster.Members", "cluster.IsLeader"}
	on := map[string]bool{}
	for _, g := range gates {
		on[g] = true
	}
	for _, p := range all {
		if !on[p] {
			s.SkipPoints(p)
		}
	}
	s.Obs = func(thread, point string, obj any, a, b int64) {
		if strings.HasPrefix(point, "cluster.") {
			wd.st.point.Store(sched.Gid(), point)
		}
	}
	wd.s.Store(s)
	return s
}

func (wd *world) closeSched(s *sched.Sched) {
	wd.s.Store(nil)
	s.Close()
}

// goThread starts fn as logical thread name (parked at its "call" gate).
func (wd *world) goThread(s *sched.Sched, name string, fn func()) {
	if _, err := s.Go(name, func() {
		g := sched.Gid()
		wd.st.thread.Store(g, name)
		defer wd.st.thread.Delete(g)
		defer wd.st.point.Delete(g)
		s.Yield("call", 0, 0)
		fn()
	}); err != nil {
		fatal("go", name, err)
	}
}

var gateOfPoint = map[string]string{"call": "call", "cluster.GrainExists": "E", "cluster.GetGrain": "G", "cluster.PutGrainIfAbsent": "NX",
	"cluster.PutGrain": "P", "cluster.RemoveGrain": "R", "act": "act", "deact": "deact",
	"cluster.Members": "M", "cluster.ActorExists": "AE", "cluster.PutActor": "AP", "cluster.GetActor": "AG", "cluster.RemoveActor": "AR",
	"prestart": "pre", "poststop": "post"}

// where describes the gate a thread is parked at: gate class and node ("" when unknown).
func (wd *world) where(p sched.Pending, parked bool) (gate, at string) {
	switch {
	case p.Done:
		return "done", ""
	case !parked:
		return "wait", ""
	}
	gate = gateOfPoint[p.Point]
	if gate == "" {
		gate = p.Point
	}
	if n, ok := wd.byObj[p.Obj]; ok {
		at = n.name
	} else if p.Point != "call" && int(p.A) >= 1 && int(p.A) <= len(wd.nodes) {
		at = wd.nodes[p.A-1].name
	}
	return gate, at
}

type stats struct {
	Behaviours int            `json:"behaviours"`
	Steps      int            `json:"steps"`
	Drift      int            `json:"drift"`
	Watchdog   int            `json:"watchdog"`
	NotQuiet   int            `json:"not_quiescent"`
	Events     int64          `json:"events"`
	DriftAt    map[string]int `json:"drift_at"`
}

func (st *stats) drift(what string) {
	st.Drift++
	if st.DriftAt == nil {
		st.DriftAt = map[string]int{}
	}
	st.DriftAt[what]++
}

type step struct {
	T  string `json:"t"`
	A  string `json:"a"`
	PC string `json:"pc"`
	At string `json:"at"`
	N  string `json:"n"` // C36 view change: node n learns that m is the coordinator
	M  string `json:"m"`
}

type behaviour struct {
	Kinds map[string]string `json:"kinds"`
	Orgs  map[string]string `json:"orgs"`
	Steps []step            `json:"steps"`
	Tag   string            `json:"tag"`
	Lead  map[string]string `json:"lead"` // C36: leader view per node ("-" = no coordinator flagged)
	Solo  []string          `json:"solo"` // C36: nodes whose view is exactly [self]
	Rec0  string            `json:"rec0"` // C36: "D" = the registry starts with the departed node's record
}

func sortedKeys(m map[string]string) []string {
	var ks []string
	for k := range m {
		ks = append(ks, k)
	}
	sort.Strings(ks)
	return ks
}

// performStep lets thread t take one step of the behaviour; expectWait = the model says the thread
// blocks inside the code (single-flight join) instead of reaching a gate.
func performStep(s *sched.Sched, t string, wake, expectWait bool) (sched.Pending, bool, error) {
	if wake && expectWait { // woken from one single-flight, blocks in the next one
		p, ok := s.TryAwait(t, 40*time.Millisecond)
		return p, ok, nil
	}
	if wake {
		p, err := s.Await(t)
		return p, err == nil, err
	}
	if expectWait {
		if err := s.Release(t); err != nil {
			return sched.Pending{}, false, err
		}
		p, ok := s.TryAwait(t, 40*time.Millisecond)
		return p, ok, nil
	}
	p, err := s.Step(t)
	return p, err == nil, err
}

func main() {
	if len(os.Args) < 2 {
		fatal("usage: grainreg grain-replay|grain-explore|single-replay|single-explore ...")
	}
	st := &stats{}
	mkw := func(path string) *vtrace.Writer {
		w, err := vtrace.Create(path)
		if err != nil {
			fatal(err)
		}
		return w
	}
	switch os.Args[1] {
	case "grain-replay":
		if len(os.Args) != 4 {
			fatal("usage: grainreg grain-replay <behaviours> <trace>")
		}
		bs, err := vtrace.ReadLines[behaviour](os.Args[2])
		if err != nil {
			fatal(err)
		}
		w := mkw(os.Args[3])
		W = newWorld([]string{"A", "B", "C"}, w)
		grainReplay(W, bs, st)
		W.stop()
		st.Events = w.Count()
		w.Close()
	case "grain-explore":
		if len(os.Args) != 6 {
			fatal("usage: grainreg grain-explore <runs> <seed> <mix> <trace>")
		}
		runs, _ := strconv.Atoi(os.Args[2])
		seed, _ := strconv.ParseInt(os.Args[3], 10, 64)
		w := mkw(os.Args[5])
		W = newWorld([]string{"A", "B", "C"}, w)
		grainExplore(W, runs, seed, os.Args[4], st)
		W.stop()
		st.Events = w.Count()
		w.Close()
	case "single-replay":
		if len(os.Args) != 4 {
			fatal("usage: grainreg single-replay <behaviours> <trace>")
		}
		bs, err := vtrace.ReadLines[behaviour](os.Args[2])
		if err != nil {
			fatal(err)
		}
		w := mkw(os.Args[3])
		W = newWorld([]string{"A", "B", "C"}, w)
		singleReplay(W, bs, st)
		W.stop()
		st.Events = w.Count()
		w.Close()
	case "single-explore":
		if len(os.Args) != 5 {
			fatal("usage: grainreg single-explore <runs> <seed> <trace>")
		}
		runs, _ := strconv.Atoi(os.Args[2])
		seed, _ := strconv.ParseInt(os.Args[3], 10, 64)
		w := mkw(os.Args[4])
		W = newWorld([]string{"A", "B", "C"}, w)
		singleExplore(W, runs, seed, st)
		W.stop()
		st.Events = w.Count()
		w.Close()
	default:
		fatal("unknown subcommand", os.Args[1])
	}
	out, _ := json.Marshal(st)
	fmt.Println(string(out))
}

// drain is called after FreeRun: it waits until the named logical threads have finished. A thread that was released
// without being awaited and has parked at a gate in the meantime is released again (the gates are open now).
func drain(s *sched.Sched, names []string, d time.Duration) bool {
	deadline := time.Now().Add(d)
	done := map[string]bool{}
	for {
		for _, n := range names {
			if done[n] {
				continue
			}
			p, parked := s.Pending(n)
			if !parked {
				pp, ok := s.TryAwait(n, 100*time.Microsecond)
				if !ok {
					continue
				}
				p = pp
			}
			if p.Done {
				done[n] = true
			} else {
				_ = s.Release(n)
			}
		}
		if len(done) == len(names) {
			return true
		}
		if time.Now().After(deadline) {
			return false
		}
		time.Sleep(300 * time.Microsecond)
	}
}

var _ = sync.Mutex{}
