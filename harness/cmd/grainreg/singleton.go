package main

func singleReplay(wd *world, bs []behaviour, st *stats) { fatal("not implemented") }
func singleExplore(wd *world, runs int, seed int64, st *stats) { fatal("not implemented") }
