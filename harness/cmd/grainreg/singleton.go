package main

// C36: replay / exploration of SpawnSingleton under diverging leader views.
//
// spawnSingletonOnLocal runs inside singleflight.DoChan, i.e. on a goroutine the harness did not
// start: that goroutine is adopted as a logical thread when it reaches cluster.ActorExists and the
// steps AE / pre / AP of the calling thread's model program are executed by it.

import (
	"context"
	"fmt"
	"math/rand"

	"google.golang.org/protobuf/types/known/durationpb"

	"github.com/tochemey/goakt/v4/internal/address"
	"github.com/tochemey/goakt/v4/internal/internalpb"
	"github.com/tochemey/goakt/v4/internal/types"
	"sort"
	"strconv"
	"sync"
	"sync/atomic"
	"time"

	"github.com/tochemey/goakt/v4/actor"
	"github.com/tochemey/goakt/v4/verifharness/sched"
)

// SingletonActor is the singleton under test (instantiated by the caller or, for remote spawns,
// by goakt through the type registry).
type SingletonActor struct {
	inst int64
	node string
	name string
}

var (
	singSeq  atomic.Int64
	singMu   sync.Mutex
	singLive = map[int64][2]string{} // instance -> (node, singleton name) between PreStart ok and PostStop
)

// singNodes lists the nodes of the running instances of singleton `name` (a late instance of an earlier history is not counted).
func singNodes(name string) []string {
	singMu.Lock()
	defer singMu.Unlock()
	out := []string{}
	for _, v := range singLive {
		if v[1] == name {
			out = append(out, v[0])
		}
	}
	sort.Strings(out)
	return out
}

func (a *SingletonActor) PreStart(ctx *actor.Context) error {
	n := W.nodeOfSystem(ctx.ActorSystem())
	W.yield("prestart", n.idx+1)
	a.inst = singSeq.Add(1)
	a.node = n.name
	a.name = ctx.ActorName()
	singMu.Lock()
	singLive[a.inst] = [2]string{n.name, a.name}
	W.w.Emit(map[string]any{"ev": "start", "n": n.name, "inst": a.inst, "id": a.name})
	singMu.Unlock()
	return nil
}

func (a *SingletonActor) Receive(ctx *actor.ReceiveContext) {}

func (a *SingletonActor) PostStop(ctx *actor.Context) error {
	singMu.Lock()
	delete(singLive, a.inst)
	W.w.Emit(map[string]any{"ev": "stop", "n": a.node, "inst": a.inst, "id": a.name})
	singMu.Unlock()
	return nil
}

var singleGates = []string{"cluster.Members", "cluster.ActorExists", "cluster.PutActor", "cluster.GetActor", "cluster.RemoveActor"}

var singGateOfPC = map[string]string{"call": "call", "M": "M", "AE": "AE", "pre": "pre", "AP": "AP", "AG": "AG", "RG": "AG", "RR": "AR",
	"wait": "wait", "done": "done"}

// gate a model action passes
var singGateOfAction = map[string]string{"call": "call", "M": "M", "Mfail": "M", "AE": "AE", "AEfail": "AE", "pre": "pre", "AP": "AP",
	"AG": "AG", "AGfail": "AG", "RG": "AG", "RGfail": "AG", "RR": "AR"}

// singletonProps is the wire record of the singleton as the departed node "D" published it.
func (wd *world) singletonProps(name string) (*internalpb.Actor, string) {
	addr := address.New(name, "sysD", "127.0.0.1", wd.dport)
	return &internalpb.Actor{
		Address: addr.String(),
		Type:    types.Name(&SingletonActor{}),
		Singleton: &internalpb.SingletonSpec{SpawnTimeout: durationpb.New(800 * time.Millisecond),
			WaitInterval: durationpb.New(2 * time.Millisecond), MaxRetries: 2},
	}, addr.HostPort()
}

func (wd *world) registerActorKinds() {
	ctx := context.Background()
	for _, n := range wd.nodes {
		if err := n.sys.Register(ctx, &SingletonActor{}); err != nil {
			fatal(err)
		}
	}
}

func (wd *world) setViews(lead map[string]string, solo []string) {
	for _, n := range wd.nodes {
		l := lead[n.name]
		if l == "" {
			l = wd.nodes[0].name
		}
		isSolo := false
		for _, x := range solo {
			isSolo = isSolo || x == n.name
		}
		n.client.log = true
		n.client.setView(l, isSolo && l == "-")
	}
}

// seedRecord publishes the departed node's record of the singleton (relocation scenarios).
func (wd *world) seedRecord(name, rec0 string) {
	if rec0 != "D" {
		return
	}
	props, _ := wd.singletonProps(name)
	if err := wd.nodes[0].cl.PutActor(context.Background(), props); err != nil {
		fatal("seed record", err)
	}
}

func (wd *world) startSingletonThreads(s *sched.Sched, name string, orgs, kinds map[string]string) {
	ctx := context.Background()
	for _, t := range sortedKeys(orgs) {
		t, n := t, wd.byName[orgs[t]]
		if kinds[t] == "reloc" {
			wd.goThread(s, t, func() {
				props, departed := wd.singletonProps(name)
				ok, info := 1, ""
				if err := actor.VerifRecreateSingleton(ctx, n.sys, props, departed); err != nil {
					ok, info = 0, err.Error()
				}
				if len(info) > 120 {
					info = info[:120]
				}
				wd.w.Emit(map[string]any{"ev": "ret", "t": t, "n": n.name, "ok": ok, "info": info, "id": name})
			})
			continue
		}
		wd.goThread(s, t, func() {
			ok, info := 0, ""
			pid, err := n.sys.SpawnSingleton(ctx, name, &SingletonActor{}, actor.WithSingletonSpawnTimeout(800*time.Millisecond),
				actor.WithSingletonSpawnWaitInterval(2*time.Millisecond), actor.WithSingletonSpawnRetries(2))
			if err == nil {
				ok = 1
				if pid != nil {
					info = pid.ID()
				}
			} else {
				info = err.Error()
			}
			if len(info) > 120 {
				info = info[:120]
			}
			wd.w.Emit(map[string]any{"ev": "ret", "t": t, "n": n.name, "ok": ok, "info": info, "id": name})
		})
	}
}

func (wd *world) endSingleton(name string, quiet bool) {
	ctx := context.Background()
	own := actorOwner(wd, name)
	q := 0
	if quiet {
		q = 1
	}
	// the End line and the actor's own start / stop reports are ordered by singMu: a spawn single-flight that outlived its
	// callers may still start an instance concurrently, and "live" must be what the reports BEFORE this line say
	singMu.Lock()
	live := []string{}
	for _, v := range singLive {
		if v[1] == name {
			live = append(live, v[0])
		}
	}
	sort.Strings(live)
	wd.w.Emit(map[string]any{"ev": "End", "q": q, "own": own, "live": live, "id": name})
	singMu.Unlock()
	for _, n := range wd.nodes {
		_ = n.sys.Kill(ctx, name)
	}
	_ = wd.nodes[0].cl.RemoveActor(ctx, name)
	// PostStop of the killed instances
	deadline := time.Now().Add(3 * time.Second)
	for len(singNodes(name)) > 0 && time.Now().Before(deadline) {
		time.Sleep(200 * time.Microsecond)
	}
}

// flight returns the adopted goroutine that runs spawnSingletonOnLocal for caller t ("" = none).
type singRun struct {
	s       *sched.Sched
	flight  map[string]string // caller thread -> adopted flight goroutine
	adopted map[string]bool
}

// stepSingleton executes one model step of caller thread t. It returns the gate reached by the program of t.
func (wd *world) stepSingleton(r *singRun, x step) (gate, at string, err error) {
	s := r.s
	t := x.T
	f := r.flight[t]
	switch x.A {
	case "call":
		p, e := s.Step(t)
		if e != nil {
			return "", "", e
		}
		gate, at = wd.where(p, true)
		return gate, at, nil
	case "M":
		// the caller hops to another node (same goroutine, parks at that node's Members), leads the node's spawn
		// single-flight (blocks; a new goroutine arrives at ActorExists), or joins a flight in progress (blocks)
		switch x.PC {
		case "AE":
			if e := s.Release(t); e != nil {
				return "", "", e
			}
			// either a new goroutine arrives at ActorExists (the flight), or - if the code under test does not
			// behave like the model - the caller itself parks somewhere or finishes
			deadline := time.Now().Add(2 * time.Second)
			for time.Now().Before(deadline) {
				if name, ok := s.WaitAdopted(2 * time.Millisecond); ok {
					r.flight[t] = name
					p, _ := s.Pending(name)
					gate, at = wd.where(p, true)
					return gate, at, nil
				}
				if p, ok := s.TryAwait(t, 2*time.Millisecond); ok {
					gate, at = wd.where(p, true)
					if gate == "AE" {
						gate = "AE(inline)"
					}
					return gate, at, nil
				}
			}
			return "wait", "", nil
		case "wait":
			if e := s.Release(t); e != nil {
				return "", "", e
			}
			if p, ok := s.TryAwait(t, 40*time.Millisecond); ok {
				gate, at = wd.where(p, true)
				return gate, at, nil
			}
			if name, ok := s.WaitAdopted(0); ok { // it leads a flight although the model says it joins one
				r.flight[t] = name
				return "AE", "", nil
			}
			return "wait", "", nil
		default:
			p, e := s.Step(t)
			if e != nil {
				return "", "", e
			}
			gate, at = wd.where(p, true)
			return gate, at, nil
		}
	case "RG", "RGfail", "RR", "Mfail":
		p, e := s.Step(t)
		if e != nil {
			return "", "", e
		}
		gate, at = wd.where(p, true)
		return gate, at, nil
	case "AE", "pre", "AP", "AEfail":
		if f == "" {
			return "", "", fmt.Errorf("no flight goroutine for %s", t)
		}
		if x.A == "AP" || x.A == "AEfail" || (x.A == "AE" && x.PC != "pre") {
			// the flight ends with this step: its goroutine runs to completion, the caller wakes up
			if e := s.Release(f); e != nil {
				return "", "", e
			}
			delete(r.flight, t)
			p, e := s.Await(t)
			if e != nil {
				return "", "", e
			}
			gate, at = wd.where(p, true)
			return gate, at, nil
		}
		p, e := s.Step(f)
		if e != nil {
			return "", "", e
		}
		gate, at = wd.where(p, true)
		return gate, at, nil
	case "AG", "AGfail":
		if e := s.Release(t); e != nil {
			return "", "", e
		}
		if p, ok := s.TryAwait(t, 2*time.Second); ok {
			gate, at = wd.where(p, true)
			return gate, at, nil
		}
		return "wait", "", nil
	case "wake":
		p, e := s.Await(t)
		if e != nil {
			return "", "", e
		}
		gate, at = wd.where(p, true)
		return gate, at, nil
	}
	return "", "", fmt.Errorf("unknown action %s", x.A)
}

func singleReplay(wd *world, bs []behaviour, st *stats) {
	wd.registerActorKinds()
	for bi, b := range bs {
		name := "s" + strconv.Itoa(bi)
		wd.w.Raw(map[string]any{"ev": "New", "id": name, "tag": b.Tag, "orgs": b.Orgs, "lead": b.Lead, "kinds": b.Kinds})
		wd.setViews(b.Lead, b.Solo)
		wd.seedRecord(name, b.Rec0)
		s := wd.newSched(singleGates...)
		s.AdoptAt("cluster.ActorExists", "f")
		r := &singRun{s: s, flight: map[string]string{}}
		wd.startSingletonThreads(s, name, b.Orgs, b.Kinds)
		drift := ""
		for si, x := range b.Steps {
			if x.T == "env" {
				wd.byName[x.N].client.setLeader(x.M)
				wd.w.Emit(map[string]any{"ev": "view", "n": x.N, "m": x.M, "i": si})
				st.Steps++
				continue
			}
			// the thread (or its flight goroutine) must be parked at the gate the action passes
			who := x.T
			if x.A == "AE" || x.A == "pre" || x.A == "AP" || x.A == "AEfail" {
				who = r.flight[x.T]
			}
			if x.A != "wake" {
				pend, parked := s.Pending(who)
				gate, _ := wd.where(pend, parked)
				if who == "" || !parked || pend.Done || gate != singGateOfAction[x.A] {
					drift = fmt.Sprintf("%s:at=%s", x.A, gate)
					break
				}
				// injected read-quorum failure of the read the thread is parked in front of
				if n, ok := wd.byObj[pend.Obj]; ok {
					switch x.A {
					case "RGfail", "AEfail", "AGfail":
						wd.st.mu.Lock()
						wd.st.fail[n.name+"/getq"]++
						wd.st.mu.Unlock()
					case "Mfail":
						n.client.failNext()
					}
				}
			}
			gate, at, err := wd.stepSingleton(r, x)
			if err != nil {
				if _, ok := err.(sched.ErrWatchdog); ok {
					st.Watchdog++
				}
				drift = fmt.Sprintf("%s:step-failed:%v", x.A, err)
				break
			}
			st.Steps++
			wd.w.Emit(map[string]any{"ev": "step", "t": x.T, "a": x.A, "gate": gate, "at": at, "own": actorOwner(wd, name), "live": singNodes(name), "i": si})
			if gate != singGateOfPC[x.PC] || (at != "" && gate != "call" && gate != "done" && at != x.At) {
				drift = fmt.Sprintf("%s->%s:reached=%s@%s:want=%s@%s", x.A, x.PC, gate, at, singGateOfPC[x.PC], x.At)
				break
			}
		}
		if drift != "" {
			st.drift(drift)
			wd.w.Emit(map[string]any{"ev": "drift", "what": drift, "id": name})
			if os_debug {
				fmt.Printf("behaviour %d drift %s\n", bi, drift)
			}
		}
		s.FreeRun()
		quiet := drain(s, sortedKeys(b.Orgs), 10*time.Second)
		if !quiet {
			st.NotQuiet++
		}
		wd.endSingleton(name, quiet)
		wd.closeSched(s)
		st.Behaviours++
	}
	wd.w.Raw(map[string]any{"ev": "New", "id": "", "tag": "", "orgs": map[string]string{}, "lead": map[string]string{}})
}

func actorOwner(wd *world, name string) string {
	wd.st.mu.Lock()
	defer wd.st.mu.Unlock()
	k := "actors::" + name
	if v, ok := wd.st.m[k]; ok {
		return wd.st.owner(k, v)
	}
	return "-"
}

// singleExplore: seeded random schedules over the real gates with random view changes.
func singleExplore(wd *world, runs int, seed int64, st *stats) {
	wd.registerActorKinds()
	rng := rand.New(rand.NewSource(seed))
	for run := 0; run < runs; run++ {
		name := "y" + strconv.Itoa(run)
		orgs := map[string]string{}
		nt := 2 + rng.Intn(2)
		for i := 0; i < nt; i++ {
			orgs["t"+strconv.Itoa(i+1)] = wd.nodes[rng.Intn(len(wd.nodes))].name
		}
		l0 := wd.nodes[rng.Intn(len(wd.nodes))].name
		lead := map[string]string{}
		for _, n := range wd.nodes {
			lead[n.name] = l0
		}
		// one run in three is a relocation scenario (the record of the departed node is there, some threads are
		// relocation items); one in three has a joining node whose view flags no coordinator (half of them: view = [self])
		kinds := map[string]string{}
		rec0 := "-"
		var solo []string
		if rng.Intn(3) == 0 {
			rec0 = "D"
			for t := range orgs {
				if rng.Intn(3) != 0 {
					kinds[t] = "reloc"
				}
			}
		}
		if rng.Intn(3) == 0 {
			j := wd.nodes[rng.Intn(len(wd.nodes))].name
			lead[j] = "-"
			if rng.Intn(2) == 0 {
				solo = []string{j}
			}
		}
		readFaults := rng.Intn(2)
		wd.w.Raw(map[string]any{"ev": "New", "id": name, "tag": "explore", "orgs": orgs, "lead": lead, "kinds": kinds})
		wd.setViews(lead, solo)
		wd.seedRecord(name, rec0)
		s := wd.newSched(singleGates...)
		s.AdoptAt("cluster.ActorExists", "f")
		wd.startSingletonThreads(s, name, orgs, kinds)
		names := sortedKeys(orgs)
		changes := rng.Intn(4)
		newLead := wd.nodes[rng.Intn(len(wd.nodes))].name
		blocked := map[string]bool{}
		idle := 0
		for stepn := 0; stepn < 90; stepn++ {
			for {
				n, ok := s.WaitAdopted(200 * time.Microsecond)
				if !ok {
					break
				}
				names = append(names, n)
			}
			for n := range blocked {
				if _, ok := s.TryAwait(n, 0); ok {
					delete(blocked, n)
				}
			}
			var cands []string
			callersLeft := false
			for _, n := range names {
				pd, parked := s.Pending(n)
				if _, isCaller := orgs[n]; isCaller && !(parked && pd.Done) {
					callersLeft = true
				}
				if blocked[n] || !parked || pd.Done {
					continue
				}
				cands = append(cands, n)
			}
			if !callersLeft {
				break
			}
			if changes > 0 && rng.Intn(5) == 0 {
				n := wd.nodes[rng.Intn(len(wd.nodes))]
				n.client.setLeader(newLead)
				wd.w.Emit(map[string]any{"ev": "view", "n": n.name, "m": newLead, "i": stepn})
				changes--
			}
			if len(cands) == 0 {
				idle++
				if idle > 3000 {
					break
				}
				time.Sleep(200 * time.Microsecond)
				continue
			}
			idle = 0
			best := cands[rng.Intn(len(cands))]
			if pd, _ := s.Pending(best); readFaults > 0 && rng.Intn(6) == 0 {
				if n, ok := wd.byObj[pd.Obj]; ok {
					switch pd.Point {
					case "cluster.GetActor", "cluster.ActorExists":
						readFaults--
						wd.st.mu.Lock()
						wd.st.fail[n.name+"/getq"]++
						wd.st.mu.Unlock()
					case "cluster.Members":
						readFaults--
						n.client.failNext()
					}
				}
			}
			if err := s.Release(best); err != nil {
				continue
			}
			st.Steps++
			if _, ok := s.TryAwait(best, 40*time.Millisecond); !ok {
				blocked[best] = true // blocked on a flight, or an adopted goroutine that ran to its end
			}
		}
		s.FreeRun()
		quiet := drain(s, sortedKeys(orgs), 10*time.Second)
		if !quiet {
			st.NotQuiet++
		}
		wd.endSingleton(name, quiet)
		wd.closeSched(s)
		st.Behaviours++
	}
	wd.w.Raw(map[string]any{"ev": "New", "id": "", "tag": "", "orgs": map[string]string{}, "lead": map[string]string{}})
}
