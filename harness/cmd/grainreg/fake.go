package main

// The fake cluster substrate: one shared, linearizable key/value store, and per node an
// olric.DMap / olric.Client facade over it. goakt's REAL cluster engine (internal/cluster,
// built with cluster.NewVerif) runs on top of these, so GrainExists / GetGrain /
// PutGrainIfAbsent (olric NX) / PutGrain / RemoveGrain / ActorExists / PutActor / Members /
// IsLeader are the production code; only olric itself is replaced.

import (
	"context"
	"encoding/json"
	"fmt"
	"reflect"
	"strings"
	"sync"
	"unsafe"

	"github.com/tochemey/olric"
	"github.com/tochemey/olric/pkg/storage"
	"google.golang.org/protobuf/proto"

	"github.com/tochemey/goakt/v4/discovery"
	"github.com/tochemey/goakt/v4/internal/address"
	"github.com/tochemey/goakt/v4/internal/internalpb"
	"github.com/tochemey/goakt/v4/verifharness/sched"
	"github.com/tochemey/goakt/v4/verifharness/vtrace"
)

// store is the registry shared by all nodes. Every operation executes and is logged under mu,
// so the log order is the linearization order.
type store struct {
	mu     sync.Mutex
	m      map[string][]byte
	w      *vtrace.Writer
	nodeOf func(host string, port int) string // "host:port" of a record -> node name
	point  sync.Map                           // goroutine id -> cluster hook point it passed last
	thread sync.Map                           // goroutine id -> logical thread name
	fail   map[string]int                     // "<node>/<op>" -> number of operations to fail
}

func newStore(w *vtrace.Writer, nodeOf func(string, int) string) *store {
	return &store{m: map[string][]byte{}, w: w, nodeOf: nodeOf, fail: map[string]int{}}
}

var errInjected = fmt.Errorf("verif: injected registry failure")

// owner decodes the node a registry record points at ("-" when absent / undecodable).
func (s *store) owner(key string, val []byte) string {
	if val == nil {
		return "-"
	}
	switch {
	case strings.HasPrefix(key, "grains"):
		g := new(internalpb.Grain)
		if proto.Unmarshal(val, g) == nil {
			return s.nodeOf(g.GetHost(), int(g.GetPort()))
		}
	case strings.HasPrefix(key, "actors"):
		a := new(internalpb.Actor)
		if proto.Unmarshal(val, a) == nil {
			if addr, err := address.Parse(a.GetAddress()); err == nil {
				return s.nodeOf(addr.Host(), addr.Port())
			}
		}
	}
	return "?"
}

func shortKey(key string) string {
	if i := strings.LastIndexAny(key, "/:"); i >= 0 && i+1 < len(key) {
		return key[i+1:]
	}
	return key
}

// log must be called with mu held. prev = node named by the record before the operation.
func (s *store) log(node, dop, key string, res int) { s.logp(node, dop, key, res, "") }

func (s *store) logp(node, dop, key string, res int, prev string) {
	g := sched.Gid()
	op, _ := s.point.Load(g)
	th, _ := s.thread.Load(g)
	ops, _ := op.(string)
	ths, _ := th.(string)
	s.w.Emit(map[string]any{"ev": "op", "t": ths, "n": node, "op": strings.TrimPrefix(ops, "cluster."), "dop": dop,
		"key": shortKey(key), "res": res, "own": s.owner(key, s.m[key]), "prev": prev})
}

type fakeDMap struct {
	olric.DMap // unimplemented methods panic (nil embedded interface)
	st         *store
	node       string
}

func (d *fakeDMap) Name() string { return "verif" }

func isNX(options []olric.PutOption) bool {
	for _, o := range options {
		v := reflect.ValueOf(o)
		cfg := reflect.New(v.Type().In(0).Elem())
		v.Call([]reflect.Value{cfg})
		if cfg.Elem().FieldByName("HasNX").Bool() {
			return true
		}
	}
	return false
}

func (d *fakeDMap) injected(op string) bool {
	k := d.node + "/" + op
	if d.st.fail[k] > 0 {
		d.st.fail[k]--
		return true
	}
	return false
}

func (d *fakeDMap) Put(_ context.Context, key string, value any, options ...olric.PutOption) error {
	val, ok := value.([]byte)
	if !ok {
		return fmt.Errorf("verif dmap: unsupported value type %T", value)
	}
	nx := isNX(options)
	d.st.mu.Lock()
	defer d.st.mu.Unlock()
	if nx {
		if d.injected("putnx") {
			d.st.log(d.node, "putnx", key, -1)
			return errInjected
		}
		if _, found := d.st.m[key]; found {
			d.st.log(d.node, "putnx", key, 0)
			return olric.ErrKeyFound
		}
		d.st.m[key] = append([]byte(nil), val...)
		d.st.log(d.node, "putnx", key, 1)
		return nil
	}
	if d.injected("put") {
		d.st.log(d.node, "put", key, -1)
		return errInjected
	}
	d.st.m[key] = append([]byte(nil), val...)
	d.st.log(d.node, "put", key, 1)
	return nil
}

type entry struct {
	key string
	val []byte
}

func (e *entry) SetKey(k string)      { e.key = k }
func (e *entry) Key() string          { return e.key }
func (e *entry) SetValue(v []byte)    { e.val = v }
func (e *entry) Value() []byte        { return e.val }
func (e *entry) SetTTL(int64)         {}
func (e *entry) TTL() int64           { return 0 }
func (e *entry) SetTimestamp(int64)   {}
func (e *entry) Timestamp() int64     { return 0 }
func (e *entry) SetLastAccess(int64)  {}
func (e *entry) LastAccess() int64    { return 0 }
func (e *entry) Encode() []byte       { return e.val }
func (e *entry) Decode(b []byte)      { e.val = b }

var _ storage.Entry = (*entry)(nil)

// newGetResponse fills olric.GetResponse's unexported entry field (the same way goakt's own
// cluster tests do in internal/cluster/fixtures_test.go).
func newGetResponse(e storage.Entry) *olric.GetResponse {
	resp := &olric.GetResponse{}
	f := reflect.ValueOf(resp).Elem().FieldByName("entry")
	reflect.NewAt(f.Type(), unsafe.Pointer(f.UnsafeAddr())).Elem().Set(reflect.ValueOf(e))
	return resp
}

func (d *fakeDMap) Get(_ context.Context, key string) (*olric.GetResponse, error) {
	d.st.mu.Lock()
	defer d.st.mu.Unlock()
	if d.injected("get") {
		d.st.log(d.node, "get", key, -1)
		return nil, errInjected
	}
	if d.injected("getq") { // a read-quorum miss
		d.st.log(d.node, "get", key, -1)
		return nil, olric.ErrReadQuorum
	}
	val, found := d.st.m[key]
	if !found {
		d.st.log(d.node, "get", key, 0)
		return nil, olric.ErrKeyNotFound
	}
	d.st.log(d.node, "get", key, 1)
	return newGetResponse(&entry{key: key, val: append([]byte(nil), val...)}), nil
}

func (d *fakeDMap) Delete(_ context.Context, keys ...string) (int, error) {
	d.st.mu.Lock()
	defer d.st.mu.Unlock()
	n := 0
	for _, key := range keys {
		if d.injected("del") {
			d.st.log(d.node, "del", key, -1)
			return n, errInjected
		}
		prev := d.st.owner(key, d.st.m[key])
		if _, found := d.st.m[key]; found {
			n++
		}
		delete(d.st.m, key)
		d.st.logp(d.node, "del", key, 1, prev)
	}
	return n, nil
}

// fakeClient serves the membership view of one node: who is in the cluster and who this
// node currently believes to be the coordinator.
type fakeClient struct {
	olric.Client
	mu      sync.Mutex
	nodes   []*discovery.Node // all members, in birth order
	leader  string            // name of the node this view marks as coordinator ("-" = nobody is flagged)
	solo    bool              // the view is exactly [self]
	failN   int               // number of Members calls to fail with a read-quorum error
	log     bool              // log every Members answer (C36)
	w       *vtrace.Writer
	self    string
}

func (c *fakeClient) setLeader(l string) { c.mu.Lock(); c.leader = l; c.solo = false; c.mu.Unlock() }
func (c *fakeClient) setView(l string, solo bool) {
	c.mu.Lock()
	c.leader, c.solo = l, solo
	c.mu.Unlock()
}
func (c *fakeClient) failNext() { c.mu.Lock(); c.failN++; c.mu.Unlock() }

func (c *fakeClient) Members(context.Context) ([]olric.Member, error) {
	c.mu.Lock()
	defer c.mu.Unlock()
	if c.failN > 0 {
		c.failN--
		if c.log {
			c.w.Emit(map[string]any{"ev": "op", "t": "", "n": c.self, "op": "Members", "dop": "members", "key": "", "res": -1, "own": "-", "prev": ""})
		}
		return nil, olric.ErrReadQuorum
	}
	out := make([]olric.Member, 0, len(c.nodes))
	if c.log {
		cnt := len(c.nodes)
		if c.solo {
			cnt = 1
		}
		c.w.Emit(map[string]any{"ev": "op", "t": "", "n": c.self, "op": "Members", "dop": "members", "key": "", "res": cnt, "own": c.leader, "prev": ""})
	}
	for i, n := range c.nodes {
		if c.solo && n.Name != c.self {
			continue
		}
		meta, _ := json.Marshal(n)
		out = append(out, olric.Member{Name: n.PeersAddress(), ID: uint64(i + 1), Birthdate: int64(i + 1),
			Coordinator: n.Name == c.leader, Meta: string(meta)})
	}
	return out, nil
}
