package main

// C30: replay / exploration of the grain activation protocol.

import (
	"context"
	"fmt"
	"math/rand"
	"os"
	"sort"
	"strconv"
	"sync"
	"sync/atomic"
	"time"

	"google.golang.org/protobuf/types/known/wrapperspb"

	"github.com/tochemey/goakt/v4/actor"
	"github.com/tochemey/goakt/v4/verifharness/sched"
)

// TestGrain is instantiated by goakt (zero value, through the grain registry) or by the
// GrainIdentity factory; it reports to the harness through the package-level world W.
type TestGrain struct {
	inst int64
	node string
}

var (
	instSeq    atomic.Int64
	liveMu     sync.Mutex
	liveInst   = map[int64]string{} // instance -> node, between OnActivate ok and OnDeactivate
	failThread sync.Map             // logical thread name -> fail the next OnActivate it runs
)

func liveNodes() []string {
	liveMu.Lock()
	defer liveMu.Unlock()
	set := map[string]bool{}
	for _, n := range liveInst {
		set[n] = true
	}
	out := []string{}
	for n := range set {
		out = append(out, n)
	}
	sort.Strings(out)
	return out
}

func (g *TestGrain) OnActivate(_ context.Context, props *actor.GrainProps) error {
	n := W.nodeOfSystem(props.ActorSystem())
	W.yield("act", n.idx+1)
	t := W.threadName()
	if _, fail := failThread.LoadAndDelete(t); fail && t != "" {
		W.w.Emit(map[string]any{"ev": "act", "t": t, "n": n.name, "inst": 0, "ok": 0, "id": props.Identity().Name()})
		panic("verif: injected activation failure")
	}
	g.inst = instSeq.Add(1)
	g.node = n.name
	liveMu.Lock()
	liveInst[g.inst] = n.name
	W.w.Emit(map[string]any{"ev": "act", "t": t, "n": n.name, "inst": g.inst, "ok": 1, "id": props.Identity().Name()})
	liveMu.Unlock()
	return nil
}

func (g *TestGrain) OnDeactivate(_ context.Context, props *actor.GrainProps) error {
	n := W.nodeOfSystem(props.ActorSystem())
	W.yield("deact", n.idx+1)
	liveMu.Lock()
	delete(liveInst, g.inst)
	W.w.Emit(map[string]any{"ev": "deact", "t": W.threadName(), "n": n.name, "inst": g.inst, "ok": 1, "id": props.Identity().Name()})
	liveMu.Unlock()
	return nil
}

func (g *TestGrain) OnReceive(ctx *actor.GrainContext) {
	ctx.Response(wrapperspb.String(g.node + "#" + strconv.FormatInt(g.inst, 10)))
}

var grainGates = []string{"cluster.GrainExists", "cluster.GetGrain", "cluster.PutGrainIfAbsent", "cluster.PutGrain", "cluster.RemoveGrain"}

// gate class a model pc stands for
var gateOfPC = map[string]string{"call": "call", "sG": "G", "oG": "G", "cG": "G", "iG": "G", "oE": "E", "iE": "E", "cNX": "NX", "P": "P",
	"fR": "R", "pR": "R", "iR": "R", "fX": "R", "act": "act", "pD": "deact", "fD": "deact", "wait": "wait", "done": "done"}

// gate a model action passes
var gateOfAction = map[string]string{"call": "call", "E": "E", "G": "G", "NX": "NX", "P": "P", "R": "R", "actok": "act", "actfail": "act", "deact": "deact", "Pfail": "P"}

func (wd *world) registerKinds() {
	ctx := context.Background()
	for _, n := range wd.nodes {
		if err := n.sys.RegisterGrainKind(ctx, &TestGrain{}); err != nil {
			fatal(err)
		}
	}
}

// startGrainThreads creates the logical threads of one behaviour for grain `name`.
func (wd *world) startGrainThreads(s *sched.Sched, name string, kinds, orgs map[string]string) {
	ctx := context.Background()
	identity := actor.VerifGrainIdentity(&TestGrain{}, name)
	for _, t := range sortedKeys(kinds) {
		t, kind, n := t, kinds[t], wd.byName[orgs[t]]
		wd.goThread(s, t, func() {
			ok, info := 0, ""
			switch kind {
			case "send":
				resp, err := n.sys.AskGrain(ctx, identity, wrapperspb.String("hi"), 3*time.Second)
				if err == nil {
					ok = 1
					if sv, is := resp.(*wrapperspb.StringValue); is {
						info = sv.GetValue()
					}
				} else {
					info = err.Error()
				}
			case "ident":
				_, err := n.sys.GrainIdentity(ctx, name, func(context.Context) (actor.Grain, error) { return &TestGrain{}, nil })
				if err == nil {
					ok = 1
				} else {
					info = err.Error()
				}
			case "pass":
				found, done := actor.VerifPassivateGrain(n.sys, identity.String())
				if found && done {
					ok = 1
				}
			}
			if len(info) > 120 {
				info = info[:120]
			}
			wd.w.Emit(map[string]any{"ev": "ret", "t": t, "n": n.name, "ok": ok, "info": info, "id": name})
		})
	}
}

// endGrain records the settled state (registry owner as the REAL cluster engine reports it, live
// instances, local grain tables) and then clears the grain away.
func (wd *world) endGrain(name string, quiet bool) {
	ctx := context.Background()
	identity := actor.VerifGrainIdentity(&TestGrain{}, name)
	own := "-"
	if g, err := wd.nodes[0].cl.GetGrain(ctx, identity.String()); err == nil {
		own = wd.st.nodeOf(g.GetHost(), int(g.GetPort()))
	}
	q := 0
	if quiet {
		q = 1
	}
	tables := map[string]int{}
	for _, n := range wd.nodes {
		present, active := actor.VerifGrainState(n.sys, identity.String())
		v := 0
		if present {
			v = 1
		}
		if active {
			v = 2
		}
		tables[n.name] = v
	}
	wd.w.Emit(map[string]any{"ev": "End", "q": q, "own": own, "live": liveNodes(), "tab": tables, "id": name})
	for _, n := range wd.nodes {
		actor.VerifPassivateGrain(n.sys, identity.String())
	}
	_ = wd.nodes[0].cl.RemoveGrain(ctx, identity.String())
	liveMu.Lock()
	for k := range liveInst {
		delete(liveInst, k)
	}
	liveMu.Unlock()
}

func ownerOfKey(wd *world, suffix string) string {
	wd.st.mu.Lock()
	defer wd.st.mu.Unlock()
	for k, v := range wd.st.m {
		if len(k) >= len(suffix) && k[len(k)-len(suffix):] == suffix && k[:6] == "grains" {
			return wd.st.owner(k, v)
		}
	}
	return "-"
}

func grainReplay(wd *world, bs []behaviour, st *stats) {
	wd.registerKinds()
	for bi, b := range bs {
		name := "g" + strconv.Itoa(bi)
		wd.w.Raw(map[string]any{"ev": "New", "id": name, "tag": b.Tag, "kinds": b.Kinds, "orgs": b.Orgs})
		s := wd.newSched(grainGates...)
		wd.startGrainThreads(s, name, b.Kinds, b.Orgs)
		drift := ""
		for si, x := range b.Steps {
			pend, parked := s.Pending(x.T)
			wake := x.A == "wake"
			if !wake {
				gate, _ := wd.where(pend, parked)
				if !parked || pend.Done || gate != gateOfAction[x.A] {
					drift = fmt.Sprintf("%s:at=%s", x.A, gate)
					break
				}
			} else if parked {
				drift = "wake:not-blocked"
				break
			}
			if x.A == "actfail" {
				failThread.Store(x.T, true)
			}
			if x.A == "Pfail" { // the node's next plain put (the PutGrain this thread is parked in front of) fails
				if n, ok := wd.byObj[pend.Obj]; ok {
					wd.st.mu.Lock()
					wd.st.fail[n.name+"/put"]++
					wd.st.mu.Unlock()
				}
			}
			after, isParked, err := performStep(s, x.T, wake, x.PC == "wait")
			if err != nil {
				if _, ok := err.(sched.ErrWatchdog); ok {
					st.Watchdog++
				}
				drift = fmt.Sprintf("%s:step-failed", x.A)
				break
			}
			st.Steps++
			gate, at := wd.where(after, isParked)
			wd.w.Emit(map[string]any{"ev": "step", "t": x.T, "a": x.A, "gate": gate, "at": at, "own": ownerOfKey(wd, "/"+name),
				"live": liveNodes(), "i": si})
			if gate != gateOfPC[x.PC] || (at != "" && gate != "call" && at != x.At) {
				drift = fmt.Sprintf("%s->%s:reached=%s@%s:want=%s@%s", x.A, x.PC, gate, at, gateOfPC[x.PC], x.At)
				break
			}
		}
		if drift != "" {
			st.drift(drift)
			wd.w.Emit(map[string]any{"ev": "drift", "what": drift, "id": name})
			if os_debug {
				fmt.Printf("behaviour %d drift %s\n", bi, drift)
			}
		}
		s.FreeRun()
		quiet := drain(s, sortedKeys(b.Kinds), 10*time.Second)
		if !quiet {
			st.NotQuiet++
		}
		wd.endGrain(name, quiet)
		wd.closeSched(s)
		st.Behaviours++
	}
	wd.w.Raw(map[string]any{"ev": "New", "id": "", "tag": "", "kinds": map[string]string{}, "orgs": map[string]string{}})
}

var os_debug = os.Getenv("VERIF_DEBUG") != ""

// passMayFire is the environment assumption PassDuringFlight = FALSE of Registry.tla: the passivation manager
// does not fire while an activation of the identity is in flight on its node (no other thread is parked at a
// gate on that node, none is blocked in a single-flight).
func passMayFire(wd *world, s *sched.Sched, names []string, self, org string, blocked map[string]bool) bool {
	if len(blocked) > 0 {
		return false
	}
	for _, n := range names {
		if n == self {
			continue
		}
		pd, parked := s.Pending(n)
		if !parked {
			return false
		}
		if pd.Done || pd.Point == "call" {
			continue
		}
		if _, at := wd.where(pd, true); at == org || at == "" {
			return false
		}
	}
	return true
}

// grainExplore: no model prescribes the order. A seeded scheduler picks one of the threads parked at a
// gate and lets it run to its next gate; threads that block inside the code (single-flight join) are
// left running and picked up when they park again. OnActivate failures are injected at random.
func grainExplore(wd *world, runs int, seed int64, mix string, st *stats) {
	wd.registerKinds()
	rng := rand.New(rand.NewSource(seed))
	kindsOf := map[byte]string{'s': "send", 'i': "ident", 'p': "pass"}
	for run := 0; run < runs; run++ {
		name := "x" + strconv.Itoa(run)
		kinds, orgs := map[string]string{}, map[string]string{}
		for i := 0; i < len(mix); i++ {
			t := "t" + strconv.Itoa(i+1)
			kinds[t] = kindsOf[mix[i]]
			orgs[t] = wd.nodes[rng.Intn(len(wd.nodes))].name
		}
		wd.w.Raw(map[string]any{"ev": "New", "id": name, "tag": "explore", "kinds": kinds, "orgs": orgs})
		s := wd.newSched(grainGates...)
		wd.startGrainThreads(s, name, kinds, orgs)
		names := sortedKeys(kinds)
		fails := rng.Intn(3)
		putFails := rng.Intn(2)
		blocked := map[string]bool{}
		prio := map[string]int{}
		for _, n := range names {
			prio[n] = rng.Intn(1000)
		}
		idle := 0
		for stepn := 0; stepn < 200; stepn++ {
			for n := range blocked {
				if _, ok := s.TryAwait(n, 0); ok {
					delete(blocked, n)
				}
			}
			var cands []string
			alive := false
			for _, n := range names {
				pd, parked := s.Pending(n)
				if blocked[n] {
					alive = true
					continue
				}
				if !parked || pd.Done {
					continue
				}
				alive = true
				if pd.Point == "call" && kinds[n] == "pass" && !passMayFire(wd, s, names, n, orgs[n], blocked) {
					continue
				}
				cands = append(cands, n)
			}
			if !alive {
				break
			}
			if len(cands) == 0 {
				idle++
				if idle > 2000 {
					break
				}
				time.Sleep(200 * time.Microsecond)
				continue
			}
			idle = 0
			if rng.Intn(6) == 0 {
				prio[cands[rng.Intn(len(cands))]] = rng.Intn(1000)
			}
			best := cands[0]
			for _, n := range cands {
				if prio[n] > prio[best] {
					best = n
				}
			}
			before, _ := s.Pending(best)
			if before.Point == "call" && kinds[best] == "pass" && len(liveNodes()) == 0 && rng.Intn(4) != 0 {
				prio[best] = -1
				if len(cands) > 1 {
					continue
				}
			}
			if before.Point == "act" && fails > 0 && rng.Intn(3) == 0 {
				fails--
				failThread.Store(best, true)
			}
			if before.Point == "cluster.PutGrain" && putFails > 0 && rng.Intn(4) == 0 {
				if n, ok := wd.byObj[before.Obj]; ok {
					putFails--
					wd.st.mu.Lock()
					wd.st.fail[n.name+"/put"]++
					wd.st.mu.Unlock()
				}
			}
			if err := s.Release(best); err != nil {
				continue
			}
			st.Steps++
			if _, ok := s.TryAwait(best, 60*time.Millisecond); !ok {
				blocked[best] = true
			}
			// a thread that has just opened a window (failed claim, OnDeactivate done, activated but unpublished) is
			// often left behind so that the others race through the window
			if (before.Point == "cluster.PutGrainIfAbsent" || before.Point == "deact" || before.Point == "act") && rng.Intn(2) == 0 {
				prio[best] = -1 - rng.Intn(1000)
			}
		}
		s.FreeRun()
		quiet := drain(s, names, 10*time.Second)
		if !quiet {
			st.NotQuiet++
		}
		wd.endGrain(name, quiet)
		wd.closeSched(s)
		st.Behaviours++
	}
	wd.w.Raw(map[string]any{"ev": "New", "id": "", "tag": "", "kinds": map[string]string{}, "orgs": map[string]string{}})
}
