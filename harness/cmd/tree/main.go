// Command tree executes behaviours of specs/Tree/Tree.tla on a REAL goakt actor
// system: every model action is one gate of the puppet scheduler. Harness
// goroutines are the model's threads; the goroutines goakt starts itself (the
// single-flight leader's fn, one goroutine per child in freeChildren, dispatcher
// workers of the death watch / of an actor that received a PoisonPill / of an actor
// whose PostStart handler runs a program) are adopted as logical threads when
// they reach a hook. It records lifecycle callbacks, operation calls/returns and
// a projection of the actor tree after every mutation for TreeMonitor.tla.
//
//	tree replay <scenarios.json> <behaviours.ndjson> <trace.ndjson>
//	tree stress <scenarios.json> <scenario> <runs> <seed> <trace.ndjson>
package main

import (
	"context"
	"encoding/json"
	"fmt"
	"math/rand"
	"os"
	"runtime"
	"sort"
	"strconv"
	"strings"
	"sync"
	"sync/atomic"
	"time"

	"github.com/tochemey/goakt/v4/actor"
	"github.com/tochemey/goakt/v4/log"
	"github.com/tochemey/goakt/v4/verifharness/sched"
	"github.com/tochemey/goakt/v4/verifharness/vtrace"
)

func fatal(v ...any) {
	fmt.Fprintln(os.Stderr, v...)
	os.Exit(2)
}

var debug = os.Getenv("VERIF_DEBUG") != ""

func dbg(f string, a ...any) {
	if debug {
		fmt.Fprintf(os.Stderr, f+"\n", a...)
	}
}

// ---------------------------------------------------------------- scenario / behaviour files

type opT struct {
	Op string `json:"op"`
	N  string `json:"n"`
	W  string `json:"w"`
}

type scenario struct {
	Names   []string          `json:"names"`
	Parent  map[string]string `json:"parent"`
	Init    []string          `json:"init"`
	Watch   [][]string        `json:"watch"`
	Prog    map[string][]opT  `json:"prog"`
	After   map[string]string `json:"after"`
	Grains  int               `json:"grains"`
	Threads []string          `json:"-"`
}

type step struct {
	A    string `json:"a"`
	Args []any  `json:"args"`
}

type behaviour struct {
	Scn   string   `json:"scn"`
	Steps []step   `json:"steps"`
	Wit   []string `json:"wit"`
}

type Msg struct{ ID int }

// ---------------------------------------------------------------- per-behaviour harness state

type harness struct {
	sys     actor.ActorSystem
	w       *vtrace.Writer
	s       *sched.Sched
	scn     *scenario
	sfx     string
	ctx     context.Context
	tree    any
	dw, ug  *actor.PID
	dwSched any

	mu      sync.Mutex
	ninst   map[string]int
	acts    map[*actor.PID]*tact
	insts   []*tact
	handle  map[string]*actor.PID
	lastPre map[string]*tact
	quiet   atomic.Bool                   // stop emitting (cleanup phase)
	stopRet atomic.Bool                   // ActorSystem.Stop has returned
	cancels map[string]context.CancelFunc // model thread -> cancel of its "spawnx" context
	pushes  atomic.Int64
	gateH   bool // gate the message handler of test actors
	free    bool // free-running (stress): no gating
	msgid   atomic.Int64
	spin    int
	grains  map[string]*actor.GrainIdentity
}

func (h *harness) real(n string) string { return n + h.sfx }

// model name of a real actor name ("" = not part of this behaviour)
func (h *harness) model(real string) string {
	switch real {
	case "GoAktUserGuardian":
		return "u"
	case "GoAktDeathWatch":
		return "dw"
	case "GoAktRootGuardian":
		return "r"
	}
	if h.sfx != "" && strings.HasSuffix(real, h.sfx) {
		return strings.TrimSuffix(real, h.sfx)
	}
	if h.sfx == "" {
		for _, n := range h.scn.Names {
			if n == real {
				return n
			}
		}
	}
	return ""
}

func (h *harness) emit(kind string, f func(e map[string]any)) {
	if h.quiet.Load() {
		return
	}
	e := map[string]any{"ev": kind, "t": "", "op": "", "n": "", "w": "", "i": 0, "k": 0, "ok": 0, "c": 0, "run": 0, "d": []any{}, "x": ""}
	if f != nil {
		f(e)
	}
	h.w.Emit(e)
}

func (h *harness) yield(point string, a, b int) {
	if h.s != nil {
		h.s.Yield(point, int64(a), int64(b))
	}
}

func b2i(b bool) int {
	if b {
		return 1
	}
	return 0
}

// instOf returns the instance number of the test actor behind pid (0 = unknown / nil).
func (h *harness) instOf(pid *actor.PID) int {
	if pid == nil {
		return 0
	}
	h.mu.Lock()
	defer h.mu.Unlock()
	if a := h.acts[pid]; a != nil {
		return a.inst
	}
	return 0
}

func (h *harness) bind(pid *actor.PID, a *tact) {
	h.mu.Lock()
	if h.acts[pid] == nil {
		h.acts[pid] = a
		a.pid = pid
	}
	h.mu.Unlock()
}

// dump projects the nodes of the real tree that belong to this behaviour.
func (h *harness) dump(locked bool) []any {
	nodes := actor.VerifDumpTree(h.tree, locked)
	out := []any{}
	conv := func(l []string) []any {
		r := []any{}
		for _, x := range l {
			if m := h.model(x); m != "" {
				r = append(r, m)
			}
		}
		return r
	}
	for _, nd := range nodes {
		m := h.model(nd.Name)
		if m == "" || m == "dw" || m == "r" {
			continue
		}
		run := 0
		inst := 0
		if nd.PID != nil {
			run = b2i(nd.PID.IsRunning())
			if m == "u" {
				inst = 1
			} else {
				inst = h.instOf(nd.PID)
			}
		}
		out = append(out, map[string]any{"n": m, "i": inst, "run": run, "par": h.model(nd.Parent), "ch": conv(nd.Children),
			"wers": conv(nd.Watchers), "wees": conv(nd.Watchees)})
	}
	return out
}

// ---------------------------------------------------------------- test actor

type tact struct {
	h      *harness
	name   string // model name
	inst   int
	k      int
	pid    *actor.PID
	hook   string // thread whose program runs inside the PostStart handler
	hooked bool
	gated  bool          // the pre.start gate was passed (init retries PreStart: gate only once)
	enter  chan struct{} // free-running "spawnx": closed when PreStart is entered; PreStart then waits for the cancellation
}

func (h *harness) newAct(name string) *tact {
	a := &tact{h: h, name: name}
	for t, n := range h.scn.After {
		if n == name {
			a.hook = t
		}
	}
	return a
}

// preStart fails with the error of the spawning caller's context when that context is done (a spawn aborted by
// the cancellation of the caller that leads the single flight).
func (a *tact) preStart(ctx context.Context) error {
	h := a.h
	if !a.gated {
		a.gated = true
		h.yield("pre.start", 0, 0)
		if a.enter != nil {
			close(a.enter)
			select {
			case <-ctx.Done():
			case <-time.After(2 * time.Second):
			}
		}
	}
	if err := ctx.Err(); err != nil {
		return err
	}
	for i := 0; i < h.spin; i++ {
		runtime.Gosched()
	}
	h.mu.Lock()
	if a.inst == 0 {
		h.ninst[a.name]++
		a.inst = h.ninst[a.name]
		h.insts = append(h.insts, a)
	}
	a.k++
	h.lastPre[a.name] = a
	h.mu.Unlock()
	h.emit("prestart", func(e map[string]any) { e["n"] = a.name; e["i"] = a.inst; e["k"] = a.k })
	a.gated = false // the next incarnation (Restart) is gated again
	return nil
}

func (a *tact) postStop() {
	h := a.h
	h.yield("ps.enter", 0, 0)
	h.emit("psenter", func(e map[string]any) {
		e["n"] = a.name
		e["i"] = a.inst
		e["k"] = a.k
		e["c"] = int(sched.Gid() % 1000000)
	})
	for i := 0; i < h.spin; i++ {
		runtime.Gosched()
	}
	h.yield("ps.exit", 0, 0)
	h.emit("psexit", func(e map[string]any) { e["n"] = a.name; e["i"] = a.inst; e["k"] = a.k })
}

func (a *tact) message(m any) {
	h := a.h
	switch v := m.(type) {
	case *actor.Terminated:
		w := h.model(v.ActorPath().Name())
		h.emit("term", func(e map[string]any) { e["n"] = a.name; e["i"] = a.inst; e["k"] = a.k; e["w"] = w })
	case *Msg:
		if h.gateH {
			h.yield("h.enter", v.ID, 0)
		}
		late := b2i(h.stopRet.Load()) // read at entry: the event may be logged later than it happened
		h.emit("henter", func(e map[string]any) { e["n"] = a.name; e["i"] = a.inst; e["k"] = a.k; e["c"] = v.ID; e["run"] = late })
		for i := 0; i < h.spin; i++ {
			runtime.Gosched()
		}
		if h.gateH {
			h.yield("h.exit", v.ID, 0)
		}
		h.emit("hexit", func(e map[string]any) { e["n"] = a.name; e["i"] = a.inst; e["k"] = a.k; e["c"] = v.ID })
	}
}

func (a *tact) PreStart(ctx *actor.Context) error { return a.preStart(ctx.Context()) }
func (a *tact) PostStop(*actor.Context) error     { a.postStop(); return nil }
func (a *tact) Receive(ctx *actor.ReceiveContext) {
	switch m := ctx.Message().(type) {
	case *actor.PostStart:
		a.h.bind(ctx.Self(), a)
		if a.hook != "" && !a.hooked {
			a.hooked = true
			a.h.runProg(a.hook, ctx.Self())
		}
	default:
		a.message(m)
	}
}

type plain struct{}

func (*plain) PreStart(*actor.Context) error { return nil }
func (*plain) Receive(*actor.ReceiveContext) {}
func (*plain) PostStop(*actor.Context) error { return nil }

// ---------------------------------------------------------------- test grain

type tgrain struct {
	h    *harness
	name string
}

func (g *tgrain) OnActivate(context.Context, *actor.GrainProps) error {
	g.h.emit("gact", func(e map[string]any) { e["n"] = g.name })
	return nil
}

func (g *tgrain) OnReceive(ctx *actor.GrainContext) {
	if m, ok := ctx.Message().(*Msg); ok {
		late := b2i(g.h.stopRet.Load())
		g.h.emit("ghandle", func(e map[string]any) { e["n"] = g.name; e["c"] = m.ID; e["run"] = late })
		for i := 0; i < g.h.spin; i++ {
			runtime.Gosched()
		}
		ctx.NoErr()
		return
	}
	ctx.Unhandled()
}

func (g *tgrain) OnDeactivate(context.Context, *actor.GrainProps) error {
	g.h.emit("gdeact", func(e map[string]any) { e["n"] = g.name })
	return nil
}

// ---------------------------------------------------------------- operations

func (h *harness) threadIndex(t string) int {
	for i, x := range h.scn.Threads {
		if x == t {
			return i
		}
	}
	return -1
}

func (h *harness) runProg(t string, self *actor.PID) {
	ti := h.threadIndex(t)
	for idx, o := range h.scn.Prog[t] {
		h.yield("op.call", idx, ti)
		h.execOp(t, o, self)
	}
}

func (h *harness) execOp(t string, o opT, self *actor.PID) {
	ctx := h.ctx
	defer func() {
		if r := recover(); r != nil {
			h.emit("panic", func(e map[string]any) { e["t"] = t; e["op"] = o.Op; e["n"] = o.N; e["x"] = fmt.Sprint(r) })
		}
	}()
	call := func() {
		h.emit("call", func(e map[string]any) { e["t"] = t; e["op"] = o.Op; e["n"] = o.N; e["w"] = o.W })
	}
	ret := func(err error, pid *actor.PID) {
		h.emit("ret", func(e map[string]any) {
			e["t"] = t
			e["op"] = o.Op
			e["n"] = o.N
			e["w"] = o.W
			e["ok"] = b2i(err == nil)
			if err != nil {
				e["x"] = err.Error()
			}
			if pid != nil {
				e["i"] = h.instOf(pid)
				e["run"] = b2i(pid.IsRunning())
			}
		})
	}
	switch o.Op {
	case "spawn":
		a := h.newAct(o.N)
		call()
		pid, err := h.sys.Spawn(ctx, h.real(o.N), a, actor.WithLongLived())
		ret(err, pid)
	case "spawnx":
		// Spawn under a context that is cancelled mid-spawn: by the driver (SpCancel) in a replay, by this thread itself
		// once PreStart has been entered in a free run
		a := h.newAct(o.N)
		cctx, cancel := context.WithCancel(ctx)
		h.mu.Lock()
		h.cancels[t] = cancel
		h.mu.Unlock()
		free := h.s == nil || h.free
		if free {
			a.enter = make(chan struct{})
			go func() {
				select {
				case <-a.enter:
					for i := 0; i < 50+h.spin*50; i++ {
						runtime.Gosched()
					}
				case <-time.After(50 * time.Millisecond): // it joined somebody else's flight
				}
				cancel()
			}()
		}
		call()
		pid, err := h.sys.Spawn(cctx, h.real(o.N), a, actor.WithLongLived())
		ret(err, pid)
		cancel()
	case "spawnfn":
		a := h.newAct(o.N)
		call()
		pid, err := h.sys.SpawnNamedFromFunc(ctx, h.real(o.N), func(_ context.Context, m any) error { a.message(m); return nil },
			actor.WithPreStart(func(c context.Context) error { return a.preStart(c) }),
			actor.WithPostStop(func(context.Context) error { a.postStop(); return nil }))
		ret(err, pid)
	case "spawnchild":
		a := h.newAct(o.N)
		parent := self
		if parent == nil {
			parent = h.handle[h.scn.Parent[o.N]]
		}
		call()
		pid, err := parent.SpawnChild(ctx, h.real(o.N), a, actor.WithLongLived())
		ret(err, pid)
	case "stop":
		call()
		err := h.sys.Kill(ctx, h.real(o.N))
		ret(err, nil)
	case "pill":
		call()
		err := actor.Tell(ctx, h.handle[o.N], new(actor.PoisonPill))
		ret(err, nil)
	case "watch":
		call()
		h.handle[o.W].Watch(h.handle[o.N])
		ret(nil, nil)
	case "unwatch":
		call()
		h.handle[o.W].UnWatch(h.handle[o.N])
		ret(nil, nil)
	case "actorof":
		call()
		pid, err := h.sys.ActorOf(ctx, h.real(o.N))
		ret(err, pid)
	case "restart":
		call()
		err := h.handle[o.N].Restart(ctx)
		ret(err, nil)
	case "tell":
		id := int(h.msgid.Add(1))
		h.emit("call", func(e map[string]any) { e["t"] = t; e["op"] = o.Op; e["n"] = o.N; e["c"] = id })
		err := actor.Tell(ctx, h.handle[o.N], &Msg{ID: id})
		h.emit("ret", func(e map[string]any) {
			e["t"] = t
			e["op"] = o.Op
			e["n"] = o.N
			e["c"] = id
			e["ok"] = b2i(err == nil)
		})
	case "tellg":
		id := int(h.msgid.Add(1))
		h.emit("call", func(e map[string]any) { e["t"] = t; e["op"] = o.Op; e["n"] = o.N; e["c"] = id })
		err := h.sys.TellGrain(ctx, h.grains[o.N], &Msg{ID: id})
		h.emit("ret", func(e map[string]any) {
			e["t"] = t
			e["op"] = o.Op
			e["n"] = o.N
			e["c"] = id
			e["ok"] = b2i(err == nil)
		})
	case "sysstop":
		call()
		err := h.sys.Stop(ctx)
		h.stopRet.Store(true)
		ret(err, nil)
	default:
		fatal("unknown op", o.Op)
	}
}

// ---------------------------------------------------------------- set-up / tear-down of one behaviour

func newSystem() actor.ActorSystem {
	sys, err := actor.NewActorSystem("verif", actor.WithLogger(log.DiscardLogger), actor.WithThroughputBudget(4),
		actor.WithShutdownTimeout(20*time.Second))
	if err != nil {
		fatal(err)
	}
	if err := sys.Start(context.Background()); err != nil {
		fatal(err)
	}
	return sys
}

func newHarness(sys actor.ActorSystem, w *vtrace.Writer, scn *scenario, sfx string) *harness {
	h := &harness{sys: sys, w: w, scn: scn, sfx: sfx, ctx: context.Background(), ninst: map[string]int{}, acts: map[*actor.PID]*tact{},
		handle: map[string]*actor.PID{}, lastPre: map[string]*tact{}, cancels: map[string]context.CancelFunc{}}
	h.tree = actor.VerifTreeOf(sys)
	h.dw = actor.VerifDeathWatchOf(sys)
	h.ug = actor.VerifUserGuardianOf(sys)
	h.dwSched = actor.VerifSchedStateOf(h.dw)
	return h
}

// setup spawns the initial actors (parents first) and the initial watches, ungated.
func (h *harness) setup() {
	done := map[string]bool{}
	for len(done) < len(h.scn.Init) {
		progress := false
		for _, n := range h.scn.Init {
			if done[n] {
				continue
			}
			par := h.scn.Parent[n]
			if par != "u" && !done[par] {
				continue
			}
			a := h.newAct(n)
			var pid *actor.PID
			var err error
			if par == "u" {
				pid, err = h.sys.Spawn(h.ctx, h.real(n), a, actor.WithLongLived())
			} else {
				pid, err = h.handle[par].SpawnChild(h.ctx, h.real(n), a, actor.WithLongLived())
			}
			if err != nil {
				fatal("setup spawn", n, err)
			}
			h.bind(pid, a)
			h.handle[n] = pid
			done[n] = true
			progress = true
		}
		if !progress {
			fatal("setup: parent of an initial actor is not initial")
		}
	}
	for _, e := range h.scn.Watch {
		h.handle[e[0]].Watch(h.handle[e[1]])
	}
	h.grains = map[string]*actor.GrainIdentity{}
	for k := 1; k <= h.scn.Grains; k++ {
		name := "g" + strconv.Itoa(k)
		g := &tgrain{h: h, name: name}
		id, err := h.sys.GrainIdentity(h.ctx, name+h.sfx, func(context.Context) (actor.Grain, error) { return g, nil }, actor.WithLongLivedGrain())
		if err != nil {
			fatal("setup grain", err)
		}
		h.grains[name] = id
	}
}

func (h *harness) pids() []*actor.PID {
	h.mu.Lock()
	defer h.mu.Unlock()
	out := make([]*actor.PID, 0, len(h.acts))
	for p := range h.acts {
		out = append(out, p)
	}
	return out
}

// waitQuiescent waits until the death watch, the user guardian and every known test actor are idle with empty mailboxes.
func (h *harness) waitQuiescent(d time.Duration) bool {
	idle := func() bool {
		for _, p := range append(h.pids(), h.dw, h.ug) {
			if actor.VerifSchedValue(p) != 0 {
				return false
			}
			u, s := actor.VerifMailboxesOf(p)
			if !u.IsEmpty() || !s.IsEmpty() {
				// a stopped actor legitimately keeps what arrived after its last turn
				if p.IsRunning() {
					return false
				}
			}
		}
		return true
	}
	deadline := time.Now().Add(d)
	for time.Now().Before(deadline) {
		if idle() {
			time.Sleep(300 * time.Microsecond)
			if idle() {
				return true
			}
		}
		time.Sleep(100 * time.Microsecond)
	}
	return false
}

// end records the final observation of the behaviour and cleans up.
func (h *harness) end(alive bool) {
	q := true
	num := 0
	var d []any = []any{}
	if alive {
		q = h.waitQuiescent(3 * time.Second)
		num = int(h.sys.NumActors())
		d = h.dump(false)
	}
	// lifecycle flags of every instance as the runtime sees them
	st := []any{}
	h.mu.Lock()
	insts := append([]*tact(nil), h.insts...)
	h.mu.Unlock()
	for _, a := range insts {
		run := 0
		if a.pid != nil && alive {
			run = b2i(a.pid.IsRunning())
		}
		st = append(st, map[string]any{"n": a.name, "i": a.inst, "run": run, "bound": b2i(a.pid != nil)})
	}
	// what the name index resolves at quiescence
	res := []any{}
	if alive {
		for _, n := range h.scn.Names {
			if pid, err := h.sys.ActorOf(h.ctx, h.real(n)); err == nil && pid != nil {
				res = append(res, map[string]any{"n": n, "i": h.instOf(pid), "run": b2i(pid.IsRunning())})
			}
		}
		for name := range actor.VerifNamesIndex(h.tree, false) {
			if m := h.model(name); m != "" && m != "u" && m != "dw" && m != "r" {
				found := false
				for _, x := range d {
					if x.(map[string]any)["n"] == m {
						found = true
					}
				}
				if !found {
					res = append(res, map[string]any{"n": m, "i": 0, "run": 0})
				}
			}
		}
	}
	h.emit("End", func(e map[string]any) {
		e["ok"] = b2i(q)
		e["c"] = num
		e["d"] = d
		e["st"] = st
		e["run"] = b2i(alive)
		e["res"] = res
	})
	h.quiet.Store(true)
	if alive {
		for _, a := range insts {
			if a.pid != nil && a.pid.IsRunning() {
				_ = a.pid.Shutdown(h.ctx)
			}
		}
		h.waitQuiescent(2 * time.Second)
		for _, n := range h.scn.Names {
			func() {
				defer func() { _ = recover() }() // Kill can hit a node the death watch is just clearing (finding NilPIDAfterConcurrentDelete)
				_ = h.sys.Kill(h.ctx, h.real(n))
			}()
		}
		h.waitQuiescent(2 * time.Second)
	}
}

// emitStep logs one executed model action with the projection of the real system after it (conformance).
func (h *harness) emitStep(x step, base int) {
	if !h.sys.Running() {
		h.emit("step", func(e map[string]any) {
			e["a"] = x.A
			e["args"] = x.Args
			e["c"] = 0
			e["ps"] = []any{}
			e["x"] = "dead"
		})
		return
	}
	ps := []any{}
	h.mu.Lock()
	insts := append([]*tact(nil), h.insts...)
	h.mu.Unlock()
	for _, a := range insts {
		if a.pid == nil {
			// not bound yet: PreStart has run, attachAndPublish has not: it is running
			ps = append(ps, map[string]any{"n": a.name, "i": a.inst, "s": "running"})
			continue
		}
		run, stopping, _ := actor.VerifStateOf(a.pid)
		s := "stopped"
		if run && stopping {
			s = "stopping"
		} else if run {
			s = "running"
		}
		ps = append(ps, map[string]any{"n": a.name, "i": a.inst, "s": s})
	}
	d := h.dump(false)
	c := int(h.sys.NumActors()) - base
	h.emit("step", func(e map[string]any) { e["a"] = x.A; e["args"] = x.Args; e["c"] = c; e["d"] = d; e["ps"] = ps })
}

var stepsOff = os.Getenv("VERIF_NOSTEPS") != ""

// ---------------------------------------------------------------- replay

type stats struct {
	Behaviours int            `json:"behaviours"`
	Steps      int            `json:"steps"`
	Drift      int            `json:"drift"`
	Watchdog   int            `json:"watchdog"`
	NotQ       int            `json:"not_quiescent"`
	Events     int64          `json:"events"`
	DriftAt    map[string]int `json:"drift_at"`
}

type flight struct {
	th      string
	waiters []string
}

type stopper struct {
	th          string
	target      string // model name
	outstanding int
	parent      string // key of the parent stopper (branches)
}

type runner struct {
	h       *harness
	s       *sched.Sched
	st      *stats
	adopted int64 // dispatcher workers adopted so far
	flights map[string]*flight
	newFl   []string // adopted flight goroutines not yet claimed
	stops   map[string]*stopper
	branch  map[string]string // child model name -> sched thread (adopted, not yet claimed)
	worker  map[string]string // model name -> sched thread of the worker parked at stop.lock
	alias   map[string]string // model thread -> sched thread (threads living on a dispatcher worker)
	dwth    string
	drift   string
	opi     map[string]int
}

func (r *runner) th(t string) string {
	if a, ok := r.alias[t]; ok {
		return a
	}
	return t
}

func (r *runner) setDrift(f string, a ...any) {
	if r.drift == "" {
		r.drift = fmt.Sprintf(f, a...)
		dbg("drift: %s", r.drift)
	}
}

func (r *runner) step(th string) (sched.Pending, bool) {
	p, err := r.s.Step(th)
	if err != nil {
		if _, ok := err.(sched.ErrWatchdog); ok {
			r.st.Watchdog++
		}
		r.setDrift("step-failed:%s:%v", th, err)
		return p, false
	}
	return p, true
}

// modelOfSched maps the object of a stop.lock / ds.take.cas hook (a dispatch state) to a test actor's model name.
func (r *runner) modelOfSched(obj any) string {
	for _, p := range r.h.pids() {
		if actor.VerifSchedStateOf(p) == obj {
			return r.h.model(p.Name())
		}
	}
	return ""
}

// classify handles a newly adopted goroutine.
func (r *runner) classify(name string) {
	p, _ := r.s.Pending(name)
	dbg("  adopted %s at %s", name, p.Point)
	switch p.Point {
	case "spawn.fn":
		r.newFl = append(r.newFl, name)
	case "fc.child":
		child, _ := p.Obj.(*actor.PID)
		m := r.h.model(child.Name())
		if q, ok := r.step(name); ok && !q.Done && q.Point != "tree.removeWatcher" {
			r.setDrift("branch:%s:at=%s", m, q.Point)
		}
		r.branch[m] = name
	case "ds.take.cas":
		r.adopted++
		if p.Obj == r.h.dwSched {
			r.advanceDW(name)
			return
		}
		// any other worker runs until its turn ends or it reaches a gate the model knows
		for i := 0; i < 64; i++ {
			q, ok := r.step(name)
			if !ok || q.Done {
				return
			}
			switch q.Point {
			case "stop.lock":
				if m := r.modelOfSched(q.Obj); m != "" {
					r.worker[m] = name
					return
				}
			case "op.call":
				if int(q.B) >= 0 && int(q.B) < len(r.h.scn.Threads) {
					r.alias[r.h.scn.Threads[q.B]] = name
					return
				}
			case "h.enter", "h.exit":
				return
			}
		}
		r.setDrift("worker-runaway:%s", name)
	default:
		r.setDrift("adopt:%s", p.Point)
	}
}

// advanceDW steps a death-watch worker until it has a Terminated message in hand (dw.term) or its turn ends.
func (r *runner) advanceDW(name string) {
	for i := 0; i < 64; i++ {
		q, ok := r.step(name)
		if !ok {
			return
		}
		if q.Done {
			return
		}
		if q.Point == "dw.term" {
			r.dwth = name
			return
		}
	}
	r.setDrift("dw-runaway")
}

// settle adopts every dispatcher worker that was scheduled by what happened so far.
func (r *runner) settle() {
	for r.drift == "" && r.adopted < r.h.pushes.Load() {
		name, ok := r.s.WaitAdopted(2 * time.Second)
		if !ok {
			r.setDrift("no-worker-arrived:%d<%d", r.adopted, r.h.pushes.Load())
			return
		}
		r.classify(name)
	}
}

// pump adopts goroutines until cond holds.
func (r *runner) pump(cond func() bool) bool {
	for r.drift == "" && !cond() {
		name, ok := r.s.WaitAdopted(2 * time.Second)
		if !ok {
			r.setDrift("adoption-timeout")
			return false
		}
		r.classify(name)
	}
	return r.drift == ""
}

func (r *runner) expect(th, want string) bool {
	p, parked := r.s.Pending(th)
	if !parked || p.Done || p.Point != want {
		r.setDrift("want=%s:at=%s:parked=%v:done=%v:th=%s", want, p.Point, parked, p.Done, th)
		return false
	}
	return true
}

func (r *runner) stopKey(args []any) string { return args[0].(string) + ":" + args[1].(string) }

func (r *runner) stopThread(args []any) (string, *stopper) {
	key := r.stopKey(args)
	sp := r.stops[key]
	if sp == nil {
		sp = &stopper{}
		r.stops[key] = sp
	}
	if sp.th == "" {
		switch args[0].(string) {
		case "t":
			sp.th = r.th(args[1].(string))
		case "b":
			sp.th = r.branch[args[1].(string)]
			sp.target = args[1].(string)
		case "w":
			sp.th = r.worker[args[1].(string)]
			sp.target = args[1].(string)
		}
	}
	return sp.th, sp
}

// afterStop is called after a step of a stopper: a branch that finished releases its parent.
func (r *runner) afterStop(args []any, p sched.Pending) {
	key := r.stopKey(args)
	sp := r.stops[key]
	if !p.Done || sp == nil {
		return
	}
	delete(r.stops, key)
	switch args[0].(string) {
	case "b":
		delete(r.branch, args[1].(string))
		if par := r.stops[sp.parent]; par != nil {
			par.outstanding--
			if par.outstanding == 0 {
				if _, err := r.s.Await(par.th); err != nil {
					r.setDrift("join-await:%v", err)
				}
			}
		}
	case "w":
		delete(r.worker, args[1].(string))
	}
}

func (r *runner) childrenOf(model string) int {
	for _, nd := range actor.VerifDumpTree(r.h.tree, false) {
		if r.h.model(nd.Name) == model {
			return len(nd.Children)
		}
	}
	return 0
}

func (r *runner) flightDone(n string) {
	f := r.flights[n]
	delete(r.flights, n)
	for _, w := range f.waiters {
		if _, err := r.s.Await(w); err != nil {
			r.setDrift("waiter-await:%s:%v", w, err)
		}
	}
}

func num(v any) int {
	if f, ok := v.(float64); ok {
		return int(f)
	}
	return 0
}

// exec performs one model action on the real system.
func (r *runner) exec(x step) {
	h := r.h
	arg0 := ""
	if len(x.Args) > 0 {
		if s0, ok := x.Args[0].(string); ok {
			arg0 = s0
		}
	}
	simple := func(th, want string) (sched.Pending, bool) {
		if th == "" {
			r.setDrift("%s:no-thread", x.A)
			return sched.Pending{}, false
		}
		if !r.expect(th, want) {
			return sched.Pending{}, false
		}
		return r.step(th)
	}
	switch x.A {
	case "OpCall":
		th, ok := r.alias[arg0]
		if !ok {
			if h.scn.After[arg0] != "" {
				r.setDrift("OpCall:%s:handler-thread-missing", arg0)
				return
			}
			th = arg0
		}
		simple(th, "op.call")
	case "SpSf":
		th := r.th(arg0)
		p, ok := simple(th, "spawn.sf")
		if !ok {
			return
		}
		if p.Point != "spawn.wait" {
			r.setDrift("SpSf:at=%s", p.Point)
			return
		}
		key := r.currentOp(arg0).N
		if err := r.s.Release(th); err != nil {
			r.setDrift("SpSf:release:%v", err)
			return
		}
		if f := r.flights[key]; f != nil {
			f.waiters = append(f.waiters, th)
		} else {
			f = &flight{waiters: []string{th}}
			r.flights[key] = f
			if r.pump(func() bool { return len(r.newFl) > 0 }) {
				f.th = r.newFl[0]
				r.newFl = r.newFl[1:]
			}
		}
	case "SpCancel":
		// the context of the flight's leader is cancelled: the leader returns at once, the flight goes on
		th := r.th(arg0)
		h.mu.Lock()
		cancel := h.cancels[arg0]
		h.mu.Unlock()
		if cancel == nil {
			r.setDrift("SpCancel:no-context")
			return
		}
		cancel()
		if _, err := r.s.Await(th); err != nil {
			r.setDrift("SpCancel:await:%v", err)
			return
		}
		if f := r.flights[r.currentOp(arg0).N]; f != nil {
			ws := f.waiters[:0]
			for _, w := range f.waiters {
				if w != th {
					ws = append(ws, w)
				}
			}
			f.waiters = ws
		}
	case "FlStart", "FlLookup", "FlPreStart", "FlAttach", "FlAddW":
		f := r.flights[arg0]
		if f == nil || f.th == "" {
			r.setDrift("%s:no-flight", x.A)
			return
		}
		want := map[string]string{"FlStart": "spawn.fn", "FlLookup": "tree.nodeByName", "FlPreStart": "pre.start", "FlAttach": "tree.addNode", "FlAddW": "tree.addWatcher"}[x.A]
		p, ok := simple(f.th, want)
		if ok && p.Done {
			r.flightDone(arg0)
		}
	case "StLock", "StUnwee", "BrUnw", "BrRemDesc", "StPsEnter", "StPsExit", "StFwTell", "StFwUn", "StWees", "StWers":
		th, _ := r.stopThread(x.Args)
		want := map[string]string{"StLock": "stop.lock", "StUnwee": "tree.removeWatcher", "BrUnw": "tree.removeWatcher", "BrRemDesc": "tree.removeDescendant",
			"StPsEnter": "ps.enter", "StPsExit": "ps.exit", "StFwTell": "fw.watcher", "StFwUn": "tree.removeWatcher", "StWees": "tree.watchees", "StWers": "tree.watchers"}[x.A]
		if x.A == "StWees" || x.A == "StWers" {
			r.s.ScriptFault("tree.order", num(x.Args[2]))
		}
		if p, ok := simple(th, want); ok {
			r.afterStop(x.Args, p)
		}
	case "StFcKids":
		th, sp := r.stopThread(x.Args)
		if th == "" || !r.expect(th, "tree.children") {
			r.setDrift("StFcKids:no-thread")
			return
		}
		r.s.ScriptFault("tree.order", num(x.Args[2]))
		n := r.childrenOf(sp.target)
		if n == 0 {
			if p, ok := r.step(th); ok {
				r.afterStop(x.Args, p)
			}
			return
		}
		before := len(r.branch)
		if err := r.s.Release(th); err != nil {
			r.setDrift("StFcKids:release:%v", err)
			return
		}
		sp.outstanding = n
		r.pump(func() bool { return len(r.branch) >= before+n })
		key := r.stopKey(x.Args)
		for m, bth := range r.branch {
			bk := "b:" + m
			if r.stops[bk] == nil {
				r.stops[bk] = &stopper{th: bth, target: m, parent: key}
			}
		}
	case "StJoin":
		_, sp := r.stopThread(x.Args)
		if sp.outstanding != 0 {
			r.setDrift("StJoin:outstanding=%d", sp.outstanding)
		}
	case "DwTerm":
		if r.dwth == "" {
			r.setDrift("DwTerm:no-death-watch-worker")
			return
		}
		p, ok := simple(r.dwth, "dw.term")
		if ok && (p.Done || p.Point != "tree.deleteNode") {
			name := r.dwth
			r.dwth = ""
			if !p.Done {
				if p.Point == "dw.term" {
					r.dwth = name
				} else {
					r.advanceDW(name)
				}
			}
		}
	case "DwDelete":
		p, ok := simple(r.dwth, "tree.deleteNode")
		if ok {
			name := r.dwth
			r.dwth = ""
			if !p.Done {
				if p.Point == "dw.term" {
					r.dwth = name
				} else {
					r.advanceDW(name)
				}
			}
		}
	case "KLookup", "AoDo":
		th := r.th(arg0)
		p, ok := simple(th, "tree.nodeByName")
		if ok && x.A == "KLookup" && !p.Done && p.Point == "stop.lock" {
			r.stops["t:"+arg0] = &stopper{th: th, target: r.currentOp(arg0).N}
		}
	case "WDo":
		simple(r.th(arg0), "tree.addWatcher")
	case "UwDo":
		simple(r.th(arg0), "tree.removeWatcher")
	case "RsWait":
		simple(r.th(arg0), "restart.wait")
	case "RsInit":
		simple(r.th(arg0), "restart.init")
	case "RsPre":
		simple(r.th(arg0), "pre.start")
	case "RsAttach":
		simple(r.th(arg0), "tree.addOrAttach")
	case "RsAddW":
		simple(r.th(arg0), "tree.addWatcher")
	case "SsRest":
		// the rest of ActorSystem.Stop is one model step: run the thread, and every goroutine goakt starts or
		// schedules meanwhile (freeChildren goroutines of the system guardians, dispatcher workers), until Stop returns
		th := r.th(arg0)
		active := []string{th}
		if r.dwth != "" {
			active = append(active, r.dwth)
			r.dwth = ""
		}
		finished := false
		for i := 0; i < 20000 && !finished; i++ {
			for {
				name, ok := r.s.WaitAdopted(200 * time.Microsecond)
				if !ok {
					break
				}
				if p, _ := r.s.Pending(name); p.Point == "ds.take.cas" {
					r.adopted++
				}
				active = append(active, name)
			}
			next := active[:0]
			for _, a := range active {
				p, parked := r.s.Pending(a)
				if !parked {
					if q, ok := r.s.TryAwait(a, 200*time.Microsecond); ok {
						p, parked = q, true
					}
				}
				if parked {
					if p.Done {
						if a == th {
							finished = true
						}
						continue
					}
					if a == th && p.Point == "op.call" {
						finished = true
						next = append(next, a)
						continue
					}
					if err := r.s.Release(a); err != nil {
						continue
					}
				}
				next = append(next, a)
			}
			active = next
		}
		if !finished {
			r.setDrift("SsRest:did-not-finish")
		}
		r.adopted = h.pushes.Load() // workers scheduled during the shutdown may never run (the dispatcher is stopped)
	default:
		r.setDrift("unknown-action:%s", x.A)
	}
	// stop targets of operations that go straight into Shutdown
	if x.A == "OpCall" && r.drift == "" {
		o := r.currentOp(arg0)
		switch o.Op {
		case "restart":
			r.stops["t:"+arg0] = &stopper{th: r.th(arg0), target: o.N}
		case "sysstop":
			r.stops["t:"+arg0] = &stopper{th: r.th(arg0), target: "u"}
		}
	}
	if r.drift == "" {
		r.settle()
	}
}

// the index of the operation a model thread is in = number of its OpCall steps so far
func (r *runner) currentOp(t string) opT {
	i := r.opi[t] - 1
	if i < 0 {
		i = 0
	}
	if i >= len(r.h.scn.Prog[t]) {
		i = len(r.h.scn.Prog[t]) - 1
	}
	return r.h.scn.Prog[t][i]
}

func replayOne(sys actor.ActorSystem, w *vtrace.Writer, scn *scenario, b behaviour, bi int, st *stats) {
	own := sys == nil
	if own {
		sys = newSystem()
	}
	h := newHarness(sys, w, scn, "-"+strconv.Itoa(bi))
	base := int(sys.NumActors())
	w.Raw(map[string]any{"ev": "New", "t": "", "op": "", "n": "", "w": "", "i": 0, "k": 0, "ok": 0, "c": int(sys.NumActors()), "run": 0, "d": []any{}, "x": b.Scn,
		"names": scn.Names, "parent": scn.Parent, "wit": append([]string{}, b.Wit...), "watch": watchList(scn)})
	h.setup()
	if !h.waitQuiescent(3 * time.Second) {
		fatal("initial actors did not become idle")
	}
	h.emit("Start", func(e map[string]any) { e["c"] = int(sys.NumActors()); e["d"] = h.dump(false) })
	s := sched.New()
	s.Watchdog = 3 * time.Second
	h.s = s
	s.ControlAll()
	s.OnlyPoints("tree.addNode", "tree.addOrAttach", "tree.removeWatcher", "tree.removeDescendant", "tree.addWatcher", "tree.deleteNode",
		"tree.nodeByName", "tree.children", "tree.watchers", "tree.watchees", "fw.watcher", "spawn.sf", "spawn.wait", "dw.term", "stop.lock",
		"restart.wait", "restart.init")
	s.AdoptAt("ds.take.cas", "w")
	s.AdoptAt("spawn.fn", "f")
	s.AdoptAt("fc.child", "b")
	s.DetachAt("turn.end", "spawn.fn.end", "fc.child.end")
	s.Obs = func(thread, point string, obj any, a, bb int64) {
		switch point {
		case "turn.push", "turn.resched":
			h.pushes.Add(1)
		case "spawn.attach":
			if pid, ok := obj.(*actor.PID); ok {
				h.mu.Lock()
				ta := h.lastPre[h.model(pid.Name())]
				h.mu.Unlock()
				if ta != nil {
					h.bind(pid, ta)
				}
			}
		case "tree.mut":
			if obj == h.tree {
				d := h.dump(true)
				h.emit("mut", func(e map[string]any) { e["c"] = int(a); e["d"] = d; e["t"] = thread })
			}
		}
	}
	r := &runner{h: h, s: s, st: st, flights: map[string]*flight{}, stops: map[string]*stopper{}, branch: map[string]string{}, worker: map[string]string{}, alias: map[string]string{}, opi: map[string]int{}}
	for _, t := range scn.Threads {
		if scn.After[t] != "" {
			continue
		}
		t := t
		if _, err := s.Go(t, func() { h.runProg(t, nil) }); err != nil {
			fatal(err)
		}
	}
	for si, x := range b.Steps {
		if x.A == "OpCall" {
			r.opi[x.Args[0].(string)]++
		}
		dbg("step %d %s %v", si, x.A, x.Args)
		r.exec(x)
		if r.drift != "" {
			break
		}
		st.Steps++
		if !stepsOff {
			h.emitStep(x, base)
		}
	}
	if r.drift != "" {
		st.Drift++
		if st.DriftAt == nil {
			st.DriftAt = map[string]int{}
		}
		st.DriftAt[r.drift]++
		h.emit("Drift", func(e map[string]any) { e["x"] = r.drift })
	}
	s.FreeRun()
	alive := sys.Running()
	if alive {
		if !s.Join(6 * time.Second) {
			st.NotQ++
		}
	} else {
		s.Join(100 * time.Millisecond) // workers parked when the dispatcher was stopped never reach turn.end
	}
	h.end(alive)
	s.Close()
	if own && alive {
		_ = sys.Stop(context.Background())
	}
	st.Behaviours++
}

// ---------------------------------------------------------------- stress: the same programmes, free-running

func stressOne(sys actor.ActorSystem, w *vtrace.Writer, scn *scenario, name string, bi int, rng *rand.Rand, st *stats) {
	own := sys == nil
	if own {
		sys = newSystem()
	}
	h := newHarness(sys, w, scn, "-s"+strconv.Itoa(bi))
	h.spin = rng.Intn(3)
	h.free = true
	w.Raw(map[string]any{"ev": "New", "t": "", "op": "", "n": "", "w": "", "i": 0, "k": 0, "ok": 0, "c": int(sys.NumActors()), "run": 0, "d": []any{}, "x": name,
		"names": scn.Names, "parent": scn.Parent, "wit": []string{}, "watch": watchList(scn)})
	h.setup()
	h.waitQuiescent(3 * time.Second)
	h.emit("Start", func(e map[string]any) { e["c"] = int(sys.NumActors()); e["d"] = h.dump(false) })
	s := sched.New()
	s.ControlAll()
	s.FreeRun()
	s.Obs = func(thread, point string, obj any, a, bb int64) {
		switch point {
		case "spawn.attach":
			if pid, ok := obj.(*actor.PID); ok {
				h.mu.Lock()
				ta := h.lastPre[h.model(pid.Name())]
				h.mu.Unlock()
				if ta != nil {
					h.bind(pid, ta)
				}
			}
		case "tree.mut":
			if obj == h.tree {
				d := h.dump(true)
				h.emit("mut", func(e map[string]any) { e["c"] = int(a); e["d"] = d })
			}
		}
	}
	var wg sync.WaitGroup
	for _, t := range scn.Threads {
		if scn.After[t] != "" {
			continue
		}
		t := t
		delay := rng.Intn(6)
		wg.Add(1)
		go func() {
			defer wg.Done()
			for i := 0; i < delay; i++ {
				runtime.Gosched()
			}
			h.runProg(t, nil)
		}()
	}
	wg.Wait()
	alive := sys.Running()
	h.end(alive)
	s.Close()
	if own && alive {
		_ = sys.Stop(context.Background())
	}
	st.Behaviours++
}

// ---------------------------------------------------------------- main

func loadScenarios(path string) map[string]*scenario {
	raw, err := os.ReadFile(path)
	if err != nil {
		fatal(err)
	}
	m := map[string]*scenario{}
	if err := json.Unmarshal(raw, &m); err != nil {
		fatal(err)
	}
	for _, s := range m {
		for t := range s.Prog {
			s.Threads = append(s.Threads, t)
		}
		sort.Strings(s.Threads)
		if s.After == nil {
			s.After = map[string]string{}
		}
	}
	return m
}

func watchList(s *scenario) [][]string {
	if s.Watch == nil {
		return [][]string{}
	}
	return s.Watch
}

func usesSysStop(s *scenario) bool {
	for _, p := range s.Prog {
		for _, o := range p {
			if o.Op == "sysstop" {
				return true
			}
		}
	}
	return false
}

func main() {
	if len(os.Args) < 2 {
		fatal("usage: tree replay|stress ...")
	}
	st := &stats{}
	switch os.Args[1] {
	case "replay":
		if len(os.Args) != 5 {
			fatal("usage: tree replay <scenarios.json> <behaviours.ndjson> <trace.ndjson>")
		}
		scns := loadScenarios(os.Args[2])
		bs, err := vtrace.ReadLines[behaviour](os.Args[3])
		if err != nil {
			fatal(err)
		}
		w, err := vtrace.Create(os.Args[4])
		if err != nil {
			fatal(err)
		}
		var shared actor.ActorSystem
		for bi, b := range bs {
			scn := scns[b.Scn]
			if scn == nil {
				fatal("unknown scenario", b.Scn)
			}
			if usesSysStop(scn) {
				replayOne(nil, w, scn, b, bi, st)
				continue
			}
			if shared == nil {
				shared = newSystem()
			}
			replayOne(shared, w, scn, b, bi, st)
		}
		w.Raw(map[string]any{"ev": "New", "t": "", "op": "", "n": "", "w": "", "i": 0, "k": 0, "ok": 0, "c": 0, "run": 0, "d": []any{}, "x": "",
			"names": []string{}, "parent": map[string]string{}, "wit": []string{}, "watch": [][]string{}})
		st.Events = w.Count()
		w.Close()
		if shared != nil {
			_ = shared.Stop(context.Background())
		}
	case "stress":
		if len(os.Args) != 7 {
			fatal("usage: tree stress <scenarios.json> <scenario> <runs> <seed> <trace.ndjson>")
		}
		scns := loadScenarios(os.Args[2])
		scn := scns[os.Args[3]]
		if scn == nil {
			fatal("unknown scenario", os.Args[3])
		}
		runs, _ := strconv.Atoi(os.Args[4])
		seed, _ := strconv.ParseInt(os.Args[5], 10, 64)
		w, err := vtrace.Create(os.Args[6])
		if err != nil {
			fatal(err)
		}
		rng := rand.New(rand.NewSource(seed))
		var shared actor.ActorSystem
		for i := 0; i < runs; i++ {
			if usesSysStop(scn) {
				stressOne(nil, w, scn, os.Args[3], i, rng, st)
				continue
			}
			if shared == nil {
				shared = newSystem()
			}
			stressOne(shared, w, scn, os.Args[3], i, rng, st)
		}
		w.Raw(map[string]any{"ev": "New", "t": "", "op": "", "n": "", "w": "", "i": 0, "k": 0, "ok": 0, "c": 0, "run": 0, "d": []any{}, "x": "",
			"names": []string{}, "parent": map[string]string{}, "wit": []string{}, "watch": [][]string{}})
		st.Events = w.Count()
		w.Close()
		if shared != nil {
			_ = shared.Stop(context.Background())
		}
	case "nilrace":
		// tree nilrace <rounds>: Kill / ActorOf by name racing the death-watch cleanup of the same actor (free-running)
		rounds, _ := strconv.Atoi(os.Args[2])
		sys := newSystem()
		ctx := context.Background()
		panics := map[string]int{}
		var mu sync.Mutex
		for i := 0; i < rounds; i++ {
			name := "n" + strconv.Itoa(i)
			pid, err := sys.Spawn(ctx, name, &plain{}, actor.WithLongLived())
			if err != nil {
				fatal(err)
			}
			var wg sync.WaitGroup
			probe := func(what string, f func()) {
				wg.Add(1)
				go func() {
					defer wg.Done()
					defer func() {
						if r := recover(); r != nil {
							mu.Lock()
							panics[what+": "+fmt.Sprint(r)]++
							mu.Unlock()
						}
					}()
					for k := 0; k < 400; k++ {
						f()
					}
				}()
			}
			probe("ActorOf", func() { _, _ = sys.ActorOf(ctx, name) })
			probe("Kill", func() { _ = sys.Kill(ctx, name) })
			probe("ActorExists", func() { _, _ = sys.ActorExists(ctx, name) })
			_ = pid.Shutdown(ctx)
			wg.Wait()
		}
		_ = sys.Stop(ctx)
		out, _ := json.Marshal(map[string]any{"rounds": rounds, "panics": panics})
		fmt.Println(string(out))
		return
	default:
		fatal("unknown subcommand")
	}
	out, _ := json.Marshal(st)
	fmt.Println(string(out))
}
