// Command crdtrepl (group crdt, property C41; a binary of its own so that the C38-C40 driver does not link
// package actor) executes TLC-generated behaviours of specs/Crdt/Replicator.tla on REAL
// replicator actors (actor/replicator.go), one per in-process actor system (no cluster). What a
// replicator publishes to the CRDT topic is captured by a collector actor subscribed to the real
// TopicActor of its system; the driver delivers the captured protobuf messages to the other
// replicators in the order TLC chose. After every step the public Get of every key on every
// replica and a projection of store / tombstones / versions are recorded (C41).
//
//	crdtrepl <behaviours.ndjson> <trace.ndjson>
package main

import (
	"context"
	"fmt"
	"os"
	"sync"
	"time"

	"google.golang.org/protobuf/types/known/wrapperspb"

	"github.com/tochemey/goakt/v4/actor"
	"github.com/tochemey/goakt/v4/crdt"
	"github.com/tochemey/goakt/v4/internal/codec"
	"github.com/tochemey/goakt/v4/internal/internalpb"
	"github.com/tochemey/goakt/v4/log"
	"github.com/tochemey/goakt/v4/verifharness/vtrace"
)

type rstep struct {
	A   string `json:"a"`
	R   string `json:"r"`
	Q   string `json:"q"`
	K   string `json:"k"`
	ID  int    `json:"id"`
	Out int    `json:"out"`
}

type rbehaviour struct {
	H []rstep `json:"h"`
}

var rkeys = []string{"k", "j"}

const askTimeout = 10 * time.Second

// collector records everything it is told (publications of the local replicator, full states sent as
// answers to digests) and forwards nothing.
type collector struct {
	mu     sync.Mutex
	msgs   []any
	marker chan string
}

func (c *collector) PreStart(*actor.Context) error { return nil }
func (c *collector) PostStop(*actor.Context) error { return nil }
func (c *collector) Receive(ctx *actor.ReceiveContext) {
	switch m := ctx.Message().(type) {
	case *actor.PostStart:
		ctx.Tell(ctx.ActorSystem().TopicActor(), actor.NewSubscribe(actor.VerifCRDTTopic))
	case *actor.SubscribeAck:
	case *wrapperspb.StringValue:
		c.marker <- m.GetValue()
	default:
		c.mu.Lock()
		c.msgs = append(c.msgs, m)
		c.mu.Unlock()
	}
}

func (c *collector) take() []any {
	c.mu.Lock()
	defer c.mu.Unlock()
	out := c.msgs
	c.msgs = nil
	return out
}

type node struct {
	name string
	sys  actor.ActorSystem
	col  *collector
	cpid *actor.PID
	repl *actor.PID
}

type rdriver struct {
	ctx    context.Context
	nodes  map[string]*node
	order  []string
	seq    int
	realID map[string]string // replicator nodeID -> model node name
	msgs   map[int]any       // model message id -> captured real message
	drift  int
}

func (d *rdriver) barrier(n *node) error {
	d.seq++
	id := fmt.Sprintf("marker-%d", d.seq)
	if err := n.cpid.Tell(d.ctx, n.sys.TopicActor(), actor.NewPublish(id, actor.VerifCRDTTopic, wrapperspb.String(id))); err != nil {
		return err
	}
	deadline := time.After(askTimeout)
	for {
		select {
		case got := <-n.col.marker:
			if got == id {
				return nil
			}
		case <-deadline:
			return fmt.Errorf("watchdog: marker %s not seen on %s", id, n.name)
		}
	}
}

// sync waits until the replicator has processed everything sent to it so far.
func (d *rdriver) sync(n *node) error {
	_, err := actor.Ask(d.ctx, n.repl, &crdt.Get{Key: crdt.GCounterKey("sync")}, askTimeout)
	return err
}

func (d *rdriver) get(n *node, k string) (obj, bool, error) {
	resp, err := actor.Ask(d.ctx, n.repl, &crdt.Get{Key: crdt.GCounterKey(k)}, askTimeout)
	if err != nil {
		return nil, false, err
	}
	gr, ok := resp.(*crdt.GetResponse)
	if !ok {
		return nil, false, fmt.Errorf("unexpected Get response %T", resp)
	}
	if gr.Data == nil {
		return nil, false, nil
	}
	gc, ok := gr.Data.(*crdt.GCounter)
	if !ok {
		return obj{"?": fmt.Sprintf("%T", gr.Data)}, true, nil
	}
	return u64map(gc.State()), true, nil
}

// describe renders a captured real message for the trace.
func (d *rdriver) describe(id int, m any, by string) obj {
	o := obj{"id": id, "t": fmt.Sprintf("?%T", m), "k": "", "from": by} // digests and full states carry no origin: the acting replica
	switch v := m.(type) {
	case *internalpb.CRDTDelta:
		o["t"] = "delta"
		if k, _, err := codec.DecodeCRDTKey(v.GetKey()); err == nil {
			o["k"] = k
		}
		o["from"] = d.realID[v.GetOriginNode()]
	case *internalpb.CRDTTombstone:
		o["t"] = "tomb"
		if k, _, err := codec.DecodeCRDTKey(v.GetKey()); err == nil {
			o["k"] = k
		}
		o["from"] = d.realID[v.GetDeletedByNode()]
	case *internalpb.CRDTDigest:
		o["t"] = "digest"
	case *internalpb.CRDTFullState:
		o["t"] = "full"
	}
	return o
}

type obj = map[string]any

var nodes = []string{"n1", "n2", "n3"}

func fail(a ...any) {
	fmt.Fprintln(os.Stderr, a...)
	os.Exit(2)
}

func u64map(m map[string]uint64) obj {
	o := obj{}
	for k, v := range m {
		o[k] = v
	}
	return o
}

func main() {
	args := os.Args[1:]
	if len(args) != 2 {
		fail("usage: crdtrepl <behaviours.ndjson> <trace.ndjson>")
	}
	behaviours, err := vtrace.ReadLines[rbehaviour](args[0])
	if err != nil {
		fail(err)
	}
	w, err := vtrace.Create(args[1])
	if err != nil {
		fail(err)
	}
	ctx := context.Background()
	d := &rdriver{ctx: ctx, nodes: map[string]*node{}, order: nodes}
	for _, name := range nodes {
		sys, err := actor.NewActorSystem("verif"+name, actor.WithLogger(log.DiscardLogger), actor.WithPubSub())
		if err != nil {
			fail(err)
		}
		if err := sys.Start(ctx); err != nil {
			fail(err)
		}
		col := &collector{marker: make(chan string, 16)}
		cpid, err := sys.Spawn(ctx, "collector", col, actor.WithLongLived())
		if err != nil {
			fail(err)
		}
		d.nodes[name] = &node{name: name, sys: sys, col: col, cpid: cpid}
	}
	time.Sleep(200 * time.Millisecond)
	// long TTL: no tombstone expires during a run; no timers: the driver triggers prune itself
	cfg := crdt.NewConfig(crdt.WithAntiEntropyInterval(0), crdt.WithPruneInterval(0), crdt.WithTombstoneTTL(time.Hour))

	watchdog := 0
	for bi, b := range behaviours {
		d.realID = map[string]string{}
		d.msgs = map[int]any{}
		for _, name := range nodes {
			n := d.nodes[name]
			if n.repl != nil {
				_ = n.repl.Shutdown(ctx)
			}
			n.repl, err = actor.VerifSpawnReplicator(ctx, n.sys, fmt.Sprintf("replicator-%d", bi), cfg)
			if err != nil {
				fail(err)
			}
			if err := d.sync(n); err != nil {
				fail("replicator did not start:", err)
			}
			if err := d.barrier(n); err != nil { // the replicator's own subscription has been processed
				fail(err)
			}
			n.col.take()
			d.realID[actor.VerifReplicatorState(n.repl).NodeID] = name
		}
		w.Raw(obj{"a": "New", "r": "", "q": "", "k": "", "id": 0, "out": 0})
		broken := false
		for _, s := range b.H {
			n := d.nodes[s.R]
			var stepErr error
			note := ""
			switch s.A {
			case "Update":
				node := s.R
				_, stepErr = actor.Ask(ctx, n.repl, &crdt.Update{Key: crdt.GCounterKey(s.K), Initial: crdt.NewGCounter(),
					Modify: func(cur crdt.ReplicatedData) crdt.ReplicatedData { return cur.(*crdt.GCounter).Increment(node, 1) }}, askTimeout)
			case "Delete":
				_, stepErr = actor.Ask(ctx, n.repl, &crdt.Delete{Key: crdt.GCounterKey(s.K)}, askTimeout)
			case "RecvDelta", "RecvTomb", "RecvFull":
				if m, ok := d.msgs[s.ID]; ok {
					stepErr = actor.Tell(ctx, n.repl, m)
				} else {
					note = "the real code never published message " + fmt.Sprint(s.ID)
				}
			case "SendDigest":
				var resp any
				resp, stepErr = actor.Ask(ctx, n.repl, actor.VerifDigestRequest(), askTimeout) // buildDigest
				if stepErr == nil {
					d.msgs[s.Out] = resp
				}
			case "RecvDigest":
				if m, ok := d.msgs[s.ID]; ok {
					// the answer (full state) goes to the sender: the collector stands in for the peer replicator
					stepErr = n.cpid.Tell(ctx, n.repl, m)
				} else {
					note = "the real code never produced digest " + fmt.Sprint(s.ID)
				}
			case "Prune":
				stepErr = actor.Tell(ctx, n.repl, actor.VerifPruneTick())
			default:
				fail("unknown action", s.A)
			}
			if stepErr == nil {
				stepErr = d.sync(n)
			}
			if stepErr == nil {
				stepErr = d.barrier(n)
			}
			if stepErr != nil {
				// watchdog / infrastructure: not a verdict; abandon this behaviour
				watchdog++
				w.Raw(obj{"a": "Abort", "r": s.R, "q": "", "k": "", "id": 0, "out": 0, "note": stepErr.Error()})
				broken = true
				break
			}
			// what was published during the step
			var pub []obj
			captured := n.col.take()
			if s.A == "SendDigest" {
				pub = append(pub, d.describe(s.Out, d.msgs[s.Out], s.R))
			}
			for i, m := range captured {
				id := 0
				if i == 0 && s.Out != 0 && s.A != "SendDigest" {
					id = s.Out
					d.msgs[id] = m
				}
				pub = append(pub, d.describe(id, m, s.R))
			}
			if pub == nil {
				pub = []obj{}
			}
			// observe: public Get of every key on every replica, and the projected state
			vals, view := obj{}, obj{}
			for _, name := range nodes {
				nn := d.nodes[name]
				vs := obj{}
				for _, k := range rkeys {
					v, ok, err := d.get(nn, k)
					if err != nil {
						fail("Get failed:", err)
					}
					if ok {
						vs[k] = v
					}
				}
				vals[name] = vs
				st := actor.VerifReplicatorState(nn.repl)
				store := obj{}
				for k, data := range st.Store {
					if gc, ok := data.(*crdt.GCounter); ok {
						store[k] = u64map(gc.State())
					} else {
						store[k] = obj{"?": fmt.Sprintf("%T", data)}
					}
				}
				tomb, known := st.Tombstones, st.KeyTypes
				if tomb == nil {
					tomb = []string{}
				}
				if known == nil {
					known = []string{}
				}
				view[name] = obj{"store": store, "tomb": tomb, "vers": u64map(st.Versions), "known": known}
			}
			w.Raw(obj{"a": s.A, "r": s.R, "q": s.Q, "k": s.K, "id": s.ID, "out": s.Out, "pub": pub, "vals": vals, "view": view, "note": note})
		}
		_ = broken
	}
	for _, name := range nodes {
		n := d.nodes[name]
		_ = n.sys.Stop(ctx)
	}
	nl := w.Count()
	if err := w.Close(); err != nil {
		fail(err)
	}
	fmt.Printf("{\"behaviours\":%d,\"events\":%d,\"watchdog\":%d}\n", len(behaviours), nl, watchdog)
}
