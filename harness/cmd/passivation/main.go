// Command passivation drives goakt's passivation machinery for C12 (actors) and
// C31 (grains, see grain.go).
//
//	passivation replay <behaviours.ndjson> <events.ndjson> <conf.ndjson> <tick_ms> <slack_ms>
//	    executes walks of specs/Passivation/Passivate.tla on a REAL actor system: the real
//	    passivationManager goroutine (adopted at pm.trigger / pm.msg), goakt's dispatcher workers
//	    (adopted at ds.take.cas), the supervision consumer (adopted at sup.work) and harness threads
//	    (producer, controller, stopper, reinstater) are stepped gate by gate; the model's Tick is a
//	    real sleep of <tick_ms>.
//	passivation stress <actors> <timeout_ms> <slack_ms> <seed> <events.ndjson> <mode>
//	    free-running actors with short real timeouts and traffic timed around the deadline.
package main

import (
	"context"
	"encoding/json"
	"errors"
	"fmt"
	"math/rand"
	"os"
	"runtime"
	"strconv"
	"strings"
	"sync"
	"sync/atomic"
	"time"

	"github.com/tochemey/goakt/v4/actor"
	"github.com/tochemey/goakt/v4/log"
	"github.com/tochemey/goakt/v4/passivation"
	"github.com/tochemey/goakt/v4/supervisor"
	"github.com/tochemey/goakt/v4/verifharness/sched"
	"github.com/tochemey/goakt/v4/verifharness/vtrace"
)

type Msg struct {
	ID   int
	Boom bool
	Work time.Duration
}

var errBoom = errors.New("boom")

func fatal(v ...any) {
	fmt.Fprintln(os.Stderr, v...)
	os.Exit(2)
}

// ---------------------------------------------------------------- event recording

// event is one line of the monitor trace (all fields always present).
type event struct {
	Ev string `json:"ev"`
	ID int    `json:"id"`
	T  int    `json:"t"` // ms since the history's epoch
	A  int    `json:"a"`
	B  int    `json:"b"`
	S  string `json:"s"`
}

// history collects the events of one actor (one history of the monitor).
type history struct {
	mu     sync.Mutex
	epoch  time.Time
	events []event
	s      atomic.Pointer[sched.Sched]
	pid    atomic.Pointer[actor.PID]
	ps     atomic.Int32 // PostStop runs started
	psDone atomic.Int32 // PostStop runs finished
	dec    atomic.Int32 // passivation decisions observed
}

// settle waits until every passivation that was decided has run its PostStop (the manager goroutine may be mid-way when
// a history ends), so that the End line describes a quiescent actor.
func (h *history) settle(d time.Duration) {
	deadline := time.Now().Add(d)
	for h.psDone.Load() < h.dec.Load() && time.Now().Before(deadline) {
		time.Sleep(time.Millisecond)
	}
	time.Sleep(2 * time.Millisecond)
}

func (h *history) ms(t time.Time) int { return int(t.Sub(h.epoch) / time.Millisecond) }
func (h *history) msNano(n int64) int {
	if n == 0 {
		return -1
	}
	return int((n - h.epoch.UnixNano()) / int64(time.Millisecond))
}

func (h *history) add(ev string, id int, t time.Time, a, b int, s string) {
	h.mu.Lock()
	h.events = append(h.events, event{Ev: ev, ID: id, T: h.ms(t), A: a, B: b, S: s})
	h.mu.Unlock()
}

func (h *history) flush(w *vtrace.Writer) {
	h.mu.Lock()
	for _, e := range h.events {
		w.Raw(e)
	}
	h.events = nil
	h.mu.Unlock()
}

func (h *history) yield(point string, id int) {
	if s := h.s.Load(); s != nil {
		s.Yield(point, int64(id), 0)
	}
}

// ---------------------------------------------------------------- test actor

type testActor struct{ h *history }

func (a *testActor) PreStart(*actor.Context) error { return nil }

func (a *testActor) Receive(ctx *actor.ReceiveContext) {
	switch m := ctx.Message().(type) {
	case *actor.PostStart:
		now := time.Now()
		a.h.add("enter", 0, now, a.h.msNano(actor.VerifLatestActivityNano(ctx.Self())), 0, "")
	case *Msg:
		now := time.Now() // the handler is entered HERE (the gate below only delays the body)
		stamp := actor.VerifLatestActivityNano(ctx.Self())
		a.h.yield("h.enter", m.ID)
		a.h.add("enter", m.ID, now, a.h.msNano(stamp), 0, "")
		if m.Boom {
			ctx.Err(errBoom)
		}
		if m.Work > 0 {
			time.Sleep(m.Work)
		}
		a.h.yield("h.exit", m.ID)
		a.h.add("exit", m.ID, time.Now(), 0, 0, "")
	}
}

func (a *testActor) PostStop(*actor.Context) error {
	a.h.yield("ps.enter", 0)
	a.h.ps.Add(1)
	a.h.add("psenter", 0, time.Now(), int(sched.Gid()%1000000), 0, "")
	a.h.yield("ps.exit", 0)
	a.h.add("psexit", 0, time.Now(), int(sched.Gid()%1000000), 0, "")
	a.h.psDone.Add(1)
	return nil
}

type parentActor struct{}

func (parentActor) PreStart(*actor.Context) error     { return nil }
func (parentActor) Receive(ctx *actor.ReceiveContext) {}
func (parentActor) PostStop(*actor.Context) error     { return nil }

// observe turns hook hits on the actor into monitor events (called under the scheduler lock).
func observe(h *history, pid *actor.PID) sched.Observer {
	return func(thread, point string, obj any, a, b int64) {
		switch point {
		case "pm.pop", "pm.msg.go":
			h.add("pop", 0, time.Now(), 0, 0, point)
		case "pm.register":
			h.add("register", 0, time.Now(), 0, 0, "")
		case "pm.unregister":
			h.add("unregister", 0, time.Now(), 0, 0, "")
		case "turn.begin":
			if a == 0 { // a dispatcher turn starts: runTurn samples its clock right after this hook
				h.add("turnbegin", 0, time.Now(), 0, 0, "")
			}
		case "pv.locked":
			running, stopping, suspended, paused, _, _ := actor.VerifPassivationFlags(pid)
			f := 0
			if running {
				f |= 1
			}
			if stopping {
				f |= 2
			}
			if suspended {
				f |= 4
			}
			if paused {
				f |= 8
			}
			h.dec.Add(1)
			h.add("decision", 0, time.Now(), f, 0, "")
		}
	}
}

func flags(pid *actor.PID) map[string]any {
	running, stopping, suspended, paused, skip, passivating := actor.VerifPassivationFlags(pid)
	return map[string]any{"running": running, "stopping": stopping, "suspended": suspended, "pflag": paused, "skip": skip, "passivating": passivating}
}

// ---------------------------------------------------------------- replay

type expState struct {
	Now   int      `json:"now"`
	Mpc   string   `json:"mpc"`
	Tpc   []string `json:"tpc"`
	Xpc   string   `json:"xpc"`
	Upc   string   `json:"upc"`
	Nturn int      `json:"nturn"`
}

type step struct {
	A    string   `json:"a"`
	Args []any    `json:"args"`
	Exp  expState `json:"exp"`
}

type behaviour struct {
	Steps      []step   `json:"steps"`
	T          int      `json:"T"`
	MaxNow     int      `json:"maxnow"`
	Strategy   string   `json:"strategy"`
	N          int      `json:"N"`
	Msgs       []string `json:"msgs"`
	Ctls       []string `json:"ctls"`
	Stops      int      `json:"stops"`
	Reinstates int      `json:"reinstates"`
	ID         int      `json:"id"`
}

type stats struct {
	Behaviours int            `json:"behaviours"`
	Steps      int            `json:"steps"`
	Drift      int            `json:"drift"`
	TimeDrift  int            `json:"time_drift"`
	Watchdog   int            `json:"watchdog"`
	Events     int64          `json:"events"`
	ConfLines  int64          `json:"conf_lines"`
	DriftAt    map[string]int `json:"drift_at"`
}

var managerPoint = map[string]string{"trig": "pm.trigger", "popped": "pm.pop", "prelock": "pv.lock", "locked": "pv.locked",
	"psenter": "ps.enter", "psexit": "ps.exit", "relock": "pm.relock", "msgentry": "pm.msg", "msggo": "pm.msg.go", "msgrelock": "pm.msg.relock"}
var workerPoint = map[string]string{"take": "ds.take.cas", "ctl": "pv.ctl", "enter": "h.enter", "exit": "h.exit"}
var stopperPoint = map[string]string{"idle": "scall", "lock": "stop.lock", "psenter": "ps.enter", "psexit": "ps.exit"}
var supPoint = map[string]string{"work": "sup.work", "suspend": "pv.suspend"}

func waitQuiescent(pid *actor.PID, d time.Duration) bool {
	deadline := time.Now().Add(d)
	user, system := actor.VerifMailboxesOf(pid)
	for time.Now().Before(deadline) {
		if actor.VerifSchedValue(pid) == 0 && user.IsEmpty() && system.IsEmpty() {
			time.Sleep(200 * time.Microsecond)
			if actor.VerifSchedValue(pid) == 0 && user.IsEmpty() && system.IsEmpty() {
				return true
			}
		}
		time.Sleep(100 * time.Microsecond)
	}
	return false
}

func strategyOf(name string, tms, n int) passivation.Strategy {
	switch name {
	case "time":
		return passivation.NewTimeBasedStrategy(time.Duration(tms) * time.Millisecond)
	case "count":
		return passivation.NewMessageCountBasedStrategy(n)
	}
	return passivation.NewLongLivedStrategy()
}

// a supervisor without a rule for errBoom: the failing actor is suspended, nothing else
func suspendingSupervisor() *supervisor.Supervisor {
	return supervisor.NewSupervisor(supervisor.WithDirective(&os.PathError{}, supervisor.StopDirective))
}

type replayer struct {
	sys    actor.ActorSystem
	parent *actor.PID
	ev     *vtrace.Writer
	conf   *vtrace.Writer
	tick   time.Duration
	slack  int
	st     *stats
}

func (r *replayer) run(bi int, b behaviour) {
	ctx := context.Background()
	// a behaviour that does not finish is an infrastructure problem (or a livelock worth looking at): report and die
	doneCh := make(chan struct{})
	defer close(doneCh)
	go func() {
		select {
		case <-doneCh:
		case <-time.After(60 * time.Second):
			js, _ := json.Marshal(b)
			fmt.Fprintf(os.Stderr, "behaviour %d did not finish within 60s: %s\n", bi, js)
			buf := make([]byte, 1<<20)
			fmt.Fprintf(os.Stderr, "%s\n", buf[:runtime.Stack(buf, true)])
			os.Exit(3)
		}
	}()
	h := &history{epoch: time.Now()}
	tms := b.T * int(r.tick/time.Millisecond)
	h.add("New", b.N, h.epoch, tms, r.slack, b.Strategy)
	name := "a" + strconv.Itoa(b.ID) + "x" + strconv.Itoa(bi)
	pid, err := r.parent.SpawnChild(ctx, name, &testActor{h: h}, actor.WithPassivationStrategy(strategyOf(b.Strategy, tms, b.N)),
		actor.WithSupervisor(suspendingSupervisor()))
	if err != nil {
		fatal("spawn", err)
	}
	h.pid.Store(pid)
	if !waitQuiescent(pid, 3*time.Second) {
		fatal("actor did not become idle after spawn")
	}
	tk0 := actor.VerifLatestActivityNano(pid) // tick 0 starts with the PostStart stamp
	tickOf := func(n int64) int {
		if n == 0 {
			return -1
		}
		d := n - tk0
		if d < 0 {
			return -1
		}
		return int(d / int64(r.tick))
	}
	s := sched.New()
	s.Watchdog = 4 * time.Second
	ds := actor.VerifSchedStateOf(pid)
	s.Control(ds)
	s.Control(pid)
	s.AdoptAt("ds.take.cas", "t")
	s.AdoptAt("pm.trigger", "m")
	s.AdoptAt("pm.msg", "m")
	// hook points of group supervision on the same PID object are not part of this model
	s.SkipPoints("sup.take", "sup.notify", "sup.submit", "sup.faults", "sup.exhausted", "sup.panicking", "sup.restart", "sup.restarted", "sup.spawn")
	s.AdoptAt("sup.work", "u")
	s.DetachAt("turn.end", "pm.trigger.end", "pm.msg.end", "sup.done")
	s.OnlyPoints("pm.pop", "pv.lock", "pv.locked", "pm.relock", "pm.msg.go", "pm.msg.relock", "pv.ctl", "pv.suspend", "stop.lock")
	s.Obs = observe(h, pid)
	h.s.Store(s)

	project := func(a string, k int) {
		e := actor.VerifPassivationEntryOf(pid, false)
		p := flags(pid)
		p["reg"] = e.Exists
		p["inHeap"] = e.InHeap
		p["copies"] = e.HeapCopies
		p["epaused"] = e.Paused
		p["pending"] = e.Pending
		p["enqueued"] = e.Enqueued
		p["base"] = int(e.Baseline)
		p["deadline"] = tickOf(e.DeadlineNano)
		p["lastAct"] = tickOf(actor.VerifLatestActivityNano(pid))
		p["processed"] = pid.ProcessedCount()
		p["sched"] = int(actor.VerifSchedValue(pid))
		r.conf.Raw(map[string]any{"a": a, "k": k, "p": p})
	}
	r.conf.Raw(map[string]any{"a": "New", "k": 0, "p": map[string]any{"T": b.T, "maxnow": b.MaxNow, "strategy": b.Strategy, "N": b.N, "msgs": b.Msgs, "ctls": b.Ctls,
		"stops": b.Stops, "reinstates": b.Reinstates}})

	// harness threads
	tellThread := func(name string, kinds []string, ctl bool) {
		if len(kinds) == 0 {
			return
		}
		if _, err := s.Go(name, func() {
			for i, kind := range kinds {
				s.Yield("call", 0, 0)
				var m any
				switch kind {
				case "pause":
					m = new(actor.PausePassivation)
				case "resume":
					m = new(actor.ResumePassivation)
				default:
					m = &Msg{ID: i + 1, Boom: kind == "boom"}
				}
				id := i + 1
				if ctl {
					id = 0
				}
				h.add("tellstart", id, time.Now(), 0, 0, kind)
				err := actor.Tell(ctx, pid, m)
				ok := 0
				if err == nil {
					ok = 1
				}
				h.add("tell", id, time.Now(), ok, 0, kind)
			}
		}); err != nil {
			fatal(err)
		}
	}
	tellThread("p", b.Msgs, false)
	tellThread("c", b.Ctls, true)
	if b.Stops > 0 {
		if _, err := s.Go("x", func() {
			s.Yield("scall", 0, 0)
			h.add("stopcall", 0, time.Now(), 0, 0, "")
			err := pid.Shutdown(ctx)
			ok := 0
			if err == nil {
				ok = 1
			}
			h.add("stopret", 0, time.Now(), ok, 0, "")
		}); err != nil {
			fatal(err)
		}
	}
	if b.Reinstates > 0 {
		if _, err := s.Go("r", func() {
			s.Yield("rcall", 0, 0)
			err := r.parent.Reinstate(pid)
			ok := 0
			if err == nil {
				ok = 1
			}
			h.add("reinstate", 0, time.Now(), ok, 0, "")
		}); err != nil {
			fatal(err)
		}
	}

	// adopted threads, demultiplexed by prefix
	pendingAdopt := map[byte][]string{}
	waitAdopt := func(prefix byte, d time.Duration) (string, bool) {
		deadline := time.Now().Add(d)
		for {
			if q := pendingAdopt[prefix]; len(q) > 0 {
				pendingAdopt[prefix] = q[1:]
				return q[0], true
			}
			left := time.Until(deadline)
			if left <= 0 {
				return "", false
			}
			n, ok := s.WaitAdopted(left)
			if !ok {
				return "", false
			}
			pendingAdopt[n[0]] = append(pendingAdopt[n[0]], n)
		}
	}
	tokens := map[int]string{}
	ntok := 0
	manager, sup := "", ""
	curTick := 0
	drift := ""
	margin := r.tick / 10
	windowEnd := func() time.Time { return time.Unix(0, tk0).Add(time.Duration(curTick+1) * r.tick).Add(-margin) }
	sleepUntil := func(t time.Time) {
		if d := time.Until(t); d > 0 {
			time.Sleep(d)
		}
	}
	atPoint := func(thread, want string) bool {
		p, parked := s.Pending(thread)
		return parked && !p.Done && p.Point == want
	}

	for si, x := range b.Steps {
		if x.A == "Tick" {
			curTick++
			sleepUntil(time.Unix(0, tk0).Add(time.Duration(curTick) * r.tick).Add(margin))
			project("Tick", 0)
			r.st.Steps++
			continue
		}
		if time.Now().After(windowEnd()) {
			drift = "timedrift:" + x.A
			r.st.TimeDrift++
			break
		}
		var t, want string
		k := 0
		switch {
		case x.A == "PTell":
			t, want = "p", "call"
		case x.A == "CTell":
			t, want = "c", "call"
		case x.A == "RReinstate":
			t, want = "r", "rcall"
		case x.A[0] == 'X':
			t = "x"
			want = map[string]string{"XCall": "scall", "XLock": "stop.lock", "XPsEnter": "ps.enter", "XPsExit": "ps.exit"}[x.A]
		case x.A == "Take" || x.A == "Ctl" || x.A == "Enter" || x.A == "Exit":
			k = int(x.Args[0].(float64))
			t = tokens[k]
			want = map[string]string{"Take": "ds.take.cas", "Ctl": "pv.ctl", "Enter": "h.enter", "Exit": "h.exit"}[x.A]
			if t == "" {
				drift = x.A + ":no-token"
			}
		case x.A == "MFire" || x.A == "MRecv":
			// the manager goroutine arrives by itself (timer / trigger channel): adopt it
			n, ok := waitAdopt('m', r.tick+r.tick/2)
			if !ok {
				drift = x.A + ":manager-did-not-arrive"
				break
			}
			manager = n
			wantPoint := managerPoint[x.Exp.Mpc]
			if !atPoint(manager, wantPoint) {
				p, _ := s.Pending(manager)
				drift = fmt.Sprintf("%s:want=%s:at=%s", x.A, wantPoint, p.Point)
				break
			}
			project(x.A, 0)
			r.st.Steps++
			continue
		case x.A[0] == 'M':
			t = manager
			want = map[string]string{"MTrigger": "pm.trigger", "MGuards": "", "MLock": "pv.lock", "MDecide": "pv.locked", "MPsEnter": "ps.enter",
				"MPsExit": "ps.exit", "MRelock": "pm.relock", "MMsgCheck": "pm.msg", "MMsgRelock": "pm.msg.relock"}[x.A]
			if t == "" {
				drift = x.A + ":no-manager"
			}
			if x.A == "MLock" && x.Exp.Mpc == "locked" && b.Strategy == "time" {
				// the repaired tryPassivation re-checks the idle time on the real clock: let it elapse when the model decides
				if la := actor.VerifLatestActivityNano(pid); la != 0 {
					if until := time.Unix(0, la).Add(time.Duration(tms)*time.Millisecond + time.Millisecond); time.Until(until) < r.tick/2 {
						sleepUntil(until)
					}
				}
			}
			if x.A == "MTrigger" || x.A == "MRelock" {
				// the model decides "due" on ticks, the code on real time: let the real deadline pass when the model pops
				if x.Exp.Mpc == "popped" {
					if e := actor.VerifPassivationEntryOf(pid, false); e.Exists {
						dl := e.DeadlineNano
						if x.A == "MRelock" {
							if la := actor.VerifLatestActivityNano(pid); la != 0 {
								dl = la + e.TimeoutNano
							}
						}
						if dl != 0 {
							sleepUntil(time.Unix(0, dl).Add(time.Millisecond))
						}
					}
				}
			}
		case x.A == "UCheck":
			t, want = sup, "sup.work"
		case x.A == "USuspend":
			t, want = sup, "pv.suspend"
		default:
			drift = "unknown-action:" + x.A
		}
		if drift != "" {
			break
		}
		if want != "" && !atPoint(t, want) {
			p, parked := s.Pending(t)
			drift = fmt.Sprintf("%s:want=%s:at=%s:parked=%v:done=%v", x.A, want, p.Point, parked, p.Done)
			break
		}
		if _, err := s.Step(t); err != nil {
			if _, ok := err.(sched.ErrWatchdog); ok {
				r.st.Watchdog++
			}
			drift = x.A + ":step-failed:" + err.Error()
			break
		}
		r.st.Steps++
		// newly spawned worker token / supervision work
		for ntok < x.Exp.Nturn {
			n, ok := waitAdopt('t', 2*time.Second)
			if !ok {
				drift = x.A + ":no-worker-arrived"
				break
			}
			ntok++
			tokens[ntok] = n
		}
		if drift != "" {
			break
		}
		if x.A == "Exit" && x.Exp.Upc == "work" && sup == "" {
			n, ok := waitAdopt('u', 2*time.Second)
			if !ok {
				drift = "Exit:no-supervision-work"
				break
			}
			sup = n
		}
		// where the model says the stepped thread is now
		switch {
		case x.A[0] == 'M':
			if x.Exp.Mpc == "idle" {
				if p, _ := s.Pending(manager); !p.Done {
					drift = fmt.Sprintf("%s:manager-not-detached:at=%s", x.A, p.Point)
				}
				manager = ""
			} else if !atPoint(manager, managerPoint[x.Exp.Mpc]) {
				p, _ := s.Pending(manager)
				drift = fmt.Sprintf("%s:after:want=%s:at=%s:done=%v", x.A, managerPoint[x.Exp.Mpc], p.Point, p.Done)
			}
		case k > 0:
			pc := x.Exp.Tpc[k-1]
			if pc == "end" {
				if p, _ := s.Pending(t); !p.Done {
					drift = fmt.Sprintf("%s:worker-not-done:at=%s", x.A, p.Point)
				}
			} else if !atPoint(t, workerPoint[pc]) {
				p, _ := s.Pending(t)
				drift = fmt.Sprintf("%s:after:want=%s:at=%s:done=%v", x.A, workerPoint[pc], p.Point, p.Done)
			}
		case x.A == "UCheck":
			if x.Exp.Upc == "suspend" && !atPoint(sup, "pv.suspend") {
				drift = "UCheck:after:not-at-pv.suspend"
			}
		}
		project(x.A, k)
		if drift != "" {
			break
		}
		_ = si
	}
	if drift != "" {
		r.st.Drift++
		if r.st.DriftAt == nil {
			r.st.DriftAt = map[string]int{}
		}
		key := drift
		if i := strings.Index(key, ":step-failed:"); i > 0 {
			key = key[:i+12]
		}
		r.st.DriftAt[key]++
		if os.Getenv("VERIF_DEBUG") != "" {
			fmt.Fprintf(os.Stderr, "behaviour %d (id %d): %s\n", bi, b.ID, drift)
		}
		r.conf.Raw(map[string]any{"a": "Drift", "k": 0, "p": map[string]any{"why": drift}})
	}
	// finish suspend() and Reinstate one after the other: the model (and the gates) treat them as atomic steps, and
	// their unsynchronised overlap can leave the actor "paused" with an armed manager entry, on which the manager spins
	for _, t := range []string{sup, "r"} {
		for i := 0; t != "" && i < 4; i++ {
			if p, parked := s.Pending(t); !parked || p.Done {
				break
			}
			if _, err := s.Step(t); err != nil {
				break
			}
		}
	}
	s.FreeRun()
	s.Join(5 * time.Second)
	h.settle(3 * time.Second)
	running := 0
	if pid.IsRunning() {
		running = 1
	}
	h.add("End", 0, time.Now(), running, int(h.ps.Load()), "")
	h.s.Store(nil)
	s.Close()
	if running == 1 {
		_ = pid.Shutdown(ctx)
	}
	h.flush(r.ev)
	r.st.Behaviours++
}

// ---------------------------------------------------------------- stress (free-running)

func stress(sys actor.ActorSystem, parent *actor.PID, nactors, tms, slack int, seed int64, w *vtrace.Writer, mode int, st *stats) {
	ctx := context.Background()
	rng := rand.New(rand.NewSource(seed))
	T := time.Duration(tms) * time.Millisecond
	s := sched.New()
	s.FreeRun()
	type rec struct {
		h   *history
		pid *actor.PID
	}
	var mu sync.Mutex
	byObj := map[any]*rec{}
	s.Obs = func(thread, point string, obj any, a, b int64) {
		mu.Lock()
		r := byObj[obj]
		mu.Unlock()
		if r != nil {
			observe(r.h, r.pid)(thread, point, obj, a, b)
		}
	}
	var wg sync.WaitGroup
	recs := make([]*rec, nactors)
	for i := 0; i < nactors; i++ {
		strategy, n := "time", 0
		switch {
		case mode == 1 && i%3 == 1:
			strategy, n = "count", 1+rng.Intn(3)
		case mode == 1 && i%7 == 2:
			strategy = "long"
		}
		h := &history{epoch: time.Now()}
		h.add("New", n, h.epoch, tms, slack, strategy)
		pid, err := parent.SpawnChild(ctx, "s"+strconv.Itoa(i), &testActor{h: h}, actor.WithPassivationStrategy(strategyOf(strategy, tms, n)),
			actor.WithSupervisor(suspendingSupervisor()))
		if err != nil {
			fatal("spawn", err)
		}
		r := &rec{h: h, pid: pid}
		recs[i] = r
		mu.Lock()
		byObj[any(pid)] = r
		byObj[actor.VerifSchedStateOf(pid)] = r
		mu.Unlock()
		s.Control(pid)
		s.Control(actor.VerifSchedStateOf(pid))
		// traffic plan: messages at gaps around the timeout, optional pause/resume, optional long handler
		nmsg := 1 + rng.Intn(4)
		gaps := make([]time.Duration, nmsg)
		for j := range gaps {
			switch rng.Intn(4) {
			case 0:
				gaps[j] = time.Duration(rng.Int63n(int64(T) / 4))
			case 1:
				gaps[j] = T - time.Duration(rng.Int63n(int64(30*time.Millisecond)))
			case 2:
				gaps[j] = T/2 + time.Duration(rng.Int63n(int64(T)/2))
			default:
				gaps[j] = time.Duration(rng.Int63n(int64(100 * time.Millisecond)))
			}
		}
		pauseAt, resumeAfter := -1, time.Duration(0)
		if rng.Intn(3) == 0 {
			pauseAt = rng.Intn(nmsg)
			resumeAfter = T + time.Duration(rng.Int63n(int64(T)))
		}
		work := time.Duration(0)
		if mode == 2 && rng.Intn(2) == 0 {
			work = T/2 + time.Duration(rng.Int63n(int64(T)))
		}
		burst := mode == 2
		wg.Add(1)
		go func() {
			defer wg.Done()
			for j, g := range gaps {
				time.Sleep(g)
				if j == pauseAt {
					tellCtl := func(kind string, m any) {
						h.add("tellstart", 0, time.Now(), 0, 0, kind)
						err := actor.Tell(ctx, pid, m)
						ok := 0
						if err == nil {
							ok = 1
						}
						h.add("tell", 0, time.Now(), ok, 0, kind)
					}
					tellCtl("pause", new(actor.PausePassivation))
					// a message told after the pause: once its handler runs the pause has been processed
					h.add("tellstart", 50+j, time.Now(), 0, 0, "m")
					if err := actor.Tell(ctx, pid, &Msg{ID: 50 + j}); err == nil {
						h.add("tell", 50+j, time.Now(), 1, 0, "m")
					}
					time.Sleep(resumeAfter)
					tellCtl("resume", new(actor.ResumePassivation))
				}
				h.add("tellstart", j+1, time.Now(), 0, 0, "m")
				err := actor.Tell(ctx, pid, &Msg{ID: j + 1, Work: work})
				ok := 0
				if err == nil {
					ok = 1
				}
				h.add("tell", j+1, time.Now(), ok, 0, "m")
				if burst && ok == 1 { // a second message in the same turn (the first handler is still busy)
					_ = actor.Tell(ctx, pid, &Msg{ID: 100 + j})
				}
			}
		}()
	}
	wg.Wait()
	time.Sleep(2*T + 200*time.Millisecond)
	for _, r := range recs {
		r.h.settle(3 * time.Second)
		running := 0
		if r.pid.IsRunning() {
			running = 1
		}
		r.h.add("End", 0, time.Now(), running, int(r.h.ps.Load()), "")
		r.h.flush(w)
		if running == 1 {
			_ = r.pid.Shutdown(ctx)
		}
		st.Behaviours++
	}
	s.Close()
}

// stopSystem stops the actor system; a stop that hangs (e.g. the passivation manager never returns to its run loop)
// is reported as an infrastructure error instead of blocking the check.
func stopSystem(sys actor.ActorSystem) {
	done := make(chan struct{})
	go func() { _ = sys.Stop(context.Background()); close(done) }()
	select {
	case <-done:
	case <-time.After(30 * time.Second):
		buf := make([]byte, 1<<20)
		fmt.Fprintf(os.Stderr, "actor system did not stop within 30s\n%s\n", buf[:runtime.Stack(buf, true)])
		os.Exit(3)
	}
}

func main() {
	if len(os.Args) < 2 {
		fatal("usage: passivation replay|stress|grain ...")
	}
	ctx := context.Background()
	mk := func() (actor.ActorSystem, *actor.PID) {
		sys, err := actor.NewActorSystem("verif", actor.WithLogger(log.DiscardLogger))
		if err != nil {
			fatal(err)
		}
		if err := sys.Start(ctx); err != nil {
			fatal(err)
		}
		parent, err := sys.Spawn(ctx, "parent", parentActor{}, actor.WithLongLived())
		if err != nil {
			fatal(err)
		}
		return sys, parent
	}
	st := &stats{}
	switch os.Args[1] {
	case "replay":
		if len(os.Args) != 7 {
			fatal("usage: passivation replay <behaviours> <events> <conf> <tick_ms> <slack_ms>")
		}
		behaviours, err := vtrace.ReadLines[behaviour](os.Args[2])
		if err != nil {
			fatal(err)
		}
		ev, err := vtrace.Create(os.Args[3])
		if err != nil {
			fatal(err)
		}
		conf, err := vtrace.Create(os.Args[4])
		if err != nil {
			fatal(err)
		}
		tick, _ := strconv.Atoi(os.Args[5])
		slack, _ := strconv.Atoi(os.Args[6])
		sys, parent := mk()
		r := &replayer{sys: sys, parent: parent, ev: ev, conf: conf, tick: time.Duration(tick) * time.Millisecond, slack: slack, st: st}
		for bi, b := range behaviours {
			r.run(bi, b)
		}
		st.Events = ev.Count()
		st.ConfLines = conf.Count()
		ev.Close()
		conf.Close()
		stopSystem(sys)
	case "stress":
		if len(os.Args) != 8 {
			fatal("usage: passivation stress <actors> <timeout_ms> <slack_ms> <seed> <events> <mode>")
		}
		n, _ := strconv.Atoi(os.Args[2])
		tms, _ := strconv.Atoi(os.Args[3])
		slack, _ := strconv.Atoi(os.Args[4])
		seed, _ := strconv.ParseInt(os.Args[5], 10, 64)
		ev, err := vtrace.Create(os.Args[6])
		if err != nil {
			fatal(err)
		}
		mode, _ := strconv.Atoi(os.Args[7])
		sys, parent := mk()
		stress(sys, parent, n, tms, slack, seed, ev, mode, st)
		st.Events = ev.Count()
		ev.Close()
		stopSystem(sys)
	case "witness":
		if len(os.Args) != 4 {
			fatal("usage: passivation witness <events> <slack_ms>")
		}
		ev, err := vtrace.Create(os.Args[2])
		if err != nil {
			fatal(err)
		}
		slack, _ := strconv.Atoi(os.Args[3])
		sys, parent := mk()
		for i := 0; i < 3; i++ {
			witnessRestartStaleTrigger(parent, slack, ev, st, i)
		}
		st.Events = ev.Count()
		ev.Close()
		stopSystem(sys)
	case "grain-replay", "grain-stress":
		grainMain(os.Args[1:], st)
	default:
		fatal("unknown subcommand")
	}
	out, _ := json.Marshal(st)
	fmt.Println(string(out))
}
