package main

// Fixed witness walks for C12: schedules that the bounded Passivate.tla scenarios do not contain (Restart is not in the
// model) but that the property statement covers. They are driven gate by gate like the replays and judged by
// PassMonitor.tla like every other history.
//
//	passivation witness <events.ndjson> <slack_ms>

import (
	"context"
	"fmt"
	"os"
	"time"

	"github.com/tochemey/goakt/v4/actor"
	"github.com/tochemey/goakt/v4/verifharness/sched"
	"github.com/tochemey/goakt/v4/verifharness/vtrace"
)

// witnessRestartStaleTrigger: a message-count actor (N = 2) crosses its threshold, the manager goroutine takes the
// trigger off its channel and is held at the entry of processMessageEntry (pm.msg: "the manager is busy"); the actor is
// restarted (Shutdown -> Unregister, init, Register: a NEW entry with a new baseline) and handles ONE message; then the
// manager goes on with the entry of the old registration. It must drop it (entry identity check): a passivation now
// would come after 1 < N messages since the registration.
func witnessRestartStaleTrigger(parent *actor.PID, slack int, evw *vtrace.Writer, st *stats, idx int) {
	ctx := context.Background()
	const n = 2
	h := &history{epoch: time.Now()}
	h.add("New", n, h.epoch, 900, slack, "count")
	pid, err := parent.SpawnChild(ctx, fmt.Sprintf("w%d", idx), &testActor{h: h}, actor.WithPassivationStrategy(strategyOf("count", 0, n)),
		actor.WithSupervisor(suspendingSupervisor()))
	if err != nil {
		fatal("spawn", err)
	}
	h.pid.Store(pid)
	if !waitQuiescent(pid, 3*time.Second) {
		fatal("witness actor did not become idle after spawn")
	}
	s := sched.New()
	s.Watchdog = 5 * time.Second
	s.Control(actor.VerifSchedStateOf(pid))
	s.Control(pid)
	s.AdoptAt("ds.take.cas", "t")
	s.AdoptAt("pm.msg", "m")
	s.DetachAt("turn.end", "pm.msg.end")
	s.OnlyPoints("pm.msg.go", "pv.lock", "pv.locked", "pm.msg.relock", "stop.lock")
	s.Obs = observe(h, pid)
	h.s.Store(s)

	problem := ""
	fail := func(f string, a ...any) {
		if problem == "" {
			problem = fmt.Sprintf(f, a...)
		}
	}
	if _, err := s.Go("p", func() {
		for i := 1; i <= 3; i++ {
			s.Yield("call", 0, 0)
			h.add("tellstart", i, time.Now(), 0, 0, "m")
			err := actor.Tell(ctx, pid, &Msg{ID: i})
			ok := 0
			if err == nil {
				ok = 1
			}
			h.add("tell", i, time.Now(), ok, 0, "m")
		}
	}); err != nil {
		fatal(err)
	}
	if _, err := s.Go("r", func() {
		s.Yield("rcall", 0, 0)
		h.add("restartcall", 0, time.Now(), 0, 0, "")
		err := pid.Restart(ctx)
		ok := 0
		if err == nil {
			ok = 1
		}
		h.ps.Store(0) // the End line counts the PostStop runs of the last incarnation
		h.psDone.Store(0)
		h.add("restartret", 0, time.Now(), ok, 0, "")
	}); err != nil {
		fatal(err)
	}
	pending := map[byte][]string{}
	adopt := func(prefix byte) string {
		deadline := time.Now().Add(3 * time.Second)
		for {
			if q := pending[prefix]; len(q) > 0 {
				pending[prefix] = q[1:]
				return q[0]
			}
			left := time.Until(deadline)
			if left <= 0 {
				fail("no thread with prefix %c arrived", prefix)
				return ""
			}
			if name, ok := s.WaitAdopted(left); ok {
				pending[name[0]] = append(pending[name[0]], name)
			}
		}
	}
	step := func(t string) sched.Pending {
		if t == "" || problem != "" {
			return sched.Pending{Done: true}
		}
		p, err := s.Step(t)
		if err != nil {
			fail("step %s: %v", t, err)
		}
		st.Steps++
		return p
	}
	finish := func(t string) { // run a thread gate by gate until it is done
		for i := 0; i < 12 && problem == ""; i++ {
			if p, parked := s.Pending(t); !parked || p.Done {
				return
			}
			if p := step(t); p.Done {
				return
			}
		}
	}
	// message 1, message 2: the second one crosses the threshold, the manager takes the trigger
	step("p")
	finish(adopt('t'))
	step("p")
	t2 := adopt('t')
	step(t2) // Take: stamp + count -> trigger signalled
	manager := adopt('m')
	finish(t2)
	// restart while the manager holds the entry of the old registration
	finish("r")
	finish(adopt('t')) // the turn that delivers PostStart to the restarted actor
	// one message since the new registration
	step("p")
	finish(adopt('t'))
	// the manager goes on: unchanged goakt drops the stale entry (pm.msg.end), anything else goes on towards a decision
	finish(manager)
	if problem != "" {
		st.Drift++
		if os.Getenv("VERIF_DEBUG") != "" {
			fmt.Fprintln(os.Stderr, "witness restart-stale-trigger:", problem)
		}
	}
	s.FreeRun()
	s.Join(5 * time.Second)
	h.settle(3 * time.Second)
	running := 0
	if pid.IsRunning() {
		running = 1
	}
	h.add("End", 0, time.Now(), running, int(h.ps.Load()), "")
	h.s.Store(nil)
	s.Close()
	if running == 1 {
		_ = pid.Shutdown(ctx)
	}
	h.flush(evw)
	st.Behaviours++
}
