package main

// C31: replay of specs/Grain/Lifecycle.tla walks on a REAL actor system with an instrumented grain,
// and free-running grains with sends / PoisonPills timed around the passivation deadline.
//
//	passivation grain-replay <behaviours.ndjson> <events.ndjson> <conf.ndjson> <deactivate_after_ms>
//	passivation grain-stress <grains> <deactivate_after_ms> <seed> <events.ndjson>

import (
	"context"
	"fmt"
	"math/rand"
	"os"
	"strconv"
	"sync"
	"sync/atomic"
	"time"

	"github.com/tochemey/goakt/v4/actor"
	"github.com/tochemey/goakt/v4/log"
	"github.com/tochemey/goakt/v4/verifharness/sched"
	"github.com/tochemey/goakt/v4/verifharness/vtrace"
)

type gMsg struct {
	ID   int
	Work time.Duration
}

// gevent is one line of the grain monitor trace (all fields always present).
type gevent struct {
	Ev   string `json:"ev"`
	ID   int    `json:"id"`   // message id
	Inst int    `json:"inst"` // grain instance (a fresh Go object per process)
	G    int    `json:"g"`    // goroutine
	A    int    `json:"a"`
	S    string `json:"s"`
}

type ghist struct {
	mu     sync.Mutex
	events []gevent
	s      atomic.Pointer[sched.Sched]
	ninst  atomic.Int32
}

func (h *ghist) add(ev string, id, inst, a int, s string) {
	g := int(sched.Gid() % 1000000)
	h.mu.Lock()
	h.events = append(h.events, gevent{Ev: ev, ID: id, Inst: inst, G: g, A: a, S: s})
	h.mu.Unlock()
}

func (h *ghist) flush(w *vtrace.Writer) {
	h.mu.Lock()
	for _, e := range h.events {
		w.Raw(e)
	}
	h.events = nil
	h.mu.Unlock()
}

func (h *ghist) yield(point string, id int) {
	if s := h.s.Load(); s != nil {
		s.Yield(point, int64(id), 0)
	}
}

// the grain runtime creates later instances by reflection (zero values): the history is found by identity name
var ghists sync.Map

// TestGrain is the instrumented grain: every callback is a pair of gates and a pair of events.
type TestGrain struct {
	h    *ghist
	inst int
}

func (g *TestGrain) OnActivate(_ context.Context, props *actor.GrainProps) error {
	v, ok := ghists.Load(props.Identity().Name())
	if !ok {
		return fmt.Errorf("no history for grain %s", props.Identity().Name())
	}
	g.h = v.(*ghist)
	again := 0
	if g.inst == 0 {
		g.inst = int(g.h.ninst.Add(1))
	} else {
		again = 1 // the same Go object is activated a second time
	}
	g.h.yield("a.enter", g.inst)
	g.h.add("actenter", 0, g.inst, again, "")
	g.h.yield("a.exit", g.inst)
	g.h.add("actexit", 0, g.inst, 0, "")
	return nil
}

func (g *TestGrain) OnReceive(ctx *actor.GrainContext) {
	m, ok := ctx.Message().(*gMsg)
	if !ok {
		ctx.Unhandled()
		return
	}
	g.h.yield("r.enter", m.ID)
	g.h.add("renter", m.ID, g.inst, 0, "")
	if m.Work > 0 {
		time.Sleep(m.Work)
	}
	g.h.yield("r.exit", m.ID)
	g.h.add("rexit", m.ID, g.inst, 0, "")
	ctx.NoErr()
}

func (g *TestGrain) OnDeactivate(context.Context, *actor.GrainProps) error {
	if g.h == nil {
		return nil
	}
	g.h.yield("d.enter", g.inst)
	g.h.add("deenter", 0, g.inst, 0, "")
	g.h.yield("d.exit", g.inst)
	g.h.add("deexit", 0, g.inst, 0, "")
	return nil
}

// observeGrain records on which goroutine passivationTry runs (witness of an off-turn deactivation)
func observeGrain(h *ghist) sched.Observer {
	return func(thread, point string, obj any, a, b int64) {
		switch point {
		case "gp.enter":
			h.add("ptry", 0, 0, 0, "")
		case "gp.end":
			h.add("ptryend", 0, 0, 0, "")
		}
	}
}

// ---------------------------------------------------------------- replay

type gexp struct {
	Spc   map[string]string `json:"spc"`
	Tpc   []string          `json:"tpc"`
	Mpc   string            `json:"mpc"`
	Zpc   string            `json:"zpc"`
	Nturn int               `json:"nturn"`
}

type gstep struct {
	A    string `json:"a"`
	Args []any  `json:"args"`
	Exp  gexp   `json:"exp"`
}

type gbehaviour struct {
	Steps      []gstep             `json:"steps"`
	Plan       map[string][]string `json:"plan"`
	Rank       map[string]int      `json:"rank"`
	Passivates int                 `json:"passivates"`
	Shutdowns  int                 `json:"shutdowns"`
	ID         int                 `json:"id"`
}

func newSystem() actor.ActorSystem {
	sys, err := actor.NewActorSystem("verif", actor.WithLogger(log.DiscardLogger))
	if err != nil {
		fatal(err)
	}
	if err := sys.Start(context.Background()); err != nil {
		fatal(err)
	}
	return sys
}

const tellTimeout = 400 * time.Millisecond

func tellGrain(sys actor.ActorSystem, id *actor.GrainIdentity, m any) error {
	ctx, cancel := context.WithTimeout(context.Background(), tellTimeout)
	defer cancel()
	return sys.TellGrain(ctx, id, m)
}

func grainReplayOne(bi int, b gbehaviour, after time.Duration, evw, confw *vtrace.Writer, st *stats) {
	ctx := context.Background()
	doneCh := make(chan struct{})
	defer close(doneCh)
	go func() {
		select {
		case <-doneCh:
		case <-time.After(90 * time.Second):
			fmt.Fprintf(os.Stderr, "grain behaviour %d did not finish within 90s\n", bi)
			os.Exit(3)
		}
	}()
	sys := newSystem()
	name := "g" + strconv.Itoa(b.ID) + "x" + strconv.Itoa(bi)
	h := &ghist{}
	ghists.Store(name, h)
	defer ghists.Delete(name)
	h.add("New", 0, 0, 0, "")
	da := 10 * time.Minute // never fires within a walk
	if b.Passivates > 0 {
		da = after
	}
	// the first activation: process 1 of the model's initial state (not gated: no scheduler installed yet)
	identity, err := sys.GrainIdentity(ctx, name, func(context.Context) (actor.Grain, error) { return &TestGrain{}, nil },
		actor.WithGrainDeactivateAfter(da))
	if err != nil {
		fatal("GrainIdentity", err)
	}
	activatedAt := time.Now()
	s := sched.New()
	s.Watchdog = 8 * time.Second
	s.Control(identity)
	s.AdoptAt("gt.take", "t")
	s.AdoptAt("gp.enter", "m")
	s.DetachAt("gt.end", "gp.end")
	s.OnlyPoints("gr.receive", "gr.done")
	s.Obs = observeGrain(h)
	h.s.Store(s)

	project := func(a string, arg any) {
		reg, active := actor.VerifGrainActive(sys, identity)
		confw.Raw(map[string]any{"a": a, "arg": arg, "p": map[string]any{"reg": reg, "active": active,
			"mblen": actor.VerifGrainMailboxLen(sys, identity), "sch": actor.VerifGrainSchedValue(sys, identity)}})
	}
	plan := map[string][]string{"s1": {}, "s2": {}}
	for sn, kinds := range b.Plan {
		plan[sn] = kinds
	}
	confw.Raw(map[string]any{"a": "New", "arg": "", "p": map[string]any{"plan": plan, "passivates": b.Passivates, "shutdowns": b.Shutdowns}})

	for sn, kinds := range b.Plan {
		sn, kinds := sn, kinds
		rank := b.Rank[sn]
		if _, err := s.Go(sn, func() {
			for i, kind := range kinds {
				s.Yield("call", 0, 0)
				id := rank*10 + i + 1
				h.add("callstart", id, 0, 0, kind)
				var m any = &gMsg{ID: id}
				if kind == "pill" {
					m = new(actor.PoisonPill)
				}
				err := tellGrain(sys, identity, m)
				ok := 0
				if err == nil {
					ok = 1
				}
				h.add("tellret", id, 0, ok, kind)
			}
		}); err != nil {
			fatal(err)
		}
	}
	if b.Shutdowns > 0 {
		if _, err := s.Go("z", func() {
			s.Yield("zcall", 0, 0)
			h.add("stopcall", 0, 0, 0, "")
			sctx, cancel := context.WithTimeout(ctx, 5*time.Second)
			err := sys.Stop(sctx)
			cancel()
			ok := 0
			if err == nil {
				ok = 1
			}
			h.add("stopret", 0, 0, ok, "")
		}); err != nil {
			fatal(err)
		}
	}

	pendingAdopt := map[byte][]string{}
	waitAdopt := func(prefix byte, d time.Duration) (string, bool) {
		deadline := time.Now().Add(d)
		for {
			if q := pendingAdopt[prefix]; len(q) > 0 {
				pendingAdopt[prefix] = q[1:]
				return q[0], true
			}
			left := time.Until(deadline)
			if left <= 0 {
				return "", false
			}
			n, ok := s.WaitAdopted(left)
			if !ok {
				return "", false
			}
			pendingAdopt[n[0]] = append(pendingAdopt[n[0]], n)
		}
	}
	tokens := map[int]string{}
	ntok := 0
	manager := ""
	drift := ""
	released := map[string]bool{}
	atPoint := func(thread, want string) bool {
		p, parked := s.Pending(thread)
		return parked && !p.Done && p.Point == want
	}
	// collect a thread that was released into a blocking call and should by now be parked at `want` ("" = finished)
	collect := func(thread, want string, d time.Duration) bool {
		if released[thread] {
			p, ok := s.TryAwait(thread, d)
			if !ok {
				return false
			}
			delete(released, thread)
			if want == "" {
				return p.Done
			}
			return !p.Done && p.Point == want
		}
		if want == "" {
			p, parked := s.Pending(thread)
			return parked && p.Done
		}
		return atPoint(thread, want)
	}
	senderPoint := func(pc string) string {
		return map[string]string{"idle": "call", "actenter": "a.enter", "actexit": "a.exit", "recv": "gr.receive", "wait": "gr.done", "done": ""}[pc]
	}
	workerPoint := map[string]string{"take": "gt.take", "renter": "r.enter", "rexit": "r.exit", "deenter": "d.enter", "deexit": "d.exit"}

	for _, x := range b.Steps {
		var t string
		k := 0
		var arg any = ""
		block := false // the step ends inside a blocking call, not at a gate
		switch x.A {
		case "SCall", "SActEnter", "SActExit", "SRecv", "SRet":
			t = x.Args[0].(string)
			arg = t
			pc := x.Exp.Spc[t]
			block = pc == "sfwait" // blocked inside the single flight of another sender's activation
		case "GTake", "GEnter", "GExit", "GDeEnter", "GDeExit":
			k = int(x.Args[0].(float64))
			arg = k
			t = tokens[k]
			if t == "" {
				drift = x.A + ":no-token"
			}
		case "PFire":
			n, ok := waitAdopt('m', time.Until(activatedAt.Add(after))+after+3*time.Second)
			if !ok {
				drift = "PFire:manager-did-not-arrive"
				break
			}
			manager = n
			st.Steps++
			project(x.A, arg)
			continue
		case "PTry", "PDeEnter", "PDeExit":
			t = manager
			if t == "" {
				drift = x.A + ":no-manager"
			}
		case "ZCall", "ZRecv", "ZRet":
			t = "z"
		default:
			drift = "unknown-action:" + x.A
		}
		if drift != "" {
			break
		}
		if p, parked := s.Pending(t); !parked || p.Done {
			drift = fmt.Sprintf("%s:thread-%s-not-parked:done=%v", x.A, t, p.Done)
			break
		}
		if block {
			if err := s.Release(t); err != nil {
				drift = x.A + ":release-failed"
				break
			}
			released[t] = true
			time.Sleep(300 * time.Microsecond) // let it reach its blocking point
		} else if _, err := s.Step(t); err != nil {
			if _, ok := err.(sched.ErrWatchdog); ok {
				st.Watchdog++
			}
			drift = x.A + ":step-failed:" + err.Error()
			break
		}
		st.Steps++
		for ntok < x.Exp.Nturn {
			n, ok := waitAdopt('t', 2*time.Second)
			if !ok {
				drift = x.A + ":no-worker-arrived"
				break
			}
			ntok++
			tokens[ntok] = n
		}
		if drift != "" {
			break
		}
		// where the model says the threads are now
		switch {
		case x.A[0] == 'S' && !block:
			if !atPoint(t, senderPoint(x.Exp.Spc[t])) && !(senderPoint(x.Exp.Spc[t]) == "" && collect(t, "", 0)) {
				p, _ := s.Pending(t)
				drift = fmt.Sprintf("%s:after:want=%s:at=%s:done=%v", x.A, senderPoint(x.Exp.Spc[t]), p.Point, p.Done)
			}
			if x.A == "SActExit" { // the callers that waited on the single flight now reach gr.receive as well
				for o, pc := range x.Exp.Spc {
					if o != t && released[o] && pc == "recv" {
						if !collect(o, "gr.receive", 2*time.Second) {
							drift = "SActExit:single-flight-follower-not-at-gr.receive"
						}
					}
				}
			}
		case k > 0:
			pc := x.Exp.Tpc[k-1]
			if pc == "end" {
				if p, _ := s.Pending(t); !p.Done {
					drift = fmt.Sprintf("%s:worker-not-done:at=%s", x.A, p.Point)
				}
			} else if !atPoint(t, workerPoint[pc]) {
				p, _ := s.Pending(t)
				drift = fmt.Sprintf("%s:after:want=%s:at=%s:done=%v", x.A, workerPoint[pc], p.Point, p.Done)
			}
		case x.A[0] == 'P':
			want := map[string]string{"deenter": "d.enter", "deexit": "d.exit"}[x.Exp.Mpc]
			if x.Exp.Mpc == "idle" {
				if p, _ := s.Pending(manager); !p.Done {
					drift = fmt.Sprintf("%s:manager-not-detached:at=%s", x.A, p.Point)
				}
				manager = ""
			} else if !atPoint(manager, want) {
				p, _ := s.Pending(manager)
				drift = fmt.Sprintf("%s:after:want=%s:at=%s:done=%v", x.A, want, p.Point, p.Done)
			}
		case x.A[0] == 'Z':
			want := map[string]string{"recv": "gr.receive", "wait": "gr.done", "done": ""}[x.Exp.Zpc]
			if !collect("z", want, 0) {
				p, _ := s.Pending("z")
				drift = fmt.Sprintf("%s:after:want=%s:at=%s:done=%v", x.A, want, p.Point, p.Done)
			}
		}
		project(x.A, arg)
		if drift != "" {
			break
		}
	}
	if drift != "" {
		st.Drift++
		if st.DriftAt == nil {
			st.DriftAt = map[string]int{}
		}
		st.DriftAt[drift]++
		if os.Getenv("VERIF_DEBUG") != "" {
			fmt.Fprintf(os.Stderr, "grain behaviour %d (id %d): %s\n", bi, b.ID, drift)
		}
		confw.Raw(map[string]any{"a": "Drift", "arg": "", "p": map[string]any{"why": drift}})
	}
	s.FreeRun()
	s.Join(tellTimeout + 6*time.Second)
	time.Sleep(2 * time.Millisecond)
	h.s.Store(nil)
	stopSystem(sys) // the final system stop deactivates whatever is still active: part of the history
	s.Close()
	h.add("End", 0, 0, 0, "")
	h.flush(evw)
	st.Behaviours++
}

// ---------------------------------------------------------------- stress (free-running)

func grainStress(ngrains int, after time.Duration, seed int64, w *vtrace.Writer, st *stats) {
	ctx := context.Background()
	rng := rand.New(rand.NewSource(seed))
	sys := newSystem()
	s := sched.New()
	s.FreeRun()
	var omu sync.Mutex
	byID := map[any]*ghist{}
	s.Obs = func(thread, point string, obj any, a, b int64) {
		omu.Lock()
		h := byID[obj]
		omu.Unlock()
		if h != nil {
			observeGrain(h)(thread, point, obj, a, b)
		}
	}
	defer s.Close()
	var wg sync.WaitGroup
	hs := make([]*ghist, ngrains)
	for i := 0; i < ngrains; i++ {
		name := "sg" + strconv.Itoa(i)
		h := &ghist{}
		hs[i] = h
		ghists.Store(name, h)
		h.add("New", 0, 0, 0, "")
		identity, err := sys.GrainIdentity(ctx, name, func(context.Context) (actor.Grain, error) { return &TestGrain{}, nil },
			actor.WithGrainDeactivateAfter(after))
		if err != nil {
			fatal("GrainIdentity", err)
		}
		omu.Lock()
		byID[any(identity)] = h
		omu.Unlock()
		s.Control(identity)
		nsend := 2 + rng.Intn(2)
		for sidx := 1; sidx <= nsend; sidx++ {
			sidx := sidx
			nmsg := 1 + rng.Intn(3)
			gaps := make([]time.Duration, nmsg)
			works := make([]time.Duration, nmsg)
			pills := make([]bool, nmsg)
			for j := range gaps {
				switch rng.Intn(3) {
				case 0:
					gaps[j] = after - time.Duration(rng.Int63n(int64(20*time.Millisecond)))
				case 1:
					gaps[j] = time.Duration(rng.Int63n(int64(after)))
				default:
					gaps[j] = after + time.Duration(rng.Int63n(int64(20*time.Millisecond)))
				}
				if rng.Intn(3) == 0 {
					works[j] = after/2 + time.Duration(rng.Int63n(int64(after)))
				}
				pills[j] = rng.Intn(6) == 0
			}
			wg.Add(1)
			go func() {
				defer wg.Done()
				for j := range gaps {
					time.Sleep(gaps[j])
					id := sidx*10 + j + 1
					kind := "m"
					var m any = &gMsg{ID: id, Work: works[j]}
					if pills[j] {
						kind, m = "pill", new(actor.PoisonPill)
					}
					h.add("callstart", id, 0, 0, kind)
					c, cancel := context.WithTimeout(ctx, 3*after+2*time.Second)
					err := sys.TellGrain(c, identity, m)
					cancel()
					ok := 0
					if err == nil {
						ok = 1
					}
					h.add("tellret", id, 0, ok, kind)
				}
			}()
		}
	}
	wg.Wait()
	time.Sleep(2*after + 100*time.Millisecond)
	stopSystem(sys)
	for _, h := range hs {
		h.add("End", 0, 0, 0, "")
		h.flush(w)
		st.Behaviours++
	}
}

func grainMain(args []string, st *stats) {
	switch args[0] {
	case "grain-replay":
		if len(args) != 5 {
			fatal("usage: passivation grain-replay <behaviours> <events> <conf> <deactivate_after_ms>")
		}
		behaviours, err := vtrace.ReadLines[gbehaviour](args[1])
		if err != nil {
			fatal(err)
		}
		ev, err := vtrace.Create(args[2])
		if err != nil {
			fatal(err)
		}
		conf, err := vtrace.Create(args[3])
		if err != nil {
			fatal(err)
		}
		ms, _ := strconv.Atoi(args[4])
		for bi, b := range behaviours {
			grainReplayOne(bi, b, time.Duration(ms)*time.Millisecond, ev, conf, st)
		}
		st.Events = ev.Count()
		st.ConfLines = conf.Count()
		ev.Close()
		conf.Close()
	case "grain-stress":
		if len(args) != 5 {
			fatal("usage: passivation grain-stress <grains> <deactivate_after_ms> <seed> <events>")
		}
		n, _ := strconv.Atoi(args[1])
		ms, _ := strconv.Atoi(args[2])
		seed, _ := strconv.ParseInt(args[3], 10, 64)
		ev, err := vtrace.Create(args[4])
		if err != nil {
			fatal(err)
		}
		grainStress(n, time.Duration(ms)*time.Millisecond, seed, ev, st)
		st.Events = ev.Count()
		ev.Close()
	}
}
