package main

import (
	"context"
	"encoding/json"
	"errors"
	"fmt"
	"math/rand"
	"regexp"
	"sort"
	"strconv"
	"sync"
	"time"

	"github.com/flowchartsman/retry"

	"github.com/tochemey/goakt/v4/actor"
	"github.com/tochemey/goakt/v4/internal/chunk"
	"github.com/tochemey/goakt/v4/internal/cluster"
	"github.com/tochemey/goakt/v4/internal/internalpb"
	"github.com/tochemey/goakt/v4/internal/remoteclient"
	"github.com/tochemey/goakt/v4/internal/verifhook"
	"github.com/tochemey/goakt/v4/verifharness/vtrace"
)

// ---- case format (shared with specs/RelocMember/PlanCases.tla) ----------------

type jActor struct {
	ID     int    `json:"id"`
	Role   string `json:"role"`
	Single bool   `json:"single"`
	Reloc  bool   `json:"reloc"` // Derive only
	Sys    bool   `json:"sys"`   // Derive only
}

type jGrain struct {
	ID    int  `json:"id"`
	Dis   bool `json:"dis"`
	Eager bool `json:"eager"`
	Sys   bool `json:"sys"` // Derive only
}

type jReq struct {
	Actors []jActor `json:"actors"`
	Grains []int    `json:"grains"`
}

type planCase struct {
	Op     string     `json:"op"`
	LR     []string   `json:"lr"`
	Peers  [][]string `json:"peers"`
	Loads  []int      `json:"loads"`
	Actors []jActor   `json:"actors"`
	NP     int        `json:"np"`
	Grains []jGrain   `json:"grains"`
	Surv   [][]string `json:"surv"`
	Reqs   []jReq     `json:"reqs"`
	Target int        `json:"target"`
	Okb    int        `json:"okb"`
	Down   []int      `json:"down"`
	Items  []int      `json:"items"`
	Size   int        `json:"size"`
}

const departed = "10.0.0.9:9000"

func wireActor(a jActor) *internalpb.Actor {
	w := &internalpb.Actor{Address: fmt.Sprintf("goakt://sys@%s/a%d", departed, a.ID), Type: "T", Relocatable: true}
	if a.Role != "" {
		r := a.Role
		w.Role = &r
	}
	if a.Single {
		w.Singleton = &internalpb.SingletonSpec{}
	}
	return w
}

func actorID(w *internalpb.Actor) int { return idOfAddress(w.GetAddress()) }

var (
	reActorID = regexp.MustCompile(`a(\d+)$`)
	reGrainID = regexp.MustCompile(`g(\d+)$`)
)

func idOfAddress(addr string) int {
	m := reActorID.FindStringSubmatch(addr)
	if m == nil {
		return -1
	}
	n, _ := strconv.Atoi(m[1])
	return n
}

func wireGrain(id int, dis, eager bool) *internalpb.Grain {
	return &internalpb.Grain{GrainId: &internalpb.GrainId{Kind: "K", Name: fmt.Sprintf("g%d", id), Value: fmt.Sprintf("K/g%d", id)},
		Host: "10.0.0.9", Port: 9000, DisableRelocation: dis, EagerRelocation: eager}
}

func grainIDOfValue(v string) int {
	m := reGrainID.FindStringSubmatch(v)
	if m == nil {
		return -1
	}
	n, _ := strconv.Atoi(m[1])
	return n
}

func grainID(g *internalpb.Grain) int { return grainIDOfValue(g.GetGrainId().GetValue()) }

func mkPeers(roles [][]string) []*cluster.Peer {
	peers := make([]*cluster.Peer, len(roles))
	for i, r := range roles {
		peers[i] = &cluster.Peer{Host: "10.0.0.1", PeersPort: 7000 + i + 1, RemotingPort: 9000 + i + 1, Roles: r}
	}
	return peers
}

func actorIDs(l []*internalpb.Actor) []int {
	out := make([]int, 0, len(l))
	for _, a := range l {
		out = append(out, actorID(a))
	}
	return out
}

func grainIDs(l []*internalpb.Grain) []int {
	out := make([]int, 0, len(l))
	for _, g := range l {
		out = append(out, grainID(g))
	}
	return out
}

// ---- hook recorder: order of placements inside allocateActors -------------------

type assignRecorder struct {
	mu    sync.Mutex
	obj   any
	order []int
}

func (r *assignRecorder) At(point string, obj any, a, _ int64) {
	if point != "reloc.assign" {
		return
	}
	r.mu.Lock()
	if obj == r.obj {
		r.order = append(r.order, int(a))
	}
	r.mu.Unlock()
}

func (r *assignRecorder) Fault(string, any, int64) int { return 0 }

// ---- stub remoting client for relocateShare -------------------------------------

type shareStub struct {
	remoteclient.Client // nil: any other method would panic, relocateShare uses RelocateBatch only
	mu                  sync.Mutex
	target              int
	okb                 int
	down                map[int]bool
	accepted            int
	recvA               [][]int
	recvG               [][]int
	calls               int
}

var errUnreachable = errors.New("verif: peer unreachable")

func (s *shareStub) RelocateBatch(_ context.Context, _ string, port int, req *internalpb.RelocateBatchRequest) (*internalpb.RelocateBatchResponse, error) {
	s.mu.Lock()
	defer s.mu.Unlock()
	s.calls++
	p := port - 9000 // 1-based peer index
	if p < 1 || p > len(s.recvA) {
		return nil, retry.Stop(fmt.Errorf("verif: unknown peer port %d", port))
	}
	if p == s.target {
		if s.accepted >= s.okb {
			return nil, retry.Stop(errUnreachable) // terminal: skip the retrier's real-time backoff
		}
		s.accepted++
	} else if s.down[p] {
		return nil, retry.Stop(errUnreachable)
	}
	s.recvA[p-1] = append(s.recvA[p-1], actorIDs(req.GetActors())...)
	s.recvG[p-1] = append(s.recvG[p-1], grainIDs(req.GetGrains())...)
	return &internalpb.RelocateBatchResponse{}, nil
}

// ---- stub registry for deriveRelocationSetFromRegistry --------------------------------

type registryStub struct {
	cluster.Cluster // nil: the derivation only scans ActorsByHost / GrainsByHost
	actors          []*internalpb.Actor
	grains          []*internalpb.Grain
}

func (r *registryStub) ActorsByHost(context.Context, string, int, time.Duration) ([]*internalpb.Actor, error) {
	return r.actors, nil
}

func (r *registryStub) GrainsByHost(context.Context, string, int, time.Duration) ([]*internalpb.Grain, error) {
	return r.grains, nil
}

// ---- running one case on the real planner -----------------------------------------

func nz[T any](s []T) []T {
	if s == nil {
		return []T{}
	}
	return s
}

func runCase(c *planCase, rec *assignRecorder) (map[string]any, error) {
	switch c.Op {
	case "Actors":
		state := &internalpb.PeerState{Host: "10.0.0.9", PeersPort: 7000, RemotingPort: 9000, Actors: map[string]*internalpb.Actor{}}
		for _, a := range c.Actors {
			state.Actors[fmt.Sprintf("a%d", a.ID)] = wireActor(a)
		}
		var loads []int
		if len(c.Loads) > 0 {
			loads = c.Loads
		}
		rec.mu.Lock()
		rec.obj, rec.order = state, nil
		rec.mu.Unlock()
		leader, shares, unpl := actor.VerifAllocateActors(c.LR, mkPeers(c.Peers), state, loads)
		rec.mu.Lock()
		order := append([]int{}, rec.order...)
		rec.obj = nil
		rec.mu.Unlock()
		sh := make([][]int, len(shares))
		for i := range shares {
			sh[i] = actorIDs(shares[i])
		}
		return map[string]any{"leader": actorIDs(leader), "shares": sh, "unpl": actorIDs(unpl), "order": order}, nil
	case "Grains":
		gm := map[string]*internalpb.Grain{}
		for _, g := range c.Grains {
			w := wireGrain(g.ID, g.Dis, g.Eager)
			gm[w.GetGrainId().GetValue()] = w
		}
		rel := actor.VerifRelocatableGrains(gm)
		leader, shares := actor.VerifAllocateGrains(c.NP, rel)
		sh := make([][]int, len(shares))
		for i := range shares {
			sh[i] = grainIDs(shares[i])
		}
		return map[string]any{"reloc": grainIDs(rel), "leader": grainIDs(leader), "shares": sh}, nil
	case "Reassign":
		reqs := make([]*internalpb.RelocateBatchRequest, 0, len(c.Reqs))
		for _, r := range c.Reqs {
			q := &internalpb.RelocateBatchRequest{DepartedNode: departed}
			for _, a := range r.Actors {
				q.Actors = append(q.Actors, wireActor(a))
			}
			for _, g := range r.Grains {
				q.Grains = append(q.Grains, wireGrain(g, false, false))
			}
			reqs = append(reqs, q)
		}
		shares, leader, grains, failed := actor.VerifReassignByRole(reqs, mkPeers(c.Surv), c.LR)
		sh := make([][]int, len(shares))
		for i := range shares {
			sh[i] = actorIDs(shares[i])
		}
		fl := []int{}
		for _, f := range failed {
			if f.GetGrain() {
				return nil, fmt.Errorf("reassignByRole recorded a grain failure")
			}
			fl = append(fl, idOfAddress(f.GetId()))
		}
		return map[string]any{"shares": sh, "leader": actorIDs(leader), "grains": grainIDs(grains), "failed": fl}, nil
	case "Share":
		var wa []*internalpb.Actor
		for _, a := range c.Actors {
			wa = append(wa, wireActor(a))
		}
		var wg []*internalpb.Grain
		for _, g := range c.Grains {
			wg = append(wg, wireGrain(g.ID, false, g.Eager))
		}
		reqs := actor.VerifBuildRelocateBatchRequests(departed, wa, wg)
		peers := mkPeers(c.Peers)
		stub := &shareStub{target: c.Target, okb: c.Okb, down: map[int]bool{}, recvA: make([][]int, len(peers)), recvG: make([][]int, len(peers))}
		for _, d := range c.Down {
			stub.down[d] = true
		}
		failed := actor.VerifRelocateShare(stub, reqs, peers[c.Target-1], peers)
		recv := make([]map[string]any, len(peers))
		for i := range peers {
			recv[i] = map[string]any{"a": nz(stub.recvA[i]), "g": nz(stub.recvG[i])}
		}
		fa, fg := []int{}, []int{}
		for _, f := range failed {
			if f.GetGrain() {
				fg = append(fg, grainIDOfValue(f.GetId()))
			} else {
				fa = append(fa, idOfAddress(f.GetId()))
			}
		}
		return map[string]any{"recv": recv, "fa": fa, "fg": fg, "nreq": len(reqs)}, nil
	case "Derive":
		reg := &registryStub{}
		for _, a := range c.Actors {
			name := fmt.Sprintf("w-a%d", a.ID)
			if a.Sys {
				name = fmt.Sprintf("GoAktSys-a%d", a.ID)
			}
			reg.actors = append(reg.actors, &internalpb.Actor{Address: fmt.Sprintf("goakt://sys@%s/%s", departed, name), Type: "T", Relocatable: a.Reloc})
		}
		for _, g := range c.Grains {
			name := fmt.Sprintf("w-g%d", g.ID)
			if g.Sys {
				name = fmt.Sprintf("GoAktSys-g%d", g.ID)
			}
			reg.grains = append(reg.grains, &internalpb.Grain{GrainId: &internalpb.GrainId{Kind: "K", Name: name, Value: "K/" + name},
				Host: "10.0.0.9", Port: 9000, DisableRelocation: g.Dis})
		}
		state, ok := actor.VerifDeriveRelocationSet(reg, "10.0.0.9:7000", 9000)
		as, gs := []int{}, []int{}
		for _, a := range state.GetActors() {
			as = append(as, actorID(a))
		}
		for _, g := range state.GetGrains() {
			gs = append(gs, grainID(g))
		}
		sort.Ints(as)
		sort.Ints(gs)
		return map[string]any{"ok": ok, "actors": as, "grains": gs}, nil
	case "Chunk":
		chunks := chunk.Chunkify(c.Items, c.Size)
		out := make([][]int, len(chunks))
		for i := range chunks {
			out[i] = nz(chunks[i])
		}
		return map[string]any{"chunks": out}, nil
	case "Batch":
		// buildRelocateBatchRequests with the real batch size: the concatenation of the
		// batches must be the share (checked as a Chunk case with size = batch size)
		var wa []*internalpb.Actor
		for _, id := range c.Items {
			wa = append(wa, wireActor(jActor{ID: id}))
		}
		reqs := actor.VerifBuildRelocateBatchRequests(departed, wa, nil)
		out := make([][]int, len(reqs))
		for i, r := range reqs {
			out[i] = actorIDs(r.GetActors())
		}
		return map[string]any{"chunks": out}, nil
	}
	return nil, fmt.Errorf("unknown op %q", c.Op)
}

func runPlan(casesPath, tracePath string) {
	raws, err := vtrace.ReadLines[json.RawMessage](casesPath)
	if err != nil {
		fatal(err)
	}
	w, err := vtrace.Create(tracePath)
	if err != nil {
		fatal(err)
	}
	rec := &assignRecorder{}
	verifhook.Install(rec)
	defer verifhook.Uninstall()
	counts := map[string]int{}
	for _, raw := range raws {
		var c planCase
		if err := json.Unmarshal(raw, &c); err != nil {
			fatal(err)
		}
		out, err := runCase(&c, rec)
		if err != nil {
			fatal(err)
		}
		op := c.Op
		in := raw
		if op == "Batch" { // judged as a Chunk case with the real batch size
			op = "Chunk"
			in, _ = json.Marshal(map[string]any{"op": "Chunk", "items": c.Items, "size": actor.VerifRelocationBatchSize})
		}
		counts[c.Op]++
		w.Raw(map[string]any{"op": op, "in": in, "out": out})
	}
	n := w.Count()
	if err := w.Close(); err != nil {
		fatal(err)
	}
	b, _ := json.Marshal(map[string]any{"cases": len(raws), "events": n, "by_op": counts})
	fmt.Println(string(b))
}

// ---- random large cases -----------------------------------------------------------

func runPlanRand(seedS, nS, path string) {
	seed, _ := strconv.ParseInt(seedS, 10, 64)
	n, _ := strconv.Atoi(nS)
	rng := rand.New(rand.NewSource(seed))
	w, err := vtrace.Create(path)
	if err != nil {
		fatal(err)
	}
	allRoles := []string{"r1", "r2", "r3", "r4"}
	roleList := func() []string {
		out := []string{}
		for _, r := range allRoles {
			if rng.Intn(3) == 0 {
				out = append(out, r)
			}
		}
		return out
	}
	role := func() string {
		if rng.Intn(2) == 0 {
			return ""
		}
		return allRoles[rng.Intn(len(allRoles))]
	}
	peersOf := func(max int) [][]string {
		p := make([][]string, rng.Intn(max+1))
		for i := range p {
			p[i] = roleList()
		}
		return p
	}
	for i := 0; i < n; i++ {
		switch i % 6 {
		case 0:
			peers := peersOf(6)
			c := map[string]any{"op": "Actors", "lr": roleList(), "peers": peers}
			loads := []int{}
			if rng.Intn(4) != 0 {
				for j := 0; j <= len(peers); j++ {
					loads = append(loads, rng.Intn(40))
				}
			}
			na := rng.Intn(120)
			actors := make([]jActor, na)
			for j := range actors {
				actors[j] = jActor{ID: j + 1, Role: role(), Single: rng.Intn(10) == 0}
			}
			c["loads"], c["actors"] = loads, actors
			w.Raw(c)
		case 1:
			ng := rng.Intn(150)
			grains := make([]map[string]any, ng)
			for j := range grains {
				grains[j] = map[string]any{"id": j + 1, "dis": rng.Intn(4) == 0}
			}
			w.Raw(map[string]any{"op": "Grains", "np": 1 + rng.Intn(8), "grains": grains})
		case 2:
			na := rng.Intn(60)
			actors := make([]jActor, na)
			for j := range actors {
				actors[j] = jActor{ID: j + 1, Role: role()}
			}
			grains := make([]int, rng.Intn(30))
			for j := range grains {
				grains[j] = 1000 + j
			}
			cut := 0
			if na > 0 {
				cut = rng.Intn(na + 1)
			}
			reqs := []jReq{{Actors: actors[:cut], Grains: []int{}}, {Actors: actors[cut:], Grains: []int{}}, {Actors: []jActor{}, Grains: grains}}
			w.Raw(map[string]any{"op": "Reassign", "lr": roleList(), "surv": peersOf(5), "reqs": reqs})
		case 3:
			peers := peersOf(4)
			if len(peers) == 0 {
				peers = [][]string{roleList()}
			}
			target := 1 + rng.Intn(len(peers))
			down := []int{}
			for p := 1; p <= len(peers); p++ {
				if p != target && rng.Intn(3) == 0 {
					down = append(down, p)
				}
			}
			// sizes around the real batch size so that several batches exist
			na := rng.Intn(3 * actor.VerifRelocationBatchSize)
			actors := make([]jActor, na)
			for j := range actors {
				actors[j] = jActor{ID: j + 1, Role: role()}
			}
			ng := rng.Intn(2 * actor.VerifRelocationBatchSize)
			grains := make([]map[string]any, ng)
			for j := range grains {
				grains[j] = map[string]any{"id": 100000 + j, "eager": rng.Intn(2) == 0}
			}
			w.Raw(map[string]any{"op": "Share", "peers": peers, "target": target, "okb": rng.Intn(5), "down": down, "actors": actors, "grains": grains})
		case 5:
			na, ng := rng.Intn(80), rng.Intn(80)
			actors := make([]map[string]any, na)
			for j := range actors {
				actors[j] = map[string]any{"id": j + 1, "reloc": rng.Intn(3) != 0, "sys": rng.Intn(5) == 0}
			}
			grains := make([]map[string]any, ng)
			for j := range grains {
				grains[j] = map[string]any{"id": j + 1, "sys": rng.Intn(5) == 0, "dis": rng.Intn(4) == 0}
			}
			w.Raw(map[string]any{"op": "Derive", "actors": actors, "grains": grains})
		case 4:
			bs := actor.VerifRelocationBatchSize
			sizes := []int{0, 1, bs - 1, bs, bs + 1, 2 * bs, 2*bs + 1, rng.Intn(3 * bs)}
			k := sizes[rng.Intn(len(sizes))]
			items := make([]int, k)
			for j := range items {
				items[j] = j + 1
			}
			w.Raw(map[string]any{"op": "Batch", "items": items})
		}
	}
	if err := w.Close(); err != nil {
		fatal(err)
	}
}
