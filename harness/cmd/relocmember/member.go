package main

import (
	"encoding/json"
	"fmt"
	"sort"
	"strings"

	"github.com/tochemey/goakt/v4/internal/cluster"
	"github.com/tochemey/goakt/v4/verifharness/vtrace"
)

// ---- behaviour format (shared with specs/RelocMember/Gen_Membership.tla) -----------

type mChange struct {
	Kind string `json:"kind"`
	Node string `json:"node"`
}

type mStep struct {
	Op string `json:"op"` // join | left | start | complete | overdue
	N  string `json:"n"`  // node name (self, p1, ...)
	E  int    `json:"e"`  // epoch / change index
	R  string `json:"r"`  // reason of a start (join | left | other)
}

type mBehaviour struct {
	Chg []mChange `json:"chg"`
	H   []mStep   `json:"h"`
}

var nodeNames = []string{"self", "p1", "p2", "p3"}

func addrOf(name string) string {
	for i, n := range nodeNames {
		if n == name {
			return fmt.Sprintf("127.0.0.1:%d", 9000+i)
		}
	}
	return "127.0.0.1:9999"
}

func nameOf(addr string) string {
	for i, n := range nodeNames {
		if addr == fmt.Sprintf("127.0.0.1:%d", 9000+i) {
			return n
		}
	}
	return "?" + addr
}

const milli = int64(1000000)

func reasonWire(r string) string {
	switch r {
	case "join":
		return "node-join"
	case "left":
		return "node-left"
	}
	return "node-update"
}

// payload builds the JSON text olric publishes on the cluster events channel.
func payload(s mStep) string {
	var m map[string]any
	switch s.Op {
	case "join":
		m = map[string]any{"timestamp": int64(s.E) * milli, "source": "127.0.0.1:9100", "kind": "node-join-event", "node_join": addrOf(s.N), "node_meta": ""}
	case "left":
		m = map[string]any{"timestamp": int64(s.E) * milli, "source": "127.0.0.1:9100", "kind": "node-left-event", "node_left": addrOf(s.N), "node_meta": ""}
	case "start":
		m = map[string]any{"timestamp": int64(s.E) * milli, "source": "127.0.0.1:9100", "kind": "rebalance-start-event", "epoch": s.E, "reason": reasonWire(s.R), "node": addrOf(s.N)}
	case "complete":
		m = map[string]any{"timestamp": int64(s.E) * milli, "source": "127.0.0.1:9100", "kind": "rebalance-complete-event", "epoch": s.E}
	}
	b, _ := json.Marshal(m)
	return string(b)
}

func projTs(m map[string]int64) map[string]int64 {
	out := map[string]int64{}
	for _, n := range nodeNames {
		out[n] = 0
	}
	for k, v := range m {
		out[nameOf(k)] = v / milli
	}
	return out
}

func projEp(m map[string]uint64) map[string]uint64 {
	out := map[string]uint64{}
	for _, n := range nodeNames {
		out[n] = 0
	}
	for k, v := range m {
		out[nameOf(k)] = v
	}
	return out
}

func projNames(l []string) []string {
	out := make([]string, 0, len(l))
	for _, a := range l {
		out = append(out, nameOf(a))
	}
	sort.Strings(out)
	return out
}

func nzu(s []uint64) []uint64 {
	if s == nil {
		return []uint64{}
	}
	return s
}

func runMember(behPath, tracePath string) {
	behs, err := vtrace.ReadLines[mBehaviour](behPath)
	if err != nil {
		fatal(err)
	}
	w, err := vtrace.Create(tracePath)
	if err != nil {
		fatal(err)
	}
	emitted := 0
	for _, b := range behs {
		tr := cluster.VerifNewTracker("127.0.0.1", 9000)
		w.Raw(map[string]any{"op": "New", "chg": b.Chg})
		for _, s := range b.H {
			switch s.Op {
			case "join", "left", "start", "complete":
				if err := tr.Handle(payload(s)); err != nil {
					fatal("handleClusterEvent:", err)
				}
			case "overdue":
				// the callback of the nodeLeftEmitTimeout timer armed by trackNodeLeftEvent
				tr.FireOverdue(addrOf(s.N))
			default:
				fatal("unknown op", s.Op)
			}
			em := []map[string]any{}
			for _, ev := range tr.Drain() {
				switch p := ev.Payload.(type) {
				case *cluster.NodeJoinedEvent:
					em = append(em, map[string]any{"t": "joined", "n": nameOf(p.Address), "ts": p.Timestamp.UnixMilli()})
				case *cluster.NodeLeftEvent:
					em = append(em, map[string]any{"t": "left", "n": nameOf(p.Address), "ts": p.Timestamp.UnixMilli()})
				default:
					em = append(em, map[string]any{"t": strings.ToLower(fmt.Sprintf("%T", ev.Payload)), "n": "", "ts": 0})
				}
			}
			emitted += len(em)
			st := tr.State()
			w.Raw(map[string]any{"op": s.Op, "n": s.N, "e": s.E, "r": s.R, "em": em,
				"st": map[string]any{"jt": projTs(st.JoinTimestamps), "lt": projTs(st.LeftTimestamps),
					"je": projEp(st.JoinEpochs), "le": projEp(st.LeftEpochs), "lj": st.JoinLatest, "ll": st.LeftLatest,
					"ss": nzu(st.StartSeen), "cs": nzu(st.CompleteSeen), "jf": projNames(st.JoinedFilter), "lf": projNames(st.LeftFilter)}})
		}
	}
	n := w.Count()
	if err := w.Close(); err != nil {
		fatal(err)
	}
	out, _ := json.Marshal(map[string]any{"behaviours": len(behs), "events": n, "emitted": emitted})
	fmt.Println(string(out))
}
