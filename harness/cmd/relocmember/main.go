// Command relocmember drives the real goakt code for the properties C32 and C34.
//
//	relocmember plan <cases.ndjson> <trace.ndjson>
//	    C32: every case (TLC-enumerated or random) is an input of one planner
//	    function; the REAL function is called through the verif-tag shims and
//	    the (in, out) pair is written for Trace_PlanMon / Trace_PlanConf.
//	relocmember planrand <seed> <n> <cases.ndjson>
//	    C32: seeded random large cases in the same format.
//	relocmember member <behaviours.ndjson> <trace.ndjson>
//	    C34: every TLC behaviour (history of notifications) is fed as real
//	    olric JSON payloads to the real handleClusterEvent of a tracker built by
//	    the shim; emitted events are read from the events channel.
package main

import (
	"fmt"
	"os"
)

func fatal(a ...any) {
	fmt.Fprintln(os.Stderr, a...)
	os.Exit(2)
}

func main() {
	if len(os.Args) < 2 {
		fatal("usage: relocmember plan|planrand|member ...")
	}
	switch os.Args[1] {
	case "plan":
		if len(os.Args) != 4 {
			fatal("usage: relocmember plan <cases> <trace>")
		}
		runPlan(os.Args[2], os.Args[3])
	case "planrand":
		if len(os.Args) != 5 {
			fatal("usage: relocmember planrand <seed> <n> <cases>")
		}
		runPlanRand(os.Args[2], os.Args[3], os.Args[4])
	case "member":
		if len(os.Args) != 4 {
			fatal("usage: relocmember member <behaviours> <trace>")
		}
		runMember(os.Args[2], os.Args[3])
	default:
		fatal("unknown subcommand", os.Args[1])
	}
}
