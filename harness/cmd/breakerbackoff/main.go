// Command breakerbackoff binds the Breaker / Backoff / FaultWindow specifications to
// the real goakt code.
//
//	breakerbackoff breaker <behaviours.ndjson> <trace.ndjson> <cfg-json>   (C47)
//	breakerbackoff backoff <vectors.ndjson> <out.ndjson>                   (C08)
//	breakerbackoff faults  <behaviours.ndjson> <trace.ndjson> <cfg-json>   (C08)
package main

import (
	"fmt"
	"os"
)

func die(a ...any) {
	fmt.Fprintln(os.Stderr, a...)
	os.Exit(2)
}

func main() {
	if len(os.Args) < 2 {
		die("usage: breakerbackoff breaker|backoff|faults ...")
	}
	switch os.Args[1] {
	case "breaker":
		if len(os.Args) != 5 {
			die("usage: breakerbackoff breaker <behaviours> <trace> <cfg-json>")
		}
		runBreaker(os.Args[2], os.Args[3], os.Args[4])
	case "backoff":
		if len(os.Args) != 4 {
			die("usage: breakerbackoff backoff <vectors> <out>")
		}
		runBackoff(os.Args[2], os.Args[3])
	case "faults":
		if len(os.Args) != 5 {
			die("usage: breakerbackoff faults <behaviours> <trace> <cfg-json>")
		}
		runFaults(os.Args[2], os.Args[3], os.Args[4])
	default:
		die("unknown subcommand", os.Args[1])
	}
}
