package main

import (
	"encoding/json"
	"fmt"
	"math"
	"strings"
	"time"

	"github.com/tochemey/goakt/v4/actor"
	"github.com/tochemey/goakt/v4/supervisor"
	"github.com/tochemey/goakt/v4/verifharness/vtrace"
)

// C08, arithmetic part.  Every vector (n, i, m, ra) is evaluated on the real code:
//
//	r, r1        actor.backoffDelay(n, i, m) and (n+1, i, m)          (verif-tag entry point)
//	si, sm, sra  supervisor.NewSupervisor(WithExponentialBackoff(i, m, ra)) read back through
//	             InitialDelay / MaxDelay / BackoffResetAfter
//	rc, rc1      backoffDelay(n, si, sm) and (n+1, si, sm): the delay as handleRestartDirective computes it
//
// The records become a constant table of Backoff_Table.tla and are judged by Apalache.
type vector struct {
	N  int64 `json:"n"`
	I  int64 `json:"i"`
	M  int64 `json:"m"`
	RA int64 `json:"ra"`
}

func runBackoff(vfile, ofile string) {
	vs, err := vtrace.ReadLines[vector](vfile)
	if err != nil {
		die(err)
	}
	w, err := vtrace.Create(ofile)
	if err != nil {
		die(err)
	}
	for _, v := range vs {
		n1 := v.N
		if n1 < math.MaxInt64 {
			n1++
		}
		sup := supervisor.NewSupervisor(supervisor.WithExponentialBackoff(time.Duration(v.I), time.Duration(v.M), time.Duration(v.RA)))
		si, sm, sra := sup.InitialDelay(), sup.MaxDelay(), sup.BackoffResetAfter()
		w.Raw(map[string]any{
			"n": v.N, "i": v.I, "m": v.M, "ra": v.RA,
			"r":  int64(actor.VerifBackoffDelay(v.N, time.Duration(v.I), time.Duration(v.M))),
			"r1": int64(actor.VerifBackoffDelay(n1, time.Duration(v.I), time.Duration(v.M))),
			"si": int64(si), "sm": int64(sm), "sra": int64(sra),
			"rc":  int64(actor.VerifBackoffDelay(v.N, si, sm)),
			"rc1": int64(actor.VerifBackoffDelay(n1, si, sm)),
		})
	}
	n := w.Count()
	if err := w.Close(); err != nil {
		die(err)
	}
	fmt.Printf("{\"vectors\":%d}\n", n)
}

// C08, fault counting part.  Behaviours over {R:<w> (recordFault with a window of w ticks), T (one tick
// passes)} are executed on the real (*PID).recordFault of a bare PID.  recordFault reads the wall clock, so
// time passes by moving the stored timestamp of the latest fault into the past (VerifFaultCounter.Age): half a
// tick right after every fault, a whole tick per T.  The real elapsed time is therefore (age + 1/2) ticks plus
// the few microseconds between the calls, never on a window boundary; one tick is an hour.
type faultsCfg struct {
	TickNanos int64
}

func runFaults(bfile, tfile, cfgJSON string) {
	cfg := faultsCfg{TickNanos: int64(time.Hour)}
	if cfgJSON != "" {
		if err := json.Unmarshal([]byte(cfgJSON), &cfg); err != nil {
			die("cfg:", err)
		}
	}
	tk := time.Duration(cfg.TickNanos)
	behaviours, err := vtrace.ReadLines[[]string](bfile)
	if err != nil {
		die(err)
	}
	w, err := vtrace.Create(tfile)
	if err != nil {
		die(err)
	}
	for _, beh := range behaviours {
		fc := actor.NewVerifFaultCounter()
		w.Raw(map[string]any{"op": "New"})
		for _, s := range beh {
			switch {
			case s == "T":
				fc.Age(tk)
				cnt, last := fc.State()
				w.Raw(map[string]any{"op": "Tick", "w": 0, "res": 0, "cnt": cnt, "has": last > 0})
			case strings.HasPrefix(s, "R:"):
				var wnd int64
				if _, err := fmt.Sscanf(s, "R:%d", &wnd); err != nil {
					die("bad op", s)
				}
				res := fc.Record(time.Duration(wnd) * tk)
				fc.Age(tk / 2)
				cnt, last := fc.State()
				w.Raw(map[string]any{"op": "Record", "w": wnd, "res": res, "cnt": cnt, "has": last > 0})
			default:
				die("unknown op", s)
			}
		}
	}
	n := w.Count()
	if err := w.Close(); err != nil {
		die(err)
	}
	fmt.Printf("{\"behaviours\":%d,\"events\":%d}\n", len(behaviours), n)
}
