package main

import (
	"context"
	"encoding/json"
	"errors"
	"fmt"
	"math"
	"sort"
	"strings"
	"sync/atomic"
	"time"

	"github.com/tochemey/goakt/v4/breaker"
	"github.com/tochemey/goakt/v4/verifharness/sched"
	"github.com/tochemey/goakt/v4/verifharness/vtrace"
)

// C47: TLC-generated behaviours over {Begin, Park, Pre, End, Tick, Metrics} are executed on a
// real breaker.CircuitBreaker with a fake clock.  A logical caller is a logical thread of the
// puppet scheduler (harness/sched) inside Execute; its user function parks on a driver-side
// gate (Yield "fn"), so the real code runs exactly one modelled segment at a time:
//
//	B:c  Begin(c)      start Execute; it reaches the user function (admitted) or returns (rejected)
//	E:c  End(c, out)   let the user function return `out`; Execute records, releases and returns
//	X:c  EndMid(c,out) let the user function return; record() runs up to the clock read inside transitionTo(Open)
//	                   (driver-side gate in the injected clock: b.mu held, neither openUntil nor the state stored yet)
//	F:c  Finish(c)     the transition stores openUntil and the state, Execute returns
//	K:c  Park(c)       (Split only) Execute stops at the hook "breaker.acquire.expired", i.e. inside
//	                   tryAcquire between the failed test `clock() < openUntil` and toHalfOpen();
//	                   the next B:c resumes it (toHalfOpen + select)
//
// Without Split the hook is stepped through at once, so Begin is one segment.
type breakerCfg struct {
	NB, BD, MinReq, RateNum, RateDen, OpenTO, HalfMax int
	Seed                                              int64
	Split                                             bool
}

const hookExpired = "breaker.acquire.expired"

const tick = int64(time.Second)

var t0 = time.Unix(1_000_000, 0)

// fakeCtx is a caller-controlled context: Err() is whatever the driver sets.
type fakeCtx struct {
	err  atomic.Pointer[error]
	done chan struct{}
}

func newFakeCtx() *fakeCtx                     { return &fakeCtx{done: make(chan struct{})} }
func (c *fakeCtx) Deadline() (time.Time, bool) { return time.Time{}, false }
func (c *fakeCtx) Done() <-chan struct{}       { return c.done }
func (c *fakeCtx) Value(any) any               { return nil }
func (c *fakeCtx) Err() error {
	if p := c.err.Load(); p != nil {
		return *p
	}
	return nil
}
func (c *fakeCtx) set(err error) { c.err.Store(&err) }

var errBoom = errors.New("boom")

type callResult struct {
	val      any
	err      error
	fbCalled bool
	fbErr    error
}

type inflight struct {
	ctx    *fakeCtx
	name   string // logical thread
	out    string // outcome the user function will produce, set before it is released
	res    callResult
	fb     bool
	parked bool // stopped at hookExpired
	// the opening transition in two steps (X: / F: operations): the driver's clock parks the thread at the second clock
	// read of its End segment, which is the one inside transitionTo(Open) (the first is record()'s own)
	clockCalls int
	mid        bool // parked at that clock read: b.mu is held by this thread
	midpark    bool // this caller reached hookExpired while another one was in the middle of a transition
}

// windowLocked reports whether the rolling window's mutex is held (then the clock read belongs to buckets.reset() or
// snapshot(), not to transitionTo(Open), and parking there would block every observation).
func windowLocked(br *breaker.CircuitBreaker) bool {
	ch := make(chan struct{})
	go func() { br.VerifShape(); close(ch) }()
	select {
	case <-ch:
		return false
	case <-time.After(200 * time.Millisecond):
		return true
	}
}

func classify(err error) (class, est string) {
	if err == nil {
		return "nil", ""
	}
	var be *breaker.Error
	if errors.As(err, &be) {
		switch be.Type {
		case breaker.ErrorTypeOpen:
			return "open", stateName(be.State)
		case breaker.ErrorTypeTimeout:
			return "ctxdone", stateName(be.State)
		case breaker.ErrorTypePanic:
			return "panic", stateName(be.State)
		}
		return "breaker?", stateName(be.State)
	}
	switch {
	case errors.Is(err, context.Canceled):
		return "cancel", ""
	case errors.Is(err, context.DeadlineExceeded):
		return "deadline", ""
	case errors.Is(err, errBoom):
		return "fail", ""
	}
	return "other", ""
}

func stateName(s breaker.State) string {
	switch s {
	case breaker.Closed:
		return "closed"
	case breaker.Open:
		return "open"
	case breaker.HalfOpen:
		return "halfopen"
	}
	return "unknown"
}

func toTicks(nano int64) int64 {
	if nano == 0 {
		return 0
	}
	d := nano - t0.UnixNano()
	if d%tick != 0 {
		return -999
	}
	return d / tick
}

func metricsFields(m breaker.Metrics) map[string]any {
	ppm := 0
	if m.Total > 0 {
		ppm = int(math.Floor(m.FailureRate*1e6 + 1e-6))
	}
	lf, ls := int64(-1), int64(-1)
	if !m.LastFailure.IsZero() {
		lf = toTicks(m.LastFailure.UnixNano())
	}
	if !m.LastSuccess.IsZero() {
		ls = toTicks(m.LastSuccess.UnixNano())
	}
	return map[string]any{
		"mst": stateName(m.State), "a": m.Successes, "b": m.Failures, "tot": m.Total, "ppm": ppm,
		"lf": lf, "ls": ls, "ws": toTicks(m.WindowStart.UnixNano()), "we": toTicks(m.WindowEnd.UnixNano()),
		"wlen": int64(m.Window) / tick,
	}
}

func runBreaker(bfile, tfile, cfgJSON string) {
	var cfg breakerCfg
	if err := json.Unmarshal([]byte(cfgJSON), &cfg); err != nil {
		die("cfg:", err)
	}
	behaviours, err := vtrace.ReadLines[[]string](bfile)
	if err != nil {
		die(err)
	}
	w, err := vtrace.Create(tfile)
	if err != nil {
		die(err)
	}
	skipped, predMismatch, stales, parks, mids := 0, 0, 0, 0, 0
	rnd := uint64(cfg.Seed)*0x9E3779B97F4A7C15 + 0x1234567
	next := func() uint64 { // splitmix64
		rnd += 0x9E3779B97F4A7C15
		z := rnd
		z = (z ^ (z >> 30)) * 0xBF58476D1CE4E5B9
		z = (z ^ (z >> 27)) * 0x94D049BB133111EB
		return z ^ (z >> 31)
	}
	ncall := 0
	for _, beh := range behaviours {
		var now atomic.Int64 // ticks
		var br *breaker.CircuitBreaker
		var sc *sched.Sched
		var armed *inflight // the thread being stepped through an X: operation
		clock := func() time.Time {
			if a := armed; a != nil {
				a.clockCalls++
				if a.clockCalls == 2 && !windowLocked(br) {
					armed = nil
					sc.Yield("clock", 0, 0)
				}
			}
			return t0.Add(time.Duration(now.Load() * tick))
		}
		br = breaker.NewCircuitBreaker(
			breaker.WithClock(clock),
			breaker.WithWindow(time.Duration(int64(cfg.NB*cfg.BD)*tick), cfg.NB),
			breaker.WithMinRequests(cfg.MinReq),
			breaker.WithFailureRate(float64(cfg.RateNum)/float64(cfg.RateDen)),
			breaker.WithOpenTimeout(time.Duration(int64(cfg.OpenTO)*tick)),
			breaker.WithHalfOpenMaxCalls(cfg.HalfMax),
		)
		sc = sched.New()
		sc.Watchdog = 30 * time.Second
		sc.Control(br)
		calls := map[string]*inflight{}
		anyMid := func() bool {
			for _, fl := range calls {
				if fl.mid {
					return true
				}
			}
			return false
		}
		w.Raw(map[string]any{"op": "New"})

		emit := func(op, c, out, res string, extra map[string]any) {
			sh := br.VerifShape()
			bk := make([]int64, 0, 3*len(sh.Start)) // ring as stored: succ, fail, start per slot
			for i := range sh.Start {
				bk = append(bk, int64(sh.Succ[i]), int64(sh.Fail[i]), toTicks(sh.Start[i]))
			}
			ev := map[string]any{
				"op": op, "t": now.Load(),
				"st": stateName(br.State()), "ou": toTicks(sh.OpenUntil), "sem": sh.Sem,
				"cur": sh.Cursor, "lu": toTicks(sh.LastUpdate), "bk": bk,
			}
			if c != "" {
				ev["c"] = c
			}
			if out != "" {
				ev["out"] = out
			}
			if res != "" {
				ev["res"] = res
			}
			for k, v := range extra {
				ev[k] = v
			}
			w.Raw(ev)
		}
		resultFields := func(fl *inflight) map[string]any {
			r := fl.res
			class, est := classify(r.err)
			val := ""
			if s, ok := r.val.(string); ok {
				val = s
			}
			fberr := ""
			if r.fbCalled {
				fberr, _ = classify(r.fbErr)
			}
			return map[string]any{"err": class, "est": est, "fb": fl.fb, "fbc": r.fbCalled, "fberr": fberr, "val": val}
		}
		// settle interprets where a released thread stopped: at the hook (parked), in the user function
		// (admitted) or finished (returned without running the user function)
		settle := func(fl *inflight, p sched.Pending, err error) string {
			for {
				if err != nil {
					die("scheduler:", err)
				}
				switch {
				case p.Done:
					return "returned"
				case p.Point == "fn":
					return "admitted"
				case p.Point == hookExpired:
					if cfg.Split && !fl.parked {
						fl.parked = true
						fl.midpark = anyMid()
						return "parked"
					}
					p, err = sc.Step(fl.name) // one segment: step through the hook at once
				default:
					die("thread parked at an unexpected point", p.String())
				}
			}
		}
		start := func(c string, pre bool) (*inflight, string) {
			ncall++
			fl := &inflight{ctx: newFakeCtx(), name: fmt.Sprintf("%s.%d", c, ncall), fb: next()%2 == 0}
			if pre {
				if next()%2 == 0 {
					fl.ctx.set(context.Canceled)
				} else {
					fl.ctx.set(context.DeadlineExceeded)
				}
			}
			fn := func(ctx context.Context) (any, error) {
				sc.Yield("fn", 0, 0)
				switch fl.out {
				case "ok":
					return "v:" + c, nil
				case "fail":
					return nil, errBoom
				case "cancel":
					fl.ctx.set(context.Canceled)
					return nil, ctx.Err()
				case "deadline":
					fl.ctx.set(context.DeadlineExceeded)
					return nil, ctx.Err()
				case "panic":
					panic("boom:" + c)
				default:
					die("unknown outcome", fl.out)
				}
				return nil, nil
			}
			p, err := sc.Go(fl.name, func() {
				r := &fl.res
				if fl.fb {
					r.val, r.err = br.Execute(fl.ctx, fn, func(_ context.Context, err error) (any, error) {
						r.fbCalled, r.fbErr = true, err
						return "fb:" + c, err
					})
				} else {
					r.val, r.err = br.Execute(fl.ctx, fn)
				}
			})
			return fl, settle(fl, p, err)
		}
		// begun logs the outcome of the admission segment of c
		begun := func(c string, fl *inflight, how, predicted string, extra map[string]any) {
			res := "rejected"
			x := map[string]any{}
			if how == "admitted" {
				res = "admitted"
				calls[c] = fl
			} else {
				delete(calls, c)
				x = resultFields(fl)
			}
			for k, v := range extra {
				x[k] = v
			}
			if predicted != "" && predicted != res {
				predMismatch++
			}
			emit("Begin", c, "", res, x)
		}
		resume := func(c, predicted string) {
			fl := calls[c]
			// the admission test of this caller is stale when toHalfOpen is about to act on a state other than
			// "open and expired" (it is a no-op when the breaker is half-open already)
			sh := br.VerifShape()
			stale := sh.State != breaker.HalfOpen && !(sh.State == breaker.Open && clock().UnixNano() >= sh.OpenUntil)
			if fl.midpark {
				stale = false // its test raced with a transition in progress: not the situation the known finding describes
			}
			if stale {
				stales++
			}
			p, err := sc.Step(fl.name)
			how := settle(fl, p, err)
			begun(c, fl, how, predicted, map[string]any{"stale": stale})
		}
		finish := func(c, out string) {
			fl := calls[c]
			delete(calls, c)
			fl.out = out
			p, err := sc.Step(fl.name)
			if err != nil || !p.Done {
				die("Execute did not return after the user function returned:", err, p.String())
			}
			emit("End", c, out, "", resultFields(fl))
		}
		finishMid := func(c string) {
			fl := calls[c]
			delete(calls, c)
			p, err := sc.Step(fl.name)
			if err != nil || !p.Done {
				die("Execute did not return after the transition was released:", err, p.String())
			}
			emit("EndFin", c, fl.out, "", resultFields(fl))
		}

		for _, s := range beh {
			f := strings.Split(s, ":")
			predicted := ""
			if len(f) > 2 {
				predicted = f[2]
			}
			switch f[0] {
			case "B", "P", "K":
				c := f[1]
				if fl := calls[c]; fl != nil {
					if fl.parked && f[0] == "B" && !anyMid() { // toHalfOpen needs b.mu
						fl.parked = false
						resume(c, predicted)
					} else {
						skipped++ // the real call is still in flight (model and code disagree about it)
					}
					continue
				}
				fl, how := start(c, f[0] == "P")
				switch {
				case f[0] == "P" && how == "returned":
					emit("Pre", c, "", "ctxdone", resultFields(fl))
				case f[0] == "P":
					// a done context must never get this far
					calls[c] = fl
					emit("Pre", c, "", how, map[string]any{"err": "", "est": "", "fb": fl.fb, "fbc": false, "fberr": "", "val": ""})
				case how == "parked":
					parks++
					calls[c] = fl
					if f[0] != "K" {
						predMismatch++
					}
					emit("Park", c, "", "", map[string]any{"midpark": fl.midpark})
				default:
					if f[0] == "K" {
						predMismatch++
					}
					begun(c, fl, how, predicted, map[string]any{"stale": false})
				}
			case "E":
				c := f[1]
				if calls[c] == nil || calls[c].parked || calls[c].mid {
					skipped++
					continue
				}
				finish(c, f[2])
			case "X":
				c := f[1]
				fl := calls[c]
				if fl == nil || fl.parked || fl.mid || anyMid() {
					skipped++
					continue
				}
				fl.out, fl.clockCalls, armed = f[2], 0, fl
				p, err := sc.Step(fl.name)
				armed = nil
				switch {
				case err != nil:
					die("scheduler:", err)
				case p.Done: // no second clock read: the real record() did not start an opening transition
					predMismatch++
					delete(calls, c)
					emit("End", c, fl.out, "", resultFields(fl))
				case p.Point == "clock":
					fl.mid = true
					mids++
					emit("EndMid", c, fl.out, "", nil)
				default:
					die("thread parked at an unexpected point", p.String())
				}
			case "F":
				c := f[1]
				if calls[c] == nil || !calls[c].mid {
					skipped++
					continue
				}
				finishMid(c)
			case "T":
				now.Add(1)
				emit("Tick", "", "", "", nil)
			case "M":
				emit("Metrics", "", "", "", metricsFields(br.Metrics()))
			default:
				die("unknown op", s)
			}
		}
		// suffix: resume the parked callers, let every call in flight succeed, then read the metrics
		var rest []string
		for c := range calls {
			rest = append(rest, c)
		}
		sort.Strings(rest)
		for _, c := range rest {
			if calls[c].mid {
				finishMid(c)
			}
		}
		for _, c := range rest {
			if calls[c] != nil && calls[c].parked {
				calls[c].parked = false
				resume(c, "")
			}
		}
		for _, c := range rest {
			if calls[c] != nil {
				finish(c, "ok")
			}
		}
		emit("Metrics", "", "", "", metricsFields(br.Metrics()))
		sc.Close()
	}
	n := w.Count()
	if err := w.Close(); err != nil {
		die(err)
	}
	fmt.Printf("{\"behaviours\":%d,\"events\":%d,\"skipped\":%d,\"pred_mismatch\":%d,\"parks\":%d,\"stale_resumes\":%d,\"mid_transitions\":%d}\n",
		len(behaviours), n, skipped, predMismatch, parks, stales, mids)
}
