package main

import (
	"context"
	"encoding/json"
	"errors"
	"fmt"
	"math"
	"sort"
	"strings"
	"sync/atomic"
	"time"

	"github.com/tochemey/goakt/v4/breaker"
	"github.com/tochemey/goakt/v4/verifharness/vtrace"
)

// C47: TLC-generated behaviours over {Begin, Pre, End, Tick, Metrics} are executed on a
// real breaker.CircuitBreaker with a fake clock.  A logical caller is a goroutine inside
// Execute; its user function is held on a gate owned by this driver, so the real code
// runs exactly one modelled segment at a time:
//
//	Begin(c)      start Execute; it either reaches the user function (admitted) or returns (rejected)
//	End(c, out)   let the user function return `out`; Execute records, releases and returns
type breakerCfg struct {
	NB, BD, MinReq, RateNum, RateDen, OpenTO, HalfMax int
	Seed                                              int64
}

const tick = int64(time.Second)

var t0 = time.Unix(1_000_000, 0)

// fakeCtx is a caller-controlled context: Err() is whatever the driver sets.
type fakeCtx struct {
	err  atomic.Pointer[error]
	done chan struct{}
}

func newFakeCtx() *fakeCtx                     { return &fakeCtx{done: make(chan struct{})} }
func (c *fakeCtx) Deadline() (time.Time, bool) { return time.Time{}, false }
func (c *fakeCtx) Done() <-chan struct{}       { return c.done }
func (c *fakeCtx) Value(any) any               { return nil }
func (c *fakeCtx) Err() error {
	if p := c.err.Load(); p != nil {
		return *p
	}
	return nil
}
func (c *fakeCtx) set(err error) { c.err.Store(&err) }

var errBoom = errors.New("boom")

type callResult struct {
	val      any
	err      error
	fbCalled bool
	fbErr    error
}

type inflight struct {
	ctx  *fakeCtx
	gate chan string
	done chan callResult
	fb   bool
}

func classify(err error) (class, est string) {
	if err == nil {
		return "nil", ""
	}
	var be *breaker.Error
	if errors.As(err, &be) {
		switch be.Type {
		case breaker.ErrorTypeOpen:
			return "open", stateName(be.State)
		case breaker.ErrorTypeTimeout:
			return "ctxdone", stateName(be.State)
		case breaker.ErrorTypePanic:
			return "panic", stateName(be.State)
		}
		return "breaker?", stateName(be.State)
	}
	switch {
	case errors.Is(err, context.Canceled):
		return "cancel", ""
	case errors.Is(err, context.DeadlineExceeded):
		return "deadline", ""
	case errors.Is(err, errBoom):
		return "fail", ""
	}
	return "other", ""
}

func stateName(s breaker.State) string {
	switch s {
	case breaker.Closed:
		return "closed"
	case breaker.Open:
		return "open"
	case breaker.HalfOpen:
		return "halfopen"
	}
	return "unknown"
}

func toTicks(nano int64) int64 {
	if nano == 0 {
		return 0
	}
	d := nano - t0.UnixNano()
	if d%tick != 0 {
		return -999
	}
	return d / tick
}

func metricsFields(m breaker.Metrics) map[string]any {
	ppm := 0
	if m.Total > 0 {
		ppm = int(math.Floor(m.FailureRate*1e6 + 1e-6))
	}
	lf, ls := int64(-1), int64(-1)
	if !m.LastFailure.IsZero() {
		lf = toTicks(m.LastFailure.UnixNano())
	}
	if !m.LastSuccess.IsZero() {
		ls = toTicks(m.LastSuccess.UnixNano())
	}
	return map[string]any{
		"mst": stateName(m.State), "a": m.Successes, "b": m.Failures, "tot": m.Total, "ppm": ppm,
		"lf": lf, "ls": ls, "ws": toTicks(m.WindowStart.UnixNano()), "we": toTicks(m.WindowEnd.UnixNano()),
		"wlen": int64(m.Window) / tick,
	}
}

func runBreaker(bfile, tfile, cfgJSON string) {
	var cfg breakerCfg
	if err := json.Unmarshal([]byte(cfgJSON), &cfg); err != nil {
		die("cfg:", err)
	}
	behaviours, err := vtrace.ReadLines[[]string](bfile)
	if err != nil {
		die(err)
	}
	w, err := vtrace.Create(tfile)
	if err != nil {
		die(err)
	}
	skipped, predMismatch := 0, 0
	rnd := uint64(cfg.Seed)*0x9E3779B97F4A7C15 + 0x1234567
	next := func() uint64 { // splitmix64
		rnd += 0x9E3779B97F4A7C15
		z := rnd
		z = (z ^ (z >> 30)) * 0xBF58476D1CE4E5B9
		z = (z ^ (z >> 27)) * 0x94D049BB133111EB
		return z ^ (z >> 31)
	}
	for _, beh := range behaviours {
		var now atomic.Int64 // ticks
		clock := func() time.Time { return t0.Add(time.Duration(now.Load() * tick)) }
		br := breaker.NewCircuitBreaker(
			breaker.WithClock(clock),
			breaker.WithWindow(time.Duration(int64(cfg.NB*cfg.BD)*tick), cfg.NB),
			breaker.WithMinRequests(cfg.MinReq),
			breaker.WithFailureRate(float64(cfg.RateNum)/float64(cfg.RateDen)),
			breaker.WithOpenTimeout(time.Duration(int64(cfg.OpenTO)*tick)),
			breaker.WithHalfOpenMaxCalls(cfg.HalfMax),
		)
		calls := map[string]*inflight{}
		w.Raw(map[string]any{"op": "New"})

		emit := func(op, c, out, res string, extra map[string]any) {
			sh := br.VerifShape()
			bk := make([]int64, 0, 3*len(sh.Start)) // ring as stored: succ, fail, start per slot
			for i := range sh.Start {
				bk = append(bk, int64(sh.Succ[i]), int64(sh.Fail[i]), toTicks(sh.Start[i]))
			}
			ev := map[string]any{
				"op": op, "t": now.Load(),
				"st": stateName(br.State()), "ou": toTicks(sh.OpenUntil), "sem": sh.Sem,
				"cur": sh.Cursor, "lu": toTicks(sh.LastUpdate), "bk": bk,
			}
			if c != "" {
				ev["c"] = c
			}
			if out != "" {
				ev["out"] = out
			}
			if res != "" {
				ev["res"] = res
			}
			for k, v := range extra {
				ev[k] = v
			}
			w.Raw(ev)
		}
		resultFields := func(c string, fl *inflight, r callResult) map[string]any {
			class, est := classify(r.err)
			val := ""
			if s, ok := r.val.(string); ok {
				val = s
			}
			fberr := ""
			if r.fbCalled {
				fberr, _ = classify(r.fbErr)
			}
			return map[string]any{"err": class, "est": est, "fb": fl.fb, "fbc": r.fbCalled, "fberr": fberr, "val": val}
		}
		start := func(c string, pre bool) (*inflight, bool, callResult) {
			fl := &inflight{ctx: newFakeCtx(), gate: make(chan string, 1), done: make(chan callResult, 1), fb: next()%2 == 0}
			if pre {
				if next()%2 == 0 {
					fl.ctx.set(context.Canceled)
				} else {
					fl.ctx.set(context.DeadlineExceeded)
				}
			}
			entered := make(chan struct{})
			fn := func(ctx context.Context) (any, error) {
				close(entered)
				switch out := <-fl.gate; out {
				case "ok":
					return "v:" + c, nil
				case "fail":
					return nil, errBoom
				case "cancel":
					fl.ctx.set(context.Canceled)
					return nil, ctx.Err()
				case "deadline":
					fl.ctx.set(context.DeadlineExceeded)
					return nil, ctx.Err()
				case "panic":
					panic("boom:" + c)
				default:
					die("unknown outcome", out)
				}
				return nil, nil
			}
			go func() {
				var r callResult
				if fl.fb {
					r.val, r.err = br.Execute(fl.ctx, fn, func(_ context.Context, err error) (any, error) {
						r.fbCalled, r.fbErr = true, err
						return "fb:" + c, err
					})
				} else {
					r.val, r.err = br.Execute(fl.ctx, fn)
				}
				fl.done <- r
			}()
			select {
			case <-entered:
				return fl, true, callResult{}
			case r := <-fl.done:
				return fl, false, r
			case <-time.After(20 * time.Second):
				die("watchdog: Execute neither entered fn nor returned")
			}
			return nil, false, callResult{}
		}
		finish := func(c, out string) {
			fl := calls[c]
			delete(calls, c)
			fl.gate <- out
			select {
			case r := <-fl.done:
				emit("End", c, out, "", resultFields(c, fl, r))
			case <-time.After(20 * time.Second):
				die("watchdog: Execute did not return after fn returned")
			}
		}

		for _, s := range beh {
			f := strings.Split(s, ":")
			switch f[0] {
			case "B", "P":
				c := f[1]
				if calls[c] != nil {
					skipped++ // the real call is still in flight (the model thought it was rejected)
					continue
				}
				fl, admitted, r := start(c, f[0] == "P")
				if f[0] == "P" {
					if admitted {
						// a done context must never reach fn; finish the call and report it as admitted
						calls[c] = fl
						emit("Pre", c, "", "admitted", map[string]any{"err": "", "est": "", "fb": fl.fb, "fbc": false, "fberr": "", "val": ""})
						continue
					}
					emit("Pre", c, "", "ctxdone", resultFields(c, fl, r))
					continue
				}
				res := "rejected"
				x := map[string]any{}
				if admitted {
					res = "admitted"
					calls[c] = fl
				} else {
					x = resultFields(c, fl, r)
				}
				if len(f) > 2 && f[2] != res {
					predMismatch++
				}
				emit("Begin", c, "", res, x)
			case "E":
				c := f[1]
				if calls[c] == nil {
					skipped++
					continue
				}
				finish(c, f[2])
			case "T":
				now.Add(1)
				emit("Tick", "", "", "", nil)
			case "M":
				emit("Metrics", "", "", "", metricsFields(br.Metrics()))
			default:
				die("unknown op", s)
			}
		}
		// suffix: let every call still in flight succeed, then read the metrics
		var rest []string
		for c := range calls {
			rest = append(rest, c)
		}
		sort.Strings(rest)
		for _, c := range rest {
			finish(c, "ok")
		}
		emit("Metrics", "", "", "", metricsFields(br.Metrics()))
	}
	n := w.Count()
	if err := w.Close(); err != nil {
		die(err)
	}
	fmt.Printf("{\"behaviours\":%d,\"events\":%d,\"skipped\":%d,\"pred_mismatch\":%d}\n", len(behaviours), n, skipped, predMismatch)
}
