package main

import (
	"fmt"

	"github.com/tochemey/goakt/v4/client"
	"github.com/tochemey/goakt/v4/verifharness/vtrace"
)

// bop is one operation of a Balancer.tla behaviour (Gen_Balancer prints `last`).
type bop struct {
	Op    string   `json:"op"`
	Nodes []string `json:"nodes"`
	Node  string   `json:"node"`
	W     int      `json:"w"`
	Res   string   `json:"res"`
	// Rep > 1 repeats the operation (used by the long-run behaviour only)
	Rep int `json:"rep,omitempty"`
}

var nodeAddr = map[string]string{"n1": "10.0.0.1:3321", "n2": "10.0.0.2:3322", "n3": "10.0.0.3:3323", "n4": "10.0.0.4:3324"}
var addrNode = func() map[string]string {
	m := map[string]string{}
	for k, v := range nodeAddr {
		m[v] = k
	}
	return m
}()

func names(addrs []string) []string {
	out := make([]string, len(addrs))
	for i, a := range addrs {
		out[i] = addrNode[a]
	}
	return out
}

// safeNext calls the real Next and turns a panic into a result string.
func safeNext(b client.Balancer) (res string) {
	defer func() {
		if r := recover(); r != nil {
			res = fmt.Sprintf("panic:%v", r)
		}
	}()
	n := b.Next()
	if n == nil {
		return "nil"
	}
	name, ok := addrNode[client.VerifAddress(n)]
	if !ok {
		return "foreign:" + client.VerifAddress(n)
	}
	return name
}

func runBalancer(behavioursPath, tracePath string) {
	behaviours, err := vtrace.ReadLines[[]bop](behavioursPath)
	if err != nil {
		die("%v", err)
	}
	w, err := vtrace.Create(tracePath)
	if err != nil {
		die("%v", err)
	}
	predMismatch, panics := 0, 0
	for _, b := range behaviours {
		if len(b) == 0 || b[0].Op != "Init" {
			die("behaviour does not start with Init")
		}
		// fresh real objects; the nodes are real client.Node values (never dialled)
		nodes := map[string]*client.Node{}
		for name, addr := range nodeAddr {
			nodes[name] = client.NewNode(addr)
		}
		rr, rnd, ll := client.NewRoundRobin(), client.NewRandom(), client.NewLeastLoad()
		rr.VerifSetCounter(uint32(0) - uint32(b[0].W)) // 2^32 - k
		w.Raw(map[string]any{"op": "New", "w": b[0].W})
		pick := func(ns []string) []*client.Node {
			out := make([]*client.Node, len(ns))
			for i, n := range ns {
				out[i] = nodes[n]
			}
			return out
		}
		for _, o := range b[1:] {
			rep := o.Rep
			if rep < 1 {
				rep = 1
			}
			for ; rep > 0; rep-- {
				res := ""
				switch o.Op {
				case "RRSet":
					rr.Set(pick(o.Nodes)...)
				case "RndSet":
					rnd.Set(pick(o.Nodes)...)
				case "LLSet":
					ll.Set(pick(o.Nodes)...)
				case "RRNext":
					res = safeNext(rr)
				case "RndNext":
					res = safeNext(rnd)
				case "LLNext":
					res = safeNext(ll)
				case "Weight":
					nodes[o.Node].SetWeight(float64(o.W))
				default:
					die("unknown op %s", o.Op)
				}
				if len(res) > 5 && res[:5] == "panic" {
					panics++
				}
				if o.Op == "RRNext" || o.Op == "LLNext" {
					if o.Res != "" && o.Res != res {
						predMismatch++
					}
				}
				c := rr.VerifCounter()
				ns := o.Nodes
				if ns == nil {
					ns = []string{}
				}
				w.Raw(map[string]any{"op": o.Op, "nodes": ns, "node": o.Node, "w": o.W, "res": res,
					"hi": c >> 16, "lo": c & 0xffff, "order": names(ll.VerifNodes())})
			}
		}
	}
	n := w.Count()
	if err := w.Close(); err != nil {
		die("%v", err)
	}
	fmt.Printf("{\"behaviours\":%d,\"events\":%d,\"pred_mismatch\":%d,\"panics\":%d}\n", len(behaviours), n, predMismatch, panics)
}
