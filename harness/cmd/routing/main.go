// Command routing replays TLC-generated behaviours on the real goakt routing code
// and records NDJSON traces for the Trace_*.tla specifications of specs/Routing.
//
//	routing balancer <behaviours.ndjson> <trace.ndjson>     client.RoundRobin / Random / LeastLoad (C22)
//	routing router   <behaviours.ndjson> <trace.ndjson>     a real actor system with router actors and recording routees (C21)
//	routing ring     <behaviours.ndjson> <trace.ndjson>     the router's consistent hash ring (C21)
//
// The last line on stdout is a JSON object with counters.
package main

import (
	"fmt"
	"os"
)

func die(format string, a ...any) {
	fmt.Fprintf(os.Stderr, format+"\n", a...)
	os.Exit(2)
}

func main() {
	if len(os.Args) != 4 {
		die("usage: routing balancer|router|ring <behaviours> <trace>")
	}
	switch os.Args[1] {
	case "balancer":
		runBalancer(os.Args[2], os.Args[3])
	case "router":
		runRouter(os.Args[2], os.Args[3])
	case "ring":
		runRing(os.Args[2], os.Args[3])
	default:
		die("unknown mode %s", os.Args[1])
	}
}
