package main

import (
	"encoding/json"
	"fmt"
	"strconv"

	"github.com/tochemey/goakt/v4/actor"
	"github.com/tochemey/goakt/v4/hash"
	"github.com/tochemey/goakt/v4/verifharness/vtrace"
)

// gop is one element of a Gen_RingSys history.
type gop struct {
	Op      string           `json:"op"`
	Members []int            `json:"members"`
	Key     string           `json:"key"`
	Res     int              `json:"res"`
	VN      int              `json:"vn"`
	VH      map[string][]int `json:"vh"`
	KH      map[string]int   `json:"kh"`
	Hasher  string           `json:"hasher"`
}

func memberName(i int) string { return "mRoutee" + strconv.Itoa(i) }

// runRing drives the router's real consistentHashRing (through the verif-tag shim) with
// set(members in the given order) / lookup(key).
func runRing(behavioursPath, tracePath string) {
	behaviours, err := vtrace.ReadLines[[]gop](behavioursPath)
	if err != nil {
		die("%v", err)
	}
	w, err := vtrace.Create(tracePath)
	if err != nil {
		die("%v", err)
	}
	pred := 0
	for bi, b := range behaviours {
		if len(b) == 0 || b[0].Op != "Init" {
			die("behaviour %d does not start with Init", bi)
		}
		in := b[0]
		var h hash.Hasher
		vn := in.VN
		if in.Hasher == "default" {
			h = nil // the ring falls back to hash.DefaultHasher()
		} else {
			th := &tableHasher{vh: map[int][]int{}, kh: in.KH}
			for k, v := range in.VH {
				i, _ := strconv.Atoi(k)
				th.vh[i] = v
			}
			h = th
		}
		ring := actor.VerifNewRing(h, vn)
		w.Raw(map[string]any{"op": "New", "vh": in.VH, "kh": in.KH, "vn": in.VN, "hasher": in.Hasher,
			"members": []int{}, "key": "", "res": -1, "len": 0})
		for _, o := range b[1:] {
			res := -1
			ms := o.Members
			if ms == nil {
				ms = []int{}
			}
			switch o.Op {
			case "RSet":
				names := make([]string, len(ms))
				for i, m := range ms {
					names[i] = memberName(m)
				}
				ring.Set(names)
			case "RLookup":
				got := ring.Lookup(o.Key)
				res = -2 // a name that is not a member name
				if got == "" {
					res = -1
				} else if len(got) > 7 && got[:7] == "mRoutee" {
					if i, err := strconv.Atoi(got[7:]); err == nil {
						res = i
					}
				}
				if in.Hasher != "default" && res != o.Res {
					pred++
				}
			default:
				die("unknown op %s", o.Op)
			}
			w.Raw(map[string]any{"op": o.Op, "members": ms, "key": o.Key, "res": res, "len": ring.Len()})
		}
	}
	n := w.Count()
	if err := w.Close(); err != nil {
		die("%v", err)
	}
	out, _ := json.Marshal(map[string]any{"behaviours": len(behaviours), "events": n, "pred_mismatch": pred})
	fmt.Println(string(out))
}
