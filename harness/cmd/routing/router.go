package main

func runRouter(behavioursPath, tracePath string) { die("not implemented") }
func runRing(behavioursPath, tracePath string)   { die("not implemented") }
