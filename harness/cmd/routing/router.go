package main

import (
	"context"
	"encoding/json"
	"fmt"
	"os"
	"regexp"
	"sort"
	"strconv"
	"sync"
	"time"

	"github.com/tochemey/goakt/v4/actor"
	"github.com/tochemey/goakt/v4/hash"
	"github.com/tochemey/goakt/v4/log"
	"github.com/tochemey/goakt/v4/verifharness/vtrace"
)

// ---------------------------------------------------------------------------------------------
// recording routees: the router creates them by reflection, so they report to a package-level log
// ---------------------------------------------------------------------------------------------

type routedMsg struct {
	ID  int
	Key string
}

type boomMsg struct{}

type recorder struct {
	mu  sync.Mutex
	got map[string][]int // routee name -> message ids in arrival order
}

var rec = &recorder{got: map[string][]int{}}

func (r *recorder) add(name string, id int) {
	r.mu.Lock()
	r.got[name] = append(r.got[name], id)
	r.mu.Unlock()
}

// receivers returns the names of the routees that recorded message id (with multiplicity).
func (r *recorder) receivers(prefix string, id int) []string {
	r.mu.Lock()
	defer r.mu.Unlock()
	var out []string
	for name, ids := range r.got {
		if len(name) < len(prefix) || name[:len(prefix)] != prefix {
			continue
		}
		for _, x := range ids {
			if x == id {
				out = append(out, name)
			}
		}
	}
	return out
}

func (r *recorder) total(name string) int {
	r.mu.Lock()
	defer r.mu.Unlock()
	return len(r.got[name])
}

func (r *recorder) reset() {
	r.mu.Lock()
	r.got = map[string][]int{}
	r.mu.Unlock()
}

// Routee is the recording routee.
type Routee struct{}

func (*Routee) PreStart(*actor.Context) error { return nil }
func (*Routee) PostStop(*actor.Context) error { return nil }
func (*Routee) Receive(ctx *actor.ReceiveContext) {
	switch m := ctx.Message().(type) {
	case *routedMsg:
		rec.add(ctx.Self().Name(), m.ID)
	case *boomMsg:
		panic("routee failure requested by the harness")
	default:
		ctx.Unhandled()
	}
}

// ---------------------------------------------------------------------------------------------
// table hasher: the model's tiny hash space injected into the real ring
// ---------------------------------------------------------------------------------------------

var vnodeRe = regexp.MustCompile(`Routee(\d+)#(\d+)$`)

type tableHasher struct {
	vh map[int][]int  // routee index -> points of its virtual nodes
	kh map[string]int // routing key -> hash
}

func (t *tableHasher) HashCode(b []byte) uint64 {
	s := string(b)
	if m := vnodeRe.FindStringSubmatch(s); m != nil {
		r, _ := strconv.Atoi(m[1])
		i, _ := strconv.Atoi(m[2])
		if pts, ok := t.vh[r]; ok && i < len(pts) {
			return uint64(pts[i])
		}
	}
	if h, ok := t.kh[s]; ok {
		return uint64(h)
	}
	return hash.DefaultHasher().HashCode(b)
}

// ---------------------------------------------------------------------------------------------
// behaviours
// ---------------------------------------------------------------------------------------------

// rop is one element of a Gen_Router history: the first one is the Init record, the others are `last`.
type rop struct {
	Op       string           `json:"op"`
	R        int              `json:"r"`
	Key      string           `json:"key"`
	D        int              `json:"d"`
	To       []int            `json:"to"`
	Strategy string           `json:"strategy"`
	Pool     int              `json:"pool"`
	Preset   int              `json:"preset"`
	VN       int              `json:"vn"`
	VH       map[string][]int `json:"vh"`
	KH       map[string]int   `json:"kh"`
	Hasher   string           `json:"hasher"` // "table" (default) or "default" (xxh3, 150 virtual nodes unless vn > 0)
	Rep      int              `json:"rep,omitempty"`
}

const maxPool = 16

type routerRun struct {
	sys      actor.ActorSystem
	name     string
	pid      *actor.PID
	strategy string
	w        *vtrace.Writer
	nextID   int
	keys     []string
	drift    *int
	known    map[int]*actor.PID
}

func waitFor(d time.Duration, cond func() bool) bool {
	deadline := time.Now().Add(d)
	for i := 0; ; i++ {
		if cond() {
			return true
		}
		if time.Now().After(deadline) {
			return false
		}
		if i < 200 {
			time.Sleep(20 * time.Microsecond)
		} else {
			time.Sleep(500 * time.Microsecond)
		}
	}
}

// routee returns the latest known PID of routee i. PIDs are learnt from the router's own map
// (verif shim) and from the actor tree; liveness is always asked of the PID itself, because the
// tree can lag behind (asynchronous death watch) or, rarely, miss children spawned during the
// parent's PostStart.
func (rr *routerRun) routee(i int) *actor.PID {
	rr.learn()
	return rr.known[i]
}

func (rr *routerRun) learn() {
	for _, p := range actor.VerifRouterRoutees(rr.pid) {
		if i := rr.index(p.Name()); i >= 0 {
			rr.known[i] = p
		}
	}
	for i := 0; i < maxPool; i++ {
		if p, ok := actor.VerifRoutee(rr.sys, rr.name, i); ok && p != nil && p.IsRunning() {
			rr.known[i] = p
		}
	}
}

// inTree reports whether a routee named like routee i is still registered in the actor tree.
func (rr *routerRun) inTree(i int) bool {
	p, ok := actor.VerifRoutee(rr.sys, rr.name, i)
	return ok && p != nil
}

func (rr *routerRun) alive() []int {
	rr.learn()
	out := []int{}
	for i := 0; i < maxPool; i++ {
		if p := rr.known[i]; p != nil && p.IsRunning() {
			out = append(out, i)
		}
	}
	return out
}

func (rr *routerRun) index(name string) int {
	pre := rr.name + "Routee"
	if len(name) > len(pre) && name[:len(pre)] == pre {
		if i, err := strconv.Atoi(name[len(pre):]); err == nil {
			return i
		}
	}
	return -1
}

func (rr *routerRun) indices(names []string) []int {
	out := make([]int, 0, len(names))
	for _, n := range names {
		out = append(out, rr.index(n))
	}
	sort.Ints(out)
	return out
}

// settle waits until the router has handled everything it was sent and is running (or stopped for good).
func (rr *routerRun) settle() {
	ok := waitFor(5*time.Second, func() bool {
		if !actor.VerifQuiescent(rr.pid) {
			return false
		}
		// a panic in the router's handler suspends it until its supervisor resumes it
		return !rr.pid.IsSuspended()
	})
	if !ok {
		*rr.drift++
	}
}

func (rr *routerRun) settleRoutees() {
	for i := 0; i < maxPool; i++ {
		if p := rr.routee(i); p != nil && p.IsRunning() {
			waitFor(5*time.Second, func() bool { return actor.VerifQuiescent(p) || !p.IsRunning() })
		}
	}
}

func (rr *routerRun) emit(o rop, to []int, extra map[string]any) {
	members, pool := actor.VerifRouterMembers(rr.pid)
	c := actor.VerifRouterCounter(rr.pid)
	ev := map[string]any{"op": o.Op, "r": o.R, "key": o.Key, "d": o.D, "to": to,
		"map": rr.indices(members), "alive": rr.alive(), "hi": c >> 16, "lo": c & 0xffff,
		"up": rr.pid.IsRunning(), "pool": pool}
	if rr.strategy == "hash" {
		owners := map[string]int{}
		for _, k := range rr.keys {
			owners[k] = rr.index(actor.VerifRouterRingOwner(rr.pid, k))
		}
		ev["owner"] = owners
	}
	for k, v := range extra {
		ev[k] = v
	}
	rr.w.Raw(ev)
}

func runRouter(behavioursPath, tracePath string) {
	behaviours, err := vtrace.ReadLines[[]rop](behavioursPath)
	if err != nil {
		die("%v", err)
	}
	w, err := vtrace.Create(tracePath)
	if err != nil {
		die("%v", err)
	}
	ctx := context.Background()
	sys, err := actor.NewActorSystem("verifrouting", actor.WithLogger(log.DiscardLogger))
	if err != nil {
		die("%v", err)
	}
	if err := sys.Start(ctx); err != nil {
		die("%v", err)
	}
	drift := 0
	sent := 0
	orphanRetries := 0
	for bi, b := range behaviours {
		if len(b) == 0 || b[0].Op != "Init" {
			die("behaviour %d does not start with Init", bi)
		}
		in := b[0]
		rec.reset()
		name := fmt.Sprintf("rt%d", bi)
		var opts []actor.RouterOption
		keys := []string{}
		switch in.Strategy {
		case "rr":
			opts = append(opts, actor.WithRoutingStrategy(actor.RoundRobinRouting))
		case "random":
			opts = append(opts, actor.WithRoutingStrategy(actor.RandomRouting))
		case "fanout":
			opts = append(opts, actor.WithRoutingStrategy(actor.FanOutRouting))
		case "hash":
			opts = append(opts, actor.WithConsistentHashRouter(func(m any) string {
				if rm, ok := m.(*routedMsg); ok && rm.Key != "-" {
					return rm.Key
				}
				return ""
			}))
			if in.Hasher != "default" {
				th := &tableHasher{vh: map[int][]int{}, kh: in.KH}
				for k, v := range in.VH {
					i, _ := strconv.Atoi(k)
					th.vh[i] = v
				}
				opts = append(opts, actor.WithConsistentHashHasher(th))
			}
			if in.VN > 0 {
				opts = append(opts, actor.WithConsistentHashVirtualNodes(in.VN))
			}
			for k := range in.KH {
				keys = append(keys, k)
			}
			sort.Strings(keys)
		default:
			die("unknown strategy %q", in.Strategy)
		}
		var pid *actor.PID
		var rr *routerRun
		for attempt := 0; ; attempt++ {
			var err error
			pid, err = sys.SpawnRouter(ctx, name, in.Pool, &Routee{}, opts...)
			if err != nil {
				die("spawn router: %v", err)
			}
			rr = &routerRun{sys: sys, name: name, pid: pid, strategy: in.Strategy, w: w, keys: keys, drift: &drift, known: map[int]*actor.PID{}}
			// the router spawns its routees while handling PostStart
			if !waitFor(10*time.Second, func() bool {
				if !actor.VerifQuiescent(pid) {
					return false
				}
				m, _ := actor.VerifRouterMembers(pid)
				return len(m) == in.Pool
			}) {
				die("router %s did not start its routees", name)
			}
			// goakt spawn race (outside C21): children spawned from PostStart can miss the actor tree when the
			// parent is not attached yet; supervision and Stop do not reach such routees. Start over.
			registered := true
			for i := 0; i < in.Pool; i++ {
				registered = registered && rr.inTree(i)
			}
			if registered || attempt >= 5 {
				if !registered {
					drift++
				}
				break
			}
			orphanRetries++
			for _, p := range actor.VerifRouterRoutees(pid) {
				_ = actor.Tell(ctx, p, &actor.PoisonPill{})
			}
			_ = pid.Shutdown(ctx)
			name = fmt.Sprintf("rt%dx%d", bi, attempt+1)
		}
		rr.settleRoutees()
		actor.VerifRouterSetCounter(pid, uint32(0)-uint32(in.Preset))
		vh := in.VH
		if vh == nil {
			vh = map[string][]int{}
		}
		kh := in.KH
		if kh == nil {
			kh = map[string]int{}
		}
		rr.emit(rop{Op: "New", R: in.Pool, Key: "-", D: in.Preset}, []int{},
			map[string]any{"strategy": in.Strategy, "vh": vh, "kh": kh, "vn": in.VN, "hasher": in.Hasher})

		for _, o := range b[1:] {
			rep := o.Rep
			if rep < 1 {
				rep = 1
			}
			for ; rep > 0; rep-- {
				to := []int{}
				switch o.Op {
				case "Send":
					rr.nextID++
					sent++
					id := rr.nextID
					liveBefore := rr.alive()
					err := actor.Tell(ctx, pid, actor.NewBroadcast(&routedMsg{ID: id, Key: o.Key}))
					if err == nil {
						rr.settle()
						if in.Strategy == "fanout" {
							// fan-out tells from goroutines: wait for every live routee, bounded
							waitFor(3*time.Second, func() bool { return len(rec.receivers(name+"Routee", id)) >= len(liveBefore) })
							time.Sleep(200 * time.Microsecond)
						}
						rr.settleRoutees()
					}
					to = rr.indices(rec.receivers(name+"Routee", id))
				case "Die":
					if p := rr.routee(o.R); p != nil {
						_ = actor.Tell(ctx, p, &actor.PoisonPill{})
						// stopped and removed from the actor tree (the death watch cleans up asynchronously)
						if !waitFor(5*time.Second, func() bool { return !p.IsRunning() && !rr.inTree(o.R) }) {
							drift++
						}
					}
				case "Fail":
					if p := rr.routee(o.R); p != nil {
						_ = actor.Tell(ctx, p, &boomMsg{})
						if !waitFor(5*time.Second, func() bool {
							if p.IsRunning() || rr.inTree(o.R) {
								return false
							}
							m, _ := actor.VerifRouterMembers(pid)
							for _, n := range m {
								if rr.index(n) == o.R {
									return false
								}
							}
							return actor.VerifQuiescent(pid)
						}) {
							drift++
						}
					}
				case "Adjust":
					_ = actor.Tell(ctx, pid, actor.NewAdjustRouterPoolSize(int32(o.D)))
					rr.settle()
					rr.settleRoutees()
				case "GetRoutees":
					resp, err := actor.Ask(ctx, pid, &actor.GetRoutees{}, 5*time.Second)
					if err == nil {
						if rs, ok := resp.(*actor.Routees); ok {
							to = rr.indices(rs.Names())
						}
					}
					rr.settle()
				default:
					die("unknown op %s", o.Op)
				}
				rr.emit(o, to, nil)
			}
		}
		// end of behaviour: late or duplicate deliveries show up in the totals
		time.Sleep(300 * time.Microsecond)
		rr.settleRoutees()
		counts := make([]int, maxPool)
		for i := 0; i < maxPool; i++ {
			counts[i] = rec.total(actor.VerifRouteeName(name, i))
		}
		rr.emit(rop{Op: "End", R: -1, Key: "-"}, []int{}, map[string]any{"counts": counts})
		if pid.IsRunning() {
			_ = pid.Shutdown(ctx)
		}
	}
	_ = sys.Stop(ctx)
	n := w.Count()
	if err := w.Close(); err != nil {
		die("%v", err)
	}
	out, _ := json.Marshal(map[string]any{"behaviours": len(behaviours), "events": n, "sent": sent, "waits_expired": drift, "orphan_retries": orphanRetries})
	fmt.Println(string(out))
	os.Stdout.Sync()
}

