# Mutants of goakt used to show that the C07 check is bound to the code (docs/supervision.md, section Mutants).
# usage: MUTANT_WT=<scratch worktree> python3 mutants.py [names...]  -- applies each mutant, runs ./tools/check C07 --tier quick, reverts.
import subprocess, sys, os, time, json
WT = os.environ.get('MUTANT_WT', '/tmp/wt/supervision')  # a scratch worktree of /repo at branch verif-supervision
M = {
 'M1_any_before_typed': ('actor/pid.go', '''	directive, ok := pid.supervisor.Directive(signal.Err())
	if !ok {
		// let us check whether we have all errors directive
		directive, ok = pid.supervisor.Directive(new(gerrors.AnyError))''', '''	directive, ok := pid.supervisor.Directive(new(gerrors.AnyError))
	if !ok {
		// let us check whether we have all errors directive
		directive, ok = pid.supervisor.Directive(signal.Err())'''),
 'M2_siblings_ignored_on_restart': ('actor/pid.go', '''	pids := []*PID{cid}
	if includeSiblings {
		pids = append(pids, pid.ActorSystem().tree().siblings(cid)...)
	}''', '''	pids := []*PID{cid}
	if includeSiblings && false {
		pids = append(pids, pid.ActorSystem().tree().siblings(cid)...)
	}'''),
 'M3_faults_of_last_member': ('actor/pid.go', '''		if spid.Equals(cid) {
			faults = count
		}''', '''		if !spid.Equals(cid) || len(pids) == 1 {
			faults = count
		}'''),
 'M4_budget_ge': ('actor/pid.go', 'window > 0 && faults > int64(maxRetries) {', 'window > 0 && faults >= int64(maxRetries) {'),
 'M5_resume_suspends_and_asks_parent': ('actor/pid.go', '''		if directive == supervisor.ResumeDirective {
			// Always skip''', '''		if directive == supervisor.ResumeDirective && false {
			// Always skip'''),
 'M6_revert_rc_fix': ('actor/pid.go', '''	if pid.restartCount.Load() < node.restarts {''', '''	if pid.restartCount.Load() < node.restarts && false {'''),
 'M7_budget_without_window': ('actor/pid.go', 'maxRetries > 0 && window > 0 && faults >', 'maxRetries > 0 && faults >'),
 'M8_escalate_keeps_running': ('actor/pid.go', '''			_ = cid.Tell(context.Background(), pid, NewPanicSignal(msg.Message, msg.Err.Error(), msg.Timestamp))''', '''			cid.doReinstate()
			_ = cid.Tell(context.Background(), pid, NewPanicSignal(msg.Message, msg.Err.Error(), msg.Timestamp))'''),
 'M9_retry_timeout_before_backoff_reset': ('actor/pid.go', '''	window := sup.BackoffResetAfter()
	if window <= 0 {
		window = sup.Timeout()
	}''', '''	window := sup.Timeout()
	if window <= 0 {
		window = sup.BackoffResetAfter()
	}'''),
 'M10_window_never_resets': ('actor/pid.go', 'window > 0 && last > 0 && now-last > window.Nanoseconds()', 'window > 0 && last > 0 && now-last < 0'),
 'M11_stop_only_faulty_child': ('actor/pid.go', '''	if includeSiblings {
		siblings := tree.siblings(cid)''', '''	if includeSiblings && false {
		siblings := tree.siblings(cid)'''),
 'M12_anyerror_keeps_typed_rules': ('supervisor/supervisor.go', '''		s.directives.Reset()
		s.directives.Set(errorType(new(errors.AnyError)), directive)''', '''		s.directives.Set(errorType(new(errors.AnyError)), directive)'''),
 'M13_none_resumes': ('actor/pid.go', '''			verifhook.At("sup.notify", pid, -1, 0)
			pid.suspend(signal.Err().Error())
			return''', '''			verifhook.At("sup.notify", pid, -1, 0)
			return'''),
 'M14_revert_resurrect_fix': ('actor/pid.go', '''	if !spid.IsRunning() && !spid.IsSuspended() {
		return
	}

	pid.UnWatch(spid)''', '''	if !spid.IsRunning() && !spid.IsSuspended() && false {
		return
	}

	pid.UnWatch(spid)'''),
 'H2_harmless_restart_order': ('actor/pid.go', '''	for _, spid := range pids {
		go pid.restartChild(spid, sup, delay)
	}''', '''	for i := len(pids) - 1; i >= 0; i-- {
		go pid.restartChild(pids[i], sup, delay)
	}'''),
 'M15_record_fault_only_for_child': ('actor/pid.go', '''		count := spid.recordFault(window)
''', '''		if !spid.Equals(cid) {
			continue
		}
		count := spid.recordFault(window)
'''),
 'H1_harmless_refactor_lookup': ('actor/pid.go', '''	directive, ok := pid.supervisor.Directive(signal.Err())
	if !ok {''', '''	sup := pid.supervisor
	directive, ok := sup.Directive(signal.Err())
	if ok == false {'''),
}
names = (sys.argv[1:] or list(M)) if __name__ == "__main__" else []
env = dict(os.environ, VERIF_REPO=WT, GOFLAGS='-mod=mod', GOPROXY='off', VERIF_SEED=os.environ.get('VERIF_SEED','1'))
log = open('/verif/.scratch/supervision-mutants.log','a')
for n in names:
    f, old, new = M[n]
    p = os.path.join(WT, f)
    s = open(p).read()
    if s.count(old) != 1:
        print(n, 'PATTERN NOT FOUND/AMBIGUOUS', s.count(old)); continue
    open(p,'w').write(s.replace(old,new))
    t=time.time()
    r = subprocess.run(['./tools/check','C07','--tier','quick'], cwd='/verif', env=env, capture_output=True, text=True)
    out = r.stdout + r.stderr
    viol = [l for l in out.splitlines() if 'VIOLATION' in l or l.startswith('monitor:') or 'INFRA' in l or 'drift' in l]
    line = json.dumps({'mutant': n, 'exit': r.returncode, 'wall': round(time.time()-t), 'lines': viol[:6]})
    print(line, flush=True); log.write(line+'\n'); log.flush()
    subprocess.run(['git','checkout','--','.'], cwd=WT)
