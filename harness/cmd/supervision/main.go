// Command supervision executes behaviours of specs/Supervision/Supervise.tla on a
// REAL goakt actor system.  A behaviour is a supervisor configuration plus a
// sequence of environment operations (make an actor fail with an error type, let
// time pass, reinstate) over a small actor family
//
//	g (top level) -- p -- c1, c2[, c3]
//
// whose members are instrumented test actors (fail on command with ctx.Err or a
// panic, count PreStart / PostStop, answer state queries).  After every
// operation the driver waits for quiescence (no fixed sleeps: it counts the
// sup.* verifhook points and polls the dispatch state and mailboxes of the
// family and of the death watch) and records what the real system did:
// the internal supervision steps in real order (handler turns, consumer
// decisions, handlePanicking, restartChild completions) and the projected state
// of every member (lifecycle flags, PreStart count, RestartCount, user marker,
// fault counter, tree membership, the events published on the event stream, the
// answer to an Ask).  The trace is judged by SupMonitor.tla (contract) and
// Trace_Supervise.tla (conformance).
//
//	supervision replay <behaviours.ndjson> <trace.ndjson> <parallel>
package main

import (
	"context"
	"encoding/json"
	"errors"
	"fmt"
	"os"
	"strconv"
	"strings"
	"sync"
	"sync/atomic"
	"time"

	"github.com/tochemey/goakt/v4/actor"
	gerrors "github.com/tochemey/goakt/v4/errors"
	"github.com/tochemey/goakt/v4/internal/verifhook"
	"github.com/tochemey/goakt/v4/log"
	"github.com/tochemey/goakt/v4/supervisor"
	"github.com/tochemey/goakt/v4/verifharness/vtrace"
)

func fatal(v ...any) {
	fmt.Fprintln(os.Stderr, v...)
	os.Exit(2)
}

// ---------------------------------------------------------------- model data

type cfgT struct {
	Strat   string `json:"strat"`
	Typed   string `json:"typed"`
	Ptyped  string `json:"ptyped"`
	Any     string `json:"any"`
	Late    bool   `json:"late"`
	Max     int    `json:"max"`
	Win     string `json:"win"`
	Backoff bool   `json:"backoff"`
	Mix     bool   `json:"mix"` // c2 gets its own supervisor with the other strategy
	// DelayMs, when set, is the backoff's initial and maximum delay (witness behaviours that need
	// a restart to stay pending for a while); ignored by the model
	DelayMs int `json:"delayms,omitempty"`
}

type pcfgT struct {
	Dir   string `json:"dir"`
	Onsig string `json:"onsig"`
}

type opT struct {
	Op string `json:"op"`
	A  string `json:"a"`
	E  string `json:"e"`
	// When = "pending": the failure is injected while restartChild goroutines of the previous
	// operation are still pending (overlap witness); default: at quiescence
	When string `json:"when,omitempty"`
}

type behaviour struct {
	Cfg  cfgT     `json:"cfg"`
	Pcfg pcfgT    `json:"pcfg"`
	Kids []string `json:"kids"`
	Ops  []opT    `json:"ops"`
}

// the real durations behind the model's window classes
var (
	shortWindow = 150 * time.Millisecond
	longWindow  = time.Hour
	tickSleep   = 190 * time.Millisecond
)

type ErrA struct{}

func (*ErrA) Error() string { return "error of type A" }

type ErrB struct{}

func (*ErrB) Error() string { return "error of type B" }

func dirOf(s string) supervisor.Directive {
	switch s {
	case "Stop":
		return supervisor.StopDirective
	case "Resume":
		return supervisor.ResumeDirective
	case "Restart":
		return supervisor.RestartDirective
	case "Escalate":
		return supervisor.EscalateDirective
	}
	fatal("unknown directive", s)
	return 0
}

func dirName(d int64) string {
	switch d {
	case -1:
		return "none"
	case int64(supervisor.StopDirective):
		return "Stop"
	case int64(supervisor.ResumeDirective):
		return "Resume"
	case int64(supervisor.RestartDirective):
		return "Restart"
	case int64(supervisor.EscalateDirective):
		return "Escalate"
	}
	return "dir" + strconv.FormatInt(d, 10)
}

func windowOf(c cfgT) time.Duration {
	switch c.Win {
	case "short":
		return shortWindow
	case "long":
		return longWindow
	}
	return 0
}

// buildSupervisor transcribes a model configuration into the public supervisor API.
func buildSupervisor(c cfgT) *supervisor.Supervisor {
	var opts []supervisor.SupervisorOption
	if c.Strat == "all" {
		opts = append(opts, supervisor.WithStrategy(supervisor.OneForAllStrategy))
	}
	if c.Typed != "none" && !c.Late {
		opts = append(opts, supervisor.WithDirective(&ErrA{}, dirOf(c.Typed)))
	}
	if c.Ptyped != "default" {
		opts = append(opts, supervisor.WithDirective(&gerrors.PanicError{}, dirOf(c.Ptyped)))
	}
	if c.Any != "none" {
		opts = append(opts, supervisor.WithAnyErrorDirective(dirOf(c.Any)))
	}
	w := windowOf(c)
	switch {
	case c.Backoff:
		// the backoff's resetAfter is the window; the WithRetry timeout is deliberately the
		// other class so that a wrong precedence between the two shows
		other := longWindow
		if c.Win == "long" {
			other = shortWindow
		}
		initial, maximum := 3*time.Millisecond, 6*time.Millisecond
		if c.DelayMs > 0 {
			initial, maximum = time.Duration(c.DelayMs)*time.Millisecond, time.Duration(c.DelayMs)*time.Millisecond
		}
		opts = append(opts, supervisor.WithRetry(uint32(c.Max), other),
			supervisor.WithExponentialBackoff(initial, maximum, w))
	case c.Max > 0 || c.Win != "zero":
		opts = append(opts, supervisor.WithRetry(uint32(c.Max), w))
	}
	s := supervisor.NewSupervisor(opts...)
	if c.Typed != "none" && c.Late {
		s.SetDirectiveByType("main.ErrA", dirOf(c.Typed))
	}
	return s
}

// ---------------------------------------------------------------- family

type member struct {
	fam  *family
	name string // model name: g, p, c1 ...
	pid  *actor.PID

	mu        sync.Mutex
	marker    int
	prestarts int
	poststops int
	sigs      int
	ev        map[string]int
	notified  bool // consumer: sup.notify seen since sup.take
	lastFault int64
}

type family struct {
	id       int
	b        *behaviour
	names    []string
	members  map[string]*member
	inflight atomic.Int64 // submitted signals not yet consumed + restart goroutines not yet finished
	restarts atomic.Int64 // restartChild goroutines spawned and not yet finished
	hooks    atomic.Int64 // number of hook / handler events (change detector)

	mu    sync.Mutex
	lines []map[string]any
}

func (f *family) log(line map[string]any) {
	f.mu.Lock()
	f.lines = append(f.lines, line)
	f.mu.Unlock()
	f.hooks.Add(1)
}

func parentOf(name string) string {
	switch name {
	case "g":
		return "ug"
	case "p":
		return "g"
	}
	return "p"
}

// messages
type setMsg struct{}
type faultMsg struct{ E string }
type queryMsg struct{}
type reply struct{ Marker int }

type testActor struct{ m *member }

func (a *testActor) PreStart(*actor.Context) error {
	a.m.mu.Lock()
	a.m.prestarts++
	a.m.marker = 0
	a.m.mu.Unlock()
	return nil
}

func (a *testActor) PostStop(*actor.Context) error {
	a.m.mu.Lock()
	a.m.poststops++
	a.m.mu.Unlock()
	return nil
}

func (a *testActor) Receive(ctx *actor.ReceiveContext) {
	m := a.m
	switch msg := ctx.Message().(type) {
	case *setMsg:
		m.mu.Lock()
		m.marker = 1
		m.mu.Unlock()
		m.fam.hooks.Add(1)
	case *queryMsg:
		m.mu.Lock()
		v := m.marker
		m.mu.Unlock()
		ctx.Response(&reply{Marker: v})
	case *faultMsg:
		m.fam.log(map[string]any{"op": "Handle", "a": m.name, "k": "Fault", "e": msg.E})
		switch msg.E {
		case "A":
			ctx.Err(&ErrA{})
		case "B":
			ctx.Err(&ErrB{})
		default:
			panic(errors.New("boom"))
		}
	case *actor.PanicSignal:
		from := ""
		if s := ctx.Sender(); s != nil {
			from = modelName(s.Name())
		}
		m.mu.Lock()
		m.sigs++
		m.mu.Unlock()
		m.fam.log(map[string]any{"op": "Handle", "a": m.name, "k": "Sig", "c": from})
		if m.name == "p" && m.fam.b.Pcfg.Onsig == "fail" {
			ctx.Err(&ErrA{})
		}
	default:
		// PostStart, Terminated ...
	}
}

// real actor names are "<model name>-<family id>"
func modelName(real string) string {
	if i := strings.IndexByte(real, '-'); i > 0 {
		return real[:i]
	}
	return real
}

// ---------------------------------------------------------------- hook observer

type observer struct {
	byPID sync.Map // *actor.PID -> *member
}

func (o *observer) Fault(string, any, int64) int { return 0 }

func (o *observer) At(point string, obj any, a, b int64) {
	pid, ok := obj.(*actor.PID)
	if !ok {
		return
	}
	v, ok := o.byPID.Load(pid)
	if !ok {
		return
	}
	m := v.(*member)
	f := m.fam
	switch point {
	case "sup.submit":
		f.inflight.Add(1)
		f.hooks.Add(1)
	case "sup.take":
		m.mu.Lock()
		m.notified = false
		m.mu.Unlock()
		f.hooks.Add(1)
	case "sup.notify":
		m.mu.Lock()
		m.notified = true
		m.mu.Unlock()
		f.log(map[string]any{"op": "Consume", "a": m.name, "d": dirName(a)})
	case "sup.done":
		m.mu.Lock()
		n := m.notified
		m.mu.Unlock()
		if !n {
			f.log(map[string]any{"op": "Consume", "a": m.name, "d": "drop"})
		}
		f.inflight.Add(-1)
		f.hooks.Add(1)
	case "sup.panicking":
		strat := "one"
		if b == int64(supervisor.OneForAllStrategy) {
			strat = "all"
		}
		f.log(map[string]any{"op": "Panicking", "a": parentOf(m.name), "c": m.name, "d": dirName(a), "strat": strat})
	case "sup.faults":
		f.log(map[string]any{"op": "Faults", "c": m.name, "flt": a, "n": b})
	case "sup.spawn":
		f.inflight.Add(a)
		f.restarts.Add(a)
		f.hooks.Add(1)
	case "sup.restarted":
		f.log(map[string]any{"op": "Restarted", "c": m.name})
		f.restarts.Add(-1)
		f.inflight.Add(-1)
	default:
		f.hooks.Add(1)
	}
}

// ---------------------------------------------------------------- driver

type stats struct {
	behaviours, ops, notQuiet, askTimeouts, implicitTicks atomic.Int64
}

type driver struct {
	sys   actor.ActorSystem
	obs   *observer
	dw    *actor.PID
	evMu  sync.Mutex
	drain func() // drains the event subscriber into the members' counters (under evMu)
	names sync.Map
	stats *stats
}

func newDriver(ctx context.Context, name string, obs *observer, st *stats) *driver {
	sys, err := actor.NewActorSystem(name, actor.WithLogger(log.DiscardLogger))
	if err != nil {
		fatal(err)
	}
	if err := sys.Start(ctx); err != nil {
		fatal(err)
	}
	d := &driver{sys: sys, obs: obs, dw: actor.VerifDeathWatch(sys), stats: st}
	sub, err := sys.Subscribe()
	if err != nil {
		fatal(err)
	}
	d.drain = func() {
		for msg := range sub.Iterator() {
			var name, kind string
			switch e := msg.Payload().(type) {
			case *actor.ActorSuspended:
				name, kind = e.ActorPath().Name(), "susp"
			case *actor.ActorReinstated:
				name, kind = e.ActorPath().Name(), "rein"
			case *actor.ActorRestarted:
				name, kind = e.ActorPath().Name(), "rest"
			case *actor.ActorStopped:
				name, kind = e.ActorPath().Name(), "stop"
			case *actor.ActorStarted:
				name, kind = e.ActorPath().Name(), "start"
			default:
				continue
			}
			if v, ok := d.names.Load(name); ok {
				m := v.(*member)
				m.mu.Lock()
				m.ev[kind]++
				m.mu.Unlock()
			}
		}
	}
	return d
}

func idle(pid *actor.PID) bool {
	user, system := actor.VerifMailboxesOf(pid)
	return actor.VerifSchedValue(pid) == 0 && user.IsEmpty() && system.IsEmpty()
}

func (d *driver) quiet(f *family) bool {
	if f.inflight.Load() != 0 {
		return false
	}
	for _, n := range f.names {
		if !idle(f.members[n].pid) {
			return false
		}
	}
	return idle(d.dw)
}

// waitQuiet returns once the family has come to rest: nothing in flight in the supervision
// machinery, every member and the death watch idle with empty mailboxes, and no hook or
// handler event between two consecutive checks.
func (d *driver) waitQuiet(f *family, limit time.Duration) bool {
	deadline := time.Now().Add(limit)
	for time.Now().Before(deadline) {
		h := f.hooks.Load()
		if d.quiet(f) {
			time.Sleep(150 * time.Microsecond)
			if f.hooks.Load() == h && d.quiet(f) && f.hooks.Load() == h {
				return true
			}
			continue
		}
		time.Sleep(100 * time.Microsecond)
	}
	return false
}

func stateOf(pid *actor.PID) string {
	running, suspended, _ := actor.VerifLifecycleFlags(pid)
	switch {
	case !running:
		return "stopped"
	case suspended:
		return "suspended"
	}
	return "running"
}

var evKinds = []string{"susp", "rein", "rest", "stop", "start"}

func (d *driver) observe(ctx context.Context, f *family, before map[string]int64) map[string]any {
	d.drain()
	st, inc, rc, mk, flt, ps, esc, intree, q, x := map[string]any{}, map[string]any{}, map[string]any{}, map[string]any{},
		map[string]any{}, map[string]any{}, map[string]any{}, map[string]any{}, map[string]any{}, map[string]any{}
	ev := map[string]any{}
	win := windowOf(f.b.Cfg).Nanoseconds()
	for _, n := range f.names {
		m := f.members[n]
		st[n] = stateOf(m.pid)
		m.mu.Lock()
		inc[n], mk[n], ps[n], esc[n] = m.prestarts, m.marker, m.poststops, m.sigs
		e := map[string]any{}
		for _, k := range evKinds {
			e[k] = m.ev[k]
			m.ev[k] = 0
		}
		m.mu.Unlock()
		ev[n] = e
		rc[n] = m.pid.RestartCount()
		fc, last := actor.VerifFaultState(m.pid)
		flt[n] = fc
		// the window rule exactly as recordFault applies it, on the real timestamps
		prev := before[n]
		x[n] = last != prev && win > 0 && prev > 0 && last-prev > win
		in, _ := actor.VerifInTree(m.pid)
		intree[n] = in
		ans := -1
		if r, err := actor.Ask(ctx, m.pid, &queryMsg{}, 3*time.Second); err == nil {
			if rp, ok := r.(*reply); ok {
				ans = rp.Marker
			} else {
				ans = -3
			}
		} else if !errors.Is(err, gerrors.ErrDead) {
			ans = -2
			d.stats.askTimeouts.Add(1)
		}
		q[n] = ans
	}
	return map[string]any{"op": "Obs", "st": st, "inc": inc, "rc": rc, "mk": mk, "flt": flt, "ps": ps, "esc": esc,
		"intree": intree, "ev": ev, "q": q, "x": x}
}

func (d *driver) lastFaults(f *family) map[string]int64 {
	r := map[string]int64{}
	for _, n := range f.names {
		_, last := actor.VerifFaultState(f.members[n].pid)
		r[n] = last
	}
	return r
}

func (d *driver) runBehaviour(ctx context.Context, id int, b *behaviour) []map[string]any {
	f := &family{id: id, b: b, members: map[string]*member{}}
	f.names = append([]string{"g", "p"}, b.Kids...)
	suffix := "-" + strconv.Itoa(id)
	mk := func(name string) (*member, *testActor) {
		m := &member{fam: f, name: name, ev: map[string]int{}}
		f.members[name] = m
		d.names.Store(name+suffix, m)
		return m, &testActor{m: m}
	}
	reg := func(m *member, pid *actor.PID, err error) {
		if err != nil {
			fatal("spawn", m.name, err)
		}
		m.pid = pid
		d.obs.byPID.Store(pid, m)
	}
	csup := buildSupervisor(b.Cfg)
	psup := supervisor.NewSupervisor(supervisor.WithAnyErrorDirective(dirOf(b.Pcfg.Dir)))
	gm, ga := mk("g")
	gp, err := d.sys.Spawn(ctx, "g"+suffix, ga, actor.WithLongLived(),
		actor.WithSupervisor(supervisor.NewSupervisor(supervisor.WithAnyErrorDirective(supervisor.ResumeDirective))))
	reg(gm, gp, err)
	pm, pa := mk("p")
	pp, err := gp.SpawnChild(ctx, "p"+suffix, pa, actor.WithLongLived(), actor.WithSupervisor(psup))
	reg(pm, pp, err)
	for _, k := range b.Kids {
		km, ka := mk(k)
		sup := csup
		if k == "c2" && b.Cfg.Mix {
			other := b.Cfg
			if other.Strat == "all" {
				other.Strat = "one"
			} else {
				other.Strat = "all"
			}
			sup = buildSupervisor(other)
		}
		kp, err := pp.SpawnChild(ctx, k+suffix, ka, actor.WithLongLived(), actor.WithSupervisor(sup))
		reg(km, kp, err)
	}
	f.log(map[string]any{"op": "New", "cfg": b.Cfg, "pcfg": b.Pcfg})
	if !d.waitQuiet(f, 10*time.Second) {
		d.stats.notQuiet.Add(1)
	}
	d.evMu.Lock()
	d.drain()
	for _, n := range f.names { // the spawn events are not part of the trace
		m := f.members[n]
		m.mu.Lock()
		for _, k := range evKinds {
			m.ev[k] = 0
		}
		m.mu.Unlock()
	}
	d.evMu.Unlock()

	for i, o := range b.Ops {
		d.stats.ops.Add(1)
		before := d.lastFaults(f)
		f.mu.Lock()
		opStart := len(f.lines) // index of the first line this operation will write
		f.mu.Unlock()
		switch o.Op {
		case "Fault":
			when := "quiet"
			if o.When == "pending" {
				// overlap witness: wait until the previous operation has spawned its restartChild
				// goroutines and the parent has finished handlePanicking, then fail the target
				// while those goroutines are still pending
				when = "pending"
				deadline := time.Now().Add(5 * time.Second)
				for time.Now().Before(deadline) && !(f.restarts.Load() > 0 && idle(f.members[parentOf(o.A)].pid)) {
					time.Sleep(100 * time.Microsecond)
				}
				if f.restarts.Load() == 0 {
					f.log(map[string]any{"op": "NotQuiet", "why": "no pending restart to overlap with"})
				}
			}
			// mark the user state of every running member, then make the target fail
			for _, n := range f.names {
				_ = actor.Tell(ctx, f.members[n].pid, &setMsg{})
			}
			if when == "quiet" && !d.waitQuiet(f, 10*time.Second) {
				d.stats.notQuiet.Add(1)
			}
			res := "ok"
			f.mu.Lock() // the op line must precede the handler's line
			if err := actor.Tell(ctx, f.members[o.A].pid, &faultMsg{E: o.E}); err != nil {
				res = "dead"
			}
			f.lines = append(f.lines, map[string]any{"op": "Fault", "a": o.A, "e": o.E, "res": res, "when": when})
			opLine := len(f.lines)
			f.mu.Unlock()
			f.hooks.Add(1)
			if when == "pending" && res == "ok" {
				// a failure command that was wiped with the mailbox by the pending restart was never
				// executed: the behaviour cannot be judged
				if !d.waitQuiet(f, 20*time.Second) {
					d.stats.notQuiet.Add(1)
				}
				handled := false
				f.mu.Lock()
				for _, l := range f.lines[opLine:] {
					if l["op"] == "Handle" && l["a"] == o.A && l["k"] == "Fault" {
						handled = true
					}
				}
				f.mu.Unlock()
				if !handled {
					f.log(map[string]any{"op": "NotQuiet", "why": "overlapping failure command lost with the mailbox"})
				}
			}
		case "Tick":
			f.log(map[string]any{"op": "Tick"})
			time.Sleep(tickSleep)
		case "Reinstate":
			m := f.members[o.A]
			par := f.members[parentOf(o.A)]
			res := "ok"
			if err := par.pid.Reinstate(m.pid); err != nil {
				res = "err"
			}
			f.log(map[string]any{"op": "Reinstate", "a": o.A, "res": res})
		default:
			fatal("unknown op", o.Op)
		}
		if i+1 < len(b.Ops) && b.Ops[i+1].When == "pending" {
			continue // the next failure overlaps with the effects of this one: no quiescence, no observation
		}
		if !d.waitQuiet(f, 20*time.Second) {
			d.stats.notQuiet.Add(1)
			f.log(map[string]any{"op": "NotQuiet", "why": "family did not come to rest"})
		}
		d.evMu.Lock()
		obs := d.observe(ctx, f, before)
		d.evMu.Unlock()
		if o.Op == "Fault" && o.When != "pending" && (i == 0 || b.Ops[i-1].Op != "Tick") {
			// the machine was so slow that a fault recorded now found its predecessor older than the
			// short window although the behaviour did not ask for a Tick: say so in the trace (the
			// monitor judges on the measured flags anyway; this keeps the conformance spec in step)
			for _, v := range obs["x"].(map[string]any) {
				if v.(bool) {
					f.mu.Lock()
					f.lines = append(f.lines[:opStart], append([]map[string]any{{"op": "Tick", "implicit": true}}, f.lines[opStart:]...)...)
					f.mu.Unlock()
					d.stats.implicitTicks.Add(1)
					break
				}
			}
		}
		f.log(obs)
	}
	// tear the family down
	_ = gp.Shutdown(ctx)
	for _, n := range f.names {
		d.obs.byPID.Delete(f.members[n].pid)
		d.names.Delete(n + suffix)
	}
	d.stats.behaviours.Add(1)
	return f.lines
}

func main() {
	if len(os.Args) != 5 || os.Args[1] != "replay" {
		fatal("usage: supervision replay <behaviours.ndjson> <trace.ndjson> <parallel>")
	}
	behaviours, err := vtrace.ReadLines[behaviour](os.Args[2])
	if err != nil {
		fatal(err)
	}
	w, err := vtrace.Create(os.Args[3])
	if err != nil {
		fatal(err)
	}
	par, _ := strconv.Atoi(os.Args[4])
	if par < 1 {
		par = 1
	}
	ctx := context.Background()
	obs := &observer{}
	verifhook.Install(obs)
	st := &stats{}
	results := make([][]map[string]any, len(behaviours))
	var wg sync.WaitGroup
	next := atomic.Int64{}
	// one actor system per worker: its event stream, supervision consumer and death watch
	// are then used by one family at a time
	for i := 0; i < par; i++ {
		wg.Add(1)
		go func(i int) {
			defer wg.Done()
			d := newDriver(ctx, "verif"+strconv.Itoa(i), obs, st)
			for {
				k := int(next.Add(1)) - 1
				if k >= len(behaviours) {
					break
				}
				results[k] = d.runBehaviour(ctx, k, &behaviours[k])
			}
			_ = d.sys.Stop(ctx)
		}(i)
	}
	wg.Wait()
	for _, lines := range results {
		for _, l := range lines {
			w.Raw(l)
		}
	}
	n := w.Count()
	if err := w.Close(); err != nil {
		fatal(err)
	}
	verifhook.Uninstall()
	out, _ := json.Marshal(map[string]any{"behaviours": st.behaviours.Load(), "ops": st.ops.Load(),
		"events": n, "not_quiet": st.notQuiet.Load(), "ask_timeouts": st.askTimeouts.Load(), "implicit_ticks": st.implicitTicks.Load()})
	fmt.Println(string(out))
}
