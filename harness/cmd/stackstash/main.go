// Command stackstash executes TLC-generated behaviours of specs/StackStash on a REAL
// goakt actor system (in-process, no remoting/cluster) and records an NDJSON trace
// for the Trace_*.tla monitors.
//
//	stackstash replay stack|stash|restash <behaviours.ndjson> <trace.ndjson>
//
// One fresh actor per behaviour. The actor is a puppet: every behavior function
// (Receive = "D", BehA/BehB/BehC = "A"/"B"/"C") parks at its entry, reports which
// function was invoked for which message, and then executes exactly the switch /
// stash calls the driver hands it, on its own ReceiveContext, before returning.
// The driver is the single sender, so the order of enqueues relative to the
// handler's calls is exactly the order of the TLC behaviour.  Quiescence is
// detected logically (handler parked, or dispatch state idle with empty
// mailboxes), never by sleeping.
package main

import (
	"context"
	"errors"
	"fmt"
	"os"
	"reflect"
	"runtime"
	"sync"
	"sync/atomic"
	"time"

	"github.com/tochemey/goakt/v4/actor"
	gerrors "github.com/tochemey/goakt/v4/errors"
	"github.com/tochemey/goakt/v4/internal/commands"
	"github.com/tochemey/goakt/v4/log"
	"github.com/tochemey/goakt/v4/reentrancy"
	"github.com/tochemey/goakt/v4/supervisor"
	"github.com/tochemey/goakt/v4/verifharness/vtrace"
)

type step struct {
	Op     string `json:"op"`
	B      string `json:"b"`
	ID     int    `json:"id"`
	Err    string `json:"err"`
	H      string `json:"h"`
	Buffer bool   `json:"buffer"`
	Kind   string `json:"kind"`
}

// Msg is the user message; identity = ID (clones share the pointer).
type Msg struct{ ID int }

// Reply answers an Ask-delivered Msg.
type Reply struct{ ID int }

// Req / Resp travel between the puppet and a responder through ctx.Request.
type Req struct{ K int }
type Resp struct{ K int }

type entry struct {
	h   string
	ctx *actor.ReceiveContext
	msg *Msg
	ptr bool // ctx.Message() is the very object that was sent
}

type cmd struct {
	op string
	b  string
	k  int        // Request: request number
	to *actor.PID // Request: responder
}

type opResult struct {
	err string
}

type puppet struct {
	parked  atomic.Pointer[entry]
	cmds    chan cmd
	res     chan opResult
	sentBy  map[int]*Msg
	mu      sync.Mutex
	foreign atomic.Int64 // handler invocations with a nil / unknown payload (never expected)
	done    []int        // request numbers in completion-callback order (negative: completed with an error)
}

func newPuppet() *puppet {
	return &puppet{cmds: make(chan cmd), res: make(chan opResult), sentBy: map[int]*Msg{}}
}

func (p *puppet) PreStart(*actor.Context) error { return nil }
func (p *puppet) PostStop(*actor.Context) error { return nil }

func (p *puppet) Receive(ctx *actor.ReceiveContext) { p.handle("D", ctx) }
func (p *puppet) BehA(ctx *actor.ReceiveContext)    { p.handle("A", ctx) }
func (p *puppet) BehB(ctx *actor.ReceiveContext)    { p.handle("B", ctx) }
func (p *puppet) BehC(ctx *actor.ReceiveContext)    { p.handle("C", ctx) }

func (p *puppet) behavior(b string) actor.Behavior {
	switch b {
	case "A":
		return p.BehA
	case "B":
		return p.BehB
	case "C":
		return p.BehC
	}
	panic("unknown behavior " + b)
}

func classify(err error) string {
	switch {
	case err == nil:
		return ""
	case errors.Is(err, gerrors.ErrStashBufferNotSet):
		return "nobuffer"
	case err.Error() == "stash buffer may be closed":
		return "empty"
	default:
		return "other:" + err.Error()
	}
}

func (p *puppet) handle(h string, ctx *actor.ReceiveContext) {
	m, ok := ctx.Message().(*Msg)
	if !ok {
		if _, start := ctx.Message().(*actor.PostStart); !start {
			p.foreign.Add(1) // a payload nobody sent: nil (recycled context) or foreign traffic
		}
		return
	}
	p.mu.Lock()
	orig := p.sentBy[m.ID]
	p.mu.Unlock()
	p.parked.Store(&entry{h: h, ctx: ctx, msg: m, ptr: orig == m})
	var lastErr error
	stashed := false
	for c := range p.cmds {
		if c.op == "finish" {
			break
		}
		if c.op == "panic" {
			// the behavior fails while handling its message; the supervisor decides (stack mode: Restart)
			p.parked.Store(nil)
			p.res <- opResult{}
			panic("stackstash: scripted failure")
		}
		ctx.Err(nil)
		switch c.op {
		case "Become":
			ctx.Become(p.behavior(c.b))
		case "BecomeStacked":
			ctx.BecomeStacked(p.behavior(c.b))
		case "UnBecomeStacked":
			ctx.UnBecomeStacked()
		case "UnBecome":
			ctx.UnBecome()
		case "Stash":
			ctx.Stash()
		case "Unstash":
			ctx.Unstash()
		case "UnstashAll":
			ctx.UnstashAll()
		case "Request":
			k := c.k
			call := ctx.Request(c.to, &Req{K: k}, actor.WithReentrancyMode(reentrancy.StashNonReentrant))
			if call != nil {
				call.Then(func(resp any, err error) {
					p.mu.Lock()
					defer p.mu.Unlock()
					if rp, ok := resp.(*Resp); ok && err == nil && rp.K == k {
						p.done = append(p.done, k)
					} else {
						p.done = append(p.done, -k)
					}
				})
			}
		default:
			panic("unknown op " + c.op)
		}
		err := actor.VerifContextErr(ctx)
		if err != nil {
			lastErr = err
		} else if c.op == "Stash" {
			stashed = true
		}
		p.res <- opResult{err: classify(err)}
	}
	if !stashed {
		// answers an Ask-delivered message; no-op for Tell-delivered ones
		ctx.Response(&Reply{ID: m.ID})
	}
	if lastErr != nil {
		ctx.Err(lastErr) // let the runtime see the recorded error (supervisor: resume)
	}
	p.parked.Store(nil)
	p.res <- opResult{}
}

// signalCtx tells when Ask has reached its select, i.e. after the enqueue.
type signalCtx struct {
	context.Context
	once sync.Once
	ch   chan struct{}
}

func (c *signalCtx) Done() <-chan struct{} {
	c.once.Do(func() { close(c.ch) })
	return c.Context.Done()
}

type askResult struct {
	rid int
	err string
}

type run struct {
	mode    string
	sys     actor.ActorSystem
	sender  *actor.PID
	w       *vtrace.Writer
	pid     *actor.PID
	p       *puppet
	ids     map[uintptr]string
	cur     *entry // handler the driver is currently commanding
	sent    int
	asks    map[int]chan askResult
	buffer  bool
	anomaly int
	done    int
	corrupt bool // the projected lists hit the walk limit: abandon the behaviour

	curStashed bool // the current handler stashed its message successfully
	sendQuiet  bool // restash mode logs the send itself
}

const watchdog = 10 * time.Second

func fatal(a ...any) {
	fmt.Fprintln(os.Stderr, a...)
	os.Exit(3)
}

// progress bookkeeping for the watchdogs (a hang is reported, never judged: the
// recorded part of the trace is still handed to the monitors).
var (
	theRun     *run
	abortOnce  sync.Once
	startedAt  = time.Now()
	lastEvents atomic.Int64
)

func abort(reason string) {
	abortOnce.Do(func() {
		r := theRun
		n := r.w.Count()
		_ = r.w.Close()
		fmt.Printf("{\"behaviours\":%d,\"events\":%d,\"anomalies\":%d,\"wall_ms\":%d,\"hung\":%q}\n",
			r.done, n, r.anomaly, time.Since(startedAt).Milliseconds(), reason)
		os.Exit(0)
	})
	select {}
}

// settle waits until the actor is parked in a handler or fully idle.
func (r *run) settle() *entry {
	deadline := time.Now().Add(watchdog)
	for i := 0; ; i++ {
		if e := r.p.parked.Load(); e != nil {
			return e
		}
		if r.pid.VerifIdle() {
			// a handler may have parked between the two reads
			if e := r.p.parked.Load(); e != nil {
				return e
			}
			return nil
		}
		if i%64 == 63 {
			runtime.Gosched()
			if time.Now().After(deadline) {
				abort("watchdog: actor neither parked nor idle for 10s")
			}
		}
	}
}

func fptr(b actor.Behavior) uintptr { return reflect.ValueOf(b).Pointer() }

func (r *run) stackIDs() []string {
	out := []string{}
	for _, b := range r.pid.VerifBehaviors() {
		id, ok := r.ids[fptr(b)]
		if !ok {
			id = "?"
		}
		out = append(out, id)
	}
	return out
}

func msgIDs(msgs []any) []int {
	out := []int{}
	for _, m := range msgs {
		if mm, ok := m.(*Msg); ok {
			out = append(out, mm.ID)
		} else {
			out = append(out, -1)
		}
	}
	return out
}

// state projects the real actor (only called while it is parked or idle).
func (r *run) state(ev map[string]any) map[string]any {
	e := r.settle()
	mb := []int{}
	if e != nil && e != r.cur {
		mb = append(mb, e.msg.ID) // dequeued by the runtime, parked, not yet taken by the driver
	}
	if r.mode == "stack" {
		// C14 traces carry only the behavior stack projection
		ev["stk"] = r.stackIDs()
		ev["len"] = r.pid.VerifBehaviorLen()
		return ev
	}
	msgs, intrusive := r.pid.VerifMailboxMessages()
	mb = append(mb, msgIDs(msgs)...)
	st, hasBuf := r.pid.VerifStashMessages()
	if len(msgs) >= 4096 || len(st) >= 4096 {
		r.corrupt = true // cyclic list
		mb, st = mb[:1], st[:0]
	}
	ev["foreign"] = r.p.foreign.Load()
	if !intrusive {
		// only the length of a non-intrusive mailbox can be projected
		ev["mlen"] = int64(len(mb)) + r.pid.VerifMailboxLen()
	} else {
		ev["mbox"] = mb
	}
	ev["stash"] = msgIDs(st)
	ev["hasbuf"] = hasBuf
	ev["ssize"] = int(r.pid.StashSize())
	return ev
}

func (r *run) via(id int) string {
	if r.mode == "stack" {
		return "tell"
	}
	switch id % 3 {
	case 2:
		return "ask"
	case 0:
		return "pidtell"
	}
	return "tell"
}

func (r *run) send() int {
	r.sent++
	id := r.sent
	m := &Msg{ID: id}
	r.p.mu.Lock()
	r.p.sentBy[id] = m
	r.p.mu.Unlock()
	ctx := context.Background()
	res := ""
	switch r.via(id) {
	case "tell":
		if err := actor.Tell(ctx, r.pid, m); err != nil {
			res = err.Error()
		}
	case "pidtell":
		if err := r.sender.Tell(ctx, r.pid, m); err != nil {
			res = err.Error()
		}
	case "ask":
		sc := &signalCtx{Context: ctx, ch: make(chan struct{})}
		ch := make(chan askResult, 1)
		r.asks[id] = ch
		go func() {
			reply, err := actor.Ask(sc, r.pid, m, 2*watchdog)
			sc.once.Do(func() { close(sc.ch) })
			if err != nil {
				ch <- askResult{err: err.Error()}
				return
			}
			if rp, ok := reply.(*Reply); ok {
				ch <- askResult{rid: rp.ID}
			} else {
				ch <- askResult{err: fmt.Sprintf("unexpected reply %T", reply)}
			}
		}()
		<-sc.ch
	}
	if r.mode == "stack" || r.sendQuiet {
		if res != "" {
			fatal("send failed:", res)
		}
		return id // C14: the send is part of the model's Deliver step; restash: logged by the caller
	}
	r.w.Raw(r.state(map[string]any{"op": "Send", "id": id, "via": r.via(id), "res": res}))
	return id
}

// finish lets the current handler return and, for an Ask-delivered message that was
// answered, collects the reply.
func (r *run) finish() {
	if r.cur == nil {
		return
	}
	r.p.cmds <- cmd{op: "finish"}
	<-r.p.res
	r.cur = nil
}

func (r *run) collectReply(id int, expect bool) {
	ch, ok := r.asks[id]
	if !ok || !expect {
		return
	}
	select {
	case a := <-ch:
		delete(r.asks, id)
		r.w.Raw(map[string]any{"op": "Reply", "id": id, "rid": a.rid, "err": a.err})
		if a.err != "" || a.rid != id {
			r.anomaly++
		}
	case <-time.After(3 * time.Second):
		r.w.Raw(map[string]any{"op": "Reply", "id": id, "rid": 0, "err": "no reply within 3s"})
		r.anomaly++
	}
}

// deliver: the previous handler returns, then the next message (if any) is handled.
func (r *run) deliver() *entry {
	prev := r.cur
	prevStashed := r.curStashed
	r.finish()
	if prev != nil {
		r.collectReply(prev.msg.ID, !prevStashed)
	}
	e := r.settle()
	r.cur = e
	r.curStashed = false
	ev := map[string]any{"op": "Deliver"}
	if e == nil {
		ev["id"] = 0
		ev["h"] = "none"
		ev["sender"] = ""
		ev["ptr"] = true
	} else if r.mode == "stack" {
		ev["id"] = e.msg.ID
		ev["h"] = e.h
	} else {
		ev["id"] = e.msg.ID
		ev["h"] = e.h
		ev["ptr"] = e.ptr && e.ctx.Self() == r.pid
		s := e.ctx.Sender()
		switch {
		case s == nil:
			ev["sender"] = "nil"
		case s.Equals(r.sys.NoSender()):
			ev["sender"] = "nosender"
		case s.Equals(r.sender):
			ev["sender"] = "S"
		default:
			ev["sender"] = "other"
		}
	}
	r.w.Raw(r.state(ev))
	return e
}

func (r *run) op(c cmd) {
	ev := map[string]any{"op": c.op, "b": c.b}
	if r.cur == nil {
		ev["err"] = "nohandler"
		ev["h"] = "none"
		ev["id"] = 0
		r.w.Raw(r.state(ev))
		return
	}
	r.p.cmds <- c
	res := <-r.p.res
	if c.op == "Stash" && res.err == "" {
		r.curStashed = true
	}
	ev["err"] = res.err
	ev["h"] = r.cur.h
	ev["id"] = r.cur.msg.ID
	r.w.Raw(r.state(ev))
}

// behaviour executes one TLC behaviour on a fresh actor.
func (r *run) behaviour(n int, steps []step) {
	ctx := context.Background()
	r.p = newPuppet()
	r.cur, r.curStashed, r.sent, r.corrupt = nil, false, 0, false
	r.asks = map[int]chan askResult{}
	r.buffer = false
	kind := "unbounded"
	if len(steps) > 0 && steps[0].Op == "Init" {
		r.buffer = steps[0].Buffer
		if steps[0].Kind != "" {
			kind = steps[0].Kind
		}
		steps = steps[1:]
	}
	sup := supervisor.NewSupervisor(supervisor.WithAnyErrorDirective(supervisor.ResumeDirective))
	if r.mode == "stack" {
		// C14: a panicking behavior is restarted by its supervisor (no stash errors occur in this mode)
		sup = supervisor.NewSupervisor(supervisor.WithDirective(&gerrors.PanicError{}, supervisor.RestartDirective))
	}
	opts := []actor.SpawnOption{actor.WithSupervisor(sup), actor.WithLongLived()}
	if r.buffer {
		opts = append(opts, actor.WithStashing())
	}
	switch kind {
	case "unbounded": // default intrusive UnboundedMailbox
	case "bounded":
		opts = append(opts, actor.WithMailbox(actor.NewBoundedMailbox(64)))
	case "ring":
		opts = append(opts, actor.WithMailbox(actor.NewNonBlockingBoundedMailbox(64)))
	case "prio": // constant priority: the stable heap is FIFO
		opts = append(opts, actor.WithMailbox(actor.NewUnboundedStablePriorityMailbox(func(any, any) bool { return false })))
	case "segmented":
		opts = append(opts, actor.WithMailbox(actor.NewUnboundedSegmentedMailbox()))
	default:
		fatal("unknown mailbox kind", kind)
	}
	if r.mode == "restash" {
		opts = append(opts, actor.WithReentrancy(reentrancy.New(reentrancy.WithMode(reentrancy.StashNonReentrant))))
	}
	pid, err := r.sys.Spawn(ctx, fmt.Sprintf("puppet-%d", n), r.p, opts...)
	if err != nil {
		fatal("spawn:", err)
	}
	r.pid = pid
	r.ids = map[uintptr]string{
		fptr(pid.VerifDefaultBehavior()): "D",
		fptr(r.p.BehA):                   "A",
		fptr(r.p.BehB):                   "B",
		fptr(r.p.BehC):                   "C",
	}
	if len(r.ids) != 4 {
		fatal("behavior functions are not distinguishable by code pointer")
	}
	r.settle() // PostStart handled
	r.w.Raw(r.state(map[string]any{"op": "New", "buffer": r.buffer, "kind": kind}))

	if r.mode == "restash" {
		r.restash(n, steps)
		steps = nil
	}
	for _, s := range steps {
		if r.corrupt {
			break
		}
		switch s.Op {
		case "Send":
			r.send()
		case "Deliver":
			if r.mode == "stack" {
				// C14: every Deliver is a fresh message sent after the previous handler returned
				prev := r.cur
				r.finish()
				_ = prev
				r.settle()
				r.send()
			}
			r.deliver()
		case "Become", "BecomeStacked", "UnBecomeStacked", "UnBecome", "Stash", "Unstash", "UnstashAll":
			r.op(cmd{op: s.Op, b: s.B})
		case "Crash":
			// the current handler panics; the supervisor (directive Restart) restarts the suspended actor
			ev := map[string]any{"op": "Crash", "err": "", "h": "none", "running": true}
			if r.cur == nil {
				ev["err"] = "nohandler"
			} else {
				ev["h"] = r.cur.h
				before := r.pid.RestartCount()
				r.p.cmds <- cmd{op: "panic"}
				<-r.p.res
				r.cur = nil
				deadline := time.Now().Add(watchdog)
				for r.pid.RestartCount() == before || !r.pid.IsRunning() {
					if time.Now().After(deadline) {
						ev["err"] = "not restarted within 10s"
						break
					}
					time.Sleep(50 * time.Microsecond)
				}
				ev["running"] = r.pid.IsRunning()
			}
			r.w.Raw(r.state(ev))
		case "Restart":
			// PID.Restart from outside, between two messages
			r.finish()
			r.settle()
			res := ""
			if err := r.pid.Restart(ctx); err != nil {
				res = err.Error()
			}
			ev := map[string]any{"op": "Restart", "err": res, "h": "none", "running": r.pid.IsRunning()}
			r.w.Raw(r.state(ev))
		default:
			fatal("unknown step", s.Op)
		}
	}
	// ---- epilogue: make the remaining state observable through the public behaviour
	if r.mode == "restash" {
		// done in restash()
	} else if r.mode == "stack" {
		// pop the whole stack, one UnBecomeStacked per message, until nothing handles messages
		for i := 0; i < len(steps)+3; i++ {
			r.finish()
			r.settle()
			r.send()
			if e := r.deliver(); e == nil {
				break
			}
			r.op(cmd{op: "UnBecomeStacked"})
		}
	} else {
		// drain the mailbox, then release the whole stash and drain again
		r.drain()
		if r.buffer && !r.corrupt {
			r.send()
			if r.deliver() != nil {
				r.op(cmd{op: "UnstashAll"})
				r.drain()
			}
		}
	}
	r.finish()
	r.settle()
	for id := range r.asks {
		r.w.Raw(map[string]any{"op": "Reply", "id": id, "rid": 0, "err": "unanswered at the end"})
		r.anomaly++
	}
	if r.corrupt {
		r.anomaly += 5
		r.w.Raw(map[string]any{"op": "Corrupt"})
	}
	sctx, cancel := context.WithTimeout(ctx, 5*time.Second)
	defer cancel()
	if err := pid.Shutdown(sctx); err != nil && !r.corrupt {
		fatal("shutdown:", err)
	}
}

// drain delivers until the actor is idle; bounded, because a corrupted mailbox may
// deliver for ever.
func (r *run) drain() {
	for i := 0; i < 64 && !r.corrupt; i++ {
		if r.deliver() == nil {
			return
		}
	}
	r.corrupt = true
}

// responder answers one Req when the driver releases it.
type responder struct {
	arrived chan struct{}
	release chan struct{}
	done    chan struct{}
}

func (*responder) PreStart(*actor.Context) error { return nil }
func (*responder) PostStop(*actor.Context) error { return nil }
func (q *responder) Receive(ctx *actor.ReceiveContext) {
	rq, ok := ctx.Message().(*Req)
	if !ok {
		return
	}
	q.arrived <- struct{}{}
	<-q.release
	ctx.Response(&Resp{K: rq.K})
	q.done <- struct{}{}
}

// ---- mode "restash": the eager model of ReStash.tla -- every step ends settled and a
// parked handler is taken over immediately.
func (r *run) rlog(op string, id int, extra map[string]any) {
	e := r.settle()
	prev := r.cur
	r.cur = e
	if e != prev {
		r.curStashed = false
	}
	ev := map[string]any{"op": op, "id": id}
	for k, v := range extra {
		ev[k] = v
	}
	if e == nil {
		ev["cur"], ev["h"], ev["ok"] = 0, "none", true
	} else {
		ev["cur"], ev["h"] = e.msg.ID, e.h
		s := e.ctx.Sender()
		want := "nosender"
		if e.msg.ID%3 == 0 {
			want = "S"
		}
		got := "other"
		switch {
		case s == nil:
			got = "nil"
		case s.Equals(r.sys.NoSender()):
			got = "nosender"
		case s.Equals(r.sender):
			got = "S"
		}
		ev["ok"] = e.ptr && e.ctx.Self() == r.pid && got == want
	}
	msgs, _ := r.pid.VerifMailboxMessages()
	mb := []int{}
	for _, m := range msgs {
		switch mm := m.(type) {
		case *Msg:
			mb = append(mb, mm.ID)
		case *commands.AsyncResponse:
			if rp, ok := mm.Message.(*Resp); ok {
				mb = append(mb, -rp.K)
			} else {
				mb = append(mb, -99)
			}
		default:
			mb = append(mb, -98)
		}
	}
	st, hasBuf := r.pid.VerifStashMessages()
	if len(msgs) >= 4096 || len(st) >= 4096 {
		r.corrupt = true
		mb, st = mb[:1], st[:0]
	}
	r.p.mu.Lock()
	done := append([]int{}, r.p.done...)
	r.p.mu.Unlock()
	ev["mbox"], ev["stash"], ev["hasbuf"] = mb, msgIDs(st), hasBuf
	ev["ssize"] = int(r.pid.StashSize())
	ev["blocking"] = r.pid.VerifBlockingRequests()
	ev["done"] = done
	r.w.Raw(ev)
}

func (r *run) restashStep(s step, n int, resp map[int]*responder, rpids *[]*actor.PID) {
	ctx := context.Background()
	switch s.Op {
	case "Send":
		r.sendQuiet = true
		id := r.send()
		r.sendQuiet = false
		r.rlog("Send", id, nil)
	case "Request":
		if r.cur == nil {
			r.rlog("Request", s.ID, map[string]any{"err": "nohandler"})
			return
		}
		q := &responder{arrived: make(chan struct{}, 1), release: make(chan struct{}), done: make(chan struct{}, 1)}
		qp, err := r.sys.Spawn(ctx, fmt.Sprintf("resp-%d-%d", n, s.ID), q, actor.WithLongLived())
		if err != nil {
			fatal("spawn responder:", err)
		}
		resp[s.ID] = q
		*rpids = append(*rpids, qp)
		r.p.cmds <- cmd{op: "Request", k: s.ID, to: qp}
		res := <-r.p.res
		if res.err == "" {
			select {
			case <-q.arrived:
			case <-time.After(watchdog):
				abort("watchdog: request did not reach the responder")
			}
		}
		r.rlog("Request", s.ID, map[string]any{"err": res.err})
	case "Respond":
		q := resp[s.ID]
		if q == nil {
			r.rlog("Respond", s.ID, map[string]any{"err": "norequest"})
			return
		}
		delete(resp, s.ID)
		q.release <- struct{}{}
		<-q.done
		r.rlog("Respond", s.ID, map[string]any{"err": ""})
	case "Finish":
		prev, prevStashed := r.cur, r.curStashed
		id := 0
		if prev != nil {
			id = prev.msg.ID
		}
		r.finish()
		if prev != nil {
			r.collectReply(prev.msg.ID, !prevStashed)
		}
		r.rlog("Finish", id, nil)
	default:
		fatal("unknown restash step", s.Op)
	}
}

func (r *run) restash(n int, steps []step) {
	resp := map[int]*responder{}
	var rpids []*actor.PID
	nreq := 0
	for _, s := range steps {
		if r.corrupt {
			break
		}
		if s.Op == "Request" {
			nreq = s.ID
		}
		r.restashStep(s, n, resp, &rpids)
	}
	// epilogue: answer every open request, then let every parked handler return until idle
	for k := 1; k <= nreq && !r.corrupt; k++ {
		if resp[k] != nil {
			r.restashStep(step{Op: "Respond", ID: k}, n, resp, &rpids)
		}
	}
	for i := 0; r.cur != nil && !r.corrupt; i++ {
		if i >= 64 {
			r.corrupt = true
			break
		}
		r.restashStep(step{Op: "Finish"}, n, resp, &rpids)
	}
	for _, q := range rpids {
		sctx, cancel := context.WithTimeout(context.Background(), 5*time.Second)
		_ = q.Shutdown(sctx)
		cancel()
	}
}

type sink struct{}

func (sink) PreStart(*actor.Context) error { return nil }
func (sink) PostStop(*actor.Context) error { return nil }
func (sink) Receive(*actor.ReceiveContext) {}

func main() {
	if len(os.Args) != 5 || os.Args[1] != "replay" || (os.Args[2] != "stack" && os.Args[2] != "stash" && os.Args[2] != "restash") {
		fmt.Fprintln(os.Stderr, "usage: stackstash replay stack|stash|restash <behaviours> <trace>")
		os.Exit(2)
	}
	behaviours, err := vtrace.ReadLines[[]step](os.Args[3])
	if err != nil {
		fatal(err)
	}
	w, err := vtrace.Create(os.Args[4])
	if err != nil {
		fatal(err)
	}
	ctx := context.Background()
	t0 := time.Now()
	sys, err := actor.NewActorSystem("verif", actor.WithLogger(log.DiscardLogger))
	if err != nil {
		fatal(err)
	}
	if err := sys.Start(ctx); err != nil {
		fatal(err)
	}
	sender, err := sys.Spawn(ctx, "S", sink{}, actor.WithLongLived())
	if err != nil {
		fatal(err)
	}
	r := &run{mode: os.Args[2], sys: sys, sender: sender, w: w}
	theRun = r
	finished := make(chan struct{})
	go func() {
		for i, b := range behaviours {
			r.behaviour(i, b)
			r.done++
			if r.anomaly > 20 {
				break // every lost reply costs seconds; the monitors have enough to report
			}
		}
		close(finished)
	}()
	tick := time.NewTicker(time.Second)
	last, lastChange := int64(-1), time.Now()
loop:
	for {
		select {
		case <-finished:
			break loop
		case <-tick.C:
			if n := w.Count(); n != last {
				last, lastChange = n, time.Now()
			} else if time.Since(lastChange) > 30*time.Second {
				go abort("watchdog: no trace progress for 30s (goakt call does not return)")
				time.Sleep(5 * time.Second)
				os.Exit(4)
			}
		}
	}
	abortOnce.Do(func() {
		n := w.Count()
		if err := w.Close(); err != nil {
			fatal(err)
		}
		fmt.Printf("{\"behaviours\":%d,\"events\":%d,\"anomalies\":%d,\"wall_ms\":%d,\"hung\":\"\"}\n", r.done, n, r.anomaly, time.Since(t0).Milliseconds())
	})
	done := make(chan struct{})
	go func() { _ = sys.Stop(ctx); close(done) }()
	select {
	case <-done:
	case <-time.After(10 * time.Second):
	}
}
