// Command mailbox drives the REAL goakt mailboxes and records call/return
// histories (NDJSON) for the LinQueue.tla monitor.
//
//	mailbox replay <kind> <behaviours.ndjson> <trace.ndjson>
//	    kind = mpsc | fair: executes TLC behaviours of Mpsc.tla / Fair.tla step by step
//	    through the puppet scheduler (verifhook gates at every atomic step).
//	mailbox stress <kind> <cap> <producers> <msgs> <histories> <seed> <trace.ndjson>
//	    free-running concurrent producers + one consumer on any mailbox kind.
package main

import (
	"encoding/json"
	"fmt"
	"math/rand"
	"os"
	"runtime"
	"strconv"
	"strings"
	"sync"
	"time"

	"github.com/tochemey/goakt/v4/actor"
	"github.com/tochemey/goakt/v4/verifharness/sched"
	"github.com/tochemey/goakt/v4/verifharness/vtrace"
)

// Msg is the payload carried by every test message.
type Msg struct {
	ID   int
	Prio int
}

func prioFunc(a, b any) bool { return a.(*Msg).Prio < b.(*Msg).Prio }

func newMailbox(kind string, capacity int) actor.Mailbox {
	switch kind {
	case "mpsc":
		return actor.NewUnboundedMailbox()
	case "seg":
		return actor.NewUnboundedSegmentedMailbox()
	case "fair":
		return actor.NewUnboundedFairMailbox()
	case "nbring":
		return actor.NewNonBlockingBoundedMailbox(capacity)
	case "bounded":
		return actor.NewBoundedMailbox(capacity)
	case "uprio":
		return actor.NewUnboundedPriorityMailBox(prioFunc)
	case "ustable":
		return actor.NewUnboundedStablePriorityMailbox(prioFunc)
	case "bprio":
		return actor.NewBoundedPriorityMailbox(capacity, prioFunc)
	case "bstable":
		return actor.NewBoundedStablePriorityMailbox(capacity, prioFunc)
	}
	fmt.Fprintln(os.Stderr, "unknown mailbox kind", kind)
	os.Exit(2)
	return nil
}

type step struct {
	A    string `json:"a"`
	Args []any  `json:"args"`
	Res  *int   `json:"res,omitempty"` // model's prediction of the consumer result after this step
}

func fatal(v ...any) {
	fmt.Fprintln(os.Stderr, v...)
	os.Exit(2)
}

type hist struct{ w *vtrace.Writer }

func (h hist) call(t, op string, id int, snd string, prio int) {
	h.w.Emit(map[string]any{"ev": "call", "t": t, "op": op, "id": id, "snd": snd, "prio": prio, "res": 0})
}
func (h hist) ret(t, op string, res int) {
	h.w.Emit(map[string]any{"ev": "ret", "t": t, "op": op, "id": 0, "snd": "", "prio": 0, "res": res})
}

// lbuf is a per-goroutine event buffer: sequence numbers come from one atomic counter (taken before a call
// and after its return), so recording does not serialize the goroutines under test on a lock.
type lbuf struct {
	w   *vtrace.Writer
	evs []map[string]any
}

func (b *lbuf) call(t, op string, id int, snd string, prio int) {
	b.evs = append(b.evs, map[string]any{"seq": b.w.NextSeq(), "ev": "call", "t": t, "op": op, "id": id, "snd": snd, "prio": prio, "res": 0})
}
func (b *lbuf) ret(t, op string, res int) {
	b.evs = append(b.evs, map[string]any{"seq": b.w.NextSeq(), "ev": "ret", "t": t, "op": op, "id": 0, "snd": "", "prio": 0, "res": res})
}

func b2i(b bool) int {
	if b {
		return 1
	}
	return 0
}

func msgID(rc *actor.ReceiveContext) int {
	if rc == nil {
		return 0
	}
	m, ok := rc.Message().(*Msg)
	if !ok || m == nil {
		return -1 // dequeued a context without payload: recycled/corrupted
	}
	return m.ID
}

// ---------------------------------------------------------------- replay (mpsc / fair)

// expected hook point at which a thread must be parked before the model action can run,
// per mailbox kind: Mpsc.tla's Swap/Link are the generic "reserve a position" / "publish it" steps
// (tail SWAP / prev.next store; writeIdx.Add / slot store; enqueuePos CAS / seq store).
var expectPoints = map[string]map[string]string{
	"mpsc":   {"Call": "call", "Swap": "mpsc.enq.swap", "Link": "mpsc.enq.link", "CallDeq": "op", "CallEmpty": "op", "Deq": "mpsc.deq", "Empty": "mpsc.isempty"},
	"seg":    {"Call": "call", "Swap": "seg.enq.add", "Link": "seg.enq.store", "CallDeq": "op", "CallEmpty": "op", "Deq": "seg.deq", "Empty": "seg.isempty"},
	"nbring": {"Call": "call", "Swap": "nbr.enq.reserve", "Link": "nbr.enq.publish", "CallDeq": "op", "CallEmpty": "op", "Deq": "nbr.deq", "Empty": "nbr.isempty"},
	// fair: all producers share ONE sender identity, so they meet in one inner UnboundedMailbox;
	// only the inner reserve/publish steps gate, consumer operations run atomically at their call step
	"fair": {"Call": "call", "Swap": "mpsc.enq.swap", "Link": "mpsc.enq.link", "CallDeq": "op", "CallEmpty": "op", "Deq": "", "Empty": ""},
	// fairfull: behaviours of Fair.tla, every atomic step of the fair mailbox gated
	"fairfull": {"Call": "call", "ISwap": "mpsc.enq.swap", "ILink": "mpsc.enq.link", "Pend": "fair.enq.pending",
		"ActLoad": "fair.enq.actload", "Cas": "fair.enq.cas", "ASwap": "fair.act.swap", "ALink": "fair.act.link",
		"CallDeq": "op", "D0": "fair.deq", "DInner": "mpsc.deq", "DDeact": "fair.deq.deactivate", "DRecheck": "mpsc.isempty",
		"DPend": "fair.deq.pending", "FStore": "fair.fin.store", "FRecheck": "fair.fin.recheck", "CallEmpty": "op", "Empty": "fair.isempty"},
}

type replayStats struct {
	Behaviours   int   `json:"behaviours"`
	Steps        int   `json:"steps"`
	Drift        int   `json:"drift"`
	PredMismatch int   `json:"pred_mismatch"`
	Watchdog     int   `json:"watchdog"`
	Events       int64 `json:"events"`
}

func replay(kind string, behaviours [][]step, h hist, st *replayStats) {
	expectPoint := expectPoints[kind]
	if expectPoint == nil {
		fatal("replay: unknown kind", kind)
	}
	senderOf := func(p string) string { return p }
	if kind == "fair" {
		senderOf = func(string) string { return "shared" }
	}
	if kind == "fairfull" {
		senderOf = func(p string) string {
			if p == "p3" {
				return "s2"
			}
			return "s1"
		}
	}
	for _, b := range behaviours {
		h.w.Raw(map[string]any{"ev": "New"})
		mk := kind
		if kind == "fairfull" {
			mk = "fair"
		}
		m := newMailbox(mk, 8)
		s := sched.New()
		s.Watchdog = 3 * time.Second
		if kind == "fair" {
			s.ControlAll()
			s.OnlyPoints("mpsc.enq.swap", "mpsc.enq.link")
		} else if kind == "fairfull" {
			s.ControlAll()
		} else {
			s.Control(m)
			s.SkipPoints("seg.enq.reserve", "seg.new.reset", "seg.enq.castail")
		}
		// thread programs from the behaviour
		nmsgs := map[string]int{}
		var cops []string
		var order []string
		for _, x := range b {
			switch x.A {
			case "Call":
				p := x.Args[0].(string)
				if nmsgs[p] == 0 {
					order = append(order, p)
				}
				nmsgs[p]++
			case "CallDeq":
				cops = append(cops, "deq")
			case "CallEmpty":
				cops = append(cops, "empty")
			}
		}
		var lastRes int
		var mu sync.Mutex
		for _, p := range order {
			p := p
			rank, _ := strconv.Atoi(p[1:])
			snd := actor.VerifNewSenderPID(senderOf(p))
			n := nmsgs[p]
			if _, err := s.Go(p, func() {
				for k := 1; k <= n; k++ {
					s.Yield("call", 0, 0)
					id := rank*10 + k
					h.call(p, "enq", id, senderOf(p), 0)
					err := m.Enqueue(actor.VerifNewContext(snd, &Msg{ID: id}))
					h.ret(p, "enq", b2i(err == nil))
				}
			}); err != nil {
				fatal("go", err)
			}
		}
		if len(cops) > 0 {
			if _, err := s.Go("c", func() {
				for _, op := range cops {
					s.Yield("op", 0, 0)
					if op == "deq" {
						h.call("c", "deq", 0, "", 0)
						r := msgID(m.Dequeue())
						mu.Lock()
						lastRes = r
						mu.Unlock()
						h.ret("c", "deq", r)
					} else {
						h.call("c", "empty", 0, "", 0)
						e := m.IsEmpty()
						mu.Lock()
						if e {
							lastRes = -1
						} else {
							lastRes = -2
						}
						mu.Unlock()
						h.ret("c", "empty", b2i(e))
					}
				}
			}); err != nil {
				fatal("go", err)
			}
		}
		drift := false
		for _, x := range b {
			t := "c"
			if len(x.Args) > 0 {
				t = x.Args[0].(string)
			}
			if expectPoint[x.A] == "" { // this kind performs the step together with the previous one
				continue
			}
			pend, parked := s.Pending(t)
			if !parked || pend.Done || pend.Point != expectPoint[x.A] {
				drift = true
				break
			}
			if _, err := s.Step(t); err != nil {
				if _, ok := err.(sched.ErrWatchdog); ok {
					st.Watchdog++
				}
				drift = true
				break
			}
			st.Steps++
			if x.Res != nil {
				mu.Lock()
				if lastRes != *x.Res {
					st.PredMismatch++
				}
				mu.Unlock()
			}
		}
		if drift {
			st.Drift++
		}
		s.FreeRun()
		if !s.Join(5 * time.Second) {
			st.Watchdog++
		}
		s.Close()
		// drain what is left through the public API (hooks pass through: gates are open)
		for i := 0; i < 64; i++ {
			h.call("c", "deq", 0, "", 0)
			r := msgID(m.Dequeue())
			h.ret("c", "deq", r)
			if r == 0 {
				break
			}
		}
		h.call("c", "empty", 0, "", 0)
		h.ret("c", "empty", b2i(m.IsEmpty()))
		st.Behaviours++
	}
	h.w.Raw(map[string]any{"ev": "New"})
}

// ---------------------------------------------------------------- stress (all kinds)

func stress(kind string, capacity, nprod, nmsgs, histories int, seed int64, h hist) {
	rng := rand.New(rand.NewSource(seed))
	for i := 0; i < histories; i++ {
		h.w.Raw(map[string]any{"ev": "New"})
		mkind := kind
		fillFirst := false
		if strings.HasSuffix(kind, "_fill") { // the consumer starts only after every producer has finished
			mkind = strings.TrimSuffix(kind, "_fill")
			fillFirst = true
		}
		churn := false
		if strings.HasSuffix(kind, "_churn") { // producers retry rejected messages while the consumer keeps freeing slots
			mkind = strings.TrimSuffix(kind, "_churn")
			churn = true
		}
		storm := false
		if strings.HasSuffix(kind, "_storm") { // like churn, but a rejected producer spins on Enqueue without recording the
			// rejected attempts (one call/ret pair per message): every producer re-reads the freed slot at the same moment
			mkind = strings.TrimSuffix(kind, "_storm")
			churn, storm = true, true
		}
		prefill := 0
		if kind == "segroll" { // segmented mailbox driven across a 256-slot segment boundary
			mkind = "seg"
			prefill = 256 - 1 - rng.Intn(nprod*nmsgs)
		}
		m := newMailbox(mkind, capacity)
		if prefill > 0 {
			// fill and drain sequentially so that the concurrent phase straddles the roll-over
			// (not part of the judged history: sequential, and the queue is empty again afterwards)
			snd := actor.VerifNewSenderPID("pre")
			for k := 0; k < prefill; k++ {
				_ = m.Enqueue(actor.VerifPooledContext(snd, &Msg{ID: 1000 + k}))
			}
			for k := 0; k < prefill; k++ {
				if r := msgID(m.Dequeue()); r != 1000+k {
					h.call("c", "deq", 0, "", 0) // record the anomaly so that the monitor sees it
					h.ret("c", "deq", r)
				}
			}
		}
		var bufs []*lbuf
		var bufMu sync.Mutex
		newBuf := func() *lbuf {
			b := &lbuf{w: h.w}
			bufMu.Lock()
			bufs = append(bufs, b)
			bufMu.Unlock()
			return b
		}
		ch := newBuf() // the consumer's buffer
		var wg sync.WaitGroup
		total := nprod * nmsgs
		var accepted int64
		var accMu sync.Mutex
		prodDone := make(chan struct{})
		for p := 1; p <= nprod; p++ {
			p := p
			name := "p" + strconv.Itoa(p)
			// in fair mode two producers may share one sender identity
			sndName := name
			if kind == "fair" && rng.Intn(3) == 0 {
				sndName = "p1"
			}
			snd := actor.VerifNewSenderPID(sndName)
			prios := make([]int, nmsgs)
			yields := make([]int, nmsgs)
			for k := range prios {
				prios[k] = rng.Intn(3)
				yields[k] = rng.Intn(4)
			}
			wg.Add(1)
			ph := newBuf()
			go func() {
				h := ph
				defer wg.Done()
				for k := 1; k <= nmsgs; k++ {
					for y := 0; y < yields[k-1]; y++ {
						runtime.Gosched()
					}
					id := p*10 + k
					if churn {
						id = p*1000 + k
					}
					if storm {
						rc := actor.VerifPooledContext(snd, &Msg{ID: id, Prio: prios[k-1]})
						h.call(name, "enq", id, sndName, prios[k-1])
						err := m.Enqueue(rc)
						for stop := time.Now().Add(2 * time.Second); err != nil && time.Now().Before(stop); {
							for spin := 0; err != nil && spin < 4096; spin++ {
								err = m.Enqueue(rc)
							}
						}
						h.ret(name, "enq", b2i(err == nil))
						if err == nil {
							accMu.Lock()
							accepted++
							accMu.Unlock()
						}
						continue
					}
					h.call(name, "enq", id, sndName, prios[k-1])
					err := m.Enqueue(actor.VerifPooledContext(snd, &Msg{ID: id, Prio: prios[k-1]}))
					h.ret(name, "enq", b2i(err == nil))
					for tries := 0; churn && err != nil && tries < 30; tries++ { // hammer the near-full level
						h.call(name, "enq", id, sndName, prios[k-1])
						err = m.Enqueue(actor.VerifPooledContext(snd, &Msg{ID: id, Prio: prios[k-1]}))
						h.ret(name, "enq", b2i(err == nil))
					}
					if err == nil {
						accMu.Lock()
						accepted++
						accMu.Unlock()
					}
				}
			}()
		}
		go func() { wg.Wait(); close(prodDone) }()
		if fillFirst {
			<-prodDone
		}
		// single consumer
		got := 0
		cy := rng.Intn(5)
		deadline := time.Now().Add(5 * time.Second)
		finished := false
		for !finished && time.Now().Before(deadline) {
			for y := 0; y < cy; y++ {
				runtime.Gosched()
			}
			if rng.Intn(4) == 0 {
				ch.call("c", "empty", 0, "", 0)
				ch.ret("c", "empty", b2i(m.IsEmpty()))
			}
			if churn {
				time.Sleep(150 * time.Microsecond) // leave the mailbox full most of the time: producers race for each freed slot
			}
			ch.call("c", "deq", 0, "", 0)
			r := msgID(m.Dequeue())
			ch.ret("c", "deq", r)
			if r != 0 {
				got++
			} else {
				time.Sleep(50 * time.Microsecond) // do not flood the history with empty polls
			}
			select {
			case <-prodDone:
				accMu.Lock()
				a := accepted
				accMu.Unlock()
				if int64(got) >= a || got >= total {
					finished = true
				} else if r == 0 {
					// producers are done, queue reports empty, but accepted messages are missing:
					// record a final probe and stop (the monitor decides)
					ch.call("c", "empty", 0, "", 0)
					ch.ret("c", "empty", b2i(m.IsEmpty()))
					finished = true
				}
			default:
			}
		}
		<-prodDone
		ch.call("c", "deq", 0, "", 0)
		ch.ret("c", "deq", msgID(m.Dequeue()))
		ch.call("c", "empty", 0, "", 0)
		ch.ret("c", "empty", b2i(m.IsEmpty()))
		m.Dispose()
		var all []map[string]any
		for _, b := range bufs {
			all = append(all, b.evs...)
		}
		h.w.EmitBuffered(all)
	}
	h.w.Raw(map[string]any{"ev": "New"})
}

// ---------------------------------------------------------------- segrace: stale tail vs. recycled segment
//
// The schedule of specs/Mailbox/Seg.tla's counterexample (segment size 2 there, 256 here): producer A
// loads the tail segment S1 and stalls before reserving a slot; S1 fills, rolls over, is drained and
// returned to the segment pool; a later roll-over takes S1 out of the pool again and is halted inside
// newSegment after writeIdx was reset; A now reserves slot 0 of S1 and publishes; the reset then clears
// the slot. With GOMAXPROCS(1) sync.Pool hands back the segment that was just Put.
func segRace(h hist, rounds int) (reproduced, unreproduced int) {
	old := runtime.GOMAXPROCS(1)
	defer runtime.GOMAXPROCS(old)
	snd := actor.VerifNewSenderPID("m")
	for r := 0; r < rounds; r++ {
		h.w.Raw(map[string]any{"ev": "New"})
		m := actor.NewUnboundedSegmentedMailbox()
		s := sched.New()
		s.Watchdog = 3 * time.Second
		s.ControlAll()
		s.OnlyPoints("seg.enq.add", "seg.new.reset")
		enq := func(t string, id int) {
			h.call(t, "enq", id, t, 0)
			err := m.Enqueue(actor.VerifNewContext(snd, &Msg{ID: id}))
			h.ret(t, "enq", b2i(err == nil))
		}
		deq := func() int {
			h.call("c", "deq", 0, "", 0)
			r := msgID(m.Dequeue())
			h.ret("c", "deq", r)
			return r
		}
		s.Go("a", func() { s.Yield("call", 0, 0); enq("a", 1) })
		s.Go("b", func() { s.Yield("call", 0, 0); enq("b", 2) })
		s.Step("a")                // a: tail loaded (S1), parked before writeIdx.Add
		for i := 0; i < 257; i++ { // fill S1, roll over to S2
			enq("m", 1000+i)
		}
		for i := 0; i < 257; i++ { // drain S1; the 257th dequeue moves head to S2 and pools S1
			deq()
		}
		for i := 0; i < 255; i++ { // fill S2
			enq("m", 2000+i)
		}
		pb, _ := s.Step("b") // b: loads tail S2, parked before its reservation
		for i := 0; i < 3 && !pb.Done && pb.Point != "seg.new.reset"; i++ {
			pb, _ = s.Step("b") // S2 full -> newSegment -> (pool) -> writeIdx reset, parked before the rest of the reset
		}
		if pb.Point != "seg.new.reset" {
			unreproduced++
			s.FreeRun()
			s.Join(3 * time.Second)
			s.Close()
			continue
		}
		s.Step("a") // a reserves a slot on its stale tail and publishes
		s.FreeRun() // b finishes the reset, links the segment, retries
		s.Join(3 * time.Second)
		s.Close()
		got := 0
		for i := 0; i < 300; i++ {
			if deq() == 0 {
				break
			}
			got++
		}
		h.call("c", "empty", 0, "", 0)
		h.ret("c", "empty", b2i(m.IsEmpty()))
		if got == 257 {
			unreproduced++ // the pool did not hand S1 back (or the code no longer recycles): nothing was lost
		} else {
			reproduced++
		}
	}
	h.w.Raw(map[string]any{"ev": "New"})
	return
}

// segrace2: the appender of a new segment stalls between linking it (tail.next CAS) and swinging m.tail;
// the consumer drains and retires the old segment (clearing its next pointer); another producer still sees
// the old segment as tail, finds next == nil, appends a SECOND successor and swings m.tail onto a chain the
// consumer never reaches (Seg.tla Defects={ClearNext}, counterexample of NotWedged).
func segRace2(h hist, rounds int) (lost, ok int) {
	snd := actor.VerifNewSenderPID("m")
	for r := 0; r < rounds; r++ {
		h.w.Raw(map[string]any{"ev": "New"})
		m := actor.NewUnboundedSegmentedMailbox()
		s := sched.New()
		s.Watchdog = 3 * time.Second
		s.ControlAll()
		s.OnlyPoints("seg.enq.castail")
		enq := func(t string, id int) {
			h.call(t, "enq", id, t, 0)
			err := m.Enqueue(actor.VerifNewContext(snd, &Msg{ID: id}))
			h.ret(t, "enq", b2i(err == nil))
		}
		deq := func() int {
			h.call("c", "deq", 0, "", 0)
			r := msgID(m.Dequeue())
			h.ret("c", "deq", r)
			return r
		}
		for i := 0; i < 256; i++ { // fill the first segment
			enq("m", 1000+i)
		}
		s.Go("a", func() { enq("a", 1) }) // a: links a new segment, parks before swinging m.tail
		for i := 0; i < 257; i++ {        // drain and retire the first segment
			deq()
		}
		enq("m", 2) // still sees the retired segment as tail
		s.FreeRun()
		s.Join(3 * time.Second)
		s.Close()
		enq("m", 3)
		got := 0
		for i := 0; i < 10; i++ {
			if deq() == 0 {
				break
			}
			got++
		}
		h.call("c", "empty", 0, "", 0)
		h.ret("c", "empty", b2i(m.IsEmpty()))
		if got == 3 {
			ok++
		} else {
			lost++
		}
	}
	h.w.Raw(map[string]any{"ev": "New"})
	return
}

// upriorace: UnboundedPriorityMailBox publishes under its lock but counts afterwards. Producer A (priority 0)
// stalls between the heap push and length++; producer B (priority 1) completes; the consumer's first Dequeue
// takes A's message, the second sees length == 0 and reports empty although B's completed Enqueue is still in
// the heap. Deterministic witness of known finding TransientEmpty:uprio.
func uprioRace(h hist, rounds int) (hit, miss int) {
	snd := actor.VerifNewSenderPID("m")
	for r := 0; r < rounds; r++ {
		h.w.Raw(map[string]any{"ev": "New"})
		m := actor.NewUnboundedPriorityMailBox(prioFunc)
		s := sched.New()
		s.Watchdog = 3 * time.Second
		s.ControlAll()
		s.OnlyPoints("uprio.enq.count")
		s.Go("a", func() {
			h.call("a", "enq", 1, "a", 0)
			err := m.Enqueue(actor.VerifNewContext(snd, &Msg{ID: 1, Prio: 0}))
			h.ret("a", "enq", b2i(err == nil))
		}) // parked between push and count
		bdone := make(chan struct{})
		go func() { // not a logical thread: it may legitimately block on the mailbox lock that A holds
			h.call("b", "enq", 2, "b", 1)
			err := m.Enqueue(actor.VerifNewContext(snd, &Msg{ID: 2, Prio: 1}))
			h.ret("b", "enq", b2i(err == nil))
			close(bdone)
		}()
		select {
		case <-bdone:
		case <-time.After(50 * time.Millisecond):
		}
		deq := func() int {
			h.call("c", "deq", 0, "", 0)
			r := msgID(m.Dequeue())
			h.ret("c", "deq", r)
			return r
		}
		d1 := deq()
		d2 := deq()
		h.call("c", "empty", 0, "", 0)
		h.ret("c", "empty", b2i(m.IsEmpty()))
		s.FreeRun()
		s.Join(3 * time.Second)
		s.Close()
		<-bdone
		for i := 0; i < 4 && deq() != 0; i++ {
		}
		h.call("c", "empty", 0, "", 0)
		h.ret("c", "empty", b2i(m.IsEmpty()))
		if d1 == 1 && d2 == 0 {
			hit++
		} else {
			miss++
		}
	}
	h.w.Raw(map[string]any{"ev": "New"})
	return
}

func main() {
	if len(os.Args) < 2 {
		fatal("usage: mailbox replay|stress ...")
	}
	switch os.Args[1] {
	case "replay":
		if len(os.Args) != 5 {
			fatal("usage: mailbox replay <kind> <behaviours> <trace>")
		}
		behaviours, err := vtrace.ReadLines[[]step](os.Args[3])
		if err != nil {
			fatal(err)
		}
		w, err := vtrace.Create(os.Args[4])
		if err != nil {
			fatal(err)
		}
		st := &replayStats{}
		replay(os.Args[2], behaviours, hist{w}, st)
		st.Events = w.Count()
		if err := w.Close(); err != nil {
			fatal(err)
		}
		out, _ := json.Marshal(st)
		fmt.Println(string(out))
	case "segrace", "segrace2", "upriorace":
		if len(os.Args) != 4 {
			fatal("usage: mailbox segrace <rounds> <trace>")
		}
		rounds, _ := strconv.Atoi(os.Args[2])
		w, err := vtrace.Create(os.Args[3])
		if err != nil {
			fatal(err)
		}
		var rep, unrep int
		if os.Args[1] == "segrace2" {
			rep, unrep = segRace2(hist{w}, rounds)
		} else if os.Args[1] == "upriorace" {
			rep, unrep = uprioRace(hist{w}, rounds)
		} else {
			rep, unrep = segRace(hist{w}, rounds)
		}
		n := w.Count()
		if err := w.Close(); err != nil {
			fatal(err)
		}
		fmt.Printf("{\"rounds\":%d,\"lost\":%d,\"nothing_lost\":%d,\"events\":%d}\n", rounds, rep, unrep, n)
	case "stress":
		if len(os.Args) != 9 {
			fatal("usage: mailbox stress <kind> <cap> <producers> <msgs> <histories> <seed> <trace>")
		}
		capacity, _ := strconv.Atoi(os.Args[3])
		nprod, _ := strconv.Atoi(os.Args[4])
		nmsgs, _ := strconv.Atoi(os.Args[5])
		histories, _ := strconv.Atoi(os.Args[6])
		seed, _ := strconv.ParseInt(os.Args[7], 10, 64)
		w, err := vtrace.Create(os.Args[8])
		if err != nil {
			fatal(err)
		}
		stress(os.Args[2], capacity, nprod, nmsgs, histories, seed, hist{w})
		n := w.Count()
		if err := w.Close(); err != nil {
			fatal(err)
		}
		fmt.Printf("{\"histories\":%d,\"events\":%d}\n", histories, n)
	default:
		fatal("unknown subcommand", os.Args[1])
	}
}
