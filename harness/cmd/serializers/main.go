// Command serializers replays TLC-generated registration histories on the REAL
// goakt serializer registration / dispatch code and records an NDJSON trace for
// specs/Serializers/Trace_Dispatch*.tla.
//
//	serializers replay <behaviours.ndjson> <trace.ndjson> <rounds>
//
// A behaviour is {"api":"config"|"client","regs":[{"k":KEY,"s":SER},...]}.
//
//	api=config : registrations go through the public remote.Config options
//	             (WithSerializers / WithSerializables / WithJSONSerializables); the sender and the
//	             receiver node each build their remoting client with the real
//	             actorSystem.setupRemoting (built-in Terminated / PoisonPill / delivery serializers +
//	             remoteclient.ClientSerializerOptions(cfg)).
//	api=client : registrations go through remoteclient.WithClientSerializers in the given order and
//	             the clients are built by remoteclient.NewClient (what package client does).
//
// For every message kind and value class the driver performs
// snd.Serializer(m).Serialize(m) (the client's send path) and
// rcv.Serializer(nil).Deserialize(bytes) (the server's receive path) and records
// which serializer was chosen on each side, errors, and round-trip equality.
package main

import (
	"bytes"
	"encoding/json"
	"errors"
	"fmt"
	"math"
	"math/rand"
	"os"
	"reflect"
	"strconv"
	"time"

	"google.golang.org/protobuf/proto"
	"google.golang.org/protobuf/types/known/durationpb"

	"github.com/tochemey/goakt/v4/actor"
	"github.com/tochemey/goakt/v4/internal/commands"
	"github.com/tochemey/goakt/v4/internal/remoteclient"
	"github.com/tochemey/goakt/v4/internal/types"
	"github.com/tochemey/goakt/v4/remote"
	"github.com/tochemey/goakt/v4/test/data/testpb"
	"github.com/tochemey/goakt/v4/verifharness/vtrace"
)

// ---------------------------------------------------------------- message types of the harness

type IfaceA interface{ IsA() }
type IfaceB interface{ IsB() }

type Inner struct {
	N int32
	S string
	L []int64
}

type Body struct {
	ID    int64
	Name  string
	F     float64
	Flag  bool
	U8    uint8
	Tags  []string
	Blob  []byte
	Attrs map[string]int64
	In    *Inner
	Ins   []Inner
	When  time.Time
}

// MsgT : concrete key CT, implements IfaceA and IfaceB
type MsgT struct{ B Body }

func (*MsgT) IsA() {}
func (*MsgT) IsB() {}

// MsgA : no concrete key, implements IfaceA only
type MsgA struct{ B Body }

func (*MsgA) IsA() {}

// MsgAB : no concrete key, implements IfaceA and IfaceB
type MsgAB struct{ B Body }

func (*MsgAB) IsA() {}
func (*MsgAB) IsB() {}

// MsgNone : matches no registration key
type MsgNone struct{ B Body }

// Evt / EVT : two concrete types whose registry names collide (case-insensitive type names)
type Evt struct{ Amount int64 }
type EVT struct {
	Amount string
	Other  int64
}

// ---------------------------------------------------------------- custom self-describing serializer

// tagSer is a user-defined serializer with its own magic: magic | tag | payload.
// It supports every message type of the harness (JSON payload) and proto messages.
type tagSer struct {
	id    string
	magic [4]byte
	log   *[]string
}

var tagTypes = []reflect.Type{
	reflect.TypeFor[MsgT](), reflect.TypeFor[MsgA](), reflect.TypeFor[MsgAB](), reflect.TypeFor[MsgNone](),
	reflect.TypeFor[testpb.Account](), reflect.TypeFor[durationpb.Duration](),
}

func (s *tagSer) Serialize(m any) ([]byte, error) {
	t := reflect.TypeOf(m)
	if t == nil || t.Kind() != reflect.Pointer {
		return nil, errors.New(s.id + ": unsupported message")
	}
	for i, tt := range tagTypes {
		if tt == t.Elem() {
			var payload []byte
			var err error
			if pm, ok := m.(proto.Message); ok {
				payload, err = proto.Marshal(pm)
			} else {
				payload, err = json.Marshal(m)
			}
			if err != nil {
				return nil, err
			}
			out := append([]byte{}, s.magic[:]...)
			out = append(out, byte(i))
			return append(out, payload...), nil
		}
	}
	return nil, errors.New(s.id + ": unsupported message type " + t.String())
}

func (s *tagSer) Deserialize(d []byte) (any, error) {
	if len(d) < 5 || !bytes.Equal(d[:4], s.magic[:]) || int(d[4]) >= len(tagTypes) {
		return nil, errors.New(s.id + ": not my frame")
	}
	v := reflect.New(tagTypes[d[4]]).Interface()
	var err error
	if pm, ok := v.(proto.Message); ok {
		err = proto.Unmarshal(d[5:], pm)
	} else {
		err = json.Unmarshal(d[5:], v)
	}
	if err != nil {
		return nil, err
	}
	*s.log = append(*s.log, s.id)
	return v, nil
}

// recJSON wraps the real JSON serializer to record which frames it decodes (receiver-side identification).
type recJSON struct {
	*remote.JSONSerializer
	log *[]string
}

func (s *recJSON) Deserialize(d []byte) (any, error) {
	v, err := s.JSONSerializer.Deserialize(d)
	if err == nil {
		*s.log = append(*s.log, "JSON")
	}
	return v, err
}

// ---------------------------------------------------------------- behaviours

type reg struct {
	K string `json:"k"`
	S string `json:"s"`
}
type behaviour struct {
	API  string `json:"api"`
	Regs []reg  `json:"regs"`
	// Full: send the whole value family; otherwise one or two value classes per kind
	// (the choice of serializer is per type; the round trip of the other classes is
	// sampled on the full histories).
	Full bool `json:"full"`
}

var reduced = map[string]bool{
	"mT/plain": true, "mT/zero": true, "mT/timens": true, "mA/plain": true, "mAB/plain": true, "mNone/plain": true,
	"mProto/plain": true, "mCP/plain": true, "mPoison/zero": true, "mTerm/plain": true, "mDeliv/request": true, "mDeliv/seq": true,
	"mEvt1/plain": true, "mEvt2/plain": true, "mNil/nil": true, "mInt/digit": true, "mInt/neg": true, "mInt/big": true,
}

type env struct {
	cbor  *remote.CBORSerializer
	json  *recJSON
	u1    *tagSer
	u2    *tagSer
	proto *remote.ProtoSerializer
	log   []string
}

func newEnv() *env {
	e := &env{cbor: remote.DefaultCBORSerializer(), proto: remote.NewProtoSerializer()}
	e.json = &recJSON{JSONSerializer: remote.NewJSONSerializer(), log: &e.log}
	e.u1 = &tagSer{id: "U1", magic: [4]byte{'U', '1', 0, 1}, log: &e.log}
	e.u2 = &tagSer{id: "U2", magic: [4]byte{'U', '2', 0, 2}, log: &e.log}
	return e
}

func (e *env) inst(s string) remote.Serializer {
	switch s {
	case "CBOR":
		return e.cbor
	case "JSON":
		return e.json
	case "U1":
		return e.u1
	case "U2":
		return e.u2
	case "Proto":
		return e.proto
	}
	panic("unknown serializer " + s)
}

func keyArg(k string) any {
	switch k {
	case "PM":
		return (*proto.Message)(nil)
	case "CP":
		return new(durationpb.Duration)
	case "CT":
		return new(MsgT)
	case "IA":
		return (*IfaceA)(nil)
	case "IB":
		return (*IfaceB)(nil)
	case "CE1":
		return new(Evt)
	case "CE2":
		return new(EVT)
	case "CI":
		return int(0)
	case "NIL":
		return nil
	}
	panic("unknown key " + k)
}

var keyNames = map[reflect.Type]string{
	reflect.TypeFor[proto.Message]():              "PM",
	reflect.TypeFor[*durationpb.Duration]():       "CP",
	reflect.TypeFor[*MsgT]():                      "CT",
	reflect.TypeFor[IfaceA]():                     "IA",
	reflect.TypeFor[IfaceB]():                     "IB",
	reflect.TypeFor[*Evt]():                       "CE1",
	reflect.TypeFor[int]():                        "CI",
	reflect.TypeFor[*EVT]():                       "CE2",
	reflect.TypeFor[*actor.PoisonPill]():          "KPoison",
	reflect.TypeFor[*actor.Terminated]():          "KTerm",
	reflect.TypeFor[*commands.AsyncRequest]():     "KAReq",
	reflect.TypeFor[*commands.AsyncResponse]():    "KAResp",
	reflect.TypeFor[*commands.RegisterConsumer](): "KDeliv",
	reflect.TypeFor[*commands.RegistrationAck]():  "KDeliv",
	reflect.TypeFor[*commands.Request]():          "KDeliv",
	reflect.TypeFor[*commands.Ack]():              "KDeliv",
	reflect.TypeFor[*commands.SequencedMessage](): "KDeliv",
}

func (e *env) serName(s remote.Serializer) string {
	if s == nil {
		return "none"
	}
	switch x := s.(type) {
	case *remote.CBORSerializer:
		_ = x
		return "CBOR"
	case *recJSON, *remote.JSONSerializer:
		return "JSON"
	case *tagSer:
		return x.id
	case *remote.ProtoSerializer:
		return "Proto"
	case *commands.DeliverySerializer:
		return "Deliv"
	case *commands.AsyncRequestSerializer:
		return "AReq"
	case *commands.AsyncResponseSerializer:
		return "AResp"
	}
	switch fmt.Sprintf("%T", s) {
	case "*actor.poisonPillSerializer":
		return "Poison"
	case "*actor.terminatedSerializer":
		return "Term"
	case "*remoteclient.serializerDispatch":
		return "dispatch"
	}
	return fmt.Sprintf("?%T", s)
}

func (e *env) option(r reg) remote.Option {
	arg := keyArg(r.K)
	switch r.S {
	case "CBOR":
		if arg != nil {
			return remote.WithSerializables(arg) // the convenience option (shared CBOR singleton)
		}
	}
	return remote.WithSerializers(arg, e.inst(r.S))
}

func resetRegistry() {
	for _, v := range []any{new(MsgT), new(MsgA), new(MsgAB), new(MsgNone), new(Evt), new(EVT)} {
		types.GlobalRegistry.Deregister(v)
	}
}

// ---------------------------------------------------------------- values

type sample struct {
	kind string
	cls  string
	msg  any
}

func normBody(b *Body) { b.When = b.When.UTC().Round(0) }

func bodies(rng *rand.Rand) map[string]Body {
	plain := Body{
		ID: rng.Int63() - rng.Int63(), Name: "n" + strconv.Itoa(rng.Intn(1000)) + " é世\"\\\n", F: rng.NormFloat64() * 1e3,
		Flag: rng.Intn(2) == 0, U8: uint8(rng.Intn(256)),
		Tags: []string{"a", "", strconv.Itoa(rng.Intn(99))}, Blob: []byte{0, 255, byte(rng.Intn(256))},
		Attrs: map[string]int64{"x": rng.Int63n(100), "": -1},
		In:    &Inner{N: int32(rng.Int31()), S: "in", L: []int64{1, -2, rng.Int63()}},
		Ins:   []Inner{{N: 1}, {S: "s", L: []int64{}}},
		When:  time.Unix(1700000000+rng.Int63n(1e6), 0).UTC(),
	}
	empty := Body{Tags: []string{}, Blob: []byte{}, Attrs: map[string]int64{}, In: &Inner{}, Ins: []Inner{}, When: time.Unix(0, 0).UTC()}
	extreme := Body{ID: math.MinInt64, F: math.MaxFloat64, U8: 255, Name: string([]byte{0x7f, 0x01}),
		Attrs: map[string]int64{"max": math.MaxInt64, "min": math.MinInt64}, In: &Inner{N: math.MinInt32, L: []int64{math.MaxInt64}},
		When: time.Unix(253402300799, 0).UTC()}
	timens := plain
	timens.When = time.Unix(1700000000+rng.Int63n(1e6), 1+rng.Int63n(999)*1000+int64(rng.Intn(999))).UTC()
	return map[string]Body{"zero": {}, "plain": plain, "empty": empty, "extreme": extreme, "timens": timens}
}

var bodyClasses = []string{"zero", "plain", "empty", "extreme", "timens"}

func mustT(addr string, at time.Time) *actor.Terminated {
	t, err := actor.VerifNewTerminated(addr, at)
	if err != nil {
		panic(err)
	}
	return t
}

func must[T any](v T, err error) T {
	if err != nil {
		panic(err)
	}
	return v
}

func samples(rng *rand.Rand) []sample {
	var out []sample
	bs := bodies(rng)
	for _, c := range bodyClasses {
		b := bs[c]
		out = append(out, sample{"mT", c, &MsgT{B: b}})
		if c == "zero" || c == "plain" { // same body, same codecs: the other struct kinds get two classes
			out = append(out, sample{"mA", c, &MsgA{B: b}}, sample{"mAB", c, &MsgAB{B: b}}, sample{"mNone", c, &MsgNone{B: b}})
		}
	}
	out = append(out,
		sample{"mProto", "zero", &testpb.Account{}},
		sample{"mProto", "plain", &testpb.Account{AccountId: "acc-" + strconv.Itoa(rng.Intn(1e6)), AccountBalance: rng.Float64() * 1e6}},
		sample{"mProto", "extreme", &testpb.Account{AccountId: string([]byte{0, 1, 2}) + "世", AccountBalance: -math.MaxFloat64}},
		sample{"mCP", "zero", &durationpb.Duration{}},
		sample{"mCP", "plain", durationpb.New(time.Duration(rng.Int63()))},
		sample{"mCP", "extreme", &durationpb.Duration{Seconds: math.MinInt64, Nanos: math.MaxInt32}},
		sample{"mPoison", "zero", new(actor.PoisonPill)},
		sample{"mTerm", "zero", mustT("", time.Unix(0, 0).UTC())},
		sample{"mTerm", "plain", mustT("goakt://sys@127.0.0.1:9000/parent/child", time.Unix(1700000000, rng.Int63n(1e9)).UTC())},
		sample{"mTerm", "extreme", mustT("goakt://s@host:1/a", time.Unix(0, math.MaxInt64).UTC())},
		sample{"mDeliv", "register", must(commands.NewRegisterConsumer("nonce-" + strconv.Itoa(rng.Intn(1000))))},
		sample{"mDeliv", "regack", must(commands.NewRegistrationAck("sess", 1+rng.Int63n(1000), "nonce"))},
		sample{"mDeliv", "request", must(commands.NewRequest("sess", "nonce", rng.Int63n(10), 10+rng.Int63n(10), rng.Intn(2) == 0))},
		sample{"mDeliv", "ack", must(commands.NewAck("sess", "nonce", 1+rng.Int63n(100)))},
		sample{"mDeliv", "seq", must(commands.NewSequencedMessage("sess", "id-1", 1+rng.Int63n(100), []byte{0, 1, 2, byte(rng.Intn(256))}))},
		sample{"mDeliv", "chunk", must(commands.NewChunkedSequencedMessage("sess", "id-2", 1+rng.Int63n(100), []byte{9}, true, false))},
		sample{"mEvt1", "plain", &Evt{Amount: 1 + rng.Int63n(1000)}},
		sample{"mEvt2", "plain", &EVT{Amount: "x" + strconv.Itoa(rng.Intn(100)), Other: 1 + rng.Int63n(1000)}},
		sample{"mInt", "digit", 5}, // JSON text "5" is the CBOR integer -22
		sample{"mInt", "neg", -20}, // CBOR byte 0x33 is the JSON text "3"
		sample{"mInt", "big", 100000 + rng.Intn(1e9)},
		sample{"mNil", "nil", nil},
	)
	return out
}

func equalMsg(a, b any) bool {
	if a == nil || b == nil {
		return false
	}
	if reflect.TypeOf(a) != reflect.TypeOf(b) {
		return false
	}
	if pa, ok := a.(proto.Message); ok {
		return proto.Equal(pa, b.(proto.Message))
	}
	switch x := a.(type) {
	case *actor.Terminated:
		y := b.(*actor.Terminated)
		px, py := "", ""
		if x.ActorPath() != nil {
			px = x.ActorPath().String()
		}
		if y.ActorPath() != nil {
			py = y.ActorPath().String()
		}
		return px == py && x.TerminatedAt().Equal(y.TerminatedAt())
	case *MsgT:
		y := *b.(*MsgT)
		xx := *x
		normBody(&xx.B)
		normBody(&y.B)
		return reflect.DeepEqual(xx, y)
	case *MsgA:
		y := *b.(*MsgA)
		xx := *x
		normBody(&xx.B)
		normBody(&y.B)
		return reflect.DeepEqual(xx, y)
	case *MsgAB:
		y := *b.(*MsgAB)
		xx := *x
		normBody(&xx.B)
		normBody(&y.B)
		return reflect.DeepEqual(xx, y)
	case *MsgNone:
		y := *b.(*MsgNone)
		xx := *x
		normBody(&xx.B)
		normBody(&y.B)
		return reflect.DeepEqual(xx, y)
	}
	return reflect.DeepEqual(a, b)
}

// ---------------------------------------------------------------- replay

type sendRes struct {
	snd, rcv     string
	enc, dec, eq bool
	sndPanic     bool
	rcvPanic     bool
	rcvType      string
	frameLen     int
}

func safely(f func()) (panicked bool, what string) {
	defer func() {
		if r := recover(); r != nil {
			panicked, what = true, fmt.Sprint(r)
		}
	}()
	f()
	return
}

func (e *env) rcvName(logged []string, v any) string {
	if len(logged) > 0 {
		return logged[len(logged)-1]
	}
	switch v.(type) {
	case nil:
		return "none"
	case proto.Message:
		return "Proto"
	case *actor.Terminated:
		return "Term"
	case *actor.PoisonPill:
		return "Poison"
	case *commands.RegisterConsumer, *commands.RegistrationAck, *commands.Request, *commands.Ack, *commands.SequencedMessage:
		return "Deliv"
	case *commands.AsyncRequest:
		return "AReq"
	case *commands.AsyncResponse:
		return "AResp"
	}
	return "CBOR" // the only unwrapped registry-based serializer left
}

func (e *env) send(snd, rcv remoteclient.Client, m any) (r sendRes) {
	r.snd, r.rcv = "none", "none"
	var data []byte
	p, _ := safely(func() {
		s := snd.Serializer(m)
		r.snd = e.serName(s)
		if s == nil {
			return // the client's send paths return "no serializer found for message type"
		}
		d, err := s.Serialize(m)
		if err == nil {
			r.enc, data = true, d
		}
	})
	r.sndPanic = p
	if !r.enc {
		return
	}
	r.frameLen = len(data)
	e.log = e.log[:0]
	p, _ = safely(func() {
		v, err := rcv.Serializer(nil).Deserialize(data)
		if err == nil {
			r.dec = true
			r.rcv = e.rcvName(e.log, v)
			r.rcvType = fmt.Sprintf("%T", v)
			r.eq = equalMsg(m, v)
		}
	})
	r.rcvPanic = p
	return
}

func entriesOf(e *env, c remoteclient.Client) [][]string {
	out := [][]string{}
	for _, en := range remoteclient.VerifSerializerEntries(c) {
		k := "NIL"
		if en.Type != nil {
			k = keyNames[en.Type]
			if k == "" {
				k = "?" + en.Type.String()
			}
		}
		out = append(out, []string{k, e.serName(en.Serializer)})
	}
	return out
}

func main() {
	if len(os.Args) != 5 || os.Args[1] != "replay" {
		fmt.Fprintln(os.Stderr, "usage: serializers replay <behaviours> <trace> <rounds>")
		os.Exit(2)
	}
	behaviours, err := vtrace.ReadLines[behaviour](os.Args[2])
	if err != nil {
		fmt.Fprintln(os.Stderr, err)
		os.Exit(2)
	}
	rounds, _ := strconv.Atoi(os.Args[4])
	seed, _ := strconv.ParseInt(os.Getenv("VERIF_SEED"), 10, 64)
	rng := rand.New(rand.NewSource(seed))
	w, err := vtrace.Create(os.Args[3])
	if err != nil {
		fmt.Fprintln(os.Stderr, err)
		os.Exit(2)
	}
	events, sends, builds := 0, 0, 0
	emit := func(m map[string]any) { w.Raw(m); events++ }
	for bi, b := range behaviours {
		vals := samples(rng)
		n := 1
		if b.API == "config" { // the map-ordered path is sampled several times when the order can matter
			keys := map[string]bool{}
			for _, r := range b.Regs {
				if r.K != "PM" {
					keys[r.K] = true
				}
			}
			if len(keys) >= 2 {
				n = rounds
			}
		}
		for round := 0; round < n; round++ {
			resetRegistry()
			e := newEnv()
			emit(map[string]any{"op": "New", "api": b.API, "b": bi, "round": round})
			var cfg *remote.Config
			var snd, rcv remoteclient.Client
			closers := []func(){}
			var opts []remote.Option
			var copts []remoteclient.ClientOption
			for _, r := range b.Regs {
				pan, _ := safely(func() {
					if b.API == "config" {
						opts = append(opts, e.option(r))
					} else {
						copts = append(copts, remoteclient.WithClientSerializers(keyArg(r.K), e.inst(r.S)))
					}
				})
				emit(map[string]any{"op": "Reg", "k": r.K, "s": r.S, "panic": pan})
			}
			pan, what := safely(func() {
				if b.API == "config" {
					cfg = remote.NewConfig("127.0.0.1", 0, opts...)
					for _, dst := range []*remoteclient.Client{&snd, &rcv} {
						c, cl, err := actor.VerifSetupRemoting(cfg)
						if err != nil {
							panic(err)
						}
						*dst = c
						closers = append(closers, cl)
					}
				} else {
					snd = remoteclient.NewClient(copts...)
					rcv = remoteclient.NewClient(copts...)
					closers = append(closers, snd.Close, rcv.Close)
				}
			})
			builds++
			if pan {
				emit(map[string]any{"op": "Build", "panic": true, "what": what, "snd": [][]string{}, "rcv": [][]string{}})
				for _, c := range closers {
					c()
				}
				continue
			}
			emit(map[string]any{"op": "Build", "panic": false, "what": "", "snd": entriesOf(e, snd), "rcv": entriesOf(e, rcv)})
			for vi, s := range vals {
				if !b.Full && !reduced[s.kind+"/"+s.cls] {
					continue
				}
				r := e.send(snd, rcv, s.msg)
				cfgSer := ""
				cfgPanic := false
				if cfg != nil {
					cfgPanic, _ = safely(func() { cfgSer = e.serName(cfg.Serializer(s.msg)) })
				}
				emit(map[string]any{"op": "Send", "kind": s.kind, "cls": s.cls, "v": vi, "snd": r.snd, "enc": r.enc, "rcv": r.rcv,
					"dec": r.dec, "eq": r.eq, "sndPanic": r.sndPanic, "rcvPanic": r.rcvPanic, "cfg": cfgSer, "cfgPanic": cfgPanic,
					"rcvType": r.rcvType, "len": r.frameLen})
				sends++
			}
			for _, c := range closers {
				c()
			}
		}
	}
	if err := w.Close(); err != nil {
		fmt.Fprintln(os.Stderr, err)
		os.Exit(2)
	}
	out, _ := json.Marshal(map[string]any{"events": events, "sends": sends, "builds": builds, "behaviours": len(behaviours)})
	fmt.Println(string(out))
}
