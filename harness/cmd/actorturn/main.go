// Command actorturn executes behaviours of specs/ActorTurn/ActorTurn.tla on a
// REAL goakt actor system: producers (Tell), dispatcher workers (adopted as
// "turn tokens" when they reach ds.take.cas on the test actor) and an external
// restarter are stepped one verifhook gate at a time by the puppet scheduler.
// It records handler / ownership / lifecycle events for TurnMonitor.tla.
//
//	actorturn replay <behaviours.ndjson> <trace.ndjson> <budget>
//	actorturn stress <histories> <producers> <msgs> <seed> <trace.ndjson> <budget> <mailbox>
package main

import (
	"context"
	"encoding/json"
	"fmt"
	"math/rand"
	"os"
	"runtime"
	"strconv"
	"sync"
	"sync/atomic"
	"time"

	"github.com/tochemey/goakt/v4/actor"
	"github.com/tochemey/goakt/v4/log"
	"github.com/tochemey/goakt/v4/supervisor"
	"github.com/tochemey/goakt/v4/verifharness/sched"
	"github.com/tochemey/goakt/v4/verifharness/vtrace"
)

type Msg struct{ ID int }

func fatal(v ...any) {
	fmt.Fprintln(os.Stderr, v...)
	os.Exit(2)
}

// ---------------------------------------------------------------- test actor

type recorder struct {
	w *vtrace.Writer
	s atomic.Pointer[sched.Sched] // nil when free-running without a scheduler
}

func (r *recorder) ev(kind string, id int) {
	r.w.Emit(map[string]any{"ev": kind, "id": id, "g": int(sched.Gid() % 1000000), "t": ""})
}

func (r *recorder) yield(point string, id int) {
	if s := r.s.Load(); s != nil {
		s.Yield(point, int64(id), 0)
	}
}

type testActor struct {
	r       *recorder
	spin    int // free-running: busy work inside the handler to widen windows
	crashID int // a message with this id makes the handler panic (supervised-restart scenarios)
	crashed atomic.Bool
}

func (a *testActor) PreStart(*actor.Context) error {
	a.r.ev("prestart", 0)
	return nil
}

func (a *testActor) Receive(ctx *actor.ReceiveContext) {
	m, ok := ctx.Message().(*Msg)
	if !ok {
		return
	}
	a.r.yield("h.enter", m.ID)
	a.r.ev("enter", m.ID)
	if a.crashID != 0 && m.ID == a.crashID {
		a.r.ev("exit", m.ID) // the invocation ends here (by panic)
		a.crashed.Store(true)
		panic("seeded failure")
	}
	for i := 0; i < a.spin; i++ {
		runtime.Gosched()
	}
	a.r.yield("h.exit", m.ID)
	a.r.ev("exit", m.ID)
}

func (a *testActor) PostStop(*actor.Context) error {
	a.r.yield("ps.enter", 0)
	a.r.ev("psenter", 0)
	a.r.yield("ps.exit", 0)
	a.r.ev("psexit", 0)
	return nil
}

// ---------------------------------------------------------------- replay

type step struct {
	A    string `json:"a"`
	Args []any  `json:"args"`
}

type behaviour struct {
	Steps  []step         `json:"steps"`
	NMsgs  map[string]int `json:"nmsgs"`
	Restarts int          `json:"restarts"`
	Stops    int          `json:"stops"`
	Pills    int          `json:"pills"`
}

var producerPoint = map[string]string{"Call": "call", "Swap": "mpsc.enq.swap", "Link": "mpsc.enq.link",
	"PTSLoad": "ds.ts.load", "PTSCas": "ds.ts.cas", "Push": "turn.push"}
var turnPoint = map[string]string{"Take": "ds.take.cas", "DeqSys": "mpsc.deq", "DeqUser": "mpsc.deq", "Enter": "h.enter", "Exit": "h.exit",
	"FinReset": "ds.reset", "FinEmptyU": "mpsc.isempty", "FinEmptyS": "mpsc.isempty", "TTSLoad": "ds.ts.load", "TTSCas": "ds.ts.cas",
	"Yield": "ds.yield", "Resched": "turn.resched", "TLock": "stop.lock", "TPsEnter": "ps.enter", "TPsExit": "ps.exit"}
var stopPoint = map[string]string{"SCall": "scall", "SLock": "stop.lock", "SPsEnter": "ps.enter", "SPsExit": "ps.exit"}
var killPoint = map[string]string{"KCall": "kcall", "KSwap": "mpsc.enq.swap", "KLink": "mpsc.enq.link", "KTSLoad": "ds.ts.load", "KTSCas": "ds.ts.cas", "KPush": "turn.push"}
var restartPoint = map[string]string{"RCall": "rcall", "RLock": "stop.lock", "RPsEnter": "ps.enter", "RPsExit": "ps.exit", "RWait": "restart.wait", "RInit": "restart.init", "RReset": "ds.reset",
	"RPostStart": "mpsc.enq.swap", "RPSLink": "mpsc.enq.link", "RTSLoad": "ds.ts.load", "RTSCas": "ds.ts.cas", "RPush": "turn.push"}

type stats struct {
	Behaviours int   `json:"behaviours"`
	Steps      int   `json:"steps"`
	Drift      int   `json:"drift"`
	Watchdog   int   `json:"watchdog"`
	NotIdle    int   `json:"not_quiescent"`
	Events     int64 `json:"events"`
	DriftAt    map[string]int `json:"drift_at"`
}

func waitQuiescent(pid *actor.PID, d time.Duration) bool {
	deadline := time.Now().Add(d)
	user, system := actor.VerifMailboxesOf(pid)
	for time.Now().Before(deadline) {
		if actor.VerifSchedValue(pid) == 0 && user.IsEmpty() && system.IsEmpty() {
			// stable for a moment
			time.Sleep(200 * time.Microsecond)
			if actor.VerifSchedValue(pid) == 0 && user.IsEmpty() && system.IsEmpty() {
				return true
			}
		}
		time.Sleep(100 * time.Microsecond)
	}
	return false
}

func replay(sys actor.ActorSystem, behaviours []behaviour, w *vtrace.Writer, st *stats) {
	ctx := context.Background()
	rec := &recorder{w: w}
	for bi, b := range behaviours {
		w.Raw(map[string]any{"ev": "New", "id": 0, "g": 0, "t": ""})
		pid, err := sys.Spawn(ctx, "t"+strconv.Itoa(bi), &testActor{r: rec}, actor.WithLongLived())
		if err != nil {
			fatal("spawn", err)
		}
		if !waitQuiescent(pid, 20*time.Second) {
			fatal("actor did not become idle after spawn")
		}
		s := sched.New()
		s.Watchdog = 3 * time.Second
		ds := actor.VerifSchedStateOf(pid)
		user, system := actor.VerifMailboxesOf(pid)
		s.Control(ds)
		s.Control(user)
		s.Control(system)
		s.AdoptAt("ds.take.cas", "t")
		s.DetachAt("turn.end")
		s.SkipPoints("turn.begin", "turn.release")
		s.Obs = func(thread, point string, obj any, a, bb int64) {
			switch point {
			case "turn.begin":
				w.Emit(map[string]any{"ev": "begin", "id": int(a), "g": 0, "t": thread})
			case "turn.release":
				w.Emit(map[string]any{"ev": "release", "id": int(a), "g": 0, "t": thread})
			}
		}
		rec.s.Store(s)
		// producers
		for p, n := range b.NMsgs {
			p, n := p, n
			rank, _ := strconv.Atoi(p[1:])
			if _, err := s.Go(p, func() {
				for k := 1; k <= n; k++ {
					s.Yield("call", 0, 0)
					id := rank*10 + k
					err := actor.Tell(ctx, pid, &Msg{ID: id})
					ok := 0
					if err == nil {
						ok = 1
					}
					w.Emit(map[string]any{"ev": "tellret", "id": id, "g": ok, "t": p})
				}
			}); err != nil {
				fatal(err)
			}
		}
		if b.Restarts > 0 {
			if _, err := s.Go("r", func() {
				s.Yield("rcall", 0, 0)
				w.Emit(map[string]any{"ev": "restartcall", "id": 0, "g": 0, "t": "r"})
				err := pid.Restart(ctx)
				ok := 0
				if err == nil {
					ok = 1
				}
				w.Emit(map[string]any{"ev": "restartret", "id": 0, "g": ok, "t": "r"})
			}); err != nil {
				fatal(err)
			}
		}
		if b.Stops > 0 {
			if _, err := s.Go("s", func() {
				s.Yield("scall", 0, 0)
				w.Emit(map[string]any{"ev": "stopcall", "id": 0, "g": 0, "t": "s"})
				err := pid.Shutdown(ctx)
				ok := 0
				if err == nil {
					ok = 1
				}
				w.Emit(map[string]any{"ev": "stopret", "id": 0, "g": ok, "t": "s"})
			}); err != nil {
				fatal(err)
			}
		}
		if b.Pills > 0 {
			if _, err := s.Go("k", func() {
				s.Yield("kcall", 0, 0)
				w.Emit(map[string]any{"ev": "pillcall", "id": 0, "g": 0, "t": "k"})
				err := actor.Tell(ctx, pid, new(actor.PoisonPill))
				ok := 0
				if err == nil {
					ok = 1
				}
				w.Emit(map[string]any{"ev": "pillret", "id": 0, "g": ok, "t": "k"})
			}); err != nil {
				fatal(err)
			}
		}
		// token k of the model = k-th adopted worker
		tokens := map[int]string{}
		ntok := 0
		adoptOne := func() bool {
			name, ok := s.WaitAdopted(2 * time.Second)
			if !ok {
				return false
			}
			ntok++
			tokens[ntok] = name
			return true
		}
		drift := ""
		for _, x := range b.Steps {
			var t, want string
			var wantObj any
			if len(x.Args) > 0 {
				switch v := x.Args[0].(type) {
				case string:
					t = v
					want = producerPoint[x.A]
					if x.A == "Swap" || x.A == "Link" {
						wantObj = user
					}
				case float64:
					t = tokens[int(v)]
					want = turnPoint[x.A]
					switch x.A {
					case "DeqSys", "FinEmptyS":
						wantObj = system
					case "DeqUser", "FinEmptyU":
						wantObj = user
					}
					if t == "" {
						drift = x.A + ":no-token"
					}
				}
			} else {
				switch x.A[0] {
				case 'S':
					t, want = "s", stopPoint[x.A]
				case 'K':
					t, want = "k", killPoint[x.A]
					if x.A == "KSwap" || x.A == "KLink" {
						wantObj = system
					}
				default:
					t, want = "r", restartPoint[x.A]
				}
			}
			if drift != "" {
				break
			}
			pend, parked := s.Pending(t)
			if !parked || pend.Done || pend.Point != want || (wantObj != nil && pend.Obj != wantObj) {
				on := ""
				if pend.Obj == user {
					on = "(user)"
				} else if pend.Obj == system {
					on = "(system)"
				}
				drift = fmt.Sprintf("%s:want=%s:at=%s%s:parked=%v:done=%v", x.A, want, pend.Point, on, parked, pend.Done)
				if os.Getenv("VERIF_DEBUG") != "" {
					fmt.Fprintf(os.Stderr, "behaviour %d step %d thread %s: %s\n", bi, st.Steps, t, drift)
				}
				break
			}
			nsteps := 1
			failed := false
			for i := 0; i < nsteps; i++ {
				if _, err := s.Step(t); err != nil {
					if _, ok := err.(sched.ErrWatchdog); ok {
						st.Watchdog++
					}
					failed = true
					break
				}
			}
			if failed {
				drift = x.A + ":step-failed"
				break
			}
			st.Steps++
			if x.A == "Push" || x.A == "Resched" || x.A == "RPush" || x.A == "KPush" {
				if !adoptOne() {
					drift = x.A + ":no-worker-arrived"
					break
				}
			}
		}
		if drift != "" {
			st.Drift++
			if st.DriftAt == nil {
				st.DriftAt = map[string]int{}
			}
			st.DriftAt[drift]++
		}
		s.FreeRun()
		s.Join(5 * time.Second)
		q := waitQuiescent(pid, 20*time.Second)
		if !q {
			st.NotIdle++
		}
		qi := 0
		if q {
			qi = 1
		}
		w.Emit(map[string]any{"ev": "End", "id": qi, "g": 0, "t": ""})
		rec.s.Store(nil)
		s.Close()
		_ = pid.Shutdown(ctx)
		st.Behaviours++
	}
	w.Raw(map[string]any{"ev": "New", "id": 0, "g": 0, "t": ""})
}

// ---------------------------------------------------------------- explore: random schedules over the REAL code's gates
//
// No model prescribes the order here: at every step a seeded scheduler picks one of the logical
// threads parked at a gate (producers, adopted dispatcher workers, the restarter/stopper/pill sender)
// and lets it run to its next gate. This explores interleavings of whatever steps the code under test
// actually has (also when it no longer follows ActorTurn.tla); TurnMonitor.tla judges the events.
func explore(sys actor.ActorSystem, runs, nprod, nmsgs int, seed int64, w *vtrace.Writer, mode int, st *stats) {
	ctx := context.Background()
	rng := rand.New(rand.NewSource(seed))
	rec := &recorder{w: w}
	for run := 0; run < runs; run++ {
		w.Raw(map[string]any{"ev": "New", "id": 0, "g": 0, "t": "", "at": "", "on": ""})
		ta := &testActor{r: rec}
		spawnOpts := []actor.SpawnOption{actor.WithLongLived()}
		if mode == 4 { // the first message of producer 1 panics; the supervisor restarts the (suspended) actor
			ta.crashID = 11
			spawnOpts = append(spawnOpts, actor.WithSupervisor(supervisor.NewSupervisor(supervisor.WithAnyErrorDirective(supervisor.RestartDirective))))
		}
		pid, err := sys.Spawn(ctx, "x"+strconv.Itoa(run), ta, spawnOpts...)
		if err != nil {
			fatal("spawn", err)
		}
		if !waitQuiescent(pid, 20*time.Second) {
			fatal("actor did not become idle after spawn")
		}
		s := sched.New()
		s.Watchdog = 2 * time.Second
		if mode == 4 {
			w.Emit(map[string]any{"ev": "restartcall", "id": 0, "g": 0, "t": "supervisor"}) // exempts the C02 drain clause
			s.AdoptAt("restart.wait", "rs") // the supervisor's restartChild goroutine becomes a logical thread at its wait loop
		}
		ds := actor.VerifSchedStateOf(pid)
		user, system := actor.VerifMailboxesOf(pid)
		s.Control(ds)
		s.Control(user)
		s.Control(system)
		s.AdoptAt("ds.take.cas", "t")
		s.DetachAt("turn.end")
		s.SkipPoints("turn.begin", "turn.release")
		s.Obs = func(thread, point string, obj any, a, bb int64) {
			switch point {
			case "turn.begin":
				w.Emit(map[string]any{"ev": "begin", "id": int(a), "g": 0, "t": thread})
			case "turn.release":
				w.Emit(map[string]any{"ev": "release", "id": int(a), "g": 0, "t": thread})
			}
		}
		rec.s.Store(s)
		var names []string
		for p := 1; p <= nprod; p++ {
			p := p
			name := "p" + strconv.Itoa(p)
			names = append(names, name)
			s.Go(name, func() {
				for k := 1; k <= nmsgs; k++ {
					s.Yield("call", 0, 0)
					id := p*10 + k
					err := actor.Tell(ctx, pid, &Msg{ID: id})
					ok := 0
					if err == nil {
						ok = 1
					}
					w.Emit(map[string]any{"ev": "tellret", "id": id, "g": ok, "t": name})
				}
			})
		}
		switch mode {
		case 1:
			names = append(names, "r")
			s.Go("r", func() {
				s.Yield("rcall", 0, 0)
				w.Emit(map[string]any{"ev": "restartcall", "id": 0, "g": 0, "t": "r"})
				_ = pid.Restart(ctx)
				w.Emit(map[string]any{"ev": "restartret", "id": 0, "g": 1, "t": "r"})
			})
		case 2:
			names = append(names, "s")
			s.Go("s", func() {
				s.Yield("scall", 0, 0)
				w.Emit(map[string]any{"ev": "stopcall", "id": 0, "g": 0, "t": "s"})
				_ = pid.Shutdown(ctx)
				w.Emit(map[string]any{"ev": "stopret", "id": 0, "g": 1, "t": "s"})
			})
		case 3:
			names = append(names, "k")
			s.Go("k", func() {
				s.Yield("kcall", 0, 0)
				w.Emit(map[string]any{"ev": "pillcall", "id": 0, "g": 0, "t": "k"})
				_ = actor.Tell(ctx, pid, new(actor.PoisonPill))
			})
		}
		// PCT-style priorities: a thread keeps running until a priority change point
		prio := map[string]int{}
		for _, n := range names {
			prio[n] = rng.Intn(1000)
		}
		changeAt := map[int]bool{}
		for i := 0; i < 4; i++ {
			changeAt[rng.Intn(120)] = true
		}
		blocked := map[string]bool{}
		lockHolder := ""
		idle := 0
		holds := 0
		for step := 0; step < 600; step++ {
			// newly adopted workers
			for {
				n, ok := s.WaitAdopted(300 * time.Microsecond)
				if !ok {
					break
				}
				names = append(names, n)
				prio[n] = rng.Intn(1000)
			}
			// threads released earlier that were blocked inside the code
			for n := range blocked {
				if _, ok := s.TryAwait(n, 0); ok {
					delete(blocked, n)
				}
			}
			var cands []string
			for _, n := range names {
				pd, parked := s.Pending(n)
				if !parked || pd.Done || blocked[n] {
					continue
				}
				if pd.Point == "restart.wait" && actor.VerifSchedValue(pid) == 2 {
					continue // would spin until the worker leaves
				}
				if pd.Point == "stop.lock" && lockHolder != "" && lockHolder != n {
					continue // would block on stopLocker
				}
				cands = append(cands, n)
			}
			if len(cands) == 0 {
				idle++
				if idle > 20 && len(blocked) == 0 {
					break
				}
				time.Sleep(200 * time.Microsecond)
				continue
			}
			idle = 0
			if changeAt[step] || rng.Intn(12) == 0 {
				prio[cands[rng.Intn(len(cands))]] = rng.Intn(1000)
			}
			best := cands[0]
			for _, n := range cands {
				if prio[n] > prio[best] {
					best = n
				}
			}
			before, _ := s.Pending(best)
			if mode == 4 && before.Point == "h.exit" && ta.crashed.Load() && holds < 2 {
				// a worker is inside Receive after the failure: give the asynchronous supervision pipeline
				// (signal -> parent -> restartChild -> restartSubtree) time to reach PreStart meanwhile
				holds++
				time.Sleep(60 * time.Millisecond)
			}
			if len(blocked) == 0 { // only sequential prefixes are comparable with the model step by step
				on := ""
				if before.Obj == user {
					on = "user"
				} else if before.Obj == system {
					on = "system"
				}
				w.Emit(map[string]any{"ev": "step", "id": 0, "g": 0, "t": best, "at": before.Point, "on": on})
			} else {
				w.Emit(map[string]any{"ev": "concurrent", "id": 0, "g": 0, "t": best, "at": before.Point, "on": ""})
			}
			if err := s.Release(best); err != nil {
				continue
			}
			after, ok := s.TryAwait(best, 30*time.Millisecond)
			st.Steps++
			if !ok {
				blocked[best] = true
				continue
			}
			// hand-off windows: a thread that has just given up ownership (ds.reset) or has just entered the
			// handler is often left behind so that the others can race through the window it opened
			if (before.Point == "ds.reset" || before.Point == "h.enter" || before.Point == "ds.yield" || before.Point == "restart.wait") && rng.Intn(2) == 0 {
				prio[best] = -1 - rng.Intn(1000)
			}
			if before.Point == "stop.lock" && after.Point == "ps.enter" {
				lockHolder = best
			}
			if before.Point == "ps.exit" {
				lockHolder = ""
			}
		}
		s.FreeRun()
		s.Join(5 * time.Second)
		qd := 20 * time.Second
		if mode >= 2 {
			qd = 300 * time.Millisecond
		}
		q := waitQuiescent(pid, qd)
		qi := 0
		if q {
			qi = 1
		} else if mode < 2 {
			st.NotIdle++
		}
		w.Emit(map[string]any{"ev": "End", "id": qi, "g": 0, "t": ""})
		rec.s.Store(nil)
		s.Close()
		_ = pid.Shutdown(ctx)
		st.Behaviours++
	}
	w.Raw(map[string]any{"ev": "New", "id": 0, "g": 0, "t": ""})
}

// ---------------------------------------------------------------- explore-grain: the same random scheduler on a GRAIN
//
// C01 also covers grains (grainPID has its own copy of the turn machine and its own mailbox). The grain's
// callbacks are gated like the actor's handler; turn.* events come from the grain hooks. failDeact makes
// OnDeactivate fail, which leaves the grain registered but inactive so that the next TellGrain re-activates
// it in place (the only way a grainPID is activated twice); with a short deactivate-after the explorer
// sometimes holds a worker inside OnReceive long enough for the passivation manager to fire.
type testGrain struct {
	r         *recorder
	failDeact bool
}

func (g *testGrain) OnActivate(context.Context, *actor.GrainProps) error { g.r.ev("prestart", 0); return nil }
func (g *testGrain) OnDeactivate(context.Context, *actor.GrainProps) error {
	g.r.ev("gdeact", 0)
	if g.failDeact {
		return fmt.Errorf("state store unavailable")
	}
	return nil
}
func (g *testGrain) OnReceive(ctx *actor.GrainContext) {
	m, ok := ctx.Message().(*Msg)
	if !ok {
		ctx.Unhandled()
		return
	}
	g.r.yield("h.enter", m.ID)
	g.r.ev("enter", m.ID)
	g.r.yield("h.exit", m.ID)
	g.r.ev("exit", m.ID)
	ctx.NoErr()
}

func exploreGrain(sys actor.ActorSystem, runs, nprod, nmsgs int, seed int64, w *vtrace.Writer, failDeact bool, st *stats) {
	ctx := context.Background()
	rng := rand.New(rand.NewSource(seed))
	rec := &recorder{w: w}
	for run := 0; run < runs; run++ {
		w.Raw(map[string]any{"ev": "New", "id": 0, "g": 0, "t": "", "at": "", "on": ""})
		g := &testGrain{r: rec, failDeact: failDeact}
		opts := []actor.GrainOption{}
		if failDeact {
			opts = append(opts, actor.WithGrainDeactivateAfter(120*time.Millisecond))
		}
		identity, err := sys.GrainIdentity(ctx, fmt.Sprintf("g%d-%d", seed, run), func(context.Context) (actor.Grain, error) { return g, nil }, opts...)
		if err != nil {
			fatal("grain identity", err)
		}
		s := sched.New()
		s.Watchdog = 2 * time.Second
		s.Control(actor.VerifGrainSchedStateOf(sys, identity))
		s.AdoptAt("ds.take.cas", "t")
		s.DetachAt("turn.end")
		s.SkipPoints("turn.begin", "turn.release")
		s.Obs = func(thread, point string, obj any, a, bb int64) {
			switch point {
			case "turn.begin":
				w.Emit(map[string]any{"ev": "begin", "id": int(a), "g": 0, "t": thread})
			case "turn.release":
				w.Emit(map[string]any{"ev": "release", "id": int(a), "g": 0, "t": thread})
			}
		}
		rec.s.Store(s)
		var names []string
		for p := 1; p <= nprod; p++ {
			p := p
			name := "p" + strconv.Itoa(p)
			names = append(names, name)
			s.Go(name, func() {
				for k := 1; k <= nmsgs; k++ {
					s.Yield("call", 0, 0)
					id := p*10 + k
					err := sys.TellGrain(ctx, identity, &Msg{ID: id})
					ok := 0
					if err == nil {
						ok = 1
					}
					w.Emit(map[string]any{"ev": "tellret", "id": id, "g": ok, "t": name})
				}
			})
		}
		if failDeact {
			w.Emit(map[string]any{"ev": "stopcall", "id": 0, "g": 0, "t": "passivation"}) // exempts the C02 drain clause
		}
		prio := map[string]int{}
		for _, n := range names {
			prio[n] = rng.Intn(1000)
		}
		blocked := map[string]bool{}
		idle := 0
		for step := 0; step < 400; step++ {
			for {
				n, ok := s.WaitAdopted(300 * time.Microsecond)
				if !ok {
					break
				}
				names = append(names, n)
				prio[n] = rng.Intn(1000)
			}
			for n := range blocked {
				if _, ok := s.TryAwait(n, 0); ok {
					delete(blocked, n)
				}
			}
			var cands []string
			for _, n := range names {
				pd, parked := s.Pending(n)
				if !parked || pd.Done || blocked[n] {
					continue
				}
				cands = append(cands, n)
			}
			if len(cands) == 0 {
				idle++
				if idle > 20 && len(blocked) == 0 {
					break
				}
				time.Sleep(200 * time.Microsecond)
				continue
			}
			idle = 0
			if rng.Intn(10) == 0 {
				prio[cands[rng.Intn(len(cands))]] = rng.Intn(1000)
			}
			best := cands[0]
			for _, n := range cands {
				if prio[n] > prio[best] {
					best = n
				}
			}
			before, _ := s.Pending(best)
			if failDeact && before.Point == "h.exit" && rng.Intn(3) == 0 {
				// hold the worker inside OnReceive past the deactivate-after deadline, let the others run meanwhile
				time.Sleep(200 * time.Millisecond)
				prio[best] = -1 - rng.Intn(1000)
				continue
			}
			if err := s.Release(best); err != nil {
				continue
			}
			st.Steps++
			if _, ok := s.TryAwait(best, 30*time.Millisecond); !ok {
				blocked[best] = true
				continue
			}
			if (before.Point == "ds.reset" || before.Point == "h.enter" || before.Point == "ds.yield") && rng.Intn(2) == 0 {
				prio[best] = -1 - rng.Intn(1000)
			}
		}
		s.FreeRun()
		s.Join(5 * time.Second)
		deadline := time.Now().Add(10 * time.Second)
		for time.Now().Before(deadline) && (actor.VerifGrainSchedValue(sys, identity) != 0 || actor.VerifGrainMailboxLen(sys, identity) != 0) {
			if reg, _ := actor.VerifGrainActive(sys, identity); !reg {
				break
			}
			time.Sleep(time.Millisecond)
		}
		q := 0
		if reg, _ := actor.VerifGrainActive(sys, identity); !reg || (actor.VerifGrainSchedValue(sys, identity) == 0 && actor.VerifGrainMailboxLen(sys, identity) == 0) {
			q = 1
		}
		w.Emit(map[string]any{"ev": "End", "id": q, "g": 0, "t": ""})
		rec.s.Store(nil)
		s.Close()
		st.Behaviours++
	}
	w.Raw(map[string]any{"ev": "New", "id": 0, "g": 0, "t": "", "at": "", "on": ""})
}

// ---------------------------------------------------------------- stress (free-running, real workers)

func newMailboxOpt(kind string) actor.SpawnOption {
	switch kind {
	case "mpsc", "":
		return actor.WithMailbox(actor.NewUnboundedMailbox())
	case "seg":
		return actor.WithMailbox(actor.NewUnboundedSegmentedMailbox())
	case "fair":
		return actor.WithMailbox(actor.NewUnboundedFairMailbox())
	case "nbring":
		return actor.WithMailbox(actor.NewNonBlockingBoundedMailbox(64))
	case "bounded":
		return actor.WithMailbox(actor.NewBoundedMailbox(64))
	}
	fatal("unknown mailbox", kind)
	return nil
}

func stress(sys actor.ActorSystem, histories, nprod, nmsgs int, seed int64, w *vtrace.Writer, mailbox string, mode int, st *stats) {
	ctx := context.Background()
	rng := rand.New(rand.NewSource(seed))
	rec := &recorder{w: w}
	for h := 0; h < histories; h++ {
		w.Raw(map[string]any{"ev": "New", "id": 0, "g": 0, "t": ""})
		pid, err := sys.Spawn(ctx, "s"+strconv.Itoa(h), &testActor{r: rec, spin: rng.Intn(3)}, actor.WithLongLived(), newMailboxOpt(mailbox))
		if err != nil {
			fatal("spawn", err)
		}
		waitQuiescent(pid, 20*time.Second)
		// observe ownership through the hooks, no gating
		s := sched.New()
		s.Control(actor.VerifSchedStateOf(pid))
		s.FreeRun()
		s.Obs = func(thread, point string, obj any, a, bb int64) {
			switch point {
			case "turn.begin":
				w.Emit(map[string]any{"ev": "begin", "id": int(a), "g": int(sched.Gid() % 1000000), "t": "w" + strconv.Itoa(int(sched.Gid()%1000000))})
			case "turn.release":
				w.Emit(map[string]any{"ev": "release", "id": int(a), "g": int(sched.Gid() % 1000000), "t": "w" + strconv.Itoa(int(sched.Gid()%1000000))})
			}
		}
		var wg sync.WaitGroup
		for p := 1; p <= nprod; p++ {
			p := p
			ys := make([]int, nmsgs)
			for i := range ys {
				ys[i] = rng.Intn(3)
			}
			wg.Add(1)
			batch := rng.Intn(4) == 0
			go func() {
				defer wg.Done()
				if batch { // the whole sequence through one BatchTell call
					msgs := make([]any, nmsgs)
					for k := 1; k <= nmsgs; k++ {
						msgs[k-1] = &Msg{ID: p*10 + k}
					}
					err := actor.BatchTell(ctx, pid, msgs...)
					ok := 0
					if err == nil {
						ok = 1
					}
					for k := 1; k <= nmsgs; k++ {
						w.Emit(map[string]any{"ev": "tellret", "id": p*10 + k, "g": ok, "t": "p" + strconv.Itoa(p)})
					}
					return
				}
				for k := 1; k <= nmsgs; k++ {
					for y := 0; y < ys[k-1]; y++ {
						runtime.Gosched()
					}
					id := p*10 + k
					err := actor.Tell(ctx, pid, &Msg{ID: id})
					ok := 0
					if err == nil {
						ok = 1
					}
					w.Emit(map[string]any{"ev": "tellret", "id": id, "g": ok, "t": "p" + strconv.Itoa(p)})
				}
			}()
		}
		if mode == 2 && rng.Intn(2) == 0 { // external Stop racing the traffic
			wg.Add(1)
			d := rng.Intn(4)
			go func() {
				defer wg.Done()
				for y := 0; y < d; y++ {
					runtime.Gosched()
				}
				w.Emit(map[string]any{"ev": "stopcall", "id": 0, "g": 0, "t": "s"})
				err := pid.Shutdown(ctx)
				ok := 0
				if err == nil {
					ok = 1
				}
				w.Emit(map[string]any{"ev": "stopret", "id": 0, "g": ok, "t": "s"})
			}()
		}
		if mode == 3 && rng.Intn(2) == 0 { // PoisonPill racing the traffic
			wg.Add(1)
			d := rng.Intn(4)
			go func() {
				defer wg.Done()
				for y := 0; y < d; y++ {
					runtime.Gosched()
				}
				w.Emit(map[string]any{"ev": "pillcall", "id": 0, "g": 0, "t": "k"})
				_ = actor.Tell(ctx, pid, new(actor.PoisonPill))
			}()
		}
		if mode == 1 && rng.Intn(2) == 0 {
			wg.Add(1)
			go func() {
				defer wg.Done()
				w.Emit(map[string]any{"ev": "restartcall", "id": 0, "g": 0, "t": "r"})
				err := pid.Restart(ctx)
				ok := 0
				if err == nil {
					ok = 1
				}
				w.Emit(map[string]any{"ev": "restartret", "id": 0, "g": ok, "t": "r"})
			}()
		}
		wg.Wait()
		qd := 20 * time.Second
		if mode >= 2 {
			qd = 300 * time.Millisecond // a stopped actor may legitimately keep undelivered messages
		}
		q := waitQuiescent(pid, qd)
		qi := 0
		if q {
			qi = 1
		} else if mode < 2 {
			st.NotIdle++
		}
		w.Emit(map[string]any{"ev": "End", "id": qi, "g": 0, "t": ""})
		s.Close()
		_ = pid.Shutdown(ctx)
		st.Behaviours++
	}
	w.Raw(map[string]any{"ev": "New", "id": 0, "g": 0, "t": ""})
}

func main() {
	if len(os.Args) < 2 {
		fatal("usage: actorturn replay|stress ...")
	}
	ctx := context.Background()
	mk := func(budget int) actor.ActorSystem {
		sys, err := actor.NewActorSystem("verif", actor.WithLogger(log.DiscardLogger), actor.WithThroughputBudget(budget))
		if err != nil {
			fatal(err)
		}
		if err := sys.Start(ctx); err != nil {
			fatal(err)
		}
		return sys
	}
	st := &stats{}
	switch os.Args[1] {
	case "replay":
		if len(os.Args) != 5 {
			fatal("usage: actorturn replay <behaviours> <trace> <budget>")
		}
		behaviours, err := vtrace.ReadLines[behaviour](os.Args[2])
		if err != nil {
			fatal(err)
		}
		w, err := vtrace.Create(os.Args[3])
		if err != nil {
			fatal(err)
		}
		budget, _ := strconv.Atoi(os.Args[4])
		sys := mk(budget)
		replay(sys, behaviours, w, st)
		st.Events = w.Count()
		w.Close()
		_ = sys.Stop(ctx)
	case "explore":
		if len(os.Args) != 9 {
			fatal("usage: actorturn explore <runs> <producers> <msgs> <seed> <trace> <budget> <mode>")
		}
		runs, _ := strconv.Atoi(os.Args[2])
		nprod, _ := strconv.Atoi(os.Args[3])
		nmsgs, _ := strconv.Atoi(os.Args[4])
		seed, _ := strconv.ParseInt(os.Args[5], 10, 64)
		w, err := vtrace.Create(os.Args[6])
		if err != nil {
			fatal(err)
		}
		budget, _ := strconv.Atoi(os.Args[7])
		mode, _ := strconv.Atoi(os.Args[8])
		sys := mk(budget)
		if mode >= 10 { // 10: grain, 11: grain whose OnDeactivate fails + short deactivate-after
			exploreGrain(sys, runs, nprod, nmsgs, seed, w, mode == 11, st)
		} else {
			explore(sys, runs, nprod, nmsgs, seed, w, mode, st)
		}
		st.Events = w.Count()
		w.Close()
		_ = sys.Stop(ctx)
	case "stress":
		if len(os.Args) != 10 {
			fatal("usage: actorturn stress <histories> <producers> <msgs> <seed> <trace> <budget> <mailbox> <restarts 0|1>")
		}
		histories, _ := strconv.Atoi(os.Args[2])
		nprod, _ := strconv.Atoi(os.Args[3])
		nmsgs, _ := strconv.Atoi(os.Args[4])
		seed, _ := strconv.ParseInt(os.Args[5], 10, 64)
		w, err := vtrace.Create(os.Args[6])
		if err != nil {
			fatal(err)
		}
		budget, _ := strconv.Atoi(os.Args[7])
		sys := mk(budget)
		mode, _ := strconv.Atoi(os.Args[9])
		stress(sys, histories, nprod, nmsgs, seed, w, os.Args[8], mode, st)
		st.Events = w.Count()
		w.Close()
		_ = sys.Stop(ctx)
	default:
		fatal("unknown subcommand")
	}
	out, _ := json.Marshal(st)
	fmt.Println(string(out))
}
