// Command wirecodec executes TLC-enumerated abstract wire-frame cases on the REAL goakt frame
// decoders (internal/net) and records one NDJSON event per case for specs/WireCodec/Trace_Frame.tla.
//
//	wirecodec catalogue <maxframe>                                  print the message catalogue (JSON)
//	wirecodec run <cases.ndjson> <trace.ndjson> <maxframe> <nfuzz>  run the cases (+ seeded sampling)
//
// A case carries the physical byte stream as run-length-encoded bytes (computed by the TLA+ encoder
// from the abstract frames: length-field claims, actual section lengths, truncation). The driver
// judges nothing: it expands the bytes, runs every decode entry point, recovers panics, measures
// allocation and records what the real code did.
//
// Decode entry points:
//
//	ser   ProtoSerializer.UnmarshalBinary             (caller advances by the claimed total length)
//	serm  ProtoSerializer.UnmarshalBinaryWithMetadata (same)
//	cli   readProtoFrame + (*Client).unmarshalProtoResponse over a byte reader, until error / EOF
//	srv   (*ProtoServer).handleConn over an in-memory connection, fallback handler records
package main

import (
	"bytes"
	"encoding/binary"
	"encoding/json"
	"fmt"
	"io"
	"math/rand"
	stdnet "net"
	"os"
	"runtime"
	"runtime/pprof"
	"sort"
	"strconv"
	"time"

	"context"

	gnet "github.com/tochemey/goakt/v4/internal/net"
	"github.com/tochemey/goakt/v4/internal/internalpb"
	"github.com/tochemey/goakt/v4/internal/verifhook"
	"github.com/tochemey/goakt/v4/verifharness/vtrace"
	"google.golang.org/protobuf/proto"
	"google.golang.org/protobuf/types/known/durationpb"
)

const (
	futureNs = int64(3600e9)
	pastNs   = int64(-3600e9)
	tolNs    = int64(30e9)
	fillByte = 0x41
)

type catMsg struct {
	ID    string   `json:"id"`
	TName string   `json:"tname"`
	Name  []int    `json:"name"`
	Pay   [][2]int `json:"pay"`
	PLen  int      `json:"plen"`
	msg   proto.Message
}

type catalogue struct {
	Max    int      `json:"max"`
	Future []int    `json:"future"`
	Past   []int    `json:"past"`
	Msgs   []catMsg `json:"msgs"`
}

func rle(b []byte) [][2]int {
	out := [][2]int{}
	for i := 0; i < len(b); {
		j := i
		for j < len(b) && b[j] == b[i] {
			j++
		}
		out = append(out, [2]int{int(b[i]), j - i})
		i = j
	}
	return out
}

func ints(b []byte) []int {
	out := make([]int, len(b))
	for i, x := range b {
		out[i] = int(x)
	}
	return out
}

func bigMsg(n int) proto.Message {
	return &internalpb.RemoteAskGrainResponse{Message: bytes.Repeat([]byte{fillByte}, n)}
}

// bigFor returns a RemoteAskGrainResponse whose frame has exactly `total` bytes given `overhead`
// bytes of framing around the payload.
func bigFor(total, overhead int) proto.Message {
	for n := total - overhead - 8; n <= total; n++ {
		m := bigMsg(n)
		if proto.Size(m)+overhead == total {
			return m
		}
	}
	panic("no payload size gives the wanted frame length")
}

func buildCatalogue(max int) *catalogue {
	c := &catalogue{Max: max}
	var b [8]byte
	binary.BigEndian.PutUint64(b[:], uint64(futureNs))
	c.Future = ints(b[:])
	past := pastNs
	binary.BigEndian.PutUint64(b[:], uint64(past))
	c.Past = ints(b[:])
	nameN := len(proto.MessageName(&internalpb.RemoteAskGrainResponse{}))
	add := func(id string, m proto.Message) {
		pay, err := proto.MarshalOptions{Deterministic: true}.Marshal(m)
		if err != nil {
			panic(err)
		}
		n := string(proto.MessageName(m))
		c.Msgs = append(c.Msgs, catMsg{ID: id, TName: n, Name: ints([]byte(n)), Pay: rle(pay), PLen: len(pay), msg: m})
	}
	add("empty", &internalpb.RemoteTellResponse{})
	add("small", &internalpb.RemoteAskGrainResponse{Message: []byte("hi")})
	add("nested", &internalpb.RemoteAskRequest{
		RemoteMessages: []*internalpb.RemoteMessage{{Sender: "goakt://s@h:1/a", Receiver: "goakt://s@h:2/b", Message: []byte{1, 2, 3}}},
		Timeout:        durationpb.New(5 * time.Second),
	})
	// frames at the limit: legacy framing = 8 + name, metadata framing with an empty metadata section = 12 + name + 10
	for _, d := range []struct {
		s string
		d int
	}{{"m1", -1}, {"0", 0}, {"p1", 1}} {
		add("bigL_"+d.s, bigFor(max+d.d, 8+nameN))
		add("bigM_"+d.s, bigFor(max+d.d, 12+nameN+10))
	}
	return c
}

// ---------------------------------------------------------------------------------- cases

type aframe struct {
	Fmt string  `json:"fmt"`
	Msg string  `json:"msg"`
	MD  bool    `json:"md"`
	Hd  [][]int `json:"hd"`
	DL  string  `json:"dl"`
}

type caseC struct {
	Frames []aframe `json:"frames"`
	WF     bool     `json:"wf"`
}

type chunk struct {
	B []int `json:"b"`
	V int   `json:"v"`
	N int   `json:"n"`
}

type caseIn struct {
	C      json.RawMessage `json:"c"`
	Chunks []chunk         `json:"chunks"`
	Cut    int             `json:"cut"`
}

type frameObs struct {
	Name string       `json:"name"`
	Msg  string       `json:"msg"`
	MD   bool         `json:"md"`
	Hdrs [][][][2]int `json:"hdrs"`
	DL   string       `json:"dl"`
}

type result struct {
	Acc      []frameObs `json:"acc"`
	End      string     `json:"end"`
	Err      string     `json:"err"`
	Consumed int        `json:"consumed"`
	BufReq   []int      `json:"bufreq"`
	Heap     int        `json:"heap"`
}

type rawAcc struct {
	msg  proto.Message
	md   *gnet.Metadata
	name string
	at   int64
}

// ---------------------------------------------------------------------------------- hook

type allocHook struct{ reqs []int }

func (h *allocHook) At(point string, obj any, a, b int64) {
	if point == "wire.alloc" {
		if a > 1<<30 {
			a = 1 << 30 // TLC integers are 32 bit; anything this large is far beyond every frame limit
		}
		h.reqs = append(h.reqs, int(a))
	}
}
func (h *allocHook) Fault(point string, obj any, a int64) int { return 0 }

// ---------------------------------------------------------------------------------- in-memory conn

type memConn struct{ r *bytes.Reader }

func (c *memConn) Read(p []byte) (int, error)         { return c.r.Read(p) }
func (c *memConn) Write(p []byte) (int, error)        { return len(p), nil }
func (c *memConn) Close() error                       { return nil }
func (c *memConn) LocalAddr() stdnet.Addr             { return &stdnet.TCPAddr{IP: stdnet.IPv4(127, 0, 0, 1), Port: 1} }
func (c *memConn) RemoteAddr() stdnet.Addr            { return &stdnet.TCPAddr{IP: stdnet.IPv4(127, 0, 0, 1), Port: 2} }
func (c *memConn) SetDeadline(t time.Time) error      { return nil }
func (c *memConn) SetReadDeadline(t time.Time) error  { return nil }
func (c *memConn) SetWriteDeadline(t time.Time) error { return nil }

// ---------------------------------------------------------------------------------- driver

type driver struct {
	cat    *catalogue
	byID   map[string]*catMsg
	max    uint32
	ser    *gnet.ProtoSerializer
	client *gnet.Client
	pool   *gnet.FramePool
	server *gnet.ProtoServer
	hook   *allocHook
	srvAcc []rawAcc
	raws   []rawAcc
}

func newDriver(max int) *driver {
	d := &driver{cat: buildCatalogue(max), byID: map[string]*catMsg{}, max: uint32(max), ser: gnet.NewProtoSerializer(), hook: &allocHook{}}
	for i := range d.cat.Msgs {
		d.byID[d.cat.Msgs[i].ID] = &d.cat.Msgs[i]
	}
	d.client = gnet.NewClient("127.0.0.1:1", gnet.WithMaxFrameSize(d.max))
	d.pool, _ = d.client.VerifFramePool()
	ps, err := gnet.NewProtoServer("127.0.0.1:0", gnet.WithProtoServerMaxFrameSize(d.max),
		gnet.WithFallbackProtoHandler(func(ctx context.Context, _ gnet.Connection, req proto.Message) (proto.Message, error) {
			md, _ := gnet.FromContext(ctx)
			d.srvAcc = append(d.srvAcc, rawAcc{msg: req, md: md, name: string(proto.MessageName(req)), at: time.Now().UnixNano()})
			return nil, nil
		}))
	if err != nil {
		panic(err)
	}
	d.server = ps
	verifhook.Install(d.hook)
	return d
}

func (d *driver) project(a rawAcc) frameObs {
	o := frameObs{Name: a.name, Msg: "other", DL: "none", Hdrs: [][][][2]int{}}
	for i := range d.cat.Msgs {
		if proto.Equal(d.cat.Msgs[i].msg, a.msg) {
			o.Msg = d.cat.Msgs[i].ID
			break
		}
	}
	if a.md != nil {
		o.MD = true
		h, dn := a.md.VerifHeaders()
		keys := make([]string, 0, len(h))
		for k := range h {
			keys = append(keys, k)
		}
		sort.Strings(keys)
		for _, k := range keys {
			o.Hdrs = append(o.Hdrs, [][][2]int{rle([]byte(k)), rle([]byte(h[k]))})
		}
		if dn != 0 {
			rem := dn - a.at
			switch {
			case rem > futureNs-tolNs && rem < futureNs+tolNs:
				o.DL = "future"
			case rem > pastNs-tolNs && rem < pastNs+tolNs:
				o.DL = "past"
			default:
				o.DL = "other"
			}
		}
	}
	return o
}

// run executes one entry point on data: panics are recovered, heap bytes and frame-buffer requests measured.
func (d *driver) run(entry string, data []byte) result {
	res := result{Acc: []frameObs{}, BufReq: []int{}}
	d.raws = d.raws[:0]
	d.srvAcc = d.srvAcc[:0]
	d.hook.reqs = d.hook.reqs[:0]
	var m0, m1 runtime.MemStats
	runtime.ReadMemStats(&m0)
	func() {
		defer func() {
			if r := recover(); r != nil {
				res.End, res.Err = "panic", fmt.Sprint(r)
			}
		}()
		switch entry {
		case "ser", "serm":
			off := 0
			for off < len(data) {
				var msg proto.Message
				var md *gnet.Metadata
				var name string
				var err error
				if entry == "ser" {
					m, fn, e := d.ser.UnmarshalBinary(data[off:])
					msg, err, name = m, e, string(fn)
				} else {
					m, mdd, fn, e := d.ser.UnmarshalBinaryWithMetadata(data[off:])
					msg, md, err, name = m, mdd, e, string(fn)
				}
				if err != nil {
					res.End, res.Err = "err", err.Error()
					break
				}
				d.raws = append(d.raws, rawAcc{msg: msg, md: md, name: name, at: time.Now().UnixNano()})
				off += int(binary.BigEndian.Uint32(data[off:]))
			}
			if res.End == "" {
				res.End = "eof"
			}
			res.Consumed = off
		case "cli":
			rd := bytes.NewReader(data)
			for {
				before := rd.Len()
				frame, err := gnet.VerifReadProtoFrame(rd, d.pool, d.max)
				if err == io.EOF && rd.Len() == before {
					// clean end of stream: nothing of a next frame was there. (readProtoFrame also returns a
					// bare io.EOF when the stream ends right after a length prefix; that is a truncated frame.)
					res.End = "eof"
					break
				}
				if err != nil {
					res.End, res.Err = "err", err.Error()
					break
				}
				msg, md, err := d.client.VerifUnmarshalProtoResponse(frame)
				d.pool.Put(frame)
				if err != nil {
					res.End, res.Err = "err", err.Error()
					break
				}
				d.raws = append(d.raws, rawAcc{msg: msg, md: md, name: string(proto.MessageName(msg)), at: time.Now().UnixNano()})
			}
			res.Consumed = len(data) - rd.Len()
		case "srv":
			d.server.VerifServeConn(&memConn{r: bytes.NewReader(data)})
			res.End = "closed"
			res.Consumed = -1
		}
	}()
	runtime.ReadMemStats(&m1)
	res.Heap = int(m1.TotalAlloc - m0.TotalAlloc)
	if res.Heap > 1<<30 {
		res.Heap = 1 << 30 // TLC integers are 32 bit
	}
	res.BufReq = append(res.BufReq, d.hook.reqs...)
	src := d.raws
	if entry == "srv" {
		src = d.srvAcc
	}
	for _, a := range src {
		res.Acc = append(res.Acc, d.project(a))
	}
	if res.End != "panic" {
		res.Err = "" // the error text is not judged; keep the trace small
	} else if len(res.Err) > 200 {
		res.Err = res.Err[:200]
	}
	return res
}

var entries = []string{"ser", "serm", "cli", "srv"}

func (d *driver) runAll(data []byte) map[string]result {
	out := map[string]result{}
	for _, e := range entries {
		out[e] = d.run(e, data)
	}
	return out
}

func expand(chunks []chunk, cut int) []byte {
	n := 0
	for _, c := range chunks {
		n += c.N
	}
	b := make([]byte, 0, n)
	for _, c := range chunks {
		if len(c.B) > 0 {
			if len(c.B) != c.N {
				fatal("chunk with inconsistent length")
			}
			for _, x := range c.B {
				b = append(b, byte(x))
			}
			continue
		}
		b = append(b, bytes.Repeat([]byte{byte(c.V)}, c.N)...)
	}
	if cut >= 0 && cut < len(b) {
		b = b[:cut]
	}
	return b
}

// realEncode builds the stream with the REAL encoder for a well-formed abstract case. It returns the
// bytes and how they compare with the model's bytes: "same" (equal outside the 8 deadline bytes, the
// deadline within tolerance), "order" (never reached the model's header order), "diff".
func (d *driver) realEncode(c caseC, model []byte) ([]byte, string) {
	var out []byte
	verdict := "same"
	off := 0
	for _, f := range c.Frames {
		m := d.byID[f.Msg]
		if m == nil {
			fatal("unknown message id " + f.Msg)
		}
		var fb []byte
		var err error
		dlOff := -1
		if f.Fmt == "legacy" {
			fb, err = d.ser.MarshalBinary(m.msg)
		} else if !f.MD {
			fb, err = d.ser.MarshalBinaryWithMetadata(m.msg, nil)
		} else {
			for try := 0; try < 64; try++ {
				md := gnet.NewMetadata()
				klen := 0
				for i, h := range f.Hd {
					md.Set(string(bytes.Repeat([]byte{keyByte(i)}, h[0])), string(bytes.Repeat([]byte{valByte(i)}, h[1])))
					klen += 4 + h[0] + h[1]
				}
				switch f.DL {
				case "future":
					md.SetDeadline(time.Now().Add(time.Duration(futureNs)))
				case "past":
					md.SetDeadline(time.Now().Add(time.Duration(pastNs)))
				}
				fb, err = d.ser.MarshalBinaryWithMetadata(m.msg, md)
				if err != nil {
					break
				}
				dlOff = 12 + len(m.Name) + 2 + klen
				if off+len(fb) <= len(model) && equalMasked(fb, model[off:off+len(fb)], dlOff) {
					break
				}
			}
		}
		if err != nil {
			fatal("real encoder failed: " + err.Error())
		}
		if off+len(fb) > len(model) || !equalMasked(fb, model[off:off+len(fb)], dlOff) {
			verdict = "diff"
		} else if dlOff >= 0 && f.DL != "none" {
			got := int64(binary.BigEndian.Uint64(fb[dlOff:]))
			want := int64(binary.BigEndian.Uint64(model[off+dlOff:]))
			if got-want > tolNs || want-got > tolNs {
				verdict = "diff"
			}
		} else if dlOff >= 0 && !bytes.Equal(fb[dlOff:dlOff+8], model[off+dlOff:off+dlOff+8]) {
			verdict = "diff"
		}
		off += len(fb)
		out = append(out, fb...)
	}
	if off != len(model) {
		verdict = "diff"
	}
	return out, verdict
}

func keyByte(i int) byte { return []byte{'k', 'q', 'x'}[i%3] }
func valByte(i int) byte { return []byte{'v', 'w', 'y'}[i%3] }

func equalMasked(a, b []byte, dlOff int) bool {
	if len(a) != len(b) {
		return false
	}
	if dlOff < 0 {
		return bytes.Equal(a, b)
	}
	return bytes.Equal(a[:dlOff], b[:dlOff]) && bytes.Equal(a[dlOff+8:], b[dlOff+8:])
}

func fatal(s string) {
	fmt.Fprintln(os.Stderr, s)
	os.Exit(2)
}

func main() {
	if len(os.Args) == 3 && os.Args[1] == "catalogue" {
		max, _ := strconv.Atoi(os.Args[2])
		b, _ := json.Marshal(buildCatalogue(max))
		fmt.Println(string(b))
		return
	}
	if len(os.Args) != 6 || os.Args[1] != "run" {
		fatal("usage: wirecodec catalogue <max> | run <cases> <trace> <max> <nfuzz>")
	}
	max, _ := strconv.Atoi(os.Args[4])
	nfuzz, _ := strconv.Atoi(os.Args[5])
	seed, _ := strconv.ParseInt(os.Getenv("VERIF_SEED"), 10, 64)
	rng := rand.New(rand.NewSource(seed*7919 + 17))
	cases, err := vtrace.ReadLines[caseIn](os.Args[2])
	if err != nil {
		fatal(err.Error())
	}
	w, err := vtrace.Create(os.Args[3])
	if err != nil {
		fatal(err.Error())
	}
	if pf := os.Getenv("WIRECODEC_PROF"); pf != "" {
		f, _ := os.Create(pf)
		pprof.StartCPUProfile(f)
		defer pprof.StopCPUProfile()
	}
	runtime.GOMAXPROCS(1) // single-threaded driver; keeps the stop-the-world of ReadMemStats cheap
	d := newDriver(max)
	// warm-up: lazy protobuf initialisation, pool buckets, registry caches
	for i := range d.cat.Msgs {
		m := d.cat.Msgs[i].msg
		a, _ := d.ser.MarshalBinary(m)
		md := gnet.NewMetadata()
		md.Set("k", "v")
		b, _ := d.ser.MarshalBinaryWithMetadata(m, md)
		for k := 0; k < 2; k++ {
			d.runAll(a)
			d.runAll(b)
			d.runAll(b[:len(b)-1])
			d.runAll(a[:9])
		}
	}
	stats := map[string]int{}
	var small [][]byte
	for _, c := range cases {
		data := expand(c.Chunks, c.Cut)
		r := d.runAll(data)
		w.Raw(map[string]any{"kind": "dec", "c": c.C, "len": len(data), "r": r})
		stats["dec"]++
		for _, e := range entries {
			stats["acc_"+e] += len(r[e].Acc)
			if r[e].End == "panic" {
				stats["panic"]++
			}
		}
		if len(data) <= 2048 && len(small) < 4000 {
			small = append(small, data)
		}
		var cc caseC
		if err := json.Unmarshal(c.C, &cc); err != nil {
			fatal("case: " + err.Error())
		}
		if cc.WF {
			real, verdict := d.realEncode(cc, data)
			r := d.runAll(real)
			w.Raw(map[string]any{"kind": "rt", "c": c.C, "len": len(real), "enc": verdict, "r": r})
			stats["rt"]++
			if verdict != "same" {
				stats["enc_"+verdict]++
			}
		}
	}
	// seeded sampling around the structured cases (robustness clause only)
	for i := 0; i < nfuzz; i++ {
		var data []byte
		src := "random"
		switch {
		case i%3 == 0 || len(small) == 0:
			data = make([]byte, rng.Intn(96))
			rng.Read(data)
			if len(data) >= 4 && rng.Intn(2) == 0 { // plausible length prefix
				binary.BigEndian.PutUint32(data, uint32(rng.Intn(2*len(data)+2)))
			}
			if len(data) >= 12 && rng.Intn(2) == 0 {
				binary.BigEndian.PutUint32(data[4:], uint32(rng.Intn(40)))
				binary.BigEndian.PutUint32(data[8:], uint32(rng.Intn(40)))
			}
		default:
			src = "flip"
			base := small[rng.Intn(len(small))]
			data = append([]byte{}, base...)
			for k := 0; k <= rng.Intn(3) && len(data) > 0; k++ {
				p := rng.Intn(len(data))
				if rng.Intn(2) == 0 && len(data) > 16 {
					p = rng.Intn(16)
				}
				if rng.Intn(2) == 0 {
					data[p] ^= 1 << uint(rng.Intn(8))
				} else {
					data[p] = byte(rng.Intn(256))
				}
			}
		}
		r := d.runAll(data)
		w.Raw(map[string]any{"kind": "fuzz", "c": map[string]any{"src": src, "wf": false}, "len": len(data), "r": r})
		stats["fuzz"]++
		for _, e := range entries {
			stats["fuzzacc_"+e] += len(r[e].Acc)
			if r[e].End == "panic" {
				stats["panic"]++
			}
		}
	}
	stats["events"] = int(w.Count())
	if err := w.Close(); err != nil {
		fatal(err.Error())
	}
	b, _ := json.Marshal(stats)
	fmt.Println(string(b))
}
