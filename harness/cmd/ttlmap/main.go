// Command ttlmap replays TLC-generated operation histories on the real
// xsync.TTLMap (fake clock) and records an NDJSON trace for Trace_TTLMap*.tla.
//
//	ttlmap replay <behaviours.ndjson> <trace.ndjson> <ttl-ticks>
package main

import (
	"fmt"
	"os"
	"strconv"
	"time"

	"github.com/tochemey/goakt/v4/internal/xsync"
	"github.com/tochemey/goakt/v4/verifharness/vtrace"
)

type op struct {
	Op  string `json:"op"`
	K   string `json:"k"`
	V   int    `json:"v"`
	Res int    `json:"res"`
}

var keys = []string{"a", "b", "c"}

const tick = int64(1000)

func main() {
	if len(os.Args) != 5 || os.Args[1] != "replay" {
		fmt.Fprintln(os.Stderr, "usage: ttlmap replay <behaviours> <trace> <ttl>")
		os.Exit(2)
	}
	behaviours, err := vtrace.ReadLines[[]op](os.Args[2])
	if err != nil {
		fmt.Fprintln(os.Stderr, err)
		os.Exit(2)
	}
	ttl, _ := strconv.Atoi(os.Args[4])
	w, err := vtrace.Create(os.Args[3])
	if err != nil {
		fmt.Fprintln(os.Stderr, err)
		os.Exit(2)
	}
	predMismatch := 0
	for _, b := range behaviours {
		var now int64
		m := xsync.NewTTLMapWithClock[string, int](time.Duration(int64(ttl)*tick), func() int64 { return now })
		w.Raw(map[string]any{"op": "New"})
		// every history is followed by a probe of all keys through the public API
		full := append(append([]op{}, b...), op{Op: "Get", K: "a", Res: -1}, op{Op: "Get", K: "b", Res: -1}, op{Op: "Get", K: "c", Res: -1}, op{Op: "ActiveLen", Res: -1})
		for _, o := range full {
			res := 0
			switch o.Op {
			case "Set":
				m.Set(o.K, o.V)
			case "Get":
				if v, ok := m.Get(o.K); ok {
					res = v
					if v == 0 {
						res = -2 // present with zero value: impossible for model values
					}
				} else if v != 0 {
					res = -3 // absent but non-zero value returned
				}
			case "Delete":
				m.Delete(o.K)
			case "Reset":
				m.Reset()
			case "Len":
				res = m.Len()
			case "ActiveLen":
				res = m.ActiveLen()
			case "Tick":
				now += tick
			case "Init":
				continue
			default:
				fmt.Fprintln(os.Stderr, "unknown op", o.Op)
				os.Exit(2)
			}
			if o.Res >= 0 && o.Res != res {
				predMismatch++ // the model's prediction differs (drift indicator only)
			}
			head, olen, ilen := m.VerifShape()
			slots := map[string]int{}
			for _, k := range keys {
				slots[k] = m.VerifSlot(k) + 1
			}
			w.Raw(map[string]any{"op": o.Op, "k": o.K, "v": o.V, "res": res, "head": head, "olen": olen, "ilen": ilen, "slots": slots})
		}
	}
	n := w.Count()
	if err := w.Close(); err != nil {
		fmt.Fprintln(os.Stderr, err)
		os.Exit(2)
	}
	fmt.Printf("{\"behaviours\":%d,\"events\":%d,\"pred_mismatch\":%d}\n", len(behaviours), n, predMismatch)
}
