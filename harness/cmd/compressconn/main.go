// Command compressconn drives the REAL connection-compression wrappers of goakt
// (internal/net: GzipConnWrapper, ZstdConnWrapper, BrotliConnWrapper, and "none" =
// the raw conn as the server/client use it when no wrapper is configured) over a
// controllable in-memory duplex conn and records one NDJSON event per action for
// specs/CompressConn/StreamMonitor.tla.
//
//	compressconn replay <walks.ndjson> <trace.ndjson>     TLC-generated schedules, every setting
//	compressconn stress <trace.ndjson> <rounds>           free-running goroutines (VERIF_SEED)
//
// Events (d = direction "ab"/"ba", e = endpoint "a"/"b"):
//
//	New{cfg,walk}  WCall{d,n,kind}  WRet{d,n,err,raww}  Deliver{d,k}
//	RRet{d,b,n,err,eq,bad,rawr}     err: 0 nil, 1 io.EOF, 2 other, 3 harness deadline
//	RBlock{d,b,raww,rawr,q,credit}  the Read is parked in raw.Read with nothing readable
//	Close{e}  Break{d}
//
// eq is the byte comparison of what Read returned with the ground-truth log of what
// was handed to Write in that direction at the same offsets.
package main

import (
	"bufio"
	"encoding/json"
	"errors"
	"fmt"
	"io"
	"math/rand"
	"net"
	"os"
	"runtime"
	"strconv"
	"sync"
	"time"

	gnet "github.com/tochemey/goakt/v4/internal/net"
	"github.com/tochemey/goakt/v4/verifharness/vtrace"
)

// ---------------------------------------------------------------- trace log

type tlog struct {
	mu sync.Mutex
	f  *os.File
	w  *bufio.Writer
	n  int
}

func newLog(path string) *tlog {
	f, err := os.Create(path)
	if err != nil {
		fatal(err)
	}
	return &tlog{f: f, w: bufio.NewWriterSize(f, 1<<20)}
}

func (l *tlog) emit(ev map[string]any) {
	l.mu.Lock()
	defer l.mu.Unlock()
	b, _ := json.Marshal(ev)
	l.w.Write(b)
	l.w.WriteByte('\n')
	l.n++
}
func (l *tlog) flush() { l.mu.Lock(); l.w.Flush(); l.mu.Unlock() }

func fatal(err error) {
	fmt.Fprintln(os.Stderr, "compressconn:", err)
	os.Exit(2)
}

// ---------------------------------------------------------------- controllable conn

var errBroken = errors.New("vconn: write: broken pipe")

type half struct {
	q        []byte
	credit   int // bytes the receiver may still consume, -1 = unlimited
	chunkMax int // > 0: every raw Read returns at most rnd(1..chunkMax) bytes (stress)
	wclosed  bool
	rclosed  bool
	broken   bool
	shorted  bool
	kicked   bool
	rawW     int
	rawR     int
	waiting  bool
}

func (h *half) readable() bool {
	return h.rclosed || h.kicked || (len(h.q) > 0 && h.credit != 0) || (len(h.q) == 0 && h.wclosed)
}

type pipe struct {
	mu      sync.Mutex
	cond    *sync.Cond
	h       map[string]*half
	rng     *rand.Rand
	expired bool
}

func newPipe(seed int64) *pipe {
	p := &pipe{h: map[string]*half{"ab": {}, "ba": {}}, rng: rand.New(rand.NewSource(seed))}
	p.cond = sync.NewCond(&p.mu)
	return p
}

type endpoint struct {
	p       *pipe
	out, in *half
	name    string
}

type addr string

func (a addr) Network() string { return "vconn" }
func (a addr) String() string  { return string(a) }

func (e *endpoint) Read(b []byte) (int, error) {
	p := e.p
	p.mu.Lock()
	defer p.mu.Unlock()
	if len(b) == 0 {
		return 0, nil
	}
	h := e.in
	for {
		if h.rclosed {
			return 0, net.ErrClosed
		}
		if h.kicked {
			h.kicked = false
			return 0, os.ErrDeadlineExceeded
		}
		if len(h.q) > 0 && h.credit != 0 {
			n := len(b)
			if n > len(h.q) {
				n = len(h.q)
			}
			if h.credit > 0 && n > h.credit {
				n = h.credit
			}
			if h.chunkMax > 0 {
				if c := 1 + p.rng.Intn(h.chunkMax); n > c {
					n = c
				}
			}
			copy(b, h.q[:n])
			h.q = h.q[n:]
			if h.credit > 0 {
				h.credit -= n
			}
			h.rawR += n
			return n, nil
		}
		if len(h.q) == 0 && h.wclosed {
			return 0, io.EOF
		}
		h.waiting = true
		p.cond.Broadcast()
		p.cond.Wait()
		h.waiting = false
	}
}

func (e *endpoint) Write(b []byte) (int, error) {
	p := e.p
	p.mu.Lock()
	defer p.mu.Unlock()
	h := e.out
	if h.wclosed {
		return 0, net.ErrClosed
	}
	n := len(b)
	var err error
	if h.broken { // the first refused write is a short write (half is accepted), later ones accept nothing
		if h.shorted {
			n = 0
		} else {
			n, h.shorted = n/2, true
		}
		err = errBroken
	}
	if !h.rclosed {
		h.q = append(h.q, b[:n]...)
	}
	h.rawW += n
	p.cond.Broadcast()
	return n, err
}

func (e *endpoint) Close() error {
	p := e.p
	p.mu.Lock()
	defer p.mu.Unlock()
	e.out.wclosed = true
	e.in.rclosed = true
	e.in.q = nil
	p.cond.Broadcast()
	return nil
}
func (e *endpoint) LocalAddr() net.Addr              { return addr(e.name) }
func (e *endpoint) RemoteAddr() net.Addr             { return addr("peer-of-" + e.name) }
func (e *endpoint) SetDeadline(time.Time) error      { return nil }
func (e *endpoint) SetReadDeadline(time.Time) error  { return nil }
func (e *endpoint) SetWriteDeadline(time.Time) error { return nil }

// ---------------------------------------------------------------- settings

type setting struct {
	name string
	wrap func(net.Conn) (net.Conn, error)
}

func settings() []setting {
	gz, err := gnet.NewGzipConnWrapper()
	if err != nil {
		fatal(err)
	}
	zs, err := gnet.NewZstdConnWrapper()
	if err != nil {
		fatal(err)
	}
	br := gnet.NewBrotliConnWrapper()
	return []setting{
		{"none", func(c net.Conn) (net.Conn, error) { return c, nil }},
		{"gzip", gz.Wrap},
		{"zstd", zs.Wrap},
		{"brotli", br.Wrap},
	}
}

// ---------------------------------------------------------------- one connection under test

type readOp struct {
	b    int
	buf  []byte
	n    int
	err  error
	done bool
}

type session struct {
	lg      *tlog
	p       *pipe
	ep      map[string]*endpoint
	conn    map[string]net.Conn // by endpoint
	gmu     sync.Mutex
	written map[string][]byte // ground truth per direction
	okW     map[string]int    // bytes covered by successful writes (frozen after a failure)
	wfail   map[string]bool
	del     map[string]int
	pending map[string]*readOp
	dirty   map[string]bool
	closed  map[string]bool
	nwrite  int
	rng     *rand.Rand
}

func writerOf(d string) string { return d[:1] }
func readerOf(d string) string { return d[1:] }
func inDir(e string) string {
	if e == "a" {
		return "ba"
	}
	return "ab"
}
func outDir(e string) string {
	if e == "a" {
		return "ab"
	}
	return "ba"
}

var dirs = []string{"ab", "ba"}

func newSession(lg *tlog, st setting, seed int64) (*session, error) {
	p := newPipe(seed)
	s := &session{lg: lg, p: p, ep: map[string]*endpoint{}, conn: map[string]net.Conn{},
		written: map[string][]byte{}, okW: map[string]int{}, wfail: map[string]bool{}, del: map[string]int{},
		pending: map[string]*readOp{}, dirty: map[string]bool{}, closed: map[string]bool{}, rng: rand.New(rand.NewSource(seed))}
	s.ep["a"] = &endpoint{p: p, out: p.h["ab"], in: p.h["ba"], name: "a"}
	s.ep["b"] = &endpoint{p: p, out: p.h["ba"], in: p.h["ab"], name: "b"}
	for _, e := range []string{"a", "b"} {
		var c net.Conn
		var err error
		done := make(chan struct{})
		go func() { c, err = st.wrap(s.ep[e]); close(done) }()
		select {
		case <-done:
		case <-time.After(20 * time.Second):
			return nil, fmt.Errorf("WATCHDOG: Wrap(%s) blocked", st.name)
		}
		if err != nil {
			return nil, err
		}
		s.conn[e] = c
	}
	return s, nil
}

// content: every byte position of a direction is distinguishable ("ctr", compressible text
// carrying the global line number; "rnd", incompressible) or highly compressible ("rep").
func (s *session) content(d, kind string, n int) []byte {
	off := len(s.written[d])
	b := make([]byte, n)
	switch kind {
	case "rnd":
		s.rng.Read(b)
	case "rep":
		c := byte('A' + s.nwrite%26)
		if d == "ba" {
			c = byte('a' + s.nwrite%26)
		}
		for i := range b {
			b[i] = c
		}
	default:
		for i := range b {
			pos := off + i
			line := fmt.Sprintf("%s%011d\n", d, pos/14)
			b[i] = line[pos%14]
		}
	}
	s.nwrite++
	return b
}

func errCode(err error) int {
	switch {
	case err == nil:
		return 0
	case errors.Is(err, io.EOF) && !errors.Is(err, io.ErrUnexpectedEOF):
		return 1
	case errors.Is(err, os.ErrDeadlineExceeded):
		return 3
	}
	return 2
}

func (s *session) write(d string, n int, kind string) {
	e := writerOf(d)
	b := s.content(d, kind, n)
	s.gmu.Lock()
	s.written[d] = append(s.written[d], b...)
	total := len(s.written[d])
	s.gmu.Unlock()
	s.lg.emit(map[string]any{"op": "WCall", "d": d, "n": n, "kind": kind})
	rn, err := s.conn[e].Write(b)
	s.p.mu.Lock()
	raww := s.p.h[d].rawW
	s.p.mu.Unlock()
	ev := map[string]any{"op": "WRet", "d": d, "n": rn, "err": errCode(err), "raww": raww}
	if err != nil {
		ev["msg"] = err.Error()
		s.wfail[d] = true
	} else if !s.wfail[d] {
		s.okW[d] = total
	}
	s.lg.emit(ev)
	s.dirty[d] = true
}

// compare what a Read returned with the ground truth at the same offsets
func (s *session) compare(d string, got []byte) (bool, int) {
	s.gmu.Lock()
	defer s.gmu.Unlock()
	w := s.written[d]
	off := s.del[d]
	for i, c := range got {
		if off+i >= len(w) || w[off+i] != c {
			return false, i
		}
	}
	return true, -1
}

func (s *session) emitRRet(d string, op *readOp) {
	eq, bad := s.compare(d, op.buf[:op.n])
	s.p.mu.Lock()
	rawr := s.p.h[d].rawR
	s.p.mu.Unlock()
	ev := map[string]any{"op": "RRet", "d": d, "b": op.b, "n": op.n, "err": errCode(op.err), "eq": eq, "bad": bad, "rawr": rawr}
	if op.err != nil && op.err != io.EOF {
		ev["msg"] = op.err.Error()
	}
	s.lg.emit(ev)
	s.gmu.Lock()
	s.del[d] += op.n
	s.gmu.Unlock()
}

func (s *session) startRead(d string, b int) {
	op := &readOp{b: b, buf: make([]byte, b)}
	s.pending[d] = op
	s.dirty[d] = true
	c := s.conn[readerOf(d)]
	go func() {
		n, err := c.Read(op.buf)
		s.p.mu.Lock()
		op.n, op.err, op.done = n, err, true
		s.p.cond.Broadcast()
		s.p.mu.Unlock()
	}()
}

// settle waits until the pending Read of d has returned or is parked in raw.Read with nothing
// readable (a definite state of the conn, no timing involved); returns true when it returned.
func (s *session) settle(d string) (bool, error) {
	op := s.pending[d]
	h := s.p.h[d]
	p := s.p
	t := time.AfterFunc(30*time.Second, func() { p.mu.Lock(); p.expired = true; p.cond.Broadcast(); p.mu.Unlock() })
	defer t.Stop()
	p.mu.Lock()
	defer p.mu.Unlock()
	for !(op.done || (h.waiting && !h.readable())) {
		if p.expired {
			return false, fmt.Errorf("WATCHDOG: Read(%s) neither returned nor parked in raw.Read", d)
		}
		p.cond.Wait()
	}
	return op.done, nil
}

// observe reports, for every direction with a pending Read, its result or its blocked state
func (s *session) observe() error {
	for _, d := range dirs {
		op := s.pending[d]
		if op == nil {
			continue
		}
		done, err := s.settle(d)
		if err != nil {
			return err
		}
		if done {
			s.emitRRet(d, op)
			s.pending[d] = nil
			continue
		}
		if s.dirty[d] {
			s.p.mu.Lock()
			h := s.p.h[d]
			ev := map[string]any{"op": "RBlock", "d": d, "b": op.b, "raww": h.rawW, "rawr": h.rawR, "q": len(h.q), "credit": h.credit}
			s.p.mu.Unlock()
			s.lg.emit(ev)
		}
	}
	for _, d := range dirs {
		s.dirty[d] = false
	}
	return nil
}

func (s *session) deliver(d string, k int) {
	s.p.mu.Lock()
	h := s.p.h[d]
	switch {
	case k == -2:
		h.credit = -1 // everything, also what comes later (drain)
	case k == -1:
		if h.credit >= 0 {
			h.credit += len(h.q) // everything the conn holds now
			if h.credit < len(h.q) {
				h.credit = len(h.q)
			}
		}
	default:
		if h.credit >= 0 {
			h.credit += k
		}
	}
	s.p.cond.Broadcast()
	s.p.mu.Unlock()
	s.lg.emit(map[string]any{"op": "Deliver", "d": d, "k": k})
	s.dirty[d] = true
}

// kick releases a parked Read of d with the conn's deadline error (what SetReadDeadline does)
func (s *session) kick(d string) error {
	if s.pending[d] == nil {
		return nil
	}
	s.p.mu.Lock()
	s.p.h[d].kicked = true
	s.p.cond.Broadcast()
	s.p.mu.Unlock()
	s.lg.emit(map[string]any{"op": "Kick", "d": d})
	s.dirty[d] = true
	return s.observe()
}

func (s *session) closeEnd(e string) error {
	if s.closed[e] {
		return nil
	}
	// a Read pending on the closing endpoint itself is released first (own deadline)
	if err := s.kick(inDir(e)); err != nil {
		return err
	}
	s.lg.emit(map[string]any{"op": "Close", "e": e})
	s.lg.flush()
	done := make(chan error, 1)
	go func() { done <- s.conn[e].Close() }()
	select {
	case <-done:
	case <-time.After(20 * time.Second):
		return fmt.Errorf("WATCHDOG: Close(%s) blocked", e)
	}
	s.closed[e] = true
	s.dirty["ab"], s.dirty["ba"] = true, true
	return s.observe()
}

func (s *session) breakDir(d string) {
	s.p.mu.Lock()
	s.p.h[d].broken = true
	s.p.mu.Unlock()
	s.lg.emit(map[string]any{"op": "Break", "d": d})
}

// drain: unlimited delivery, then read until everything covered by successful writes arrived
func (s *session) drain() error {
	for _, d := range dirs {
		if s.closed[readerOf(d)] {
			continue
		}
		s.deliver(d, -2)
		if err := s.observe(); err != nil {
			return err
		}
		for i := 0; i < 10000 && s.del[d] < s.okW[d] && !s.closed[readerOf(d)]; i++ {
			if s.pending[d] == nil {
				s.startRead(d, 65536)
			}
			op := s.pending[d]
			if err := s.observe(); err != nil {
				return err
			}
			if s.pending[d] != nil || op.err != nil {
				break // blocked (reported as RBlock) or failed: the monitor decides
			}
		}
	}
	return nil
}

// readToEOF: the writer of d has closed; its peer must get all the data and then the end of stream
func (s *session) readToEOF(d string) error {
	zero := 0
	for i := 0; i < 10000 && !s.closed[readerOf(d)] && zero < 4; i++ {
		if s.pending[d] == nil {
			s.startRead(d, 65536)
		}
		op := s.pending[d]
		if err := s.observe(); err != nil {
			return err
		}
		if s.pending[d] != nil || op.err != nil {
			break
		}
		if op.n == 0 { // (0, nil) is legal for an io.Reader; do not spin on it
			zero++
		} else {
			zero = 0
		}
	}
	return nil
}

// finish: drain, then close the endpoints (a, then b); the peer of a closed endpoint must
// see the end of the stream only after all the data
func (s *session) finish() error {
	if err := s.drain(); err != nil {
		return err
	}
	for _, e := range []string{"a", "b"} {
		if s.closed[e] {
			if err := s.readToEOF(outDir(e)); err != nil {
				return err
			}
		}
	}
	for _, e := range []string{"a", "b"} {
		if s.closed[e] {
			continue
		}
		if err := s.closeEnd(e); err != nil {
			return err
		}
		if err := s.readToEOF(outDir(e)); err != nil {
			return err
		}
	}
	return nil
}

// ---------------------------------------------------------------- replay of TLC walks

type step struct {
	Op   string `json:"op"`
	D    string `json:"d"`
	E    string `json:"e"`
	X    int    `json:"x"`
	Kind string `json:"kind"`
}

func replay(walksPath, tracePath string) {
	walks, err := vtrace.ReadLines[[]step](walksPath)
	if err != nil {
		fatal(err)
	}
	lg := newLog(tracePath)
	seed, _ := strconv.ParseInt(os.Getenv("VERIF_SEED"), 10, 64)
	// sync.Pool is per-P: with one P a codec returned by Close is the one the next Wrap gets
	runtime.GOMAXPROCS(1)
	sts := settings()
	sessions := 0
	watchdog := ""
	for wi, walk := range walks {
		for _, st := range sts {
			// a "Reopen" step abandons the connection as it is (Close of both endpoints with
			// whatever is still undelivered or undecoded) and continues the walk on a NEW
			// connection wrapped by the same wrapper: the pooled codecs of the abandoned
			// connection are the ones the new connection gets
			segs := [][]step{nil}
			for _, x := range walk {
				if x.Op == "Reopen" {
					segs = append(segs, nil)
					continue
				}
				segs[len(segs)-1] = append(segs[len(segs)-1], x)
			}
			var err error
			for si, seg := range segs {
				lg.emit(map[string]any{"op": "New", "cfg": st.name, "walk": wi, "seg": si})
				var s *session
				s, err = newSession(lg, st, seed*1000003+int64(wi)*7+int64(si))
				if err == nil {
					err = s.run(seg, si < len(segs)-1)
				}
				sessions++
				if err != nil {
					break
				}
			}
			if err != nil {
				watchdog = fmt.Sprintf("%s walk %d: %v", st.name, wi, err)
				break
			}
		}
		if watchdog != "" {
			break
		}
	}
	lg.flush()
	out, _ := json.Marshal(map[string]any{"events": lg.n, "sessions": sessions, "walks": len(walks), "watchdog": watchdog})
	fmt.Println(string(out))
	if watchdog != "" {
		os.Exit(3)
	}
}

func (s *session) run(walk []step, abandon bool) error {
	for _, st := range walk {
		switch st.Op {
		case "Write":
			if s.closed[writerOf(st.D)] {
				continue
			}
			s.write(st.D, st.X, st.Kind)
		case "Deliver":
			if s.closed[readerOf(st.D)] {
				continue
			}
			s.deliver(st.D, st.X)
		case "Read":
			if s.closed[readerOf(st.D)] || s.pending[st.D] != nil {
				continue
			}
			s.startRead(st.D, st.X)
		case "Close":
			if err := s.closeEnd(st.E); err != nil {
				return err
			}
			continue
		case "Break":
			s.breakDir(st.D)
		}
		if err := s.observe(); err != nil {
			return err
		}
	}
	if abandon { // no drain, no read-to-EOF: close with the decoders in whatever state they are
		for _, e := range []string{"a", "b"} {
			if err := s.closeEnd(e); err != nil {
				return err
			}
		}
		return nil
	}
	return s.finish()
}

// ---------------------------------------------------------------- free-running stress

var wsizes = []int{0, 1, 2, 17, 300, 4095, 4096, 4097, 32767, 32768, 32769, 70000, 200000}
var rsizes = []int{1, 7, 512, 4096, 32768, 65536, 1 << 18}
var kinds = []string{"ctr", "rnd", "rep"}

func stress(tracePath string, rounds int) {
	lg := newLog(tracePath)
	seed, _ := strconv.ParseInt(os.Getenv("VERIF_SEED"), 10, 64)
	sts := settings()
	sessions := 0
	watchdog := ""
	var bytesTotal int64
	for r := 0; r < rounds && watchdog == ""; r++ {
		for _, st := range sts {
			lg.emit(map[string]any{"op": "New", "cfg": st.name, "walk": -1 - r})
			s, err := newSession(lg, st, seed*7919+int64(r))
			if err == nil {
				var nb int64
				nb, err = s.stressRound(seed*7919 + int64(r))
				bytesTotal += nb
			}
			sessions++
			if err != nil {
				watchdog = fmt.Sprintf("%s round %d: %v", st.name, r, err)
				break
			}
		}
	}
	lg.flush()
	out, _ := json.Marshal(map[string]any{"events": lg.n, "sessions": sessions, "bytes": bytesTotal, "watchdog": watchdog})
	fmt.Println(string(out))
	if watchdog != "" {
		os.Exit(3)
	}
}

func (s *session) stressRound(seed int64) (int64, error) {
	rng := rand.New(rand.NewSource(seed))
	plan := map[string][]int{}
	target := map[string]int{}
	for _, d := range dirs {
		nwr := 4 + rng.Intn(20)
		for i := 0; i < nwr; i++ {
			n := wsizes[rng.Intn(len(wsizes))]
			if rng.Intn(4) == 0 {
				n = rng.Intn(9000)
			}
			plan[d] = append(plan[d], n)
			target[d] += n
		}
		h := s.p.h[d]
		h.credit = -1
		h.chunkMax = []int{1 << 20, 1 << 20, 4096, 100, 3}[rng.Intn(5)]
		if h.chunkMax <= 100 && target[d] > 60000 { // keep byte-wise delivery for small volumes
			h.chunkMax = 1500
		}
	}
	var wg sync.WaitGroup
	rdone := map[string]chan struct{}{}
	for _, d := range dirs {
		d := d
		wrng := rand.New(rand.NewSource(seed + int64(len(d)) + int64(d[0])))
		rrng := rand.New(rand.NewSource(seed + 77 + int64(d[0])))
		wg.Add(1)
		go func() { // writer
			defer wg.Done()
			for _, n := range plan[d] {
				s.gmu.Lock()
				b := s.content(d, kinds[wrng.Intn(3)], n)
				s.written[d] = append(s.written[d], b...)
				s.gmu.Unlock()
				s.lg.emit(map[string]any{"op": "WCall", "d": d, "n": n})
				rn, err := s.conn[writerOf(d)].Write(b)
				s.p.mu.Lock()
				raww := s.p.h[d].rawW
				s.p.mu.Unlock()
				s.lg.emit(map[string]any{"op": "WRet", "d": d, "n": rn, "err": errCode(err), "raww": raww})
				if err != nil {
					return
				}
				if wrng.Intn(3) == 0 {
					time.Sleep(time.Duration(wrng.Intn(200)) * time.Microsecond)
				}
			}
		}()
		rdone[d] = make(chan struct{})
		go func() { // reader
			defer close(rdone[d])
			c := s.conn[readerOf(d)]
			got := 0
			for got < target[d] {
				b := rsizes[rrng.Intn(len(rsizes))]
				buf := make([]byte, b)
				n, err := c.Read(buf)
				op := &readOp{b: b, buf: buf, n: n, err: err}
				s.emitRRet(d, op)
				got += n
				if err != nil {
					return
				}
			}
		}()
	}
	wg.Wait()
	// every Write has returned: each reader either finishes or parks with nothing readable
	p := s.p
	t := time.AfterFunc(60*time.Second, func() { p.mu.Lock(); p.expired = true; p.cond.Broadcast(); p.mu.Unlock() })
	defer t.Stop()
	stuck := false
	for _, d := range dirs {
		d := d
		fin := false
		go func() { <-rdone[d]; p.mu.Lock(); fin = true; p.cond.Broadcast(); p.mu.Unlock() }()
		p.mu.Lock()
		h := p.h[d]
		for !(fin || (h.waiting && !h.readable())) {
			if p.expired {
				p.mu.Unlock()
				return 0, fmt.Errorf("WATCHDOG: stress reader %s neither finished nor parked", d)
			}
			p.cond.Wait()
		}
		if !fin {
			stuck = true
			s.lg.emit(map[string]any{"op": "RBlock", "d": d, "b": 1, "raww": h.rawW, "rawr": h.rawR, "q": len(h.q), "credit": h.credit})
		}
		p.mu.Unlock()
	}
	s.lg.flush()
	if stuck { // release the parked readers; the monitor has what it needs
		for _, d := range dirs {
			p.mu.Lock()
			p.h[d].kicked = true
			p.cond.Broadcast()
			p.mu.Unlock()
		}
	}
	for _, d := range dirs {
		select {
		case <-rdone[d]:
		case <-time.After(20 * time.Second):
			return 0, fmt.Errorf("WATCHDOG: stress reader %s did not stop", d)
		}
	}
	for _, e := range []string{"a", "b"} {
		s.lg.emit(map[string]any{"op": "Close", "e": e})
		s.conn[e].Close()
	}
	return int64(target["ab"] + target["ba"]), nil
}

func main() {
	if len(os.Args) == 4 && os.Args[1] == "replay" {
		replay(os.Args[2], os.Args[3])
		return
	}
	if len(os.Args) == 4 && os.Args[1] == "stress" {
		r, _ := strconv.Atoi(os.Args[3])
		stress(os.Args[2], r)
		return
	}
	fmt.Fprintln(os.Stderr, "usage: compressconn replay <walks> <trace> | stress <trace> <rounds>")
	os.Exit(2)
}
