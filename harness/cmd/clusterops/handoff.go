package main

// C35: every behaviour (the environment of one name-based send: API, caller timeout, mask
// expiry, registry answers, delivery behaviour) is executed through the REAL PID.SendSync /
// PID.SendAsync -> deliverAcrossHandoff / deliverBypassingHandoff / sleepWithinHandoff of a
// system that is a member of a fake cluster.  Registry answers are scripted in the fake olric
// map underneath goakt's real cluster engine; the final delivery goes to a stub remoting
// client that records the context deadline it was given; the sleeps requested and the
// deadlines computed are recorded by the verifhook points handoff.begin / handoff.attempt /
// handoff.sleep.  All times in the trace are microseconds relative to the call.

import (
	"context"
	"errors"
	"fmt"
	"os"
	"sort"
	"sync"
	"sync/atomic"
	"time"

	"github.com/tochemey/olric"

	"github.com/tochemey/goakt/v4/actor"
	"github.com/tochemey/goakt/v4/discovery"
	gerrors "github.com/tochemey/goakt/v4/errors"
	"github.com/tochemey/goakt/v4/internal/address"
	"github.com/tochemey/goakt/v4/internal/cluster"
	"github.com/tochemey/goakt/v4/internal/internalpb"
	"github.com/tochemey/goakt/v4/internal/remoteclient"
	"github.com/tochemey/goakt/v4/internal/verifhook"
	"github.com/tochemey/goakt/v4/verifharness/sched"
	"github.com/tochemey/goakt/v4/verifharness/vtrace"
)

const tickUs = 50000 // one model tick = relocationHandoffMinBackoff

const unboundedAskTimeout = 200 * time.Millisecond // ask timeout of the scripted delivery when the caller gave no bound

type hscript struct {
	Mode       string   `json:"mode"`
	MaxWait    int      `json:"maxWait"` // ticks
	MaskExp    int      `json:"maskExp"` // ticks after the call; 0 = nothing relocating; >= 1000 = fresh mark
	Outs       []string `json:"outs"`
	Dlv        string   `json:"dlv"`
	Pred       string   `json:"pred"`
	PredT      int      `json:"predT"`
	PredSleeps int      `json:"predSleeps"`
	OffUs      int      `json:"offUs"` // off-grid part of the timeout, microseconds (added by the check)
}

type hrun struct {
	id        int
	b         hscript
	name      string
	w         *hworld
	t0        time.Time
	maxWait   time.Duration
	nres      atomic.Int32
	delivered atomic.Bool
	events    []map[string]any // appended on the calling goroutine only
	live      []byte
	dead      []byte
}

// us converts t to microseconds since the call, on the wall clock (the hooks hand out UnixNano values;
// using one clock everywhere keeps start + timeout = deadline exact in the trace).
func (r *hrun) us(t time.Time) int64 { return (t.UnixNano() - r.t0.UnixNano()) / 1000 }

func (r *hrun) emit(ev map[string]any) {
	ev["t"] = r.us(time.Now())
	r.events = append(r.events, ev)
}

// hworld is one actor system (node "a") in a fake cluster with a live peer "l" and a
// departed peer "d"; all runs of one world share the mask state of that system.
type hworld struct {
	maskExp int
	sys     actor.ActorSystem
	cl      cluster.Cluster
	client  *fakeClient
	sender  *actor.PID
	nodes   map[string]*discovery.Node
	byName  sync.Map // actor name -> *hrun
	runs    []*hrun
	markLo  time.Time // the mask entry expires in [markLo, markHi] (+window)
	markHi  time.Time
	marked  bool
}

var hByGid sync.Map // goroutine id -> *hrun

type senderActor struct{}

func (*senderActor) PreStart(*actor.Context) error   { return nil }
func (*senderActor) Receive(ctx *actor.ReceiveContext) {}
func (*senderActor) PostStop(*actor.Context) error   { return nil }

// hookHandler records the handoff hook points of the goroutine's run.
type hookHandler struct{}

func (hookHandler) At(point string, obj any, a, b int64) {
	switch point {
	case "handoff.begin", "handoff.attempt", "handoff.sleep":
	default:
		return
	}
	v, ok := hByGid.Load(sched.Gid())
	if !ok {
		return
	}
	r := v.(*hrun)
	switch point {
	case "handoff.begin":
		r.emit(map[string]any{"op": "Begin", "maxWait": a / 1000, "start": (b - r.t0.UnixNano()) / 1000})
	case "handoff.attempt":
		r.emit(map[string]any{"op": "Attempt", "backoff": a / 1000, "dl": (b - r.t0.UnixNano()) / 1000})
	case "handoff.sleep":
		r.emit(map[string]any{"op": "Sleep", "d": a / 1000, "rem": b / 1000})
	}
}
func (hookHandler) Fault(string, any, int64) int { return 0 }

// stubRemoting replaces the network hop of RemoteAsk / RemoteTell: it records the deadline of
// the context it is given and behaves as the run's script says.
type stubRemoting struct {
	remoteclient.Client
	w *hworld
}

func (s *stubRemoting) run(to *address.Address) *hrun {
	if v, ok := s.w.byName.Load(to.Name()); ok {
		return v.(*hrun)
	}
	return nil
}

func (s *stubRemoting) RemoteAsk(ctx context.Context, from, to *address.Address, message any, timeout time.Duration) (any, error) {
	r := s.run(to)
	if r == nil {
		return nil, gerrors.ErrRemoteSendFailure
	}
	return r.ask(ctx, to.HostPort(), timeout)
}

func (r *hrun) ask(ctx context.Context, hostPort string, timeout time.Duration) (any, error) {
	dl := int64(-1)
	if d, ok := ctx.Deadline(); ok {
		dl = r.us(d)
	}
	r.delivered.Store(true)
	r.emit(map[string]any{"op": "Deliver", "dl": dl, "tmo": timeout.Microseconds(), "host": hostPort})
	switch r.b.Dlv {
	case "ok", "":
		return "pong", nil
	case "err":
		return nil, gerrors.ErrRemoteSendFailure
	default: // "hang": a target that never answers; the transport honours the context and the ask timeout
		timer := time.NewTimer(timeout)
		defer timer.Stop()
		select {
		case <-ctx.Done():
			return nil, ctx.Err()
		case <-timer.C:
			return nil, gerrors.ErrRequestTimeout
		}
	}
}

func (s *stubRemoting) RemoteTell(ctx context.Context, from, to *address.Address, message any) error {
	r := s.run(to)
	if r == nil {
		return gerrors.ErrRemoteSendFailure
	}
	dl := int64(-1)
	if d, ok := ctx.Deadline(); ok {
		dl = r.us(d)
	}
	r.delivered.Store(true)
	r.emit(map[string]any{"op": "Deliver", "dl": dl, "tmo": int64(0), "host": to.HostPort()})
	if r.b.Dlv == "err" {
		return gerrors.ErrRemoteSendFailure
	}
	return nil
}

func newHWorld(maskExp int) *hworld {
	ctx := context.Background()
	w := &hworld{maskExp: maskExp, nodes: map[string]*discovery.Node{}}
	sys, port := startSystem(fmt.Sprintf("h%d", maskExp))
	ports := append([]int{port}, freePorts(5)...)
	var dns []*discovery.Node
	for i, n := range []string{"a", "l", "d"} {
		dn := &discovery.Node{Name: n, Host: "127.0.0.1", PeersPort: ports[2*i+1], RemotingPort: ports[2*i]}
		dns = append(dns, dn)
		w.nodes[n] = dn
	}
	w.sys = sys
	w.client = &fakeClient{nodes: dns, leader: "a"}
	dm := &kvDMap{st: newKVStore(), node: "a"}
	dm.onGet = w.scriptedGet
	w.cl = cluster.NewVerif(sys.Name(), w.nodes["a"], dm, w.client)
	if err := actor.VerifJoinCluster(ctx, sys, w.cl, w.nodes["a"], nil); err != nil {
		fatal("join:", err)
	}
	actor.VerifSetRemoting(sys, func(c remoteclient.Client) remoteclient.Client { return &stubRemoting{Client: c, w: w} })
	var err error
	w.sender, err = sys.Spawn(ctx, "sender", &senderActor{})
	if err != nil {
		fatal("spawn sender:", err)
	}
	// the departed node was a member: its remoting port is in the peer cache
	actor.VerifCachePeerRemotingPorts(ctx, sys)
	w.client.setNodes(dns[:2])
	return w
}

func (w *hworld) stop() {
	ctx, cancel := context.WithTimeout(context.Background(), 20*time.Second)
	defer cancel()
	actor.VerifLeaveCluster(w.sys)
	_ = w.sys.Stop(ctx)
}

// scriptedGet answers goakt's cluster engine reading "actors::<name>" with the next scripted
// registry answer of the run that owns <name>.
func (w *hworld) scriptedGet(node, key string) ([]byte, error, bool) {
	ns, id := splitKey(key)
	if ns != "actors" {
		return nil, nil, false
	}
	v, ok := w.byName.Load(id)
	if !ok {
		return nil, nil, false
	}
	r := v.(*hrun)
	i := int(r.nres.Add(1)) - 1
	extra := false
	if i >= len(r.b.Outs) {
		i, extra = len(r.b.Outs)-1, true
	}
	out := r.b.Outs[i]
	ev := map[string]any{"op": "Resolve", "out": out, "i": int(r.nres.Load())}
	if extra {
		ev["extra"] = true
	}
	if g := sched.Gid(); func() bool { v, ok := hByGid.Load(g); return ok && v.(*hrun) == r }() {
		r.emit(ev)
	}
	switch out {
	case "live":
		return r.live, nil, true
	case "dead":
		return r.dead, nil, true
	case "none":
		return nil, olric.ErrKeyNotFound, true
	case "tmo":
		return nil, context.DeadlineExceeded, true
	default:
		return nil, errInjected, true
	}
}

func (w *hworld) record(name, node string) []byte {
	dn := w.nodes[node]
	addr := address.New(name, w.sys.Name(), dn.Host, dn.RemotingPort)
	dm := &kvDMap{st: newKVStore(), node: "enc"}
	enc := cluster.NewVerif(w.sys.Name(), w.nodes["a"], dm, w.client)
	if err := enc.PutActor(context.Background(), &internalpb.Actor{Address: addr.String(), Type: "verif.Target"}); err != nil {
		fatal("encode record:", err)
	}
	return dm.st.m["actors::"+name]
}

func classify(r *hrun, err error) string {
	switch {
	case err == nil:
		return "ok"
	case errors.Is(err, gerrors.ErrRelocationInProgress):
		return "reloc"
	case errors.Is(err, gerrors.ErrActorNotFound):
		return "notfound"
	case r.delivered.Load() && (errors.Is(err, context.DeadlineExceeded) || errors.Is(err, gerrors.ErrRequestTimeout)):
		return "dlvtmo"
	case r.delivered.Load() && (errors.Is(err, gerrors.ErrRemoteSendFailure) || errors.Is(err, gerrors.ErrInvalidTimeout)):
		return "dlverr"
	case errors.Is(err, context.DeadlineExceeded):
		return "tmo"
	case errors.Is(err, errInjected):
		return "terminal"
	}
	return "other:" + err.Error()
}

func (r *hrun) execute() {
	g := sched.Gid()
	hByGid.Store(g, r)
	defer hByGid.Delete(g)
	ctx := context.Background()
	var err error
	r.t0 = time.Now()
	switch {
	case r.b.Mode == "async":
		err = r.w.sender.SendAsync(ctx, r.name, "ping")
	case r.maxWait > 0:
		_, err = r.w.sender.SendSync(ctx, r.name, "ping", r.maxWait)
	default:
		// "the caller imposed no bound" (maxWait <= 0) is not a valid SendSync timeout (Ask rejects it), so the
		// unbounded form of deliverAcrossHandoff is entered directly; the delivery is the same scripted target
		_, err = actor.VerifDeliverAcrossHandoff(ctx, r.w.sender, r.name, 0, func(dctx context.Context, to *actor.PID) (any, error) {
			return r.ask(dctx, to.Path().HostPort(), unboundedAskTimeout)
		})
	}
	t := time.Now()
	pinned, inflight := actor.VerifHandoffMask(r.w.sys, r.w.nodes["d"].Host, r.w.nodes["d"].RemotingPort)
	r.events = append(r.events, map[string]any{"op": "Return", "cls": classify(r, err), "t": r.us(t), "pinned": pinned, "inflight": inflight})
}

// jitter samples how much a 2 ms sleep overshoots while the runs execute (scheduling noise of
// the machine); the wall-clock slack of the monitor is widened by it.
type jitterSampler struct {
	stop chan struct{}
	wg   sync.WaitGroup
	mu   sync.Mutex
	max  time.Duration
}

func startJitter() *jitterSampler {
	j := &jitterSampler{stop: make(chan struct{})}
	for i := 0; i < 8; i++ {
		j.wg.Add(1)
		go func() {
			defer j.wg.Done()
			for {
				select {
				case <-j.stop:
					return
				default:
				}
				t := time.Now()
				time.Sleep(2 * time.Millisecond)
				over := time.Since(t) - 2*time.Millisecond
				j.mu.Lock()
				if over > j.max {
					j.max = over
				}
				j.mu.Unlock()
			}
		}()
	}
	return j
}

func (j *jitterSampler) finish() time.Duration {
	close(j.stop)
	j.wg.Wait()
	return j.max
}

func handoffMain(bfile, tfile string) {
	scripts := readNDJSON[hscript](bfile)
	window, _, _, _ := actor.VerifHandoffConstants()
	verifhook.Install(hookHandler{})
	defer verifhook.Uninstall()

	worlds := map[int]*hworld{}
	var keys []int
	for i, b := range scripts {
		w, ok := worlds[b.MaskExp]
		if !ok {
			w = newHWorld(b.MaskExp)
			worlds[b.MaskExp] = w
			keys = append(keys, b.MaskExp)
		}
		r := &hrun{id: i, b: b, w: w, name: fmt.Sprintf("t%d", i)}
		r.maxWait = time.Duration(b.MaxWait)*tickUs*time.Microsecond + time.Duration(b.OffUs)*time.Microsecond
		r.live, r.dead = w.record(r.name, "l"), w.record(r.name, "d")
		w.byName.Store(r.name, r)
		w.runs = append(w.runs, r)
	}
	sort.Ints(keys)

	jit := startJitter()
	var wg sync.WaitGroup
	for _, k := range keys {
		w := worlds[k]
		wg.Add(1)
		go func() {
			defer wg.Done()
			if w.maskExp > 0 {
				// NodeLeft of "d": open the handoff window (real markEndpointRelocating)
				w.markLo = time.Now()
				actor.VerifMarkEndpointRelocating(w.sys, w.nodes["d"].PeersAddress())
				w.markHi = time.Now()
				w.marked = true
				if w.maskExp < 1000 {
					time.Sleep(time.Until(w.markLo.Add(window - time.Duration(w.maskExp)*tickUs*time.Microsecond)))
				}
			}
			var rg sync.WaitGroup
			for _, r := range w.runs {
				rg.Add(1)
				go func() { defer rg.Done(); r.execute() }()
			}
			rg.Wait()
		}()
	}
	wg.Wait()
	jitter := jit.finish()

	tw, err := vtrace.Create(tfile)
	if err != nil {
		fatal(err)
	}
	events, other := 0, 0
	all := make([]*hrun, len(scripts))
	for _, w := range worlds {
		for _, r := range w.runs {
			all[r.id] = r
		}
	}
	for _, r := range all {
		w := r.w
		maskLo, maskHi := int64(0), int64(0)
		if w.marked {
			maskLo, maskHi = r.us(w.markLo.Add(window)), r.us(w.markHi.Add(window))
		}
		tw.Raw(map[string]any{"op": "New", "id": r.id, "mode": r.b.Mode, "maxWait": r.maxWait.Microseconds(), "maskLo": maskLo, "maskHi": maskHi,
			"jit": jitter.Microseconds(), "outs": r.b.Outs, "dlv": r.b.Dlv, "pred": r.b.Pred, "deadHost": w.nodes["d"].Host + ":" + fmt.Sprint(w.nodes["d"].RemotingPort)})
		events++
		for _, ev := range r.events {
			if c, ok := ev["cls"].(string); ok && len(c) > 5 && c[:5] == "other" {
				other++
			}
			tw.Raw(ev)
			events++
		}
	}
	if err := tw.Close(); err != nil {
		fatal(err)
	}
	for _, w := range worlds {
		w.stop()
	}
	fmt.Fprintf(os.Stdout, `{"runs":%d,"events":%d,"jitter_us":%d,"other_errors":%d}`+"\n", len(scripts), events, jitter.Microseconds(), other)
}
