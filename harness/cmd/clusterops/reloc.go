package main

// C33: a departure history (NodeLeft notifications incl. duplicates, for one or two departed
// nodes) is executed on a REAL leader: the real handleNodeLeftEvent / beginRelocation /
// endRelocation, the real relocator and relocation worker actors, the real RelocateBatch
// round trip over TCP to real peer systems.  All nodes are members of one fake cluster (shared
// fake registry under goakt's real cluster engines).  The departed nodes are real systems too:
// they spawn the items, their peer state snapshot is built by the real preShutdown and stored
// on the leader, then they are cut off.  The worker is gated at the verifhook points
// reloc.worker.run and reloc.worker.done so that notifications can be injected while a
// relocation is in flight.  Scripted environment: items whose actor kind no survivor knows
// (they cannot be recreated anywhere) and peers whose RelocateBatch fails (unreachable).

import (
	"context"
	"fmt"
	"os"
	"sort"
	"strings"
	"sync"
	"sync/atomic"
	"syscall"
	"time"

	"google.golang.org/protobuf/proto"

	"github.com/tochemey/goakt/v4/actor"
	"github.com/tochemey/goakt/v4/discovery"
	"github.com/tochemey/goakt/v4/internal/address"
	"github.com/tochemey/goakt/v4/internal/cluster"
	"github.com/tochemey/goakt/v4/internal/internalpb"
	"github.com/tochemey/goakt/v4/internal/remoteclient"
	"github.com/tochemey/goakt/v4/internal/verifhook"
	"github.com/tochemey/goakt/v4/verifharness/sched"
	"github.com/tochemey/goakt/v4/verifharness/vtrace"
)

type rstep struct {
	Act string `json:"act"`
	A   string `json:"a"`
	I   int    `json:"i"`
}

type rscript struct {
	Steps []rstep    `json:"steps"`
	Bad   [][]string `json:"bad"`
	Down  []string   `json:"down"`
}

type goodActor struct{}

func (*goodActor) PreStart(*actor.Context) error    { return nil }
func (*goodActor) Receive(ctx *actor.ReceiveContext) {}
func (*goodActor) PostStop(*actor.Context) error    { return nil }

// badActor is a kind only the departed nodes know: no survivor can recreate it.
type badActor struct{}

func (*badActor) PreStart(*actor.Context) error    { return nil }
func (*badActor) Receive(ctx *actor.ReceiveContext) {}
func (*badActor) PostStop(*actor.Context) error    { return nil }

type rnode struct {
	name string
	sys  actor.ActorSystem
	cl   cluster.Cluster
	dn   *discovery.Node
	cli  *fakeClient
}

type hookEv struct {
	point string
	addr  string
	a     int64
	gid   uint64
}

type rworld struct {
	id     int
	st     *kvStore
	nodes  map[string]*rnode
	byPeer map[string]string // peers address -> node name
	byHost map[string]string // remoting host:port -> node name
	down   map[string]bool
	mu     sync.Mutex
	evs    []hookEv
	cond   *sync.Cond
	gates  map[string]chan struct{} // "<point>|<addr>" -> release channel
	parked map[string]bool
}

var rworlds sync.Map // departed peers address -> *rworld

var peersPortSeq atomic.Int64

func init() { peersPortSeq.Store(20000) }

type relocHook struct{}

func (relocHook) At(point string, obj any, a, b int64) {
	if !strings.HasPrefix(point, "reloc.") {
		return
	}
	addr, ok := obj.(string)
	if !ok {
		return
	}
	v, ok := rworlds.Load(addr)
	if !ok {
		return
	}
	w := v.(*rworld)
	w.mu.Lock()
	w.evs = append(w.evs, hookEv{point, addr, a, sched.Gid()})
	var gate chan struct{}
	if point == "reloc.worker.run" || point == "reloc.worker.done" {
		k := point + "|" + addr
		gate = make(chan struct{})
		w.gates[k] = gate
		w.parked[k] = true
	}
	w.cond.Broadcast()
	w.mu.Unlock()
	if gate != nil {
		select {
		case <-gate:
		case <-time.After(60 * time.Second):
		}
	}
}
func (relocHook) Fault(string, any, int64) int { return 0 }

// downRemoting makes RelocateBatch to a scripted peer fail like an unreachable host.
type downRemoting struct {
	remoteclient.Client
	w *rworld
}

func (d *downRemoting) RelocateBatch(ctx context.Context, host string, port int, request *internalpb.RelocateBatchRequest) (*internalpb.RelocateBatchResponse, error) {
	if n, ok := d.w.byHost[address.FormatHostPort(host, port)]; ok && d.w.down[n] {
		return nil, syscall.ECONNREFUSED
	}
	return d.Client.RelocateBatch(ctx, host, port, request)
}

func newRWorld(id int, survivors, departed []string, sc rscript) *rworld {
	ctx := context.Background()
	w := &rworld{id: id, st: newKVStore(), nodes: map[string]*rnode{}, byPeer: map[string]string{}, byHost: map[string]string{},
		down: map[string]bool{}, gates: map[string]chan struct{}{}, parked: map[string]bool{}}
	w.cond = sync.NewCond(&w.mu)
	for _, d := range sc.Down {
		w.down[d] = true
	}
	names := append(append([]string{}, survivors...), departed...)
	// remoting ports are bound (free ports); peers ports are only identities (never bound): a process-wide counter keeps
	// the peers addresses of concurrently running worlds distinct (the hook handler finds the world by that address)
	var dns []*discovery.Node
	var systems []actor.ActorSystem
	for _, n := range names {
		sys, port := startSystem(fmt.Sprintf("r%d", id))
		systems = append(systems, sys)
		dns = append(dns, &discovery.Node{Name: n, Host: "127.0.0.1", PeersPort: int(peersPortSeq.Add(1)), RemotingPort: port})
	}
	for i, name := range names {
		sys := systems[i]
		n := &rnode{name: name, sys: sys, dn: dns[i], cli: &fakeClient{nodes: dns, leader: names[0]}}
		n.cl = cluster.NewVerif(sys.Name(), dns[i], &kvDMap{st: w.st, node: name}, n.cli)
		if err := actor.VerifJoinCluster(ctx, sys, n.cl, dns[i], nil); err != nil {
			fatal("join:", err)
		}
		_ = sys.Register(ctx, &goodActor{})
		w.nodes[name] = n
		w.byPeer[dns[i].PeersAddress()] = name
		w.byHost[address.FormatHostPort("127.0.0.1", dns[i].RemotingPort)] = name
	}
	bad := map[string]bool{}
	for _, b := range sc.Bad {
		bad[b[0]+"-"+b[1]] = true
	}
	leader := w.nodes[names[0]]
	actor.VerifSetRemoting(leader.sys, func(c remoteclient.Client) remoteclient.Client { return &downRemoting{Client: c, w: w} })
	if err := actor.VerifEnableRelocation(ctx, leader.sys); err != nil {
		fatal("enable relocation:", err)
	}
	actor.VerifCachePeerRemotingPorts(ctx, leader.sys)
	// the departed nodes host the items, hand their snapshot to the leader and are cut off
	for _, d := range departed {
		n := w.nodes[d]
		_ = n.sys.Register(ctx, &badActor{})
		for _, it := range []string{"a1", "a2", "a3"} {
			var err error
			if bad[d+"-"+it] {
				_, err = n.sys.Spawn(ctx, d+"-"+it, &badActor{})
			} else {
				_, err = n.sys.Spawn(ctx, d+"-"+it, &goodActor{})
			}
			if err != nil {
				fatal("spawn item:", err)
			}
		}
		ps, err := actor.VerifPeerState(n.sys)
		if err != nil || ps == nil {
			fatal("peer state:", err)
		}
		if err := actor.VerifStorePeerState(ctx, leader.sys, proto.Clone(ps).(*internalpb.PeerState)); err != nil {
			fatal("store peer state:", err)
		}
		rworlds.Store(n.dn.PeersAddress(), w)
	}
	var alive []*discovery.Node
	for i, n := range names {
		if i < len(survivors) {
			alive = append(alive, dns[i])
		}
		_ = n
	}
	for _, d := range departed {
		n := w.nodes[d]
		actor.VerifLeaveCluster(n.sys)
		sctx, cancel := context.WithTimeout(ctx, 10*time.Second)
		_ = n.sys.Stop(sctx)
		cancel()
	}
	for _, s := range survivors {
		w.nodes[s].cli.setNodes(alive)
	}
	return w
}

// stop tears the world down.  A world whose leader took the crash-recovery path (a NodeLeft that found no snapshot
// starts gateCrashRecovery on a goroutine that keeps retrying for seconds) or in which anything but exactly one
// relocation per departed node happened (possible only on a broken goakt) is left running until the process exits:
// detaching the cluster engines under goroutines that still relocate would be an artefact of the harness, not of goakt.
func (w *rworld) stop(survivors []string, keepAll bool) {
	for k, g := range w.gates {
		if w.parked[k] {
			close(g)
			w.parked[k] = false
		}
	}
	for addr, n := range w.byPeer {
		_ = n
		rworlds.Delete(addr)
	}
	ctx, cancel := context.WithTimeout(context.Background(), 20*time.Second)
	defer cancel()
	for _, s := range survivors {
		if keepAll {
			continue
		}
		n := w.nodes[s]
		actor.VerifLeaveCluster(n.sys)
		_ = n.sys.Stop(ctx)
	}
}

// await waits until pred holds over the recorded hook events.
func (w *rworld) await(d time.Duration, pred func() bool) bool {
	deadline := time.Now().Add(d)
	timer := time.AfterFunc(d, func() { w.mu.Lock(); w.cond.Broadcast(); w.mu.Unlock() })
	defer timer.Stop()
	w.mu.Lock()
	defer w.mu.Unlock()
	for !pred() {
		if time.Now().After(deadline) {
			return false
		}
		w.cond.Wait()
	}
	return true
}

func (w *rworld) count(point, addr string) int {
	n := 0
	for _, e := range w.evs {
		if e.point == point && e.addr == addr {
			n++
		}
	}
	return n
}

func (w *rworld) release(point, addr string) bool {
	k := point + "|" + addr
	w.mu.Lock()
	defer w.mu.Unlock()
	if !w.parked[k] {
		return false
	}
	w.parked[k] = false
	close(w.gates[k])
	return true
}

func itemOf(actorAddr string) string {
	if i := strings.LastIndex(actorAddr, "/"); i >= 0 {
		actorAddr = actorAddr[i+1:]
	}
	if i := strings.Index(actorAddr, "-"); i >= 0 {
		return actorAddr[i+1:]
	}
	return actorAddr
}

func runReloc(id int, sc rscript) []map[string]any {
	ctx := context.Background()
	survivors := []string{"L", "p1", "p2"}
	dset := map[string]bool{}
	for _, s := range sc.Steps {
		dset[s.A] = true
	}
	var departed []string
	for d := range dset {
		departed = append(departed, d)
	}
	sort.Strings(departed)
	w := newRWorld(id, survivors, departed, sc)
	leader := w.nodes["L"]
	sub, err := leader.sys.Subscribe()
	if err != nil {
		fatal("subscribe:", err)
	}
	var out []map[string]any
	emit := func(ev map[string]any) { out = append(out, ev) }
	emit(map[string]any{"op": "New", "id": id, "addrs": departed, "bad": sc.Bad, "down": append([]string{}, sc.Down...)})
	peerAddr := func(a string) string { return w.nodes[a].dn.PeersAddress() }
	drift := ""
	nspawn := map[string]int{}
	crashPath := false
	var queue []string // addresses whose Rebalance order the relocator has not turned into a worker yet
	spawned := 0
	for _, st := range sc.Steps {
		if drift != "" {
			break
		}
		pa := peerAddr(st.A)
		switch st.Act {
		case "NodeLeft":
			w.mu.Lock()
			n0 := len(w.evs)
			w.mu.Unlock()
			g := sched.Gid()
			actor.VerifClusterEvent(leader.sys, &cluster.Event{Type: cluster.NodeLeft,
				Payload: &cluster.NodeLeftEvent{Address: pa, Timestamp: time.Now().UTC()}})
			res := "nothing"
			w.mu.Lock()
			for _, e := range w.evs[n0:] {
				if e.point == "reloc.begin" && e.addr == pa && e.gid == g {
					if e.a == 1 {
						res = "started"
						queue = append(queue, st.A)
					} else {
						res = "dup"
					}
				}
			}
			w.mu.Unlock()
			if res == "nothing" {
				crashPath = true
			}
			emit(map[string]any{"op": "NodeLeft", "a": st.A, "res": res, "snap": actor.VerifHasPeerState(ctx, leader.sys, pa)})
		case "Spawn":
			spawned++
			want := spawned
			if !w.await(10*time.Second, func() bool {
				n := 0
				for _, e := range w.evs {
					if e.point == "reloc.worker.spawn" {
						n++
					}
				}
				return n >= want
			}) {
				drift = "no worker was spawned"
				break
			}
			a := st.A
			if len(queue) > 0 {
				queue = queue[1:]
			}
			nspawn[a]++
			emit(map[string]any{"op": "Spawn", "a": a, "i": nspawn[a]})
		case "Run":
			want := st.I
			if !w.await(10*time.Second, func() bool { return w.count("reloc.worker.run", pa) >= want && w.parked["reloc.worker.run|"+pa] }) {
				drift = "worker did not reach relocate()"
				break
			}
			w.release("reloc.worker.run", pa)
			emit(map[string]any{"op": "Run", "a": st.A, "i": st.I})
		case "Relocate":
			want := st.I
			if !w.await(60*time.Second, func() bool { return w.count("reloc.worker.done", pa) >= want && w.parked["reloc.worker.done|"+pa] }) {
				drift = "worker did not finish relocating"
				break
			}
			w.mu.Lock()
			nf := int64(-1)
			for _, e := range w.evs {
				if e.point == "reloc.worker.done" && e.addr == pa {
					nf = e.a
				}
			}
			w.mu.Unlock()
			emit(map[string]any{"op": "Relocate", "a": st.A, "i": st.I, "nf": nf})
		case "Finish":
			ends := w.count("reloc.end", pa)
			w.release("reloc.worker.done", pa)
			if !w.await(20*time.Second, func() bool { return w.count("reloc.end", pa) > ends }) {
				drift = "relocation job was not released"
				break
			}
			emit(map[string]any{"op": "Finish", "a": st.A, "i": st.I})
		}
	}
	// let everything settle (open every gate a worker may still reach), then look at the outcome
	deadline := time.Now().Add(40 * time.Second)
	for quiet := 0; quiet < 3 && time.Now().Before(deadline); {
		w.mu.Lock()
		var open []string
		for k := range w.gates {
			if w.parked[k] {
				open = append(open, k)
			}
		}
		w.mu.Unlock()
		for _, k := range open {
			p := strings.SplitN(k, "|", 2)
			w.release(p[0], p[1])
		}
		if len(open) == 0 && len(actor.VerifRelocationJobs(leader.sys)) == 0 {
			quiet++
		} else {
			quiet = 0
		}
		time.Sleep(40 * time.Millisecond)
	}
	unsettled := len(actor.VerifRelocationJobs(leader.sys)) > 0
	if unsettled && drift == "" {
		drift = "relocation still in flight at the end"
	}
	for msg := range sub.Iterator() {
		switch ev := msg.Payload().(type) {
		case *actor.RelocationStarted:
			emit(map[string]any{"op": "Event", "kind": "Started", "a": w.byPeer[ev.Address()], "items": []string{}})
		case *actor.RelocationFailed:
			items := []string{}
			for _, a := range ev.Actors() {
				items = append(items, itemOf(a))
			}
			sort.Strings(items)
			emit(map[string]any{"op": "Event", "kind": "Failed", "a": w.byPeer[ev.Address()], "items": items})
		}
	}
	sub.Shutdown()
	w.mu.Lock()
	for _, d := range departed {
		emit(map[string]any{"op": "Hooks", "a": d, "begins": w.count("reloc.begin", peerAddr(d)), "spawns": w.count("reloc.worker.spawn", peerAddr(d)),
			"runs": w.count("reloc.worker.run", peerAddr(d)), "ends": w.count("reloc.end", peerAddr(d)), "aborts": w.count("reloc.abort", peerAddr(d))})
	}
	w.mu.Unlock()
	local := map[string][]string{}
	for _, s := range survivors {
		for _, name := range actor.VerifLocalActorNames(w.nodes[s].sys) {
			local[name] = append(local[name], s)
		}
	}
	for _, d := range departed {
		for _, it := range []string{"a1", "a2", "a3"} {
			name := d + "-" + it
			reg := ""
			if rec, err := leader.cl.GetActor(ctx, name); err == nil {
				if addr, perr := address.Parse(rec.GetAddress()); perr == nil {
					reg = w.byHost[addr.HostPort()]
				}
			}
			on := local[name]
			if on == nil {
				on = []string{}
			}
			emit(map[string]any{"op": "Item", "a": d, "it": it, "on": on, "non": len(on), "reg": reg})
		}
	}
	emit(map[string]any{"op": "End", "id": id, "drift": drift})
	abnormal := crashPath || unsettled
	w.mu.Lock()
	for _, d := range departed {
		pa := peerAddr(d)
		if w.count("reloc.worker.spawn", pa) > 1 || w.count("reloc.worker.run", pa) > 1 || w.count("reloc.end", pa) > 1 || w.count("reloc.abort", pa) > 0 {
			abnormal = true
		}
	}
	w.mu.Unlock()
	w.stop(survivors, abnormal)
	return out
}

func relocMain(bfile, tfile string) {
	scripts := readNDJSON[rscript](bfile)
	verifhook.Install(relocHook{})
	defer verifhook.Uninstall()
	results := make([][]map[string]any, len(scripts))
	width := envInt("VERIF_RELOC_WIDTH", 4)
	sem := make(chan struct{}, width)
	var wg sync.WaitGroup
	for i, sc := range scripts {
		sem <- struct{}{}
		wg.Add(1)
		go func() {
			defer wg.Done()
			defer func() { <-sem }()
			results[i] = runReloc(i, sc)
		}()
	}
	wg.Wait()
	tw, err := vtrace.Create(tfile)
	if err != nil {
		fatal(err)
	}
	drifts, first := 0, ""
	for i, evs := range results {
		for _, ev := range evs {
			if ev["op"] == "End" && ev["drift"] != "" {
				drifts++
				if first == "" {
					first = fmt.Sprintf("behaviour %d: %v", i, ev["drift"])
				}
			}
			tw.Raw(ev)
		}
	}
	n := tw.Count()
	if err := tw.Close(); err != nil {
		fatal(err)
	}
	fmt.Fprintf(os.Stdout, `{"behaviours":%d,"events":%d,"drifts":%d,"first_drift":%q}`+"\n", len(scripts), n, drifts, first)
}
