package main

// The fake cluster substrate: per node an olric.DMap / olric.Client facade. goakt's REAL
// cluster engine (internal/cluster, built with cluster.NewVerif) runs on top of these, so
// GetActor / PutActor / ClaimScheduleFire (olric NX+EX) / Peers / Members / IsLeader are the
// production code; only olric itself is replaced.  (Own copy of the technique of
// harness/cmd/grainreg/fake.go; the two groups do not share code.)

import (
	"context"
	"encoding/json"
	"fmt"
	"reflect"
	"strings"
	"sync"
	"time"
	"unsafe"

	"github.com/tochemey/olric"
	"github.com/tochemey/olric/pkg/storage"

	"github.com/tochemey/goakt/v4/discovery"
)

var errInjected = fmt.Errorf("verif: injected registry failure")

func isNX(options []olric.PutOption) bool {
	nx, _ := putOptions(options)
	return nx
}

// putOptions evaluates olric's functional put options: NX and the EX time to live (0 = none).
func putOptions(options []olric.PutOption) (nx bool, ex time.Duration) {
	for _, o := range options {
		v := reflect.ValueOf(o)
		cfg := reflect.New(v.Type().In(0).Elem())
		v.Call([]reflect.Value{cfg})
		if cfg.Elem().FieldByName("HasNX").Bool() {
			nx = true
		}
		if cfg.Elem().FieldByName("HasEX").Bool() {
			ex = time.Duration(cfg.Elem().FieldByName("EX").Int())
		}
	}
	return nx, ex
}

type entry struct {
	key string
	val []byte
}

func (e *entry) SetKey(k string)     { e.key = k }
func (e *entry) Key() string         { return e.key }
func (e *entry) SetValue(v []byte)   { e.val = v }
func (e *entry) Value() []byte       { return e.val }
func (e *entry) SetTTL(int64)        {}
func (e *entry) TTL() int64          { return 0 }
func (e *entry) SetTimestamp(int64)  {}
func (e *entry) Timestamp() int64    { return 0 }
func (e *entry) SetLastAccess(int64) {}
func (e *entry) LastAccess() int64   { return 0 }
func (e *entry) Encode() []byte      { return e.val }
func (e *entry) Decode(b []byte)     { e.val = b }

var _ storage.Entry = (*entry)(nil)

// newGetResponse fills olric.GetResponse's unexported entry field (the same way goakt's own
// cluster tests do in internal/cluster/fixtures_test.go).
func newGetResponse(key string, val []byte) *olric.GetResponse {
	resp := &olric.GetResponse{}
	f := reflect.ValueOf(resp).Elem().FieldByName("entry")
	var e storage.Entry = &entry{key: key, val: append([]byte(nil), val...)}
	reflect.NewAt(f.Type(), unsafe.Pointer(f.UnsafeAddr())).Elem().Set(reflect.ValueOf(e))
	return resp
}

// splitKey cuts "namespace::id".
func splitKey(key string) (ns, id string) {
	if i := strings.Index(key, "::"); i >= 0 {
		return key[:i], key[i+2:]
	}
	return "", key
}

// kvDMap is a plain linearizable map shared by the nodes of one world; hooks let a harness
// observe / script single operations.
type kvStore struct {
	mu  sync.Mutex
	m   map[string][]byte
	exp map[string]time.Time // expiry of keys written with EX (honoured only when ttl is set)
	ttl bool
}

func newKVStore() *kvStore { return &kvStore{m: map[string][]byte{}, exp: map[string]time.Time{}} }

// expire drops key when its time to live has passed (called with mu held).
func (s *kvStore) expire(key string) {
	if !s.ttl {
		return
	}
	if t, ok := s.exp[key]; ok && !time.Now().Before(t) {
		delete(s.m, key)
		delete(s.exp, key)
	}
}

type kvDMap struct {
	olric.DMap // unimplemented methods panic (nil embedded interface)
	st         *kvStore
	node       string
	onGet      func(node, key string) (val []byte, err error, handled bool)
	onPut      func(node, key string, nx bool, res int) // called under st.mu, res: 1 stored, 0 key found
	failPut    func(node, key string, nx bool) error
	onDel      func(node, key string)
}

func (d *kvDMap) Name() string { return "verif" }

// errPutTimeout / errPutTimeoutApplied are returned by a failPut script to make the write run into the caller's
// deadline: the put blocks until the context is done and returns its error, without (errPutTimeout) or after
// (errPutTimeoutApplied: the acknowledgement is lost) having been applied.
var (
	errPutTimeout        = fmt.Errorf("verif: scripted put timeout")
	errPutTimeoutApplied = fmt.Errorf("verif: scripted put timeout after the write was applied")
)

func (d *kvDMap) Put(ctx context.Context, key string, value any, options ...olric.PutOption) error {
	val, ok := value.([]byte)
	if !ok {
		return fmt.Errorf("verif dmap: unsupported value type %T", value)
	}
	nx, ex := putOptions(options)
	lateAck := false
	if d.failPut != nil {
		switch err := d.failPut(d.node, key, nx); err {
		case nil:
		case errPutTimeout:
			<-ctx.Done()
			return ctx.Err()
		case errPutTimeoutApplied:
			lateAck = true
		default:
			return err
		}
	}
	d.st.mu.Lock()
	d.st.expire(key)
	if nx {
		if _, found := d.st.m[key]; found {
			if d.onPut != nil {
				d.onPut(d.node, key, nx, 0)
			}
			d.st.mu.Unlock()
			return olric.ErrKeyFound
		}
	}
	d.st.m[key] = append([]byte(nil), val...)
	delete(d.st.exp, key)
	if ex > 0 {
		d.st.exp[key] = time.Now().Add(ex)
	}
	if d.onPut != nil {
		d.onPut(d.node, key, nx, 1)
	}
	d.st.mu.Unlock()
	if lateAck {
		<-ctx.Done()
		return ctx.Err()
	}
	return nil
}

func (d *kvDMap) Get(_ context.Context, key string) (*olric.GetResponse, error) {
	if d.onGet != nil {
		if val, err, handled := d.onGet(d.node, key); handled {
			if err != nil {
				return nil, err
			}
			return newGetResponse(key, val), nil
		}
	}
	d.st.mu.Lock()
	defer d.st.mu.Unlock()
	d.st.expire(key)
	val, found := d.st.m[key]
	if !found {
		return nil, olric.ErrKeyNotFound
	}
	return newGetResponse(key, val), nil
}

func (d *kvDMap) Delete(_ context.Context, keys ...string) (int, error) {
	d.st.mu.Lock()
	defer d.st.mu.Unlock()
	n := 0
	for _, key := range keys {
		if _, found := d.st.m[key]; found {
			n++
		}
		delete(d.st.m, key)
		if d.onDel != nil {
			d.onDel(d.node, key)
		}
	}
	return n, nil
}

// fakeClient serves the membership view of one node: who is in the cluster and who this
// node currently believes to be the coordinator.
type fakeClient struct {
	olric.Client
	mu     sync.Mutex
	nodes  []*discovery.Node // all members, in birth order
	leader string            // name of the node this view marks as coordinator
	fail   error             // when set, Members fails with it
}

func (c *fakeClient) setNodes(nodes []*discovery.Node) {
	c.mu.Lock()
	c.nodes = append([]*discovery.Node(nil), nodes...)
	c.mu.Unlock()
}

func (c *fakeClient) Members(context.Context) ([]olric.Member, error) {
	c.mu.Lock()
	defer c.mu.Unlock()
	if c.fail != nil {
		return nil, c.fail
	}
	out := make([]olric.Member, 0, len(c.nodes))
	for i, n := range c.nodes {
		meta, _ := json.Marshal(n)
		out = append(out, olric.Member{Name: n.PeersAddress(), ID: uint64(i + 1), Birthdate: int64(i + 1),
			Coordinator: n.Name == c.leader, Meta: string(meta)})
	}
	return out, nil
}

// Scan iterates over a snapshot of the keys (goakt's registry scans: Actors, CountActorsByHost, ...).
func (d *kvDMap) Scan(_ context.Context, _ ...olric.ScanOption) (olric.Iterator, error) {
	d.st.mu.Lock()
	defer d.st.mu.Unlock()
	it := &kvIter{i: -1}
	for k := range d.st.m {
		it.keys = append(it.keys, k)
	}
	return it, nil
}

type kvIter struct {
	keys []string
	i    int
}

func (it *kvIter) Next() bool  { it.i++; return it.i < len(it.keys) }
func (it *kvIter) Key() string { return it.keys[it.i] }
func (it *kvIter) Close()      {}
