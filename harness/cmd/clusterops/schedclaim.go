package main

// C19 (cluster part): puppet replay of the claim race.  2-3 REAL actor systems, each a member
// of the same fake cluster (one shared registry under goakt's real cluster engines), each
// registers the same cron schedule with the REAL ScheduleWithCron.  A tick is fired on a node
// by executing the job quartz holds for the schedule with forged run-time metadata
// (actor.VerifFireScheduled), on a logical thread of the puppet scheduler; the gates are the
// verifhook points sched.job (job function entered), cluster.ClaimScheduleFire (after the
// staleness check, before the NX put) and sched.tell (before the delivery).

import (
	"context"
	"errors"
	"fmt"
	"os"
	"strings"
	"sync/atomic"
	"time"

	"github.com/tochemey/goakt/v4/actor"
	"github.com/tochemey/goakt/v4/discovery"
	"github.com/tochemey/goakt/v4/internal/cluster"
	"github.com/tochemey/goakt/v4/verifharness/sched"
	"github.com/tochemey/goakt/v4/verifharness/vtrace"
)

type cstep struct {
	N string `json:"n"`
	T int    `json:"t"`
	A string `json:"a"`
	R string `json:"r"`
}

type cronMsg struct{ Node string }

type sinkActor struct{ n *atomic.Int64 }

func (*sinkActor) PreStart(*actor.Context) error { return nil }
func (s *sinkActor) Receive(ctx *actor.ReceiveContext) {
	if _, ok := ctx.Message().(*cronMsg); ok {
		s.n.Add(1)
	}
}
func (*sinkActor) PostStop(*actor.Context) error { return nil }

type cnode struct {
	name    string
	sys     actor.ActorSystem
	cl      cluster.Cluster
	dm      *kvDMap
	msg     *cronMsg
	count   atomic.Int64
	fault   atomic.Value // "" | "err" | "tmo" | "tmoa": what the next claim write of this node runs into
	ack     *ackCluster
}

// ackCluster is the node's REAL cluster engine behind a recording decorator: goakt's scheduler calls
// ClaimScheduleFire on it, the engine's own answer (what the node was told about its claim) is kept for the trace.
type ackCluster struct {
	cluster.Cluster
	last atomic.Value // "won" | "lost" | "tmo" | "err" | ""
}

func (a *ackCluster) ClaimScheduleFire(ctx context.Context, key string, ttl time.Duration) error {
	err := a.Cluster.ClaimScheduleFire(ctx, key, ttl)
	switch {
	case err == nil:
		a.last.Store("won")
	case errors.Is(err, cluster.ErrScheduleFireClaimed):
		a.last.Store("lost")
	case errors.Is(err, context.DeadlineExceeded):
		a.last.Store("tmo")
	default:
		a.last.Store("err")
	}
	return err
}

type cworld struct {
	st     *kvStore
	nodes  map[string]*cnode
	order  []string
	puts   []putRec // registry writes of the current step (under st.mu)
	cronRe string
}

type putRec struct {
	node, key string
	res       int
}

const cronRef = "verif-cron"

func newCWorld(names []string) *cworld { return newCWorldCron(names, "0 0 0 1 1 ?") }

func newCWorldCron(names []string, cron string) *cworld {
	ctx := context.Background()
	w := &cworld{st: newKVStore(), nodes: map[string]*cnode{}, order: names}
	var dns []*discovery.Node
	var systems []actor.ActorSystem
	for i, n := range names {
		sys, port := startSystem("c" + n)
		systems = append(systems, sys)
		dns = append(dns, &discovery.Node{Name: n, Host: "127.0.0.1", PeersPort: 30000 + i, RemotingPort: port})
	}
	for i, name := range names {
		sys := systems[i]
		n := &cnode{name: name, sys: sys, msg: &cronMsg{Node: name}}
		n.dm = &kvDMap{st: w.st, node: name}
		n.dm.onPut = func(node, key string, nx bool, res int) {
			if strings.HasPrefix(key, "schedule-fire::") {
				w.puts = append(w.puts, putRec{node, strings.TrimPrefix(key, "schedule-fire::"), res})
			}
		}
		n.fault.Store("")
		n.dm.failPut = func(node, key string, nx bool) error {
			if !strings.HasPrefix(key, "schedule-fire::") {
				return nil
			}
			switch n.fault.Swap("").(string) {
			case "err":
				return errInjected
			case "tmo":
				return errPutTimeout
			case "tmoa":
				return errPutTimeoutApplied
			}
			return nil
		}
		// a short write timeout: a scripted slow claim write runs into the engine's own deadline (putRecordIfAbsent)
		n.cl = cluster.NewVerif(sys.Name(), dns[i], n.dm, &fakeClient{nodes: dns, leader: names[0]}, cluster.WithWriteTimeout(40*time.Millisecond))
		n.ack = &ackCluster{Cluster: n.cl}
		n.ack.last.Store("")
		if err := actor.VerifJoinCluster(ctx, sys, n.ack, dns[i], nil); err != nil {
			fatal("join:", err)
		}
		sink, err := sys.Spawn(ctx, "sink-"+name, &sinkActor{n: &n.count})
		if err != nil {
			fatal("spawn sink:", err)
		}
		// the same cron schedule, same reference, on every node (it never fires by itself during the run)
		if err := sys.ScheduleWithCron(ctx, n.msg, sink, cron, actor.WithReference(cronRef)); err != nil {
			fatal("ScheduleWithCron:", err)
		}
		w.nodes[name] = n
	}
	return w
}

func (w *cworld) stop() {
	ctx, cancel := context.WithTimeout(context.Background(), 20*time.Second)
	defer cancel()
	for _, n := range w.nodes {
		actor.VerifLeaveCluster(n.sys)
		_ = n.sys.Stop(ctx)
	}
}

func (w *cworld) takePuts() []putRec {
	w.st.mu.Lock()
	defer w.st.mu.Unlock()
	p := w.puts
	w.puts = nil
	return p
}

func (w *cworld) reset() {
	w.st.mu.Lock()
	for k := range w.st.m {
		if strings.HasPrefix(k, "schedule-fire::") {
			delete(w.st.m, k)
		}
	}
	w.puts = nil
	w.st.mu.Unlock()
	for _, n := range w.nodes {
		n.count.Store(0)
		n.fault.Store("")
		n.ack.last.Store("")
	}
}

func (w *cworld) sinkTotal() int64 {
	var s int64
	for _, n := range w.nodes {
		s += n.count.Load()
	}
	return s
}

// replayClaim executes one behaviour; it returns a drift description ("" = the real code followed the model).
func (w *cworld) replayClaim(id int, steps []cstep, tw *vtrace.Writer) string {
	ctx := context.Background()
	w.reset()
	var nodes []string
	ticks := map[int]bool{}
	fresh := map[string]bool{}
	for _, st := range steps {
		ticks[st.T] = true
		if st.A == "Check" {
			fresh[fmt.Sprintf("%s-%d", st.N, st.T)] = st.R == "fresh"
		}
	}
	nodes = w.order
	var tl []int
	for t := range ticks {
		tl = append(tl, t)
	}
	tw.Raw(map[string]any{"op": "New", "id": id, "nodes": nodes, "nticks": len(tl)})
	lines := 1

	s := sched.New()
	s.Watchdog = 10 * time.Second
	for _, n := range w.nodes {
		s.Control(n.cl)
		s.Control(n.msg)
	}
	s.OnlyPoints("sched.job", "cluster.ClaimScheduleFire", "sched.tell")
	base := time.Now().Add(-10 * time.Second).UnixNano()
	runTime := func(n string, t int) int64 {
		r := base + int64(t)*int64(time.Second)
		if !fresh[fmt.Sprintf("%s-%d", n, t)] {
			r -= int64(25 * time.Hour) // older than any claim TTL: the staleness check skips it
		}
		return r
	}
	freshKey := func(t int) string { return fmt.Sprintf("%s@%d", cronRef, base+int64(t)*int64(time.Second)) }
	drift := ""
	expect := func(p sched.Pending, err error, want string, st cstep) bool {
		if err != nil {
			drift = fmt.Sprintf("%s(%s,%d): %v", st.A, st.N, st.T, err)
			return false
		}
		got := p.Point
		if p.Done {
			got = "done"
		}
		if got != want {
			drift = fmt.Sprintf("%s(%s,%d,%s): thread parked at %s, model expects %s", st.A, st.N, st.T, st.R, got, want)
			return false
		}
		return true
	}
	for _, st := range steps {
		name := fmt.Sprintf("%s-%d", st.N, st.T)
		n := w.nodes[st.N]
		ok := true
		switch st.A {
		case "Fire":
			rt := runTime(st.N, st.T)
			p, err := s.Go(name, func() {
				_, _ = actor.VerifFireScheduled(ctx, n.sys, cronRef, rt)
			})
			ok = expect(p, err, "sched.job", st)
			tw.Raw(map[string]any{"op": "Fire", "n": st.N, "t": st.T})
			lines++
		case "Check":
			p, err := s.Step(name)
			want := "done"
			if st.R == "fresh" {
				want = "cluster.ClaimScheduleFire"
			}
			ok = expect(p, err, want, st)
			obs := "stale"
			if err == nil && !p.Done && p.Point == "cluster.ClaimScheduleFire" {
				obs = "fresh"
			} else if err == nil && !p.Done {
				obs = "other:" + p.Point
			}
			tw.Raw(map[string]any{"op": "Check", "n": st.N, "t": st.T, "r": obs})
			lines++
		case "Claim":
			if st.R == "err" || st.R == "tmo" || st.R == "tmoa" {
				n.fault.Store(st.R)
			}
			n.ack.last.Store("")
			w.takePuts()
			p, err := s.Step(name)
			want := "done"
			if st.R == "won" {
				want = "sched.tell"
			}
			ok = expect(p, err, want, st)
			// r = what the registry did with the write; ack = what the real ClaimScheduleFire told the node; next = what the node does
			consumed := (st.R == "err" || st.R == "tmo" || st.R == "tmoa") && n.fault.Load().(string) == ""
			n.fault.Store("")
			obs, key := "err", ""
			if consumed && st.R != "tmoa" {
				obs = st.R
			}
			for _, pr := range w.takePuts() {
				key = pr.key
				switch {
				case pr.res == 0:
					obs = "lost"
				case consumed && st.R == "tmoa":
					obs = "tmoa"
				default:
					obs = "won"
				}
			}
			next := "done"
			if err == nil && !p.Done {
				next = strings.TrimPrefix(p.Point, "sched.")
			}
			tw.Raw(map[string]any{"op": "Claim", "n": st.N, "t": st.T, "r": obs, "ack": n.ack.last.Load().(string), "next": next,
				"key": key, "fresh": key == "" || key == freshKey(st.T)})
			lines++
		case "Tell":
			before := w.sinkTotal()
			p, err := s.Step(name)
			// with the claim made after the delivery (a mutant order) the thread parks at the claim gate instead of finishing
			ok = expect(p, err, "done", st)
			deadline := time.Now().Add(3 * time.Second)
			for w.sinkTotal() == before && time.Now().Before(deadline) {
				time.Sleep(200 * time.Microsecond)
			}
			time.Sleep(200 * time.Microsecond)
			tw.Raw(map[string]any{"op": "Tell", "n": st.N, "t": st.T, "dlv": w.sinkTotal() - before})
			lines++
		case "Expire":
			w.st.mu.Lock()
			delete(w.st.m, "schedule-fire::"+freshKey(st.T))
			w.st.mu.Unlock()
			tw.Raw(map[string]any{"op": "Expire", "n": "", "t": st.T})
			lines++
		}
		if !ok {
			break
		}
	}
	before := w.sinkTotal()
	s.FreeRun()
	joined := s.Join(10 * time.Second)
	s.Close()
	if !joined && drift == "" {
		drift = "threads did not finish"
	}
	time.Sleep(2 * time.Millisecond)
	// deliveries that happened outside a Tell step (only after drift) are reported unattributed
	tw.Raw(map[string]any{"op": "End", "id": id, "sink": w.sinkTotal(), "loose": w.sinkTotal() - before, "drift": drift})
	lines++
	_ = lines
	return drift
}

func schedClaimMain(bfile, tfile string) {
	behaviours := readNDJSON[[]cstep](bfile)
	tw, err := vtrace.Create(tfile)
	if err != nil {
		fatal(err)
	}
	worlds := map[int]*cworld{}
	drifts := 0
	firstDrift := ""
	for i, b := range behaviours {
		nn := 0
		for _, st := range b {
			if len(st.N) == 2 && int(st.N[1]-'0') > nn {
				nn = int(st.N[1] - '0')
			}
		}
		w, ok := worlds[nn]
		if !ok {
			var names []string
			for k := 1; k <= nn; k++ {
				names = append(names, fmt.Sprintf("n%d", k))
			}
			w = newCWorld(names)
			worlds[nn] = w
		}
		if d := w.replayClaim(i, b, tw); d != "" {
			drifts++
			if firstDrift == "" {
				firstDrift = fmt.Sprintf("behaviour %d: %s", i, d)
			}
		}
	}
	n := tw.Count()
	if err := tw.Close(); err != nil {
		fatal(err)
	}
	for _, w := range worlds {
		w.stop()
	}
	fmt.Fprintf(os.Stdout, `{"behaviours":%d,"events":%d,"drifts":%d,"first_drift":%q}`+"\n", len(behaviours), n, drifts, firstDrift)
}

// schedLongStallMain reproduces, in real time, the one schedule Claim.tla excludes by its NoLongStall assumption: a
// node that lags almost a full claim TTL behind passes the staleness check, stalls across the expiry of the first
// node's claim, and then wins the same tick again.  The cron schedule fires every minute, so the claim TTL is its
// floor of one minute; the schedules are paused so that quartz never fires them by itself.  Takes ~ one TTL.
func schedLongStallMain(tfile string) {
	ctx := context.Background()
	tw, err := vtrace.Create(tfile)
	if err != nil {
		fatal(err)
	}
	w := newCWorldCron([]string{"n1", "n2"}, "0 * * * * *")
	w.st.mu.Lock()
	w.st.ttl = true
	w.st.mu.Unlock()
	for _, n := range w.nodes {
		if err := n.sys.PauseSchedule(cronRef); err != nil {
			fatal("pause:", err)
		}
	}
	ttl := time.Duration(envInt("VERIF_CLAIM_TTL_MS", 60000)) * time.Millisecond
	s := sched.New()
	s.Watchdog = 2*ttl + 10*time.Second
	for _, n := range w.nodes {
		s.Control(n.cl)
		s.Control(n.msg)
		n.ack.last.Store("")
	}
	s.OnlyPoints("sched.job", "cluster.ClaimScheduleFire", "sched.tell")
	tw.Raw(map[string]any{"op": "New", "id": 0, "nodes": w.order, "nticks": 1})
	run := time.Now()
	rt := run.UnixNano()
	step := func(name string) sched.Pending {
		p, err := s.Step(name)
		if err != nil {
			fatal("longstall step:", name, err)
		}
		return p
	}
	point := func(p sched.Pending) string {
		if p.Done {
			return "done"
		}
		return p.Point
	}
	fire := func(n string) {
		node := w.nodes[n]
		if _, err := s.Go(n+"-1", func() { _, _ = actor.VerifFireScheduled(ctx, node.sys, cronRef, rt) }); err != nil {
			fatal("longstall fire:", err)
		}
		tw.Raw(map[string]any{"op": "Fire", "n": n, "t": 1})
	}
	check := func(n string) string {
		r := "stale"
		if point(step(n+"-1")) == "cluster.ClaimScheduleFire" {
			r = "fresh"
		}
		tw.Raw(map[string]any{"op": "Check", "n": n, "t": 1, "r": r})
		return r
	}
	claim := func(n string) string {
		w.takePuts()
		p := step(n + "-1")
		obs, key := "err", ""
		for _, pr := range w.takePuts() {
			key = pr.key
			obs = map[int]string{1: "won", 0: "lost"}[pr.res]
		}
		next := "done"
		if !p.Done {
			next = strings.TrimPrefix(p.Point, "sched.")
		}
		tw.Raw(map[string]any{"op": "Claim", "n": n, "t": 1, "r": obs, "ack": w.nodes[n].ack.last.Load().(string), "next": next, "key": key, "fresh": true})
		return obs
	}
	tell := func(n string) {
		before := w.sinkTotal()
		step(n + "-1")
		deadline := time.Now().Add(3 * time.Second)
		for w.sinkTotal() == before && time.Now().Before(deadline) {
			time.Sleep(200 * time.Microsecond)
		}
		tw.Raw(map[string]any{"op": "Tell", "n": n, "t": 1, "dlv": w.sinkTotal() - before})
	}
	// n1 is on time: claims and delivers
	fire("n1")
	check("n1")
	claim("n1")
	claimed := time.Now()
	tell("n1")
	// n2 lags almost a full TTL: still fresh
	time.Sleep(time.Until(run.Add(ttl - 400*time.Millisecond)))
	fire("n2")
	r2 := check("n2")
	outcome := "n2 saw the tick stale"
	if r2 == "fresh" {
		// ... and stalls between the check and the claim until n1's claim has expired
		time.Sleep(time.Until(claimed.Add(ttl + 300*time.Millisecond)))
		tw.Raw(map[string]any{"op": "Expire", "n": "", "t": 1})
		outcome = "n2 lost the claim"
		if claim("n2") == "won" {
			tell("n2")
			outcome = "n2 won the tick again"
		}
	}
	s.FreeRun()
	s.Join(5 * time.Second)
	s.Close()
	tw.Raw(map[string]any{"op": "End", "id": 0, "sink": w.sinkTotal(), "loose": 0, "drift": ""})
	n := tw.Count()
	if err := tw.Close(); err != nil {
		fatal(err)
	}
	w.stop()
	fmt.Fprintf(os.Stdout, `{"events":%d,"deliveries":%d,"outcome":%q,"wall_s":%.1f}`+"\n", n, w.sinkTotal(), outcome, time.Since(run).Seconds())
}
