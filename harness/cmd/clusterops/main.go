// Command clusterops drives REAL goakt actor systems that believe they are cluster members
// (real internal/cluster engine over a fake olric map/client, see fake.go) for the
// properties C35 (relocation handoff masking), C19 (scheduler) and C33 (relocation run).
//
//	clusterops handoff <behaviours.ndjson> <trace.ndjson>
//	clusterops sched-claim <behaviours.ndjson> <trace.ndjson>
//	clusterops sched-time  <behaviours.ndjson> <trace.ndjson>
//	clusterops reloc <behaviours.ndjson> <trace.ndjson>
package main

import (
	"bufio"
	"context"
	"encoding/json"
	"fmt"
	"net"
	"os"
	"strconv"
	"sync"

	"github.com/tochemey/goakt/v4/actor"
	"github.com/tochemey/goakt/v4/log"
	"github.com/tochemey/goakt/v4/remote"
)

func fatal(v ...any) {
	fmt.Fprintln(os.Stderr, v...)
	os.Exit(2)
}

func envInt(name string, def int) int {
	if v, err := strconv.Atoi(os.Getenv(name)); err == nil {
		return v
	}
	return def
}

func readNDJSON[T any](path string) []T {
	f, err := os.Open(path)
	if err != nil {
		fatal(err)
	}
	defer f.Close()
	var out []T
	sc := bufio.NewScanner(f)
	sc.Buffer(make([]byte, 1<<20), 1<<26)
	for sc.Scan() {
		if len(sc.Bytes()) == 0 {
			continue
		}
		var v T
		if err := json.Unmarshal(sc.Bytes(), &v); err != nil {
			fatal("bad behaviour line:", err)
		}
		out = append(out, v)
	}
	return out
}

var (
	portsMu   sync.Mutex
	portsUsed = map[int]bool{}
)

// freePorts returns n TCP ports that are free now and were never handed out by this process before (worlds are
// created concurrently; the operating system may hand the same ephemeral port to two of them).
func freePorts(n int) []int {
	portsMu.Lock()
	defer portsMu.Unlock()
	var ls []net.Listener
	var ports []int
	for len(ports) < n {
		l, err := net.Listen("tcp", "127.0.0.1:0")
		if err != nil {
			fatal("no free port:", err)
		}
		ls = append(ls, l)
		p := l.Addr().(*net.TCPAddr).Port
		if !portsUsed[p] {
			portsUsed[p] = true
			ports = append(ports, p)
		}
	}
	for _, l := range ls {
		l.Close()
	}
	return ports
}

// startSystem starts a remoting-enabled actor system on a free port.  Another process may grab the port between
// its discovery and the bind (the machine is shared), so a failed start is retried on a fresh port.
func startSystem(name string) (actor.ActorSystem, int) {
	var last error
	for attempt := 0; attempt < 8; attempt++ {
		port := freePorts(1)[0]
		sys, err := actor.NewActorSystem(name, actor.WithLogger(log.DiscardLogger), actor.WithRemote(remote.NewConfig("127.0.0.1", port)))
		if err != nil {
			fatal(err)
		}
		if err = sys.Start(context.Background()); err == nil {
			return sys, port
		}
		last = err
	}
	fatal("start:", last)
	return nil, 0
}

func main() {
	if len(os.Args) < 2 {
		fatal("usage: clusterops <handoff|sched-claim|sched-time|reloc> ...")
	}
	switch os.Args[1] {
	case "handoff":
		if len(os.Args) != 4 {
			fatal("usage: clusterops handoff <behaviours> <trace>")
		}
		handoffMain(os.Args[2], os.Args[3])
	case "sched-claim":
		if len(os.Args) != 4 {
			fatal("usage: clusterops sched-claim <behaviours> <trace>")
		}
		schedClaimMain(os.Args[2], os.Args[3])
	case "sched-longstall":
		if len(os.Args) != 3 {
			fatal("usage: clusterops sched-longstall <trace>")
		}
		schedLongStallMain(os.Args[2])
	case "sched-time":
		if len(os.Args) != 4 {
			fatal("usage: clusterops sched-time <behaviours> <trace>")
		}
		schedTimeMain(os.Args[2], os.Args[3])
	case "reloc":
		if len(os.Args) != 4 {
			fatal("usage: clusterops reloc <behaviours> <trace>")
		}
		relocMain(os.Args[2], os.Args[3])
	default:
		fatal("unknown command", os.Args[1])
	}
}
