// Command clusterops drives REAL goakt actor systems that believe they are cluster members
// (real internal/cluster engine over a fake olric map/client, see fake.go) for the
// properties C35 (relocation handoff masking), C19 (scheduler) and C33 (relocation run).
//
//	clusterops handoff <behaviours.ndjson> <trace.ndjson>
//	clusterops sched-claim <behaviours.ndjson> <trace.ndjson>
//	clusterops sched-time  <behaviours.ndjson> <trace.ndjson>
//	clusterops reloc <behaviours.ndjson> <trace.ndjson>
package main

import (
	"bufio"
	"encoding/json"
	"fmt"
	"net"
	"os"
	"strconv"
)

func fatal(v ...any) {
	fmt.Fprintln(os.Stderr, v...)
	os.Exit(2)
}

func envInt(name string, def int) int {
	if v, err := strconv.Atoi(os.Getenv(name)); err == nil {
		return v
	}
	return def
}

func readNDJSON[T any](path string) []T {
	f, err := os.Open(path)
	if err != nil {
		fatal(err)
	}
	defer f.Close()
	var out []T
	sc := bufio.NewScanner(f)
	sc.Buffer(make([]byte, 1<<20), 1<<26)
	for sc.Scan() {
		if len(sc.Bytes()) == 0 {
			continue
		}
		var v T
		if err := json.Unmarshal(sc.Bytes(), &v); err != nil {
			fatal("bad behaviour line:", err)
		}
		out = append(out, v)
	}
	return out
}

func freePorts(n int) []int {
	var ls []net.Listener
	var ports []int
	for i := 0; i < n; i++ {
		l, err := net.Listen("tcp", "127.0.0.1:0")
		if err != nil {
			fatal("no free port:", err)
		}
		ls = append(ls, l)
		ports = append(ports, l.Addr().(*net.TCPAddr).Port)
	}
	for _, l := range ls {
		l.Close()
	}
	return ports
}

func main() {
	if len(os.Args) < 2 {
		fatal("usage: clusterops <handoff|sched-claim|sched-time|reloc> ...")
	}
	switch os.Args[1] {
	case "handoff":
		if len(os.Args) != 4 {
			fatal("usage: clusterops handoff <behaviours> <trace>")
		}
		handoffMain(os.Args[2], os.Args[3])
	case "sched-claim":
		if len(os.Args) != 4 {
			fatal("usage: clusterops sched-claim <behaviours> <trace>")
		}
		schedClaimMain(os.Args[2], os.Args[3])
	case "sched-time":
		if len(os.Args) != 4 {
			fatal("usage: clusterops sched-time <behaviours> <trace>")
		}
		schedTimeMain(os.Args[2], os.Args[3])
	case "reloc":
		if len(os.Args) != 4 {
			fatal("usage: clusterops reloc <behaviours> <trace>")
		}
		relocMain(os.Args[2], os.Args[3])
	default:
		fatal("unknown command", os.Args[1])
	}
}
