// Command crdt executes TLC-generated behaviours of specs/Crdt/Crdt.tla on the REAL
// goakt CRDTs (package crdt) and the real wire codec (internal/ddata, internal/codec)
// and records what the real objects did, for the TLC trace specifications:
//
//	steps.ndjson  one line per step: the step, Abs(real) of every replica afterwards, the
//	              delta the real code emitted, the real join of all replicas
//	              (Trace_Crdt = conformance, Mon_CrdtConv = C39 monitor)
//	laws.ndjson   one line per distinct jointly-reachable triple (a, b, c) of real states:
//	              Abs of the real merges a|b, b|a, (a|b)|c, a|(b|c), a|a, (a|b)|a, a|(a|b), of a
//	              clone, and of the inputs afterwards (Mon_CrdtLaws = C38 monitor)
//	codec.ndjson  one line per distinct real state x (and partner b): Abs(decode(encode(x))),
//	              real merges of the decoded vs. the original value, key round trips
//	              (Mon_CrdtCodec = C40 monitor)
//
// Abs(real) is read through the public accessors only (State, RawState, Value, ...).
//
//	crdt replay <behaviours.ndjson> <outdir> <nflavours> <laws|codec|steps>   (steps.ndjson is always written)
package main

import (
	"encoding/json"
	"fmt"
	"os"
	"path/filepath"
	"sort"
	"strconv"
	"time"

	"google.golang.org/protobuf/proto"
	"google.golang.org/protobuf/types/known/wrapperspb"

	"github.com/tochemey/goakt/v4/crdt"
	"github.com/tochemey/goakt/v4/internal/codec"
	"github.com/tochemey/goakt/v4/internal/ddata"
	"github.com/tochemey/goakt/v4/internal/internalpb"
	"github.com/tochemey/goakt/v4/remote"
	"github.com/tochemey/goakt/v4/verifharness/vtrace"
)

type op struct {
	K string `json:"k"`
	X string `json:"x"`
	N int64  `json:"n"`
}

type step struct {
	A   string `json:"a"`
	R   string `json:"r"`
	Q   string `json:"q"`
	ID  int    `json:"id"`
	Ops []op   `json:"ops"`
}

type behaviour struct {
	Ty string `json:"ty"`
	H  []step `json:"h"`
}

type obj = map[string]any

var nodes = []string{"n1", "n2", "n3"}

// ---- element flavours: the model's element names mapped to Go values of the serializer's domain --------

type flavour struct {
	name    string
	x, y    any
	regOnly bool // usable only as register value (not comparable by content: proto messages)
}

var flavours = []flavour{
	{name: "string", x: "x", y: "y"},
	{name: "int", x: int(1), y: int(-2)},
	{name: "int64", x: int64(1) << 40, y: int64(-7)},
	{name: "mixed", x: "x", y: int32(120)},
	{name: "float64", x: float64(1.5), y: float64(-2.25)},
	{name: "bool", x: true, y: false},
	{name: "uint64", x: uint64(1)<<63 + 5, y: uint64(2)},
	{name: "small", x: uint8(200), y: int8(-100)},
	{name: "float32", x: float32(0.5), y: int16(-300)},
	{name: "uints", x: uint16(65000), y: uint32(4000000000)},
	{name: "uint", x: uint(77), y: "y"},
	{name: "proto", x: wrapperspb.String("x"), y: wrapperspb.Int64(42), regOnly: true},
}

type mapper struct{ f flavour }

func (m mapper) toGo(name string) any {
	switch name {
	case "x":
		return m.f.x
	case "y":
		return m.f.y
	}
	panic("unknown element " + name)
}

func same(a, b any) bool {
	if pa, ok := a.(proto.Message); ok {
		pb, ok2 := b.(proto.Message)
		return ok2 && proto.Equal(pa, pb)
	}
	return a == b // same dynamic type and value
}

// toName maps a Go value back to the model's name; anything else is rendered so that the monitor sees it.
func (m mapper) toName(v any) string {
	if v == nil {
		return ""
	}
	if same(v, m.f.x) {
		return "x"
	}
	if same(v, m.f.y) {
		return "y"
	}
	return fmt.Sprintf("?%T:%v", v, v)
}

// ---- Abs(real): projection of a real CRDT to the abstract state of CrdtTypes.tla (Core + dirty) ----------

func u64map(m map[string]uint64) obj {
	o := obj{}
	for k, v := range m {
		o[k] = v
	}
	return o
}

func dotsJSON(ds []crdt.Dot) []obj {
	out := make([]obj, 0, len(ds))
	for _, d := range ds {
		out = append(out, obj{"n": d.NodeID, "c": d.Counter})
	}
	sort.Slice(out, func(i, j int) bool {
		if out[i]["n"].(string) != out[j]["n"].(string) {
			return out[i]["n"].(string) < out[j]["n"].(string)
		}
		return out[i]["c"].(uint64) < out[j]["c"].(uint64)
	})
	return out
}

func orsetCore(m mapper, entries []crdt.Entry, clock map[string]uint64) obj {
	e := obj{}
	for _, en := range entries {
		name := m.toName(en.Element)
		if prev, dup := e[name]; dup { // two Go keys with the same abstract name: keep both visible
			e[name+"#dup"] = prev
		}
		e[name] = dotsJSON(en.Dots)
	}
	return obj{"e": e, "clock": u64map(clock)}
}

func core(m mapper, d crdt.ReplicatedData) obj {
	switch v := d.(type) {
	case *crdt.GCounter:
		return obj{"s": u64map(v.State())}
	case *crdt.PNCounter:
		p, n := v.State()
		return obj{"p": u64map(p), "m": u64map(n)}
	case *crdt.Flag:
		return obj{"en": v.Enabled()}
	case *crdt.LWWRegister:
		return obj{"v": m.toName(v.Value()), "ts": v.Timestamp(), "n": v.NodeID()}
	case *crdt.MVRegister:
		entries, clock := v.RawState()
		es := make([]obj, 0, len(entries))
		for _, e := range entries {
			es = append(es, obj{"v": m.toName(e.Value), "n": e.Dot.NodeID, "c": e.Dot.Counter})
		}
		sort.Slice(es, func(i, j int) bool {
			a, b := es[i], es[j]
			if a["n"].(string) != b["n"].(string) {
				return a["n"].(string) < b["n"].(string)
			}
			if a["c"].(uint64) != b["c"].(uint64) {
				return a["c"].(uint64) < b["c"].(uint64)
			}
			return a["v"].(string) < b["v"].(string)
		})
		return obj{"e": es, "clock": u64map(clock)}
	case *crdt.ORSet:
		entries, clock := v.RawState()
		return orsetCore(m, entries, clock)
	case *crdt.ORMap:
		rs := v.RawState()
		c := orsetCore(m, rs.KeyEntries, rs.KeyClock)
		vals := obj{}
		for k, val := range rs.Values {
			if gc, ok := val.(*crdt.GCounter); ok {
				vals[m.toName(k)] = u64map(gc.State())
			} else {
				vals[m.toName(k)] = obj{"?": fmt.Sprintf("%T", val)}
			}
		}
		c["v"] = vals
		return c
	}
	panic(fmt.Sprintf("unknown CRDT %T", d))
}

func abs(m mapper, d crdt.ReplicatedData) obj {
	if d == nil {
		return obj{"absent": true}
	}
	return obj{"core": core(m, d), "dirty": d.Delta() != nil}
}

func absDelta(m mapper, d crdt.ReplicatedData) obj {
	if d == nil {
		return obj{"nil": true}
	}
	return abs(m, d)
}

func key(o obj) string {
	b, err := json.Marshal(o) // map keys are sorted by encoding/json
	if err != nil {
		panic(err)
	}
	return string(b)
}

// ---- the real operations ----------------------------------------------------------------------------------

func newOf(ty string) crdt.ReplicatedData {
	switch ty {
	case "gcounter":
		return crdt.NewGCounter()
	case "pncounter":
		return crdt.NewPNCounter()
	case "flag":
		return crdt.NewFlag()
	case "lww":
		return crdt.NewLWWRegister()
	case "mvreg":
		return crdt.NewMVRegister()
	case "orset":
		return crdt.NewORSet()
	case "ormap":
		return crdt.NewORMap()
	}
	panic("unknown type " + ty)
}

func dataType(ty string) crdt.DataType {
	switch ty {
	case "gcounter":
		return crdt.GCounterType
	case "pncounter":
		return crdt.PNCounterType
	case "flag":
		return crdt.FlagType
	case "lww":
		return crdt.LWWRegisterType
	case "mvreg":
		return crdt.MVRegisterType
	case "orset":
		return crdt.ORSetType
	case "ormap":
		return crdt.ORMapType
	}
	panic("unknown type " + ty)
}

// apply performs one mutator call of the public API, as a user's modify function would.
func apply(m mapper, cur crdt.ReplicatedData, node string, o op) crdt.ReplicatedData {
	switch v := cur.(type) {
	case *crdt.GCounter:
		return v.Increment(node, uint64(o.N))
	case *crdt.PNCounter:
		if o.K == "inc" {
			return v.Increment(node, uint64(o.N))
		}
		return v.Decrement(node, uint64(o.N))
	case *crdt.Flag:
		if o.K == "nop" {
			return v // a modify function that returns its argument
		}
		return v.Enable()
	case *crdt.LWWRegister:
		return v.Set(m.toGo(o.X), time.Unix(0, o.N), node)
	case *crdt.MVRegister:
		return v.Set(node, m.toGo(o.X))
	case *crdt.ORSet:
		if o.K == "add" {
			return v.Add(node, m.toGo(o.X))
		}
		return v.Remove(m.toGo(o.X))
	case *crdt.ORMap:
		k := m.toGo(o.X)
		if o.K == "put" {
			cnt := crdt.NewGCounter()
			if ex, ok := v.Get(k); ok {
				cnt = ex.(*crdt.GCounter)
			}
			return v.Set(node, k, cnt.Increment(node, 1))
		}
		return v.Remove(k)
	}
	panic(fmt.Sprintf("apply: %T", cur))
}

// touch mutates a result in place and through the functional API; used to detect results that alias their inputs.
func touch(m mapper, ty string, d crdt.ReplicatedData) {
	d.ResetDelta()
	var o op
	switch ty {
	case "gcounter", "pncounter":
		o = op{K: "inc", N: 5}
	case "flag":
		o = op{K: "enable"}
	case "lww":
		o = op{K: "set", X: "y", N: 99}
	case "mvreg":
		o = op{K: "set", X: "y"}
	case "orset":
		o = op{K: "add", X: "y"}
	case "ormap":
		o = op{K: "put", X: "y"}
	}
	for _, n := range nodes {
		t := apply(m, d, n, o)
		t.ResetDelta()
		if ty == "orset" {
			t = apply(m, t, n, op{K: "rem", X: "x"})
			t.ResetDelta()
		}
		if ty == "ormap" {
			t = apply(m, t, n, op{K: "rem", X: "x"})
			t.ResetDelta()
		}
	}
}

var serializer remote.Serializer = ddata.NewCRDTValueSerializer()

// wire sends a value through the real codec exactly as the replicator does for deltas and full states:
// EncodeCRDT -> protobuf bytes -> DecodeCRDT.
func wire(d crdt.ReplicatedData) (crdt.ReplicatedData, error) {
	pb, err := ddata.EncodeCRDT(d, serializer)
	if err != nil {
		return nil, fmt.Errorf("encode: %w", err)
	}
	b, err := proto.Marshal(pb)
	if err != nil {
		return nil, fmt.Errorf("marshal: %w", err)
	}
	var back internalpb.CRDTData
	if err := proto.Unmarshal(b, &back); err != nil {
		return nil, fmt.Errorf("unmarshal: %w", err)
	}
	out, err := ddata.DecodeCRDT(&back, serializer)
	if err != nil {
		return nil, fmt.Errorf("decode: %w", err)
	}
	return out, nil
}

func mustWire(d crdt.ReplicatedData) crdt.ReplicatedData {
	out, err := wire(d)
	if err != nil {
		fmt.Fprintln(os.Stderr, "codec failed on a value of the supported domain:", err)
		os.Exit(3)
	}
	return out
}

// ---- recorders ----------------------------------------------------------------------------------------------

type recorder struct {
	steps, laws, codec *vtrace.Writer
	seenLaw, seenCodec map[string]bool
	lawTriples         int
	codecPairs         int
}

type operand struct {
	d crdt.ReplicatedData
	a obj
	k string
}

func mkOperand(m mapper, d crdt.ReplicatedData) operand {
	a := abs(m, d)
	return operand{d: d, a: a, k: key(a)}
}

// laws records the real merges of every ordered triple of distinct operands not seen before.
func (rec *recorder) lawsFor(m mapper, ty string, pool []operand) {
	for i := range pool {
		for j := range pool {
			for k := range pool {
				if i == j || j == k || i == k {
					continue
				}
				a, b, c := pool[i], pool[j], pool[k]
				sig := ty + "|" + a.k + "|" + b.k + "|" + c.k // any flavour
				if rec.seenLaw[sig] {
					continue
				}
				rec.seenLaw[sig] = true
				ab := a.d.Merge(b.d)
				ba := b.d.Merge(a.d)
				bc := b.d.Merge(c.d)
				abc1 := ab.Merge(c.d)
				abc2 := a.d.Merge(bc)
				aa := a.d.Merge(a.d)
				aba := ab.Merge(a.d)
				aab := a.d.Merge(ab)
				cl := a.d.Clone()
				line := obj{"ty": ty, "fl": m.f.name,
					"a": a.a, "b": b.a, "c": c.a,
					"ab": abs(m, ab), "ba": abs(m, ba), "bc": abs(m, bc), "ab_c": abs(m, abc1), "a_bc": abs(m, abc2),
					"aa": abs(m, aa), "ab_a": abs(m, aba), "a_ab": abs(m, aab), "cl": abs(m, cl)}
				// results must not alias their inputs: mutate every result, then look at the inputs again
				for _, r := range []crdt.ReplicatedData{ab, ba, bc, abc1, abc2, aa, aba, aab, cl} {
					if r != a.d && r != b.d && r != c.d { // Merge with a foreign type returns the receiver itself
						touch(m, ty, r)
					}
				}
				line["a2"], line["b2"], line["c2"] = abs(m, a.d), abs(m, b.d), abs(m, c.d)
				rec.laws.Raw(line)
				rec.lawTriples++
			}
		}
	}
}

// codecFor records decode(encode(x)) for every operand and how the decoded value merges with the others.
func (rec *recorder) codecFor(m mapper, ty string, pool []operand) {
	for i := range pool {
		x := pool[i]
		sig := ty + "|" + m.f.name + "|" + x.k
		var y crdt.ReplicatedData
		if !rec.seenCodec[sig] {
			rec.seenCodec[sig] = true
			var err error
			y, err = wire(x.d)
			line := obj{"rec": "value", "ty": ty, "fl": m.f.name, "x": x.a, "err": ""}
			if err != nil {
				line["err"] = err.Error()
				line["y"] = obj{"absent": true}
			} else {
				line["y"] = abs(m, y)
			}
			rec.codec.Raw(line)
		}
		for j := range pool {
			if i == j {
				continue
			}
			b := pool[j]
			psig := sig + "|" + b.k
			if rec.seenCodec[psig] {
				continue
			}
			rec.seenCodec[psig] = true
			if y == nil {
				var err error
				if y, err = wire(x.d); err != nil {
					continue
				}
			}
			rec.codec.Raw(obj{"rec": "merge", "ty": ty, "fl": m.f.name, "x": x.a, "b": b.a,
				"xb": abs(m, x.d.Merge(b.d)), "yb": abs(m, y.Merge(b.d)),
				"bx": abs(m, b.d.Merge(x.d)), "by": abs(m, b.d.Merge(y))})
			rec.codecPairs++
		}
	}
}

func (rec *recorder) keys() {
	for _, ty := range []string{"gcounter", "pncounter", "flag", "lww", "mvreg", "orset", "ormap"} {
		for _, id := range []string{"k", "", "a/b:c", "K 2"} {
			pb := codec.EncodeCRDTKey(id, dataType(ty))
			b, err := proto.Marshal(pb)
			line := obj{"rec": "key", "ty": ty, "id": id, "dt": int(dataType(ty)), "err": ""}
			if err != nil {
				line["err"] = err.Error()
			} else {
				var back internalpb.CRDTKey
				if err := proto.Unmarshal(b, &back); err != nil {
					line["err"] = err.Error()
				} else if id2, dt2, err := codec.DecodeCRDTKey(&back); err != nil {
					line["err"] = err.Error()
				} else {
					line["id2"], line["dt2"] = id2, int(dt2)
				}
			}
			if _, ok := line["id2"]; !ok {
				line["id2"], line["dt2"] = "", -1
			}
			rec.codec.Raw(line)
		}
	}
}

func fail(a ...any) {
	fmt.Fprintln(os.Stderr, a...)
	os.Exit(2)
}

func main() {
	if len(os.Args) != 6 || os.Args[1] != "replay" {
		fail("usage: crdt replay <behaviours.ndjson> <outdir> <nflavours> <laws|codec|steps>")
	}
	mode := os.Args[5]
	behaviours, err := vtrace.ReadLines[behaviour](os.Args[2])
	if err != nil {
		fail(err)
	}
	outdir := os.Args[3]
	nfl, _ := strconv.Atoi(os.Args[4])
	if nfl < 1 || nfl > len(flavours) {
		nfl = len(flavours)
	}
	rec := &recorder{seenLaw: map[string]bool{}, seenCodec: map[string]bool{}}
	for name, w := range map[string]**vtrace.Writer{"steps.ndjson": &rec.steps, "laws.ndjson": &rec.laws, "codec.ndjson": &rec.codec} {
		if *w, err = vtrace.Create(filepath.Join(outdir, name)); err != nil {
			fail(err)
		}
	}
	rec.keys()

	for bi, b := range behaviours {
		f := flavours[bi%nfl]
		if f.regOnly && b.Ty != "lww" && b.Ty != "mvreg" {
			f = flavours[0]
		}
		m := mapper{f}
		st := map[string]crdt.ReplicatedData{}
		net := map[int]crdt.ReplicatedData{}
		var ids []int
		rec.steps.Raw(obj{"a": "New", "ty": b.Ty, "fl": f.name, "r": "", "q": "", "id": 0, "ops": []op{}})
		for _, s := range b.H {
			var extra []crdt.ReplicatedData // operands that exist only during this step (un-reset update result)
			delta := obj{"nil": true}
			switch s.A {
			case "Update":
				cur := st[s.R]
				if cur == nil {
					cur = newOf(b.Ty) // handleUpdate: msg.InitialValue()
				}
				upd := cur
				for _, o := range s.Ops {
					upd = apply(m, upd, s.R, o) // msg.Apply(current)
				}
				if upd != cur {
					extra = append(extra, upd.Clone())
				}
				d := upd.Delta()
				upd.ResetDelta()
				st[s.R] = upd
				delta = absDelta(m, d)
				if d != nil {
					net[s.ID] = d
					ids = append(ids, s.ID)
				}
			case "Deliver":
				// The model published a delta for update s.ID. If the real Delta() returned nil there is
				// nothing to deliver: the receiver stays as it is and the monitor sees what is missing.
				if d, ok := net[s.ID]; ok {
					data := mustWire(d) // encodeDelta / decodeDelta
					if cur := st[s.R]; cur == nil {
						st[s.R] = data // handleDelta: r.store[keyID] = msg.Delta
					} else {
						st[s.R] = cur.Merge(data)
					}
				}
			case "Merge":
				src := st[s.Q]
				if src == nil {
					fail("behaviour merges an absent replica")
				}
				data := mustWire(src) // handleDigest EncodeCRDT / handleFullState DecodeCRDT
				if cur := st[s.R]; cur == nil {
					st[s.R] = data
				} else {
					st[s.R] = cur.Merge(data)
				}
			case "Compact":
				c, ok := st[s.R].(crdt.Compactable)
				if !ok {
					fail("behaviour compacts a non-compactable value")
				}
				st[s.R] = c.CompactData() // handlePrune
			default:
				fail("unknown action", s.A)
			}

			// what the real objects are now
			stAbs := obj{}
			var join crdt.ReplicatedData
			var pool []operand
			seen := map[string]bool{}
			add := func(d crdt.ReplicatedData) {
				o := mkOperand(m, d)
				if !seen[o.k] {
					seen[o.k] = true
					pool = append(pool, o)
				}
			}
			for _, n := range nodes {
				stAbs[n] = abs(m, st[n])
				if st[n] != nil {
					add(st[n])
					if join == nil {
						join = st[n]
					} else {
						join = join.Merge(st[n])
					}
				}
			}
			if join == nil {
				join = newOf(b.Ty)
			}
			for _, id := range ids {
				add(mustWire(net[id]))
			}
			for _, d := range extra {
				add(d)
			}
			ops := s.Ops
			if ops == nil {
				ops = []op{}
			}
			rec.steps.Raw(obj{"a": s.A, "r": s.R, "q": s.Q, "id": s.ID, "ops": ops, "ty": b.Ty, "fl": f.name,
				"st": stAbs, "delta": delta, "join": core(m, join)})
			if mode == "laws" {
				rec.lawsFor(m, b.Ty, pool)
			}
			if mode == "codec" {
				rec.codecFor(m, b.Ty, pool)
			}
		}
	}
	ns, nl, nc := rec.steps.Count(), rec.laws.Count(), rec.codec.Count()
	for _, w := range []*vtrace.Writer{rec.steps, rec.laws, rec.codec} {
		if err := w.Close(); err != nil {
			fail(err)
		}
	}
	fmt.Printf("{\"behaviours\":%d,\"steps\":%d,\"laws\":%d,\"codec\":%d,\"law_triples\":%d,\"codec_pairs\":%d}\n",
		len(behaviours), ns, nl, nc, rec.lawTriples, rec.codecPairs)
}
