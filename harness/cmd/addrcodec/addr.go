package main

// C26: run the real internal/address functions on every case TLC enumerated.
//
// A case is either a structured address (token sequences for system / host / name /
// optional parent name and a port) or a raw token string. The real string is the
// concatenation of the tokens. For every case the real results of String, Parse,
// HostPortOf (and Validate, Equals, HostPort) are recorded; nothing is judged here.

import (
	"fmt"
	"os"
	"regexp"
	"strings"

	"github.com/tochemey/goakt/v4/internal/address"
	"github.com/tochemey/goakt/v4/verifharness/vtrace"
)

type addrCase struct {
	Kind   string   `json:"kind"`
	System []string `json:"system"`
	Host   []string `json:"host"`
	Port   int      `json:"port"`
	Name   []string `json:"name"`
	Parent []string `json:"parent"`
	Toks   []string `json:"toks"`
}

type parseObs struct {
	Panic  bool   `json:"panic"`
	Ok     bool   `json:"ok"`
	Err    string `json:"err"`
	System string `json:"system"`
	Host   string `json:"host"`
	Port   int    `json:"port"`
	Name   string `json:"name"`
	Parent string `json:"parent"`
	Str    string `json:"str"`
}

type hpObs struct {
	Panic bool   `json:"panic"`
	Ok    bool   `json:"ok"`
	V     string `json:"v"`
}

var signedNumber = regexp.MustCompile(`^[+-][0-9]+$`)

// checkTokens enforces the alphabet assumption of Addr.tla: a token is one separator
// character or a non-empty word without separator characters (and not a signed number,
// which the token-level ParseInt32 of the spec would misread).
func checkTokens(toks []string) error {
	for _, t := range toks {
		switch {
		case t == ":" || t == "/" || t == "@":
		case t == "" || strings.ContainsAny(t, ":/@") || signedNumber.MatchString(t):
			return fmt.Errorf("token %q breaks the alphabet assumption of Addr.tla", t)
		}
	}
	return nil
}

var literalErrors = map[string]bool{
	"address is required":               true,
	"address format is invalid":         true,
	"address protocol is not supported": true,
}

func safeParse(s string) (obs parseObs) {
	defer func() {
		if r := recover(); r != nil {
			obs = parseObs{Panic: true, Err: fmt.Sprint(r)}
		}
	}()
	a, err := address.Parse(s)
	if err != nil {
		msg := err.Error()
		if !literalErrors[msg] {
			msg = "port" // strconv / range errors of the port component
		}
		return parseObs{Err: msg}
	}
	obs = parseObs{Ok: true, System: a.System(), Host: a.Host(), Port: a.Port(), Name: a.Name(), Str: a.String()}
	if p := a.Parent(); p != nil {
		obs.Parent = p.Name()
	}
	return obs
}

func safeHostPortOf(s string) (obs hpObs) {
	defer func() {
		if r := recover(); r != nil {
			obs = hpObs{Panic: true}
		}
	}()
	v, ok := address.HostPortOf(s)
	return hpObs{Ok: ok, V: v}
}

func nonNil(s []string) []string {
	if s == nil {
		return []string{}
	}
	return s
}

func runAddr(casesPath, tracePath string) {
	cases, err := vtrace.ReadLines[addrCase](casesPath)
	if err != nil {
		fatal(err)
	}
	w, err := vtrace.Create(tracePath)
	if err != nil {
		fatal(err)
	}
	var nAddr, nValid, nRaw, nParsed, nPanics int
	for _, c := range cases {
		switch c.Kind {
		case "addr":
			for _, ts := range [][]string{c.System, c.Host, c.Name, c.Parent} {
				if err := checkTokens(ts); err != nil {
					fatal(err)
				}
			}
			system, host, name, parentName := strings.Join(c.System, ""), strings.Join(c.Host, ""), strings.Join(c.Name, ""), strings.Join(c.Parent, "")
			var a *address.Address
			if parentName != "" {
				parent := address.New(parentName, system, host, c.Port)
				a = address.NewWithParent(name, system, host, c.Port, parent)
			} else {
				a = address.New(name, system, host, c.Port)
			}
			valid := a.Validate() == nil
			str := a.String()
			p := safeParse(str)
			equals := false
			if p.Ok {
				if back, err := address.Parse(str); err == nil {
					equals = a.Equals(back)
				}
			}
			hp := safeHostPortOf(str)
			nAddr++
			if valid {
				nValid++
			}
			if p.Panic || hp.Panic {
				nPanics++
			}
			w.Raw(map[string]any{"kind": "addr", "system": nonNil(c.System), "host": nonNil(c.Host), "port": c.Port,
				"name": nonNil(c.Name), "parent": nonNil(c.Parent), "valid": valid, "str": str,
				"hostport": a.HostPort(), "fmthostport": address.FormatHostPort(host, c.Port),
				"p": p, "equals": equals, "hp": hp})
		case "raw":
			if err := checkTokens(c.Toks); err != nil {
				fatal(err)
			}
			s := strings.Join(c.Toks, "")
			p := safeParse(s)
			rp := parseObs{}
			if p.Ok {
				rp = safeParse(p.Str)
				nParsed++
			}
			hp := safeHostPortOf(s)
			nRaw++
			if p.Panic || rp.Panic || hp.Panic {
				nPanics++
			}
			w.Raw(map[string]any{"kind": "raw", "toks": nonNil(c.Toks), "s": s, "p": p, "rp": rp, "hp": hp})
		default:
			fatal(fmt.Errorf("unknown case kind %q", c.Kind))
		}
	}
	n := w.Count()
	if err := w.Close(); err != nil {
		fatal(err)
	}
	fmt.Printf("{\"cases\":%d,\"events\":%d,\"addr\":%d,\"valid\":%d,\"raw\":%d,\"raw_parsed\":%d,\"panics\":%d}\n",
		len(cases), n, nAddr, nValid, nRaw, nParsed, nPanics)
}

func fatal(err error) {
	fmt.Fprintln(os.Stderr, err)
	os.Exit(2)
}
