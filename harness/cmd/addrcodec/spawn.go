package main

func runSpawn(casesPath, tracePath string) { fatal(errNotYet) }

var errNotYet = errString("spawn mode not built yet")

type errString string

func (e errString) Error() string { return string(e) }
