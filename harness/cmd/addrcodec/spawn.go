package main

// C37: spawn real actors with every configuration TLC enumerated and carry the
// configuration over the two real wire paths:
//
//	relocate  A.Spawn(opts) -> PID.toSerialize -> proto.Marshal / Unmarshal ->
//	          B.wireSpawnOptions -> B.Spawn            (what recreateActorFromWire does)
//	remote    A.Spawn(opts + WithHostAndPort(B)) -> remoteclient.RemoteSpawn -> TCP loopback ->
//	          B.remoteSpawnHandler -> B.Spawn
//	child     remoteParentPID.SpawnChild(opts) -> remoteclient.RemoteSpawnChild -> TCP loopback ->
//	          B.remoteSpawnChildHandler -> parent.SpawnChild      (reference: parent.SpawnChild locally)
//
// and record what the local PID and the copy actually run with. Nothing is judged here.

import (
	"context"
	"fmt"
	"net"
	"runtime"
	"sort"
	"time"

	"google.golang.org/protobuf/proto"

	"github.com/tochemey/goakt/v4/actor"
	gerrors "github.com/tochemey/goakt/v4/errors"
	"github.com/tochemey/goakt/v4/extension"
	"github.com/tochemey/goakt/v4/internal/internalpb"
	"github.com/tochemey/goakt/v4/log"
	"github.com/tochemey/goakt/v4/passivation"
	"github.com/tochemey/goakt/v4/reentrancy"
	"github.com/tochemey/goakt/v4/remote"
	"github.com/tochemey/goakt/v4/supervisor"
	"github.com/tochemey/goakt/v4/verifharness/vtrace"
)

// ---- configuration as printed by Gen_SpawnConfig.tla --------------------------------------

type supCfg struct {
	Set      bool   `json:"set"`
	Strategy string `json:"strategy"`
	Rules    struct {
		Kind string     `json:"kind"`
		D    string     `json:"d"`
		M    [][]string `json:"m"`
	} `json:"rules"`
	Retry struct {
		Set     bool  `json:"set"`
		Max     int   `json:"max"`
		Timeout int64 `json:"timeout"`
	} `json:"retry"`
	Backoff struct {
		Set     bool  `json:"set"`
		Initial int64 `json:"initial"`
		Max     int64 `json:"max"`
		Reset   int64 `json:"reset"`
	} `json:"backoff"`
}

type spawnCase struct {
	Sup  supCfg `json:"sup"`
	Pass struct {
		Kind string `json:"kind"`
		Ms   int64  `json:"ms"`
		N    int    `json:"n"`
	} `json:"pass"`
	Reent struct {
		Set  bool   `json:"set"`
		Mode string `json:"mode"`
		Max  int    `json:"max"`
	} `json:"reent"`
	Stash bool `json:"stash"`
	Role  struct {
		Set bool   `json:"set"`
		V   string `json:"v"`
	} `json:"role"`
	Deps        []string `json:"deps"`
	InitTimeout int64    `json:"initTimeout"`
	Relocatable bool     `json:"relocatable"`
}

// ---- the actor, its dependencies and the user error types ------------------------------------

type probeActor struct{}

func (*probeActor) PreStart(*actor.Context) error { return nil }
func (*probeActor) Receive(*actor.ReceiveContext) {}
func (*probeActor) PostStop(*actor.Context) error { return nil }

type probeDep struct {
	Id      string
	Payload string
}

func (d *probeDep) ID() string                     { return d.Id }
func (d *probeDep) MarshalBinary() ([]byte, error) { return []byte(d.Id + "=" + d.Payload), nil }
func (d *probeDep) UnmarshalBinary(b []byte) error {
	for i := range b {
		if b[i] == '=' {
			d.Id, d.Payload = string(b[:i]), string(b[i+1:])
			return nil
		}
	}
	return fmt.Errorf("probeDep: malformed %q", b)
}

type errA struct{}

func (*errA) Error() string { return "errA" }

type errB struct{}

func (*errB) Error() string { return "errB" }

var errorValues = map[string]error{
	"ErrA":          &errA{},
	"ErrB":          &errB{},
	"PanicError":    &gerrors.PanicError{},
	"PanicNilError": &runtime.PanicNilError{},
	"AnyError":      new(gerrors.AnyError),
}

// real error-type strings (supervisor.errorType) -> model names
var errorNames = map[string]string{
	"main.errA":             "ErrA",
	"main.errB":             "ErrB",
	"errors.PanicError":     "PanicError",
	"runtime.PanicNilError": "PanicNilError",
	"errors.AnyError":       "AnyError",
}

var directives = map[string]supervisor.Directive{
	"Stop": supervisor.StopDirective, "Resume": supervisor.ResumeDirective,
	"Restart": supervisor.RestartDirective, "Escalate": supervisor.EscalateDirective,
}

var modes = map[string]reentrancy.Mode{"Off": reentrancy.Off, "AllowAll": reentrancy.AllowAll, "StashNonReentrant": reentrancy.StashNonReentrant}
var modeNames = map[int]string{int(reentrancy.Off): "Off", int(reentrancy.AllowAll): "AllowAll", int(reentrancy.StashNonReentrant): "StashNonReentrant"}

func msd(v int64) time.Duration { return time.Duration(v) * time.Millisecond }

// ms converts a real duration to the model's unit; -1ns is the supervisor's sentinel.
func ms(d int64) int64 {
	if d == -1 {
		return -1
	}
	if d%int64(time.Millisecond) != 0 {
		fatal(fmt.Errorf("duration %dns is not a whole number of milliseconds", d))
	}
	return d / int64(time.Millisecond)
}

func buildOptions(c *spawnCase) []actor.SpawnOption {
	var opts []actor.SpawnOption
	if c.Sup.Set {
		strategy := supervisor.OneForOneStrategy
		if c.Sup.Strategy == "OneForAll" {
			strategy = supervisor.OneForAllStrategy
		}
		so := []supervisor.SupervisorOption{supervisor.WithStrategy(strategy)}
		switch c.Sup.Rules.Kind {
		case "any":
			so = append(so, supervisor.WithAnyErrorDirective(directives[c.Sup.Rules.D]))
		case "typed":
			for _, r := range c.Sup.Rules.M {
				ev, ok := errorValues[r[0]]
				if !ok {
					fatal(fmt.Errorf("unknown error type %q", r[0]))
				}
				so = append(so, supervisor.WithDirective(ev, directives[r[1]]))
			}
		}
		if c.Sup.Retry.Set {
			so = append(so, supervisor.WithRetry(uint32(c.Sup.Retry.Max), msd(c.Sup.Retry.Timeout)))
		}
		if c.Sup.Backoff.Set {
			so = append(so, supervisor.WithExponentialBackoff(msd(c.Sup.Backoff.Initial), msd(c.Sup.Backoff.Max), msd(c.Sup.Backoff.Reset)))
		}
		opts = append(opts, actor.WithSupervisor(supervisor.NewSupervisor(so...)))
	}
	switch c.Pass.Kind {
	case "TimeBased":
		opts = append(opts, actor.WithPassivationStrategy(passivation.NewTimeBasedStrategy(msd(c.Pass.Ms))))
	case "MessagesCountBased":
		opts = append(opts, actor.WithPassivationStrategy(passivation.NewMessageCountBasedStrategy(c.Pass.N)))
	case "LongLived":
		opts = append(opts, actor.WithPassivationStrategy(passivation.NewLongLivedStrategy()))
	}
	if c.Reent.Set {
		opts = append(opts, actor.WithReentrancy(reentrancy.New(reentrancy.WithMode(modes[c.Reent.Mode]), reentrancy.WithMaxInFlight(c.Reent.Max))))
	}
	if c.Stash {
		opts = append(opts, actor.WithStashing())
	}
	if c.Role.Set {
		opts = append(opts, actor.WithRole(c.Role.V))
	}
	if len(c.Deps) > 0 {
		deps := make([]extension.Dependency, 0, len(c.Deps))
		for _, id := range c.Deps {
			deps = append(deps, &probeDep{Id: id, Payload: "payload-of-" + id})
		}
		opts = append(opts, actor.WithDependencies(deps...))
	}
	if c.InitTimeout > 0 {
		opts = append(opts, actor.WithInitTimeout(msd(c.InitTimeout)))
	}
	if !c.Relocatable {
		opts = append(opts, actor.WithRelocationDisabled())
	}
	return opts
}

func ruleName(t string) string {
	if n, ok := errorNames[t]; ok {
		return n
	}
	return t
}

func directiveName(d supervisor.Directive) string { return d.String() }

// observe renders what a PID runs with in the vocabulary of SpawnConfig.tla.
func observe(pid *actor.PID) map[string]any {
	o, err := actor.VerifObserveSpawn(pid)
	if err != nil {
		fatal(err)
	}
	rules := [][]string{}
	for _, r := range o.Rules {
		rules = append(rules, []string{ruleName(r.ErrorType), directiveName(r.Directive)})
	}
	sup := map[string]any{"set": o.HasSupervisor, "strategy": o.Strategy, "maxRetries": o.MaxRetries, "timeout": ms(o.RetryTimeout),
		"initial": ms(o.InitialDelay), "maxDelay": ms(o.MaxDelay), "reset": ms(o.ResetAfter), "rules": rules}
	kind := o.Passivation
	if kind == "" {
		kind = "none"
	}
	ids := []string{}
	for id := range o.Dependencies {
		ids = append(ids, id)
	}
	sort.Strings(ids)
	payloads := [][]string{}
	for _, id := range ids {
		payloads = append(payloads, []string{id, string(o.Dependencies[id])})
	}
	role := "none"
	if o.HasRole {
		role = o.Role
	}
	mode, ok := modeNames[o.Mode]
	if !ok {
		mode = fmt.Sprint(o.Mode)
	}
	init := int64(0)
	if o.HasInitTimeout {
		init = ms(o.InitTimeout)
	}
	return map[string]any{
		"sup":   sup,
		"pass":  map[string]any{"kind": kind, "ms": ms(o.PassivateAfter), "n": o.MaxMessages},
		"reent": map[string]any{"set": o.HasReentrancy, "mode": mode, "max": o.MaxInFlight},
		"stash": o.Stash, "role": role, "deps": ids, "depsPayload": payloads,
		"initTimeout": init, "effInit": ms(o.EffInitTimeout), "relocatable": o.Relocatable, "msgCountFast": o.MsgCountFastPath,
	}
}

var strategyNames = map[internalpb.SupervisorStrategy]string{
	internalpb.SupervisorStrategy_SUPERVISOR_STRATEGY_ONE_FOR_ONE: "OneForOne",
	internalpb.SupervisorStrategy_SUPERVISOR_STRATEGY_ONE_FOR_ALL: "OneForAll",
}
var wireDirectives = map[internalpb.SupervisorDirective]string{
	internalpb.SupervisorDirective_SUPERVISOR_DIRECTIVE_STOP:     "Stop",
	internalpb.SupervisorDirective_SUPERVISOR_DIRECTIVE_RESUME:   "Resume",
	internalpb.SupervisorDirective_SUPERVISOR_DIRECTIVE_RESTART:  "Restart",
	internalpb.SupervisorDirective_SUPERVISOR_DIRECTIVE_ESCALATE: "Escalate",
}
var wireModes = map[internalpb.ReentrancyMode]string{
	internalpb.ReentrancyMode_REENTRANCY_MODE_OFF:                 "Off",
	internalpb.ReentrancyMode_REENTRANCY_MODE_ALLOW_ALL:           "AllowAll",
	internalpb.ReentrancyMode_REENTRANCY_MODE_STASH_NON_REENTRANT: "StashNonReentrant",
}

// wireView projects the decoded internalpb.Actor record (after a real Marshal/Unmarshal).
func wireView(a *internalpb.Actor) map[string]any {
	pass := map[string]any{"kind": "none", "ms": int64(0), "n": int64(0)}
	if p := a.GetPassivationStrategy(); p != nil {
		switch s := p.GetStrategy().(type) {
		case *internalpb.PassivationStrategy_TimeBased:
			pass = map[string]any{"kind": "TimeBased", "ms": ms(int64(s.TimeBased.GetPassivateAfter().AsDuration())), "n": int64(0)}
		case *internalpb.PassivationStrategy_MessagesCountBased:
			pass = map[string]any{"kind": "MessagesCountBased", "ms": int64(0), "n": s.MessagesCountBased.GetMaxMessages()}
		case *internalpb.PassivationStrategy_LongLived:
			pass = map[string]any{"kind": "LongLived", "ms": int64(0), "n": int64(0)}
		}
	}
	sup := map[string]any{"set": false, "strategy": "", "max_retries": 0, "timeout": int64(0), "timeoutSet": false, "any": "none", "directives": [][]string{}}
	if s := a.GetSupervisor(); s != nil {
		dirs := [][]string{}
		for _, r := range s.GetDirectives() {
			dirs = append(dirs, []string{ruleName(r.GetErrorType()), wireDirectives[r.GetDirective()]})
		}
		anyd := "none"
		if s.AnyErrorDirective != nil {
			anyd = wireDirectives[s.GetAnyErrorDirective()]
		}
		t := int64(0)
		if s.GetTimeout() != nil {
			t = ms(int64(s.GetTimeout().AsDuration()))
		}
		sup = map[string]any{"set": true, "strategy": strategyNames[s.GetStrategy()], "max_retries": s.GetMaxRetries(),
			"timeout": t, "timeoutSet": s.GetTimeout() != nil, "any": anyd, "directives": dirs}
	}
	reent := map[string]any{"set": false, "mode": "Off", "max_in_flight": 0}
	if r := a.GetReentrancy(); r != nil {
		reent = map[string]any{"set": true, "mode": wireModes[r.GetMode()], "max_in_flight": r.GetMaxInFlight()}
	}
	ids := []string{}
	for _, d := range a.GetDependencies() {
		ids = append(ids, d.GetId())
	}
	sort.Strings(ids)
	init := int64(0)
	if a.GetInitTimeout() != nil {
		init = ms(int64(a.GetInitTimeout().AsDuration()))
	}
	return map[string]any{"relocatable": a.GetRelocatable(), "pass": pass, "deps": ids, "enable_stash": a.GetEnableStash(),
		"role": a.GetRole(), "supervisor": sup, "reentrancy": reent, "init_timeout": init, "bytes": proto.Size(a)}
}

// twice runs a wire path and repeats it once (fresh actor name) when it fails, so that only a
// failure that reproduces is recorded as the path's error.
func twice(path func(attempt int) error) error {
	err := path(0)
	if err != nil {
		time.Sleep(50 * time.Millisecond)
		err = path(1)
	}
	return err
}

func freePort() int {
	l, err := net.Listen("tcp", "127.0.0.1:0")
	if err != nil {
		fatal(err)
	}
	defer l.Close()
	return l.Addr().(*net.TCPAddr).Port
}

func newSystem(ctx context.Context, name string, port int) actor.ActorSystem {
	sys, err := actor.NewActorSystem(name, actor.WithLogger(log.DiscardLogger), actor.WithRemote(remote.NewConfig("127.0.0.1", port)))
	if err != nil {
		fatal(err)
	}
	if err := sys.Start(ctx); err != nil {
		fatal(err)
	}
	return sys
}

func runSpawn(casesPath, tracePath string) {
	cases, err := vtrace.ReadLines[spawnCase](casesPath)
	if err != nil {
		fatal(err)
	}
	rawCases, err := vtrace.ReadLines[map[string]any](casesPath)
	if err != nil {
		fatal(err)
	}
	w, err := vtrace.Create(tracePath)
	if err != nil {
		fatal(err)
	}
	ctx := context.Background()
	portA, portB := freePort(), freePort()
	sysA := newSystem(ctx, "verifA", portA)
	sysB := newSystem(ctx, "verifB", portB)
	// the hosting node knows the actor type and the dependency type (WithTypes / Inject in an application)
	if err := sysB.Register(ctx, &probeActor{}); err != nil {
		fatal(err)
	}
	if err := sysB.Inject(&probeDep{}); err != nil {
		fatal(err)
	}

	// a parent on the hosting node, reachable from A as a remote PID and from B as a local PID
	parentRemote, err := sysA.Spawn(ctx, "parent", &probeActor{}, actor.WithLongLived(), actor.WithHostAndPort("127.0.0.1", portB))
	if err != nil {
		fatal(fmt.Errorf("remote parent: %w", err))
	}
	parentLocal, err := sysB.ActorOf(ctx, "parent")
	if err != nil || !parentLocal.IsLocal() || !parentRemote.IsRemote() {
		fatal(fmt.Errorf("parent lookup on the hosting node: %v", err))
	}

	var nReloc, nRemote, nChild, nErr int
	stop := func(pids ...*actor.PID) {
		for _, p := range pids {
			if p != nil {
				_ = p.Shutdown(ctx)
			}
		}
	}
	for i := range cases {
		c := &cases[i]
		local, err := sysA.Spawn(ctx, fmt.Sprintf("l%d", i), &probeActor{}, buildOptions(c)...)
		if err != nil {
			fatal(fmt.Errorf("case %d: local spawn: %w", i, err))
		}
		obsLocal := observe(local)

		if c.Relocatable {
			line := map[string]any{"path": "relocate", "cfg": rawCases[i], "local": obsLocal, "err": ""}
			var copyPID *actor.PID
			err := twice(func(attempt int) error {
				record, err := actor.VerifToSerialize(local)
				if err != nil {
					return err
				}
				bytea, err := proto.Marshal(record)
				if err != nil {
					return err
				}
				props := new(internalpb.Actor)
				if err := proto.Unmarshal(bytea, props); err != nil {
					return err
				}
				line["wire"] = wireView(props)
				opts, err := actor.VerifWireSpawnOptions(sysB, props)
				if err != nil {
					return err
				}
				copyPID, err = sysB.Spawn(ctx, fmt.Sprintf("r%d-%d", i, attempt), &probeActor{}, opts...)
				return err
			})
			if err != nil {
				line["err"] = err.Error()
				line["copy"] = obsLocal // placeholder, ignored when err is set
				if _, ok := line["wire"]; !ok {
					line["wire"] = map[string]any{}
				}
				nErr++
			} else {
				line["copy"] = observe(copyPID)
			}
			w.Raw(line)
			stop(copyPID)
			nReloc++
		}

		{
			line := map[string]any{"path": "remote", "cfg": rawCases[i], "local": obsLocal, "err": "", "wire": map[string]any{}}
			var copyPID *actor.PID
			err := twice(func(attempt int) error {
				name := fmt.Sprintf("m%d-%d", i, attempt)
				_, err := sysA.Spawn(ctx, name, &probeActor{}, append(buildOptions(c), actor.WithHostAndPort("127.0.0.1", portB))...)
				if err == nil {
					copyPID, err = sysB.ActorOf(ctx, name)
				}
				if err == nil && !copyPID.IsLocal() {
					err = fmt.Errorf("remote spawn: %s is not local to the hosting node", name)
				}
				return err
			})
			if err != nil {
				line["err"] = err.Error()
				line["copy"] = obsLocal
				nErr++
			} else {
				line["copy"] = observe(copyPID)
			}
			w.Raw(line)
			stop(copyPID)
			nRemote++
		}
		stop(local)

		{
			// remote child spawn: remotePID.SpawnChild -> RemoteSpawnChild -> remoteSpawnChildHandler -> parent.SpawnChild,
			// compared with a child spawned by the same parent locally with the same options
			line := map[string]any{"path": "child", "cfg": rawCases[i], "err": "", "wire": map[string]any{}}
			localChild, err := parentLocal.SpawnChild(ctx, fmt.Sprintf("lc%d", i), &probeActor{}, buildOptions(c)...)
			if err != nil {
				fatal(fmt.Errorf("case %d: local child spawn: %w", i, err))
			}
			obsChild := observe(localChild)
			line["local"] = obsChild
			var copyPID *actor.PID
			err = twice(func(attempt int) error {
				name := fmt.Sprintf("mc%d-%d", i, attempt)
				_, err := parentRemote.SpawnChild(ctx, name, &probeActor{}, buildOptions(c)...)
				if err == nil {
					copyPID, err = sysB.ActorOf(ctx, name)
				}
				if err == nil && !copyPID.IsLocal() {
					err = fmt.Errorf("remote child spawn: %s is not local to the hosting node", name)
				}
				return err
			})
			if err != nil {
				line["err"] = err.Error()
				line["copy"] = obsChild
				nErr++
			} else {
				line["copy"] = observe(copyPID)
			}
			w.Raw(line)
			stop(copyPID, localChild)
			nChild++
		}
	}
	_ = sysA.Stop(ctx)
	_ = sysB.Stop(ctx)
	n := w.Count()
	if err := w.Close(); err != nil {
		fatal(err)
	}
	fmt.Printf("{\"cases\":%d,\"events\":%d,\"relocate\":%d,\"remote\":%d,\"child\":%d,\"errors\":%d}\n", len(cases), n, nReloc, nRemote, nChild, nErr)
}
