// Command addrcodec executes TLC-enumerated cases on the real goakt code and records
// NDJSON traces for the Trace_*.tla specifications of the "addrcodec" group.
//
//	addrcodec addr  <cases.ndjson> <trace.ndjson>    C26: internal/address String/Parse/HostPortOf
//	addrcodec spawn <cases.ndjson> <trace.ndjson>    C37: spawn configuration over the wire
package main

import (
	"fmt"
	"os"
)

func main() {
	if len(os.Args) != 4 {
		fmt.Fprintln(os.Stderr, "usage: addrcodec addr|spawn <cases> <trace>")
		os.Exit(2)
	}
	switch os.Args[1] {
	case "addr":
		runAddr(os.Args[2], os.Args[3])
	case "spawn":
		runSpawn(os.Args[2], os.Args[3])
	default:
		fmt.Fprintln(os.Stderr, "unknown mode", os.Args[1])
		os.Exit(2)
	}
}
