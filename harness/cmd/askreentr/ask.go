package main

// C15: puppet replay / random exploration of the Ask paths on a real actor system.
//
// Logical threads: askers a1.. (each runs a sequence of real Ask calls) and one
// responder thread per Response call (the handler of the target actor hands its
// *ReceiveContext to the driver and blocks until the driver lets it return; the
// driver calls the real ReceiveContext.Response from a logical thread meanwhile).
// Gates: ask.build, ask.getchan, ask.enq, ask.select, ask.woke, pool.chan.drain,
// pool.chan.put, resp.send (verifhook lines in goakt) and the driver's own
// call / ret yields.

import (
	"context"
	"errors"
	"fmt"
	"math/rand"
	"strconv"
	"sync"
	"sync/atomic"
	"time"

	"github.com/tochemey/goakt/v4/actor"
	gerrors "github.com/tochemey/goakt/v4/errors"
	"github.com/tochemey/goakt/v4/verifharness/sched"
	"github.com/tochemey/goakt/v4/verifharness/vtrace"
)

type Msg struct{ ID int }
type Reply struct{ ID int }

type delivery struct {
	rctx    *actor.ReceiveContext
	id      int
	release chan struct{}
}

// askTarget is the actor under test: every *Msg is handed to the driver.
type askTarget struct {
	enter chan *delivery
	free  *atomic.Bool
}

func (t *askTarget) PreStart(*actor.Context) error { return nil }
func (t *askTarget) PostStop(*actor.Context) error { return nil }
func (t *askTarget) Receive(ctx *actor.ReceiveContext) {
	m, ok := ctx.Message().(*Msg)
	if !ok {
		return
	}
	if t.free.Load() {
		return // winding down: no reply, no hand-over
	}
	d := &delivery{rctx: ctx, id: m.ID, release: make(chan struct{})}
	t.enter <- d
	<-d.release
}

// plain actor used as the calling PID of PID.Ask / SendSync
type idleActor struct{}

func (idleActor) PreStart(*actor.Context) error { return nil }
func (idleActor) PostStop(*actor.Context) error { return nil }
func (idleActor) Receive(*actor.ReceiveContext) {}

type askStep struct {
	A string `json:"a"`
	T string `json:"t"`
}

type askBehaviour struct {
	Steps   []askStep      `json:"steps"`
	NAsks   map[string]int `json:"nasks"`
	Rank    map[string]int `json:"rank"`
	Variant int            `json:"variant"` // 0 package-level Ask, 1 PID.Ask, 2 PID.SendSync
}

type askStats struct {
	Behaviours int            `json:"behaviours"`
	Steps      int            `json:"steps"`
	Drift      int            `json:"drift"`
	Watchdog   int            `json:"watchdog"`
	Events     int64          `json:"events"`
	DriftAt    map[string]int `json:"drift_at"`
	Foreign    int            `json:"foreign_pool_objects"`
}

// what the driver expects a thread to be parked at before a model action
var askPoint = map[string]string{"GetCtx": "call", "Build": "ask.build", "GetChan": "ask.getchan", "Enq": "ask.enq", "Select": "ask.select",
	"WokeR": "ask.woke", "WokeC": "ask.woke", "Drain": "pool.chan.drain", "Put": "pool.chan.put", "Ret": "ret"}

type asker struct {
	name    string
	mu      sync.Mutex
	cancel  context.CancelFunc
	curID   int
	rc      *actor.ReceiveContext // context of the running Ask (from the ask.build hook)
	blocked bool                  // released into the select, not parked
	ch      chan any              // reply channel of the running Ask, known from ask.enq on
	chID    int                   // ask id ch belongs to
	fired   map[int]bool
}

type session struct {
	sys     actor.ActorSystem
	caller  *actor.PID
	dl      *actor.PID
	w       *vtrace.Writer
	st      *askStats
	s       *sched.Sched
	pid     *actor.PID
	tname   string
	enter   chan *delivery
	free    atomic.Bool
	askers  map[string]*asker
	order   []string
	cur     *delivery
	nresp   int    // Response calls made for cur
	resp    string // responder thread parked at resp.send ("" none)
	nrt     int
	nenq    int
	nent    int
	ntell   int
	variant int
	// object naming (allocation order, as in AskPool.tla)
	cname      map[*actor.ReceiveContext]int
	nctx       int
	hname      map[chan any]int
	nch        int
	drift      string
	activeResp atomic.Int32
}

func (x *session) wd() time.Duration { return 10 * time.Second * slow }

func (x *session) nameCtx(p *actor.ReceiveContext, assign bool) int {
	if p == nil {
		return 0
	}
	if n, ok := x.cname[p]; ok {
		return n
	}
	if !assign {
		return -1
	}
	x.nctx++
	x.cname[p] = x.nctx
	return x.nctx
}

func (x *session) nameCh(c chan any, assign bool) int {
	if c == nil {
		return 0
	}
	if n, ok := x.hname[c]; ok {
		return n
	}
	if !assign {
		return -1
	}
	x.nch++
	x.hname[c] = x.nch
	return x.nch
}

func waitFor(d time.Duration, cond func() bool) bool {
	deadline := time.Now().Add(d)
	for {
		if cond() {
			return true
		}
		if time.Now().After(deadline) {
			return false
		}
		time.Sleep(50 * time.Microsecond)
	}
}

func newSession(sys actor.ActorSystem, caller *actor.PID, w *vtrace.Writer, st *askStats, idx int, variant int) *session {
	ctx := context.Background()
	x := &session{sys: sys, caller: caller, w: w, st: st, askers: map[string]*asker{}, variant: variant,
		cname: map[*actor.ReceiveContext]int{}, hname: map[chan any]int{}, enter: make(chan *delivery, 64)}
	x.dl = actor.VerifDeadletterPID(sys)
	x.tname = "tgt" + strconv.Itoa(idx)
	pid, err := sys.Spawn(ctx, x.tname, &askTarget{enter: x.enter, free: &x.free}, actor.WithLongLived())
	if err != nil {
		fatal("spawn", err)
	}
	x.pid = pid
	if !waitFor(x.wd(), func() bool { return actor.VerifIdleOf(pid) && actor.VerifIdleOf(x.dl) && actor.VerifIdleOf(caller) }) {
		fatal("system did not become idle after spawn")
	}
	time.Sleep(200 * time.Microsecond)
	actor.VerifDrainPools()
	sent, _, ok := actor.VerifMailboxContexts(pid, false)
	if !ok {
		fatal("target mailbox is not the default mailbox")
	}
	x.nameCtx(sent, true) // 1
	dsent, _, _ := actor.VerifMailboxContexts(x.dl, true)
	x.nameCtx(dsent, true) // 2
	s := sched.New()
	s.Watchdog = x.wd()
	s.ControlAll()
	s.OnlyPoints("ask.build", "ask.getchan", "ask.enq", "ask.select", "ask.woke", "pool.chan.drain", "pool.chan.put", "resp.send")
	s.Obs = func(thread, point string, obj any, a, b int64) {
		if point == "ask.build" || point == "ask.enq" {
			if k, ok := x.askers[thread]; ok {
				rc, _ := obj.(*actor.ReceiveContext)
				k.mu.Lock()
				k.rc = rc
				if point == "ask.enq" && rc != nil {
					// the reply channel of the running Ask (the context object may be recycled later)
					k.ch, k.chID = actor.VerifResponseChannel(rc), k.curID
				}
				k.mu.Unlock()
			}
		}
	}
	x.s = s
	return x
}

// emitNew starts a history in the trace; it logs the responseClosed flags the two pre-existing sentinels carry.
func (x *session) emitNew() {
	closed := make([]int, x.nctx)
	for p, n := range x.cname {
		if actor.VerifResponseClosed(p) {
			closed[n-1] = 1
		}
	}
	x.w.Emit(map[string]any{"ev": "New", "t": "", "id": x.variant, "res": 0, "err": 0, "closed": closed})
}

func errClass(err error) int {
	switch {
	case err == nil:
		return 0
	case errors.Is(err, gerrors.ErrRequestTimeout):
		return 1
	default:
		return 2
	}
}

func (x *session) doAsk(cctx context.Context, id int) (any, error) {
	const far = time.Hour
	switch x.variant {
	case 1:
		return x.caller.Ask(cctx, x.pid, &Msg{ID: id}, far)
	case 2:
		return x.caller.SendSync(cctx, x.tname, &Msg{ID: id}, far)
	default:
		return actor.Ask(cctx, x.pid, &Msg{ID: id}, far)
	}
}

func (x *session) startAsker(name string, rank, n int) {
	k := &asker{name: name, fired: map[int]bool{}}
	x.askers[name] = k
	x.order = append(x.order, name)
	_, err := x.s.Go(name, func() {
		for j := 1; j <= n; j++ {
			id := rank*10 + j
			cctx, cancel := context.WithCancel(context.Background())
			k.mu.Lock()
			k.cancel, k.curID, k.rc = cancel, id, nil
			k.mu.Unlock()
			x.s.Yield("call", int64(id), 0)
			x.w.Emit(map[string]any{"ev": "call", "t": name, "id": id, "res": 0, "err": 0})
			reply, err := x.doAsk(cctx, id)
			res := 0
			if r, ok := reply.(*Reply); ok && r != nil {
				res = r.ID
			} else if reply != nil {
				res = -2 // something that is not a reply of the test actor
			}
			x.w.Emit(map[string]any{"ev": "ret", "t": name, "id": id, "res": res, "err": errClass(err)})
			cancel()
			x.s.Yield("ret", int64(id), 0)
		}
	})
	if err != nil {
		fatal("start asker", err)
	}
}

func (x *session) setDrift(format string, a ...any) {
	if x.drift == "" {
		x.drift = fmt.Sprintf(format, a...)
		dbg("drift: %s", x.drift)
	}
}

// settle: the target is an eager consumer; wait until it has entered the handler for the next
// message (if one is queued) or has gone idle.
func (x *session) settle() {
	if x.cur == nil && x.nent < x.nenq {
		select {
		case d := <-x.enter:
			x.cur, x.nresp = d, 0
			x.nent++
		case <-time.After(x.wd()):
			x.st.Watchdog++
			x.setDrift("no-handler-entry")
		}
		return
	}
	if x.cur == nil {
		if !waitFor(x.wd(), func() bool { return actor.VerifIdleOf(x.pid) }) {
			x.st.Watchdog++
			x.setDrift("target-not-idle")
		}
	}
}

func (x *session) chanOf(k *asker) chan any {
	k.mu.Lock()
	rc := k.rc
	k.mu.Unlock()
	if rc == nil {
		return nil
	}
	return actor.VerifResponseChannel(rc)
}

// stepAsker performs the step the asker is parked in front of.
func (x *session) stepAsker(name string) bool {
	k := x.askers[name]
	pend, parked := x.s.Pending(name)
	if !parked || pend.Done {
		x.setDrift("%s:not-parked", name)
		return false
	}
	fail := func(err error) bool {
		if _, ok := err.(sched.ErrWatchdog); ok {
			x.st.Watchdog++
		}
		x.setDrift("%s:%s:step-failed:%v", name, pend.Point, err)
		return false
	}
	switch pend.Point {
	case "ask.select":
		// the reply channel was captured by the Ask before enqueueing; the context may have moved on since,
		// so the channel is remembered at ask.enq time
		if len(k.chanAtEnq()) > 0 {
			if _, err := x.s.Step(name); err != nil {
				return fail(err)
			}
		} else {
			if err := x.s.Release(name); err != nil {
				return fail(err)
			}
			k.mu.Lock()
			k.blocked = true
			k.mu.Unlock()
		}
	case "ask.enq":
		if _, err := x.s.Step(name); err != nil {
			return fail(err)
		}
		x.nenq++
		x.settle()
	case "ask.woke":
		var before *actor.ReceiveContext
		if pend.A != 1 {
			before, _, _ = actor.VerifMailboxContexts(x.dl, true)
		}
		if _, err := x.s.Step(name); err != nil {
			return fail(err)
		}
		if pend.A != 1 { // error branch: a dead letter was sent; wait until the dead-letter actor has consumed it
			if !waitFor(x.wd(), func() bool {
				s, _, _ := actor.VerifMailboxContexts(x.dl, true)
				return s != before && actor.VerifIdleOf(x.dl)
			}) {
				x.setDrift("%s:dead-letter-not-consumed", name)
			} else {
				s, _, _ := actor.VerifMailboxContexts(x.dl, true)
				x.nameCtx(s, true)
			}
		}
	default:
		if _, err := x.s.Step(name); err != nil {
			return fail(err)
		}
		if pend.Point == "call" {
			k.mu.Lock()
			rc := k.rc
			k.mu.Unlock()
			x.nameCtx(rc, true)
		}
		if pend.Point == "ask.getchan" {
			x.nameCh(x.chanOf(k), true)
		}
	}
	x.st.Steps++
	return true
}

func (k *asker) chanAtEnq() chan any {
	k.mu.Lock()
	defer k.mu.Unlock()
	if k.chID != k.curID {
		return nil
	}
	return k.ch
}

func (x *session) deadline(name string) bool {
	k := x.askers[name]
	k.mu.Lock()
	blocked, cancel, id := k.blocked, k.cancel, k.curID
	k.mu.Unlock()
	if !blocked {
		x.setDrift("%s:deadline-but-not-blocked", name)
		return false
	}
	k.mu.Lock()
	k.fired[id] = true
	k.mu.Unlock()
	x.w.Emit(map[string]any{"ev": "deadline", "t": name, "id": id, "res": 0, "err": 0})
	cancel()
	p, err := x.s.Await(name)
	if err != nil {
		x.st.Watchdog++
		x.setDrift("%s:deadline-no-wake", name)
		return false
	}
	k.mu.Lock()
	k.blocked = false
	k.mu.Unlock()
	if p.Point != "ask.woke" || p.A != 2 {
		x.setDrift("%s:deadline-woke-at:%s", name, p.String())
		return false
	}
	x.st.Steps++
	return true
}

func (x *session) respCall() bool {
	if x.cur == nil || x.resp != "" {
		x.setDrift("RespCall:no-handler")
		return false
	}
	x.nrt++
	x.nresp++
	name := "r" + strconv.Itoa(x.nrt)
	d := x.cur
	x.activeResp.Add(1)
	p, err := x.s.Go(name, func() {
		defer x.activeResp.Add(-1)
		d.rctx.Response(&Reply{ID: d.id})
		x.w.Emit(map[string]any{"ev": "resp", "t": name, "id": d.id, "res": 0, "err": 0})
	})
	if err != nil {
		x.st.Watchdog++
		x.setDrift("RespCall:%v", err)
		return false
	}
	if !p.Done {
		if p.Point != "resp.send" {
			x.setDrift("RespCall:parked-at:%s", p.Point)
			return false
		}
		x.resp = name
	}
	x.st.Steps++
	return true
}

func (x *session) respSend() bool {
	if x.resp == "" || x.cur == nil {
		x.setDrift("RespSend:no-responder")
		return false
	}
	ch := actor.VerifResponseChannel(x.cur.rctx)
	p, err := x.s.Step(x.resp)
	if err != nil || !p.Done {
		x.st.Watchdog++
		x.setDrift("RespSend:%v:%s", err, p.String())
		return false
	}
	x.resp = ""
	// a caller blocked on that channel wakes up
	for _, n := range x.order {
		k := x.askers[n]
		k.mu.Lock()
		blocked := k.blocked
		k.mu.Unlock()
		if blocked && k.chanAtEnq() == ch {
			p, err := x.s.Await(n)
			if err != nil {
				x.st.Watchdog++
				x.setDrift("%s:not-woken-by-reply", n)
				return false
			}
			k.mu.Lock()
			k.blocked = false
			k.mu.Unlock()
			if p.Point != "ask.woke" || p.A != 1 {
				x.setDrift("%s:woken-at:%s", n, p.String())
				return false
			}
		}
	}
	x.st.Steps++
	return true
}

func (x *session) finish() bool {
	if x.cur == nil || x.resp != "" {
		x.setDrift("Finish:no-handler")
		return false
	}
	close(x.cur.release)
	x.cur = nil
	x.settle()
	x.st.Steps++
	return true
}

func (x *session) tell(id int) bool {
	if err := actor.Tell(context.Background(), x.pid, &Msg{ID: id}); err != nil {
		x.setDrift("Tell:%v", err)
		return false
	}
	x.nenq++
	wasIdle := x.cur == nil
	x.settle()
	// name the context the Tell used
	if wasIdle && x.cur != nil {
		x.nameCtx(x.cur.rctx, true)
	} else {
		_, linked, _ := actor.VerifMailboxContexts(x.pid, false)
		if len(linked) > 0 {
			x.nameCtx(linked[len(linked)-1], true)
		}
	}
	x.st.Steps++
	return true
}

// project writes the conformance line: the real pooled-object state after a step.
func (x *session) project(a, t string) {
	ctxs, chans := actor.VerifPoolSnapshot()
	cp := make([]int, len(ctxs))
	for i, c := range ctxs {
		cp[i] = x.nameCtx(c, false)
		if cp[i] < 0 {
			x.st.Foreign++
		}
	}
	hp := make([]int, len(chans))
	for i, c := range chans {
		hp[i] = x.nameCh(c, false)
	}
	closed := make([]int, x.nctx)
	for p, n := range x.cname {
		if actor.VerifResponseClosed(p) {
			closed[n-1] = 1
		}
	}
	clen := make([]int, x.nch)
	for c, n := range x.hname {
		clen[n-1] = len(c)
	}
	sent, linked, _ := actor.VerifMailboxContexts(x.pid, false)
	mb := make([]int, len(linked))
	for i, c := range linked {
		mb[i] = x.nameCtx(c, false)
	}
	dsent, _, _ := actor.VerifMailboxContexts(x.dl, true)
	hid := 0
	if x.cur != nil {
		hid = x.cur.id
	}
	x.w.Emit(map[string]any{"ev": "step", "a": a, "t": t, "id": 0, "res": 0, "err": 0, "cpool": cp, "hpool": hp, "closed": closed, "clen": clen,
		"mbox": mb, "sent": x.nameCtx(sent, false), "dls": x.nameCtx(dsent, false), "hid": hid, "nctx": x.nctx, "nch": x.nch})
}

// windDown lets everything finish after the scripted part: handlers return without replying, pending
// responders complete, callers still waiting get their deadline (only once nothing can reply any more).
func (x *session) windDown() bool {
	x.free.Store(true)
	if x.cur != nil {
		close(x.cur.release)
		x.cur = nil
	}
	x.s.FreeRun()
	deadline := time.Now().Add(x.wd())
	for time.Now().Before(deadline) {
		select {
		case d := <-x.enter:
			close(d.release)
			continue
		default:
		}
		if actor.VerifIdleOf(x.pid) && len(x.enter) == 0 {
			break
		}
		time.Sleep(100 * time.Microsecond)
	}
	// responders are done once Join would succeed for them; askers may be blocked in select
	clean := true
	for round := 0; round < 2000; round++ {
		if x.s.Join(200 * time.Microsecond) {
			break
		}
		for _, n := range x.order {
			k := x.askers[n]
			k.mu.Lock()
			cancel, id, fired := k.cancel, k.curID, k.fired[k.curID]
			k.mu.Unlock()
			ch := k.chanAtEnq()
			// nothing will ever be sent any more (target idle and muted, no responder running): an empty
			// channel stays empty, so the caller can only be released by its deadline
			if cancel != nil && !fired && ch != nil && len(ch) == 0 && x.activeResp.Load() == 0 && actor.VerifIdleOf(x.pid) {
				k.mu.Lock()
				k.fired[id] = true
				k.mu.Unlock()
				x.w.Emit(map[string]any{"ev": "deadline", "t": n, "id": id, "res": 0, "err": 0})
				cancel()
			}
		}
		time.Sleep(time.Millisecond)
	}
	if !x.s.Join(x.wd()) {
		clean = false
	}
	return clean
}

func (x *session) close(clean bool) {
	ci := 0
	if clean {
		ci = 1
	}
	x.w.Emit(map[string]any{"ev": "End", "t": "", "id": ci, "res": 0, "err": 0})
	x.s.Close()
	_ = x.pid.Shutdown(context.Background())
	// the death watch removes the stopped actor asynchronously (Terminated messages use pooled contexts): wait for
	// it, so that this traffic cannot touch the pools of the next history
	waitFor(x.wd(), func() bool { return actor.VerifSystemActorsIdle(x.sys) })
	if x.drift != "" {
		x.st.Drift++
		if x.st.DriftAt == nil {
			x.st.DriftAt = map[string]int{}
		}
		x.st.DriftAt[x.drift]++
	}
	x.st.Behaviours++
}

func askReplay(bfile, tfile string) {
	behaviours, err := vtrace.ReadLines[askBehaviour](bfile)
	if err != nil {
		fatal(err)
	}
	w := mustTrace(tfile)
	sys := newSystem()
	caller, err := sys.Spawn(context.Background(), "caller", idleActor{}, actor.WithLongLived())
	if err != nil {
		fatal(err)
	}
	st := &askStats{}
	for bi, b := range behaviours {
		x := newSession(sys, caller, w, st, bi, b.Variant)
		x.emitNew()
		for name, n := range b.NAsks {
			x.startAsker(name, b.Rank[name], n)
		}
		for si, stp := range b.Steps {
			ok := true
			switch stp.A {
			case "Deadline":
				ok = x.deadline(stp.T)
			case "RespCall":
				ok = x.respCall()
			case "RespSend":
				ok = x.respSend()
			case "Finish":
				ok = x.finish()
			case "TellStep":
				ok = x.tell(90 + b.Rank[stp.T])
			default:
				want, known := askPoint[stp.A]
				if !known {
					fatal("unknown action", stp.A)
				}
				pend, parked := x.s.Pending(stp.T)
				if !parked || pend.Done || pend.Point != want || (stp.A == "WokeR" && pend.A != 1) || (stp.A == "WokeC" && pend.A == 1) {
					x.setDrift("%s:want=%s:at=%s:parked=%v", stp.A, want, pend.String(), parked)
					ok = false
				} else {
					ok = x.stepAsker(stp.T)
				}
			}
			if !ok || x.drift != "" {
				dbg("behaviour %d step %d (%s %s): %s", bi, si, stp.A, stp.T, x.drift)
				break
			}
			x.project(stp.A, stp.T)
		}
		x.close(x.windDown())
	}
	w.Emit(map[string]any{"ev": "New", "t": "", "id": 0, "res": 0, "err": 0, "closed": []int{0, 0}})
	st.Events = w.Count()
	w.Close()
	_ = sys.Stop(context.Background())
	printStats(st)
}

// askExplore: no model prescribes the order. A seeded scheduler with PCT-style priorities picks, at every
// step, one of the enabled moves of the real system: step a parked caller, fire the deadline of a blocked
// caller whose reply channel is empty, call Response / let a parked responder send / let the handler return,
// send a Tell. Mon_Ask.tla judges the recorded calls.
func askExplore(runs, naskers, nasks int, seed int64, tfile string) {
	w := mustTrace(tfile)
	sys := newSystem()
	caller, err := sys.Spawn(context.Background(), "caller", idleActor{}, actor.WithLongLived())
	if err != nil {
		fatal(err)
	}
	st := &askStats{}
	rng := rand.New(rand.NewSource(seed))
	for run := 0; run < runs; run++ {
		variant := rng.Intn(3)
		x := newSession(sys, caller, w, st, run, variant)
		x.emitNew()
		for i := 1; i <= naskers; i++ {
			x.startAsker("a"+strconv.Itoa(i), i, nasks)
		}
		prio := map[string]int{}
		moves := []string{"resp", "finish", "tell", "deadline"}
		for _, n := range x.order {
			prio[n] = rng.Intn(1000)
		}
		for _, m := range moves {
			prio[m] = rng.Intn(1000)
		}
		tells := rng.Intn(3)
		maxResp := 1 + rng.Intn(2)
		for step := 0; step < 400 && x.drift == ""; step++ {
			type cand struct {
				key string
				do  func() bool
			}
			var cands []cand
			for _, n := range x.order {
				n := n
				k := x.askers[n]
				k.mu.Lock()
				blocked := k.blocked
				k.mu.Unlock()
				if blocked {
					if len(k.chanAtEnq()) == 0 && x.resp == "" {
						cands = append(cands, cand{"deadline", func() bool { return x.deadline(n) }})
					}
					continue
				}
				if pend, parked := x.s.Pending(n); parked && !pend.Done {
					cands = append(cands, cand{n, func() bool { return x.stepAsker(n) }})
				}
			}
			if x.cur != nil {
				if x.resp != "" {
					cands = append(cands, cand{"resp", x.respSend})
				} else {
					if x.nresp < maxResp {
						cands = append(cands, cand{"resp", x.respCall})
					}
					cands = append(cands, cand{"finish", x.finish})
				}
			}
			if x.ntell < tells {
				cands = append(cands, cand{"tell", func() bool { x.ntell++; return x.tell(90 + x.ntell) }})
			}
			if len(cands) == 0 {
				break
			}
			if rng.Intn(6) == 0 {
				c := cands[rng.Intn(len(cands))]
				prio[c.key] = rng.Intn(1000)
			}
			best := cands[0]
			for _, c := range cands[1:] {
				if prio[c.key] > prio[best.key] {
					best = c
				}
			}
			best.do()
			// a thread that has just opened a window (CAS done, woke up, drained) is often left behind
			if rng.Intn(3) == 0 {
				prio[best.key] = -rng.Intn(1000)
			}
		}
		x.close(x.windDown())
	}
	w.Emit(map[string]any{"ev": "New", "t": "", "id": 0, "res": 0, "err": 0, "closed": []int{0, 0}})
	st.Events = w.Count()
	w.Close()
	_ = sys.Stop(context.Background())
	printStats(st)
}

// askLate is a fixed witness schedule (not a walk of AskPool.tla, whose Enq step is atomic): the caller is held
// inside doReceive right after its message has been linked into the target's mailbox (parked at the dispatch
// state's ds.ts.load gate), while a Tell from elsewhere schedules the target, which answers the Ask, returns and
// dequeues the Tell - thereby recycling the Ask's ReceiveContext - before the caller goes on. A caller that reads
// anything from its context after the enqueue (e.g. the reply channel) then waits on nothing (or on another
// Ask's channel) and loses the in-time reply. All three entry points are driven in turn.
func askLate(runs int, tfile string) {
	w := mustTrace(tfile)
	sys := newSystem()
	caller, err := sys.Spawn(context.Background(), "caller", idleActor{}, actor.WithLongLived())
	if err != nil {
		fatal(err)
	}
	st := &askStats{}
	for r := 0; r < runs; r++ {
		x := newSession(sys, caller, w, st, r, r%3)
		x.s.OnlyPoints("ds.ts.load")
		x.s.Watchdog = 3 * time.Second * slow
		x.emitNew()
		x.startAsker("a1", 1, 1)
		func() {
			for i := 0; i < 3; i++ { // getContext, responseClosed := false, getResponseChannel
				if !x.stepAsker("a1") {
					return
				}
			}
			if p, _ := x.s.Pending("a1"); p.Point != "ask.enq" {
				x.setDrift("late:not-at-ask.enq:%s", p.String())
				return
			}
			// the enqueue: the message is linked, the caller is held before TrySchedule
			p, err := x.s.Step("a1")
			if err != nil || p.Point != "ds.ts.load" {
				x.setDrift("late:not-held-after-enqueue:%s:%v", p.String(), err)
				return
			}
			x.nenq++
			// a Tell schedules the target: it takes the Ask, answers, returns and dequeues the Tell
			if !x.tell(91) || x.cur == nil || x.cur.id != 11 {
				x.setDrift("late:target-did-not-take-the-ask")
				return
			}
			if !x.respCall() || !x.respSend() || !x.finish() {
				return
			}
			if x.cur == nil || x.cur.id != 91 {
				x.setDrift("late:target-did-not-take-the-tell")
				return
			}
			// now the caller continues
			x.s.SkipPoints("ds.ts.load")
			p, err = x.s.Step("a1")
			if err != nil || p.Point != "ask.select" {
				x.setDrift("late:not-at-select:%s:%v", p.String(), err)
				return
			}
			// the reply was sent long before: the select must return it at once
			p, err = x.s.Step("a1")
			if err != nil {
				// the caller sits in its select although its reply is there: only its deadline releases it
				k := x.askers["a1"]
				k.mu.Lock()
				k.blocked = true
				k.mu.Unlock()
				if !x.deadline("a1") {
					return
				}
			}
			for i := 0; i < 8; i++ {
				if pd, parked := x.s.Pending("a1"); !parked || pd.Done {
					break
				}
				if !x.stepAsker("a1") {
					return
				}
			}
			x.finish()
		}()
		x.close(x.windDown())
	}
	w.Emit(map[string]any{"ev": "New", "t": "", "id": 0, "res": 0, "err": 0, "closed": []int{0, 0}})
	st.Events = w.Count()
	w.Close()
	_ = sys.Stop(context.Background())
	printStats(st)
}
