package main

// C15, free-running part: real timers, all Ask entry points, random yields injected at the
// verifhook points (no gating); and scripted stash scenarios.

import (
	"context"
	"math/rand"
	"runtime"
	"strconv"
	"sync"
	"sync/atomic"
	"time"

	"github.com/tochemey/goakt/v4/actor"
	"github.com/tochemey/goakt/v4/internal/verifhook"
	"github.com/tochemey/goakt/v4/verifharness/vtrace"
)

// SMsg asks the stress responder to reply in a given way.
type SMsg struct {
	ID   int
	Mode int // 0 reply at once, 1 reply after a pause, 2 never reply, 3 reply twice
	Spin int
}

type stressResponder struct{ w *vtrace.Writer }

func (stressResponder) PreStart(*actor.Context) error { return nil }
func (stressResponder) PostStop(*actor.Context) error { return nil }
func (r stressResponder) Receive(ctx *actor.ReceiveContext) {
	m, ok := ctx.Message().(*SMsg)
	if !ok {
		return
	}
	switch m.Mode {
	case 2:
		return
	case 1:
		if m.Spin > 50 {
			time.Sleep(time.Duration(m.Spin) * time.Microsecond)
		} else {
			for i := 0; i < m.Spin; i++ {
				runtime.Gosched()
			}
		}
	}
	ctx.Response(&Reply{ID: m.ID})
	r.w.Emit(map[string]any{"ev": "resp", "t": "", "id": m.ID, "res": 0, "err": 0})
	if m.Mode == 3 {
		ctx.Response(&Reply{ID: m.ID})
		r.w.Emit(map[string]any{"ev": "resp", "t": "", "id": m.ID, "res": 0, "err": 0})
	}
}

// DoAsk makes the asking actor call ReceiveContext.Ask.
type DoAsk struct {
	To      *actor.PID
	Msg     *SMsg
	Timeout time.Duration
	Done    chan struct{}
}

type askingActor struct{ w *vtrace.Writer }

func (askingActor) PreStart(*actor.Context) error { return nil }
func (askingActor) PostStop(*actor.Context) error { return nil }
func (a askingActor) Receive(ctx *actor.ReceiveContext) {
	m, ok := ctx.Message().(*DoAsk)
	if !ok {
		return
	}
	reply := ctx.Ask(m.To, m.Msg, m.Timeout)
	emitRet(a.w, "rc", m.Msg.ID, reply, actor.VerifContextErr(ctx), 0)
	close(m.Done)
}

func emitRet(w *vtrace.Writer, t string, id int, reply any, err error, batch int) {
	res := 0
	if r, ok := reply.(*Reply); ok && r != nil {
		res = r.ID
	} else if reply != nil {
		res = -2
	}
	ec := errClass(err)
	if ec != 0 && batch != 0 {
		ec = 3
	}
	w.Emit(map[string]any{"ev": "ret", "t": t, "id": id, "res": res, "err": ec})
}

// yielder injects scheduling noise at the instrumented steps.
type yielder struct{ n atomic.Uint64 }

func (y *yielder) At(point string, obj any, a, b int64) {
	switch point {
	case "resp.send", "ask.woke", "pool.chan.drain", "pool.chan.put", "ask.getchan", "ask.build", "ask.select", "ctx.recycle":
		k := y.n.Add(0x9E3779B97F4A7C15)
		k ^= k >> 29
		switch k % 8 {
		case 0:
			runtime.Gosched()
		case 1:
			for i := 0; i < 4; i++ {
				runtime.Gosched()
			}
		case 2:
			if point == "resp.send" || point == "ask.woke" {
				time.Sleep(time.Duration(k>>8%400) * time.Microsecond)
			}
		}
	}
}
func (y *yielder) Fault(string, any, int64) int { return 0 }

func askStress(histories int, seed int64, tfile string) {
	w := mustTrace(tfile)
	sys := newSystem()
	bg := context.Background()
	rng := rand.New(rand.NewSource(seed))
	caller, err := sys.Spawn(bg, "caller", idleActor{}, actor.WithLongLived())
	if err != nil {
		fatal(err)
	}
	st := &askStats{}
	y := &yielder{}
	y.n.Store(uint64(seed))
	verifhook.Install(y)
	defer verifhook.Uninstall()
	const long = 40 * time.Second
	for h := 0; h < histories; h++ {
		w.Emit(map[string]any{"ev": "New", "t": "", "id": 0, "res": 0, "err": 0})
		tname := "resp" + strconv.Itoa(h)
		target, err := sys.Spawn(bg, tname, stressResponder{w: w}, actor.WithLongLived())
		if err != nil {
			fatal(err)
		}
		askerPid, err := sys.Spawn(bg, "asking"+strconv.Itoa(h), askingActor{w: w}, actor.WithLongLived())
		if err != nil {
			fatal(err)
		}
		waitFor(5*time.Second*slow, func() bool { return actor.VerifIdleOf(target) && actor.VerifIdleOf(askerPid) })
		actor.VerifDrainPools() // pooled objects recur at once (a state the pools reach under load)
		ncallers := 3 + rng.Intn(4)
		var wg sync.WaitGroup
		for c := 1; c <= ncallers; c++ {
			c := c
			crng := rand.New(rand.NewSource(rng.Int63()))
			nasks := 4 + crng.Intn(6)
			wg.Add(1)
			go func() {
				defer wg.Done()
				name := "c" + strconv.Itoa(c)
				for j := 1; j <= nasks; j++ {
					id := c*100 + j
					mode := crng.Intn(4)
					short := mode == 2 || crng.Intn(2) == 0
					timeout := long
					if short {
						timeout = time.Duration(100+crng.Intn(2500)) * time.Microsecond
					}
					msg := &SMsg{ID: id, Mode: mode, Spin: crng.Intn(1500)}
					call := func(id int) {
						w.Emit(map[string]any{"ev": "call", "t": name, "id": id, "res": 0, "err": 0})
						if short { // the timer may fire at any moment from now on
							w.Emit(map[string]any{"ev": "deadline", "t": name, "id": id, "res": 0, "err": 0})
						}
					}
					switch v := crng.Intn(5); v {
					case 0:
						call(id)
						reply, err := actor.Ask(bg, target, msg, timeout)
						emitRet(w, name, id, reply, err, 0)
					case 1:
						call(id)
						reply, err := caller.Ask(bg, target, msg, timeout)
						emitRet(w, name, id, reply, err, 0)
					case 2:
						call(id)
						reply, err := caller.SendSync(bg, tname, msg, timeout)
						emitRet(w, name, id, reply, err, 0)
					case 3: // BatchAsk of two messages
						id2 := id + 50
						msg2 := &SMsg{ID: id2, Mode: crng.Intn(2), Spin: crng.Intn(200)}
						call(id)
						call(id2)
						var ch chan any
						var err error
						if crng.Intn(2) == 0 {
							ch, err = caller.BatchAsk(bg, target, []any{msg, msg2}, timeout)
						} else {
							ch, err = actor.BatchAsk(bg, target, timeout, msg, msg2)
						}
						if err != nil {
							emitRet(w, name, id, nil, err, 1)
							emitRet(w, name, id2, nil, err, 1)
						} else {
							emitRet(w, name, id, <-ch, nil, 1)
							emitRet(w, name, id2, <-ch, nil, 1)
						}
					case 4: // ReceiveContext.Ask from inside an actor
						call(id)
						done := make(chan struct{})
						if err := actor.Tell(bg, askerPid, &DoAsk{To: target, Msg: msg, Timeout: timeout, Done: done}); err != nil {
							emitRet(w, name, id, nil, err, 0)
						} else {
							<-done
						}
					}
					st.Steps++
				}
			}()
		}
		wg.Wait()
		clean := waitFor(10*time.Second*slow, func() bool { return actor.VerifIdleOf(target) && actor.VerifIdleOf(askerPid) })
		ci := 0
		if clean {
			ci = 1
		}
		w.Emit(map[string]any{"ev": "End", "t": "", "id": ci, "res": 0, "err": 0})
		_ = target.Shutdown(bg)
		_ = askerPid.Shutdown(bg)
		st.Behaviours++
	}
	w.Emit(map[string]any{"ev": "New", "t": "", "id": 0, "res": 0, "err": 0})
	st.Events = w.Count()
	w.Close()
	_ = sys.Stop(bg)
	printStats(st)
}

// ---------------------------------------------------------------- stash scenarios (scripted, deterministic)

type Go struct{ N int } // control message: N=1 Unstash, N=2 UnstashAll

type stashTarget struct {
	w      *vtrace.Writer
	dup    bool // stash every first delivery twice
	seen   map[int]int
	signal chan int
	gate   chan struct{}
	gated  bool
}

func (*stashTarget) PreStart(*actor.Context) error { return nil }
func (*stashTarget) PostStop(*actor.Context) error { return nil }
func (t *stashTarget) Receive(ctx *actor.ReceiveContext) {
	switch m := ctx.Message().(type) {
	case *Go:
		if m.N == 1 {
			ctx.Unstash()
		} else {
			ctx.UnstashAll()
		}
		t.signal <- 0
	case *Msg:
		t.seen[m.ID]++
		if t.seen[m.ID] == 1 {
			ctx.Stash()
			if t.dup {
				ctx.Stash()
			}
			t.signal <- m.ID
			return
		}
		if t.gated && t.seen[m.ID] == 3 {
			<-t.gate // the second copy waits until the driver has started the next Ask
		}
		ctx.Response(&Reply{ID: m.ID})
		t.w.Emit(map[string]any{"ev": "resp", "t": "", "id": m.ID, "res": 0, "err": 0})
		t.signal <- -m.ID
	}
}

// askStash runs two scripted scenarios per run:
//
//	A (stash + time-out): Ask 1 is stashed, its caller's deadline fires, Ask 2 is sent and stashed, message 1 is
//	  unstashed and answered while Ask 2 still waits, then message 2 is unstashed and answered.
//	B (double stash): Ask 1 is stashed twice by one handler invocation, both copies are unstashed and answered;
//	  Ask 2 is started between the two answers.
func askStash(runs int, tfile string) {
	w := mustTrace(tfile)
	sys := newSystem()
	bg := context.Background()
	st := &askStats{}
	type result struct {
		reply any
		err   error
	}
	ask := func(variant int, caller, to *actor.PID, cctx context.Context, id int) chan struct{} {
		done := make(chan struct{})
		w.Emit(map[string]any{"ev": "call", "t": "s", "id": id, "res": 0, "err": 0})
		go func() {
			var reply any
			var err error
			if variant == 0 {
				reply, err = actor.Ask(cctx, to, &Msg{ID: id}, time.Hour)
			} else {
				reply, err = caller.Ask(cctx, to, &Msg{ID: id}, time.Hour)
			}
			emitRet(w, "s", id, reply, err, 0)
			close(done)
		}()
		return done
	}
	wait := func(ch chan int, want int) {
		select {
		case v := <-ch:
			if v != want {
				fatal("stash scenario: unexpected signal", v, "want", want)
			}
		case <-time.After(20 * time.Second * slow):
			fatal("stash scenario: no signal", want)
		}
	}
	waitDone := func(ch chan struct{}) bool {
		select {
		case <-ch:
			return true
		case <-time.After(20 * time.Second * slow):
			return false
		}
	}
	caller, err := sys.Spawn(bg, "caller", idleActor{}, actor.WithLongLived())
	if err != nil {
		fatal(err)
	}
	for r := 0; r < runs; r++ {
		variant := r % 2
		// ---- scenario A
		w.Emit(map[string]any{"ev": "New", "t": "A", "id": 1, "res": 0, "err": 0})
		ta := &stashTarget{w: w, seen: map[int]int{}, signal: make(chan int, 16)}
		pa, err := sys.Spawn(bg, "stashA"+strconv.Itoa(r), ta, actor.WithLongLived(), actor.WithStashing())
		if err != nil {
			fatal(err)
		}
		waitFor(5*time.Second*slow, func() bool { return actor.VerifIdleOf(pa) })
		actor.VerifDrainPools()
		c1, cancel1 := context.WithCancel(bg)
		d1 := ask(variant, caller, pa, c1, 1)
		wait(ta.signal, 1) // stashed
		w.Emit(map[string]any{"ev": "deadline", "t": "s", "id": 1, "res": 0, "err": 0})
		cancel1()
		clean := waitDone(d1)
		c2, cancel2 := context.WithCancel(bg)
		d2 := ask(variant, caller, pa, c2, 2)
		wait(ta.signal, 2) // stashed
		_ = actor.Tell(bg, pa, &Go{N: 1})
		wait(ta.signal, 0)
		wait(ta.signal, -1) // message 1 answered (its caller is long gone)
		_ = actor.Tell(bg, pa, &Go{N: 1})
		wait(ta.signal, 0)
		wait(ta.signal, -2)
		clean = waitDone(d2) && clean
		cancel2()
		ci := 0
		if clean {
			ci = 1
		}
		w.Emit(map[string]any{"ev": "End", "t": "A", "id": ci, "res": 0, "err": 0})
		_ = pa.Shutdown(bg)
		// ---- scenario B
		w.Emit(map[string]any{"ev": "New", "t": "B", "id": 2, "res": 0, "err": 0})
		tb := &stashTarget{w: w, seen: map[int]int{}, signal: make(chan int, 16), dup: true, gated: true, gate: make(chan struct{})}
		pb, err := sys.Spawn(bg, "stashB"+strconv.Itoa(r), tb, actor.WithLongLived(), actor.WithStashing())
		if err != nil {
			fatal(err)
		}
		waitFor(5*time.Second*slow, func() bool { return actor.VerifIdleOf(pb) })
		actor.VerifDrainPools()
		d1 = ask(variant, caller, pb, bg, 1)
		wait(tb.signal, 1) // stashed twice
		_ = actor.Tell(bg, pb, &Go{N: 2})
		wait(tb.signal, 0)
		wait(tb.signal, -1) // first copy answered
		clean = waitDone(d1)
		c2, cancel2 = context.WithCancel(bg)
		d2 = ask(variant, caller, pb, c2, 2)
		time.Sleep(2 * time.Millisecond) // Ask 2 takes its reply channel and enqueues behind the second copy
		waitFor(5*time.Second*slow, func() bool { return pb.VerifMailboxLen() >= 1 })
		close(tb.gate)
		wait(tb.signal, -1) // second copy answered
		wait(tb.signal, 2)  // message 2 stashed on first delivery
		_ = actor.Tell(bg, pb, &Go{N: 2})
		wait(tb.signal, 0)
		select {
		case <-tb.signal: // -2 when message 2 was answered
		case <-time.After(5 * time.Second * slow):
		}
		clean = waitDone(d2) && clean
		cancel2()
		ci = 0
		if clean {
			ci = 1
		}
		w.Emit(map[string]any{"ev": "End", "t": "B", "id": ci, "res": 0, "err": 0})
		_ = pb.Shutdown(bg)
		st.Behaviours += 2
	}
	w.Emit(map[string]any{"ev": "New", "t": "", "id": 0, "res": 0, "err": 0})
	st.Events = w.Count()
	w.Close()
	_ = sys.Stop(bg)
	printStats(st)
}
