package main

// C16: reentrant requests. Replays TLC-generated histories of specs/Reentrancy/Request.tla on a REAL actor
// system: a requester actor with reentrancy enabled whose command handlers the harness holds, one responder
// actor per request (held too), the real timeout goroutine of every request parked at the req.timeout.fire
// hook (adopted by the puppet scheduler), Cancel from inside and outside the actor, Shutdown of the requester.
//
//	askreentr req-replay <behaviours.ndjson> <trace.ndjson> <maxInFlight>

import (
	"context"
	"errors"
	"math/rand"
	"strconv"
	"sync"
	"sync/atomic"
	"time"

	"github.com/tochemey/goakt/v4/actor"
	gerrors "github.com/tochemey/goakt/v4/errors"
	"github.com/tochemey/goakt/v4/reentrancy"
	"github.com/tochemey/goakt/v4/verifharness/sched"
	"github.com/tochemey/goakt/v4/verifharness/vtrace"
)

type reqStep struct {
	A    string `json:"a"`
	ID   int    `json:"id"`
	Op   string `json:"op"`
	Mode string `json:"mode"`
	Tmo  bool   `json:"tmo"`
	Th   string `json:"th"`
	Rq   int    `json:"rq"`
	Err  string `json:"err"`
}

// Cmd is a command message for the requester.
type Cmd struct {
	ID   int
	Op   string
	Mode string
	Tmo  bool
	Th   string
	Rq   int
}

// Work is what the requester asks a responder.
type Work struct{ Rq int }

type reqWorld struct {
	w       *vtrace.Writer
	mu      sync.Mutex
	calls   map[int]actor.RequestCall // handles by request number
	nreq    int
	resp    []*actor.PID
	handled []int
	cblog   [][2]any
	maxf    int
	owner   atomic.Uint64 // goroutine that holds the requester's turn (0 none)
	enter   chan *reqHeld
	free    atomic.Bool
}

type reqHeld struct {
	cmd     *Cmd
	release chan struct{}
}

func (x *reqWorld) callback(rq int) func(any, error) {
	return func(res any, err error) {
		out := "reply"
		switch {
		case err == nil:
			if r, ok := res.(*Reply); !ok || r.ID != rq {
				out = "wrong-reply"
			}
		case errors.Is(err, gerrors.ErrRequestTimeout) || err.Error() == gerrors.ErrRequestTimeout.Error():
			out = "timeout"
		case errors.Is(err, gerrors.ErrRequestCanceled) || err.Error() == gerrors.ErrRequestCanceled.Error():
			out = "cancel"
		default:
			out = "error:" + err.Error()
		}
		on := 0
		if g := sched.Gid(); g != 0 && g == x.owner.Load() {
			on = 1
		}
		x.mu.Lock()
		x.cblog = append(x.cblog, [2]any{rq, out})
		x.mu.Unlock()
		x.w.Emit(map[string]any{"ev": "cb", "id": 0, "rq": rq, "what": out, "n": on, "m": 0})
	}
}

// requester: every command is handed to the harness; when released its operation runs on the actor's turn.
type requester struct{ x *reqWorld }

func (requester) PreStart(*actor.Context) error { return nil }
func (requester) PostStop(*actor.Context) error { return nil }
func (r requester) Receive(ctx *actor.ReceiveContext) {
	c, ok := ctx.Message().(*Cmd)
	if !ok {
		return
	}
	x := r.x
	x.w.Emit(map[string]any{"ev": "enter", "id": c.ID, "rq": 0, "what": c.Op, "n": 0, "m": 0})
	if !x.free.Load() {
		h := &reqHeld{cmd: c, release: make(chan struct{})}
		x.enter <- h
		<-h.release
	}
	op := c.Op
	if op == "req" && x.free.Load() {
		op = "skipped" // winding down: no new requests
	}
	switch op {
	case "req":
		x.mu.Lock()
		rq := x.nreq + 1
		to := x.resp[rq-1]
		x.mu.Unlock()
		var opts []actor.RequestOption
		switch c.Mode {
		case "stash":
			opts = append(opts, actor.WithReentrancyMode(reentrancy.StashNonReentrant))
		case "default": // no per-call override: the actor's default policy decides
		default:
			opts = append(opts, actor.WithReentrancyMode(reentrancy.AllowAll))
		}
		if c.Tmo {
			opts = append(opts, actor.WithRequestTimeout(time.Microsecond))
		}
		var call actor.RequestCall
		if rq%2 == 0 { // every second request goes through the name-resolving entry point
			call = ctx.RequestName(to.Name(), &Work{Rq: rq}, opts...)
		} else {
			call = ctx.Request(to, &Work{Rq: rq}, opts...)
		}
		if call == nil {
			what := "error"
			if err := actor.VerifContextErr(ctx); errors.Is(err, gerrors.ErrReentrancyInFlightLimit) {
				what = "limit"
			} else if errors.Is(err, gerrors.ErrReentrancyDisabled) {
				what = "disabled"
			} else if err != nil {
				what = "error:" + err.Error()
			}
			mm := 0
			if c.Mode == "default" {
				mm = 2
			}
			x.w.Emit(map[string]any{"ev": "reqcall", "id": c.ID, "rq": 0, "what": what, "n": 0, "m": mm})
			ctx.Err(nil) // the refusal has been dealt with here: do not escalate it to the supervisor
			break
		}
		x.mu.Lock()
		x.nreq = rq
		x.calls[rq] = call
		x.mu.Unlock()
		m := 0
		if c.Mode == "stash" {
			m = 1
		} else if c.Mode == "default" {
			m = 2
		}
		th := 0
		if c.Th == "now" {
			th = 1
		}
		x.w.Emit(map[string]any{"ev": "reqcall", "id": c.ID, "rq": rq, "what": "ok", "n": th, "m": m})
		if c.Th == "now" {
			call.Then(x.callback(rq))
		}
	case "disable":
		ctx.DisableReentrancy()
		x.w.Emit(map[string]any{"ev": "disable", "id": c.ID, "rq": 0, "what": "", "n": 0, "m": 0})
	case "enable":
		err := ctx.EnableReentrancy(reentrancy.New(reentrancy.WithMode(reentrancy.AllowAll), reentrancy.WithMaxInFlight(x.maxf)))
		x.w.Emit(map[string]any{"ev": "enable", "id": c.ID, "rq": 0, "what": "", "n": b2i(err != nil), "m": 0})
	case "then":
		x.mu.Lock()
		call := x.calls[c.Rq]
		x.mu.Unlock()
		if call != nil {
			x.w.Emit(map[string]any{"ev": "then", "id": c.ID, "rq": c.Rq, "what": "", "n": 0, "m": 0})
			call.Then(x.callback(c.Rq))
		}
	case "cancel":
		x.mu.Lock()
		call := x.calls[c.Rq]
		x.mu.Unlock()
		if call != nil {
			x.w.Emit(map[string]any{"ev": "cause", "id": c.ID, "rq": c.Rq, "what": "cancel", "n": 0, "m": 0})
			_ = call.Cancel()
		}
	}
	x.mu.Lock()
	x.handled = append(x.handled, c.ID)
	x.mu.Unlock()
	x.w.Emit(map[string]any{"ev": "exit", "id": c.ID, "rq": 0, "what": c.Op, "n": 0, "m": 0})
}

// responder: holds the request until the harness lets it answer.
type responder struct {
	hold chan struct{}
	got  chan int
}

func (*responder) PreStart(*actor.Context) error { return nil }
func (*responder) PostStop(*actor.Context) error { return nil }
func (r *responder) Receive(ctx *actor.ReceiveContext) {
	m, ok := ctx.Message().(*Work)
	if !ok {
		return
	}
	r.got <- m.Rq
	<-r.hold
	ctx.Response(&Reply{ID: m.Rq})
}

type reqStats struct {
	Behaviours int            `json:"behaviours"`
	Steps      int            `json:"steps"`
	Drift      int            `json:"drift"`
	Events     int64          `json:"events"`
	DriftAt    map[string]int `json:"drift_at"`
}

func reqReplay(bfile, tfile string, maxInFlight int) {
	behaviours, err := vtrace.ReadLines[[]reqStep](bfile)
	if err != nil {
		fatal(err)
	}
	w := mustTrace(tfile)
	sys := newSystem()
	bg := context.Background()
	st := &reqStats{DriftAt: map[string]int{}}
	wd := 10 * time.Second * slow
	const maxReq = 4
	for bi, b := range behaviours {
		x := &reqWorld{w: w, calls: map[int]actor.RequestCall{}, enter: make(chan *reqHeld, 64), maxf: maxInFlight}
		resps := make([]*responder, maxReq)
		for i := 0; i < maxReq; i++ {
			resps[i] = &responder{hold: make(chan struct{}), got: make(chan int, 4)}
			p, err := sys.Spawn(bg, "rsp"+strconv.Itoa(bi)+"x"+strconv.Itoa(i), resps[i], actor.WithLongLived())
			if err != nil {
				fatal(err)
			}
			x.resp = append(x.resp, p)
		}
		rpid, err := sys.Spawn(bg, "rq"+strconv.Itoa(bi), requester{x: x}, actor.WithLongLived(),
			actor.WithReentrancy(reentrancy.New(reentrancy.WithMode(reentrancy.AllowAll), reentrancy.WithMaxInFlight(maxInFlight))))
		if err != nil {
			fatal(err)
		}
		waitFor(wd, func() bool { return actor.VerifIdleOf(rpid) })
		s := sched.New()
		s.Watchdog = wd
		s.ControlAll()
		s.OnlyPoints("req.timeout.fire")
		s.AdoptAt("req.timeout.fire", "tmo")
		s.DetachAt("req.timeout.done")
		ds := actor.VerifSchedStateOf(rpid)
		s.Obs = func(thread, point string, obj any, a, bb int64) {
			if obj != ds {
				return
			}
			switch point {
			case "turn.begin":
				x.owner.Store(sched.Gid())
			case "turn.release":
				x.owner.Store(0)
			}
		}
		w.Emit(map[string]any{"ev": "New", "id": maxInFlight, "rq": 0, "what": "", "n": 0, "m": 0})
		var cur *reqHeld
		tmoThread := map[int]string{}
		responded := map[int]bool{}
		atResponder := map[int]bool{}
		running := true
		drift := ""
		// settle: the requester is an eager consumer: wait until it holds a handler or is idle
		settle := func() {
			if cur != nil || !running {
				return
			}
			ok := waitFor(wd, func() bool {
				select {
				case h := <-x.enter:
					cur = h
					return true
				default:
				}
				return actor.VerifIdleOf(rpid) && len(x.enter) == 0
			})
			if !ok && drift == "" {
				drift = "requester-did-not-settle"
			}
		}
		t0 := time.Now()
		for _, o := range b {
			if drift != "" {
				break
			}
			if debug {
				dbg("  b%d %s %v", bi, o.A, time.Since(t0))
			}
			switch o.A {
			case "Send":
				c := &Cmd{ID: o.ID, Op: o.Op, Mode: o.Mode, Tmo: o.Tmo, Th: o.Th, Rq: o.Rq}
				w.Emit(map[string]any{"ev": "send", "id": o.ID, "rq": o.Rq, "what": o.Op, "n": 0, "m": 0})
				if err := actor.Tell(bg, rpid, c); err != nil {
					drift = "Send:" + err.Error()
				}
				settle()
			case "Finish":
				if cur == nil {
					drift = "Finish:no-handler"
					break
				}
				c := cur.cmd
				before := x.nreqNow()
				close(cur.release)
				cur = nil
				// the handler's operation is complete once the requester has moved on
				settle()
				if c.Op == "req" && x.nreqNow() > before {
					rq := x.nreqNow()
					// the request has reached its responder
					select {
					case got := <-resps[rq-1].got:
						if got != rq {
							drift = "responder-got-other-request"
						}
						atResponder[rq] = true
					case <-time.After(wd):
						drift = "request-not-delivered"
					}
					if c.Tmo { // its timer (1 µs) fires; the goroutine parks before enqueueing the error
						name, ok := s.WaitAdopted(wd)
						if !ok {
							drift = "timeout-goroutine-not-adopted"
						}
						tmoThread[rq] = name
					}
				}
			case "Reply":
				if !atResponder[o.Rq] || responded[o.Rq] {
					drift = "Reply:no-request"
					break
				}
				responded[o.Rq] = true
				w.Emit(map[string]any{"ev": "cause", "id": 0, "rq": o.Rq, "what": "reply", "n": 0, "m": 0})
				close(resps[o.Rq-1].hold)
				p := x.resp[o.Rq-1]
				waitFor(wd, func() bool { return actor.VerifIdleOf(p) })
				settle()
			case "TimeoutFire":
				name := tmoThread[o.Rq]
				if name == "" {
					drift = "TimeoutFire:no-goroutine"
					break
				}
				delete(tmoThread, o.Rq)
				w.Emit(map[string]any{"ev": "cause", "id": 0, "rq": o.Rq, "what": "timeout", "n": 0, "m": 0})
				if p, err := s.Step(name); err != nil || !p.Done { // runs until req.timeout.done: the error is enqueued
					drift = "TimeoutFire:step-failed"
				}
				settle()
			case "Cancel":
				x.mu.Lock()
				call := x.calls[o.Rq]
				x.mu.Unlock()
				if call == nil {
					drift = "Cancel:no-handle"
					break
				}
				w.Emit(map[string]any{"ev": "cause", "id": 0, "rq": o.Rq, "what": "cancel", "n": 0, "m": 0})
				_ = call.Cancel()
				settle()
			case "Stop":
				w.Emit(map[string]any{"ev": "stop", "id": 0, "rq": 0, "what": "", "n": 0, "m": 0})
				if err := rpid.Shutdown(bg); err != nil {
					drift = "Stop:" + err.Error()
				}
				running = false
			case "Init":
				continue
			default:
				fatal("unknown action", o.A)
			}
			// projection
			inf, blk, tracked, _ := actor.VerifRequestCounters(rpid)
			x.mu.Lock()
			handled := append([]int{}, x.handled...)
			cbl := append([][2]any{}, x.cblog...)
			x.mu.Unlock()
			curID := 0
			if cur != nil {
				curID = cur.cmd.ID
			}
			w.Emit(map[string]any{"ev": "step", "a": o.A, "id": o.ID, "rq": o.Rq, "what": o.Op, "n": 0, "m": 0, "mode": o.Mode, "tmo": b2i(o.Tmo), "th": o.Th,
				"handled": handled, "cblog": cbl, "inflight": inf, "blocking": blk, "tracked": tracked, "stash": int(rpid.StashSize()),
				"mlen": int(rpid.VerifMailboxLen()), "cur": curID, "run": b2i(running), "nreq": x.nreqNow()})
			st.Steps++
		}
		dbg("b%d steps done %v", bi, time.Since(t0))
		// wind down: pending timeouts fire, every handler is released, responders answer; then the final accounting
		x.free.Store(true)
		if cur != nil {
			close(cur.release)
			cur = nil
		}
		for rq, name := range tmoThread {
			w.Emit(map[string]any{"ev": "cause", "id": 0, "rq": rq, "what": "timeout", "n": 0, "m": 0})
			_ = s.Release(name)
		}
		for rq := range atResponder {
			if !responded[rq] {
				w.Emit(map[string]any{"ev": "cause", "id": 0, "rq": rq, "what": "reply", "n": 0, "m": 0})
				close(resps[rq-1].hold)
			}
		}
		s.FreeRun()
		quiet := waitFor(wd, func() bool {
			select {
			case h := <-x.enter:
				close(h.release)
				return false
			default:
			}
			if !running {
				return true
			}
			if !actor.VerifIdleOf(rpid) {
				return false
			}
			for _, p := range x.resp {
				if !actor.VerifIdleOf(p) {
					return false
				}
			}
			return true
		})
		// a request released late in the wind-down may still be on its way back: settle twice
		time.Sleep(500 * time.Microsecond)
		quiet = quiet && waitFor(wd, func() bool { return !running || actor.VerifIdleOf(rpid) })
		dbg("b%d quiet %v", bi, time.Since(t0))
		inf, blk, tracked, _ := actor.VerifRequestCounters(rpid)
		qi := 0
		if quiet {
			qi = 1
		}
		w.Emit(map[string]any{"ev": "End", "id": qi, "rq": tracked, "what": "", "n": int(inf), "m": int(blk), "stash": int(rpid.StashSize()), "run": b2i(running)})
		s.Close()
		if running {
			_ = rpid.Shutdown(bg)
		}
		for i, p := range x.resp {
			select {
			case <-resps[i].hold:
			default:
				close(resps[i].hold)
			}
			_ = p.Shutdown(bg)
		}
		dbg("b%d closed %v", bi, time.Since(t0))
		if drift != "" {
			st.Drift++
			st.DriftAt[drift]++
			dbg("behaviour %d: drift %s", bi, drift)
		}
		st.Behaviours++
	}
	w.Emit(map[string]any{"ev": "New", "id": 0, "rq": 0, "what": "", "n": 0, "m": 0})
	st.Events = w.Count()
	w.Close()
	_ = sys.Stop(bg)
	printStats(st)
}

func (x *reqWorld) nreqNow() int { x.mu.Lock(); defer x.mu.Unlock(); return x.nreq }

func b2i(b bool) int {
	if b {
		return 1
	}
	return 0
}

// ---------------------------------------------------------------- free-running part

// Burst makes the stress requester start a number of requests in one handler invocation.
type Burst struct {
	N    int
	Seed int64
}

type stressRequester struct {
	x      *reqWorld
	resp   []*actor.PID
	cancel chan actor.RequestCall
}

func (stressRequester) PreStart(*actor.Context) error { return nil }
func (stressRequester) PostStop(*actor.Context) error { return nil }
func (r stressRequester) Receive(ctx *actor.ReceiveContext) {
	x := r.x
	switch m := ctx.Message().(type) {
	case *Cmd: // ordinary traffic; some of it switches the default policy off and on again
		x.w.Emit(map[string]any{"ev": "enter", "id": m.ID, "rq": 0, "what": "plain", "n": 0, "m": 0})
		switch m.Op {
		case "disable":
			ctx.DisableReentrancy()
			x.w.Emit(map[string]any{"ev": "disable", "id": m.ID, "rq": 0, "what": "", "n": 0, "m": 0})
		case "enable":
			err := ctx.EnableReentrancy(reentrancy.New(reentrancy.WithMode(reentrancy.AllowAll), reentrancy.WithMaxInFlight(x.maxf)))
			x.w.Emit(map[string]any{"ev": "enable", "id": m.ID, "rq": 0, "what": "", "n": b2i(err != nil), "m": 0})
		}
		x.mu.Lock()
		x.handled = append(x.handled, m.ID)
		x.mu.Unlock()
		x.w.Emit(map[string]any{"ev": "exit", "id": m.ID, "rq": 0, "what": "plain", "n": 0, "m": 0})
	case *Burst:
		rng := rand.New(rand.NewSource(m.Seed))
		for i := 0; i < m.N; i++ {
			x.mu.Lock()
			rq := x.nreq + 1
			x.mu.Unlock()
			mode, mi := reentrancy.AllowAll, 0
			if rng.Intn(5) == 0 {
				mode, mi = reentrancy.StashNonReentrant, 1
			}
			tmo := time.Duration(50+rng.Intn(3000)) * time.Microsecond
			// every completion signal that may reach this request is announced before it can happen
			x.w.Emit(map[string]any{"ev": "cause", "id": 0, "rq": rq, "what": "timeout", "n": 0, "m": 0})
			x.w.Emit(map[string]any{"ev": "cause", "id": 0, "rq": rq, "what": "reply", "n": 0, "m": 0})
			x.w.Emit(map[string]any{"ev": "cause", "id": 0, "rq": rq, "what": "cancel", "n": 0, "m": 0})
			call := ctx.Request(r.resp[rng.Intn(len(r.resp))], &Work{Rq: rq}, actor.WithReentrancyMode(mode), actor.WithRequestTimeout(tmo))
			if call == nil {
				what := "error"
				if err := actor.VerifContextErr(ctx); errors.Is(err, gerrors.ErrReentrancyInFlightLimit) {
					what = "limit"
				}
				x.w.Emit(map[string]any{"ev": "reqcall", "id": 0, "rq": 0, "what": what, "n": 0, "m": 0})
				ctx.Err(nil)
				continue
			}
			x.mu.Lock()
			x.nreq = rq
			x.mu.Unlock()
			x.w.Emit(map[string]any{"ev": "reqcall", "id": 0, "rq": rq, "what": "ok", "n": 1, "m": mi})
			call.Then(x.callback(rq))
			if rng.Intn(4) == 0 {
				select {
				case r.cancel <- call: // cancelled later from a goroutine outside the actor
				default:
				}
			}
		}
	}
}

type stressResponderActor struct{}

func (stressResponderActor) PreStart(*actor.Context) error { return nil }
func (stressResponderActor) PostStop(*actor.Context) error { return nil }
func (stressResponderActor) Receive(ctx *actor.ReceiveContext) {
	m, ok := ctx.Message().(*Work)
	if !ok {
		return
	}
	switch m.Rq % 4 {
	case 0:
		return // never answers: the timeout completes the request
	case 1:
		time.Sleep(time.Duration(m.Rq%7) * 300 * time.Microsecond)
	}
	ctx.Response(&Reply{ID: m.Rq})
}

// reqStress: a requester fires bursts of requests (random mode, short real timeouts), ordinary messages
// interleave, an outside goroutine cancels some handles, responders answer at once / late / never.
func reqStress(histories int, seed int64, tfile string, maxInFlight int) {
	w := mustTrace(tfile)
	sys := newSystem()
	bg := context.Background()
	rng := rand.New(rand.NewSource(seed))
	st := &reqStats{DriftAt: map[string]int{}}
	wd := 20 * time.Second * slow
	lateWaits := 0
	for h := 0; h < histories; h++ {
		x := &reqWorld{w: w, calls: map[int]actor.RequestCall{}, enter: make(chan *reqHeld, 1), maxf: maxInFlight}
		x.free.Store(true)
		var resp []*actor.PID
		for i := 0; i < 3; i++ {
			p, err := sys.Spawn(bg, "srsp"+strconv.Itoa(h)+"x"+strconv.Itoa(i), stressResponderActor{}, actor.WithLongLived())
			if err != nil {
				fatal(err)
			}
			resp = append(resp, p)
		}
		cancelCh := make(chan actor.RequestCall, 256)
		rpid, err := sys.Spawn(bg, "srq"+strconv.Itoa(h), stressRequester{x: x, resp: resp, cancel: cancelCh}, actor.WithLongLived(),
			actor.WithReentrancy(reentrancy.New(reentrancy.WithMode(reentrancy.AllowAll), reentrancy.WithMaxInFlight(maxInFlight))))
		if err != nil {
			fatal(err)
		}
		waitFor(wd, func() bool { return actor.VerifIdleOf(rpid) })
		s := sched.New()
		s.ControlAll()
		s.FreeRun()
		ds := actor.VerifSchedStateOf(rpid)
		s.Obs = func(thread, point string, obj any, a, bb int64) {
			if obj != ds {
				return
			}
			switch point {
			case "turn.begin":
				x.owner.Store(sched.Gid())
			case "turn.release":
				x.owner.Store(0)
			}
		}
		w.Emit(map[string]any{"ev": "New", "id": maxInFlight, "rq": 0, "what": "", "n": 0, "m": 0})
		var wg sync.WaitGroup
		stopCancel := make(chan struct{})
		wg.Add(1)
		go func() { // the outside canceller
			defer wg.Done()
			for {
				select {
				case c := <-cancelCh:
					_ = c.Cancel()
				case <-stopCancel:
					return
				}
			}
		}()
		nb := 3 + rng.Intn(5)
		id := 0
		for i := 0; i < nb; i++ {
			_ = actor.Tell(bg, rpid, &Burst{N: 1 + rng.Intn(4), Seed: rng.Int63()})
			for k := rng.Intn(4); k > 0; k-- {
				id++
				w.Emit(map[string]any{"ev": "send", "id": id, "rq": 0, "what": "plain", "n": 0, "m": 0})
				op := "plain"
				if flip := rng.Intn(5); flip == 0 {
					op = "disable"
				} else if flip == 1 {
					op = "enable"
				}
				_ = actor.Tell(bg, rpid, &Cmd{ID: id, Op: op})
			}
			if rng.Intn(2) == 0 {
				time.Sleep(time.Duration(rng.Intn(800)) * time.Microsecond)
			}
			st.Steps++
		}
		// quiescence: every request has a timeout (<= 3 ms), so all complete. Logically: every continuation has run,
		// every ordinary message was handled and everything is idle. The wait is bounded; when the long wait expires
		// all timers have fired long ago, so the history is judged as it is (after two such histories the wait is
		// cut down and later incomplete histories are not judged, so that a broken build does not stall the run).
		lw, judge := 3*time.Second*slow, true
		if lateWaits >= 2 {
			lw, judge = 200*time.Millisecond, false
		}
		quiet := waitFor(lw, func() bool {
			x.mu.Lock()
			done := len(x.cblog) >= x.nreq && len(x.handled) >= id
			x.mu.Unlock()
			return done && actor.VerifIdleOf(rpid)
		})
		if !quiet {
			lateWaits++
			quiet = judge && waitFor(wd, func() bool { return actor.VerifIdleOf(rpid) })
		}
		close(stopCancel)
		wg.Wait()
		time.Sleep(300 * time.Microsecond) // a duplicate continuation would follow shortly
		inf, blk, tracked, _ := actor.VerifRequestCounters(rpid)
		w.Emit(map[string]any{"ev": "End", "id": b2i(quiet), "rq": tracked, "what": "", "n": int(inf), "m": int(blk), "stash": int(rpid.StashSize()), "run": 1})
		s.Close()
		_ = rpid.Shutdown(bg)
		for _, p := range resp {
			_ = p.Shutdown(bg)
		}
		st.Behaviours++
	}
	w.Emit(map[string]any{"ev": "New", "id": 0, "rq": 0, "what": "", "n": 0, "m": 0})
	st.Events = w.Count()
	w.Close()
	_ = sys.Stop(bg)
	printStats(st)
}
