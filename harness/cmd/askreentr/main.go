// Command askreentr drives goakt's Ask (C15), dead-letter (C18) and reentrant
// request (C16) mechanisms on a REAL actor system for the /verif checks.
//
//	askreentr ask-replay  <behaviours.ndjson> <trace.ndjson>
//	askreentr ask-explore <runs> <askers> <asks> <seed> <trace.ndjson>
//	askreentr ask-stress  <histories> <seed> <trace.ndjson>
//	askreentr ask-stash   <runs> <trace.ndjson>
package main

import (
	"context"
	"encoding/json"
	"fmt"
	"os"
	"strconv"
	"time"

	"github.com/tochemey/goakt/v4/actor"
	"github.com/tochemey/goakt/v4/log"
	"github.com/tochemey/goakt/v4/verifharness/vtrace"
)

func fatal(v ...any) {
	fmt.Fprintln(os.Stderr, v...)
	os.Exit(2)
}

var debug = os.Getenv("VERIF_DEBUG") != ""

func dbg(format string, a ...any) {
	if debug {
		fmt.Fprintf(os.Stderr, format+"\n", a...)
	}
}

// slow scales every watchdog: the machine is shared and often heavily loaded.
var slow = func() time.Duration {
	if v, err := strconv.Atoi(os.Getenv("VERIF_SLOW")); err == nil && v > 0 {
		return time.Duration(v)
	}
	return 1
}()

func newSystem(opts ...actor.Option) actor.ActorSystem {
	ctx := context.Background()
	all := append([]actor.Option{actor.WithLogger(log.DiscardLogger)}, opts...)
	sys, err := actor.NewActorSystem("verif", all...)
	if err != nil {
		fatal(err)
	}
	if err := sys.Start(ctx); err != nil {
		fatal(err)
	}
	return sys
}

func atoi(s string) int {
	n, err := strconv.Atoi(s)
	if err != nil {
		fatal("bad number", s)
	}
	return n
}

func mustTrace(path string) *vtrace.Writer {
	w, err := vtrace.Create(path)
	if err != nil {
		fatal(err)
	}
	return w
}

func printStats(st any) {
	out, _ := json.Marshal(st)
	fmt.Println(string(out))
}

func main() {
	if len(os.Args) < 2 {
		fatal("usage: askreentr <subcommand> ...")
	}
	args := os.Args[2:]
	switch os.Args[1] {
	case "ask-replay":
		if len(args) != 2 {
			fatal("usage: askreentr ask-replay <behaviours> <trace>")
		}
		askReplay(args[0], args[1])
	case "ask-explore":
		if len(args) != 5 {
			fatal("usage: askreentr ask-explore <runs> <askers> <asks> <seed> <trace>")
		}
		askExplore(atoi(args[0]), atoi(args[1]), atoi(args[2]), int64(atoi(args[3])), args[4])
	case "ask-stress":
		if len(args) != 3 {
			fatal("usage: askreentr ask-stress <histories> <seed> <trace>")
		}
		askStress(atoi(args[0]), int64(atoi(args[1])), args[2])
	case "ask-late":
		if len(args) != 2 {
			fatal("usage: askreentr ask-late <runs> <trace>")
		}
		askLate(atoi(args[0]), args[1])
	case "ask-stash":
		if len(args) != 2 {
			fatal("usage: askreentr ask-stash <runs> <trace>")
		}
		askStash(atoi(args[0]), args[1])
	case "dl-replay":
		if len(args) != 3 {
			fatal("usage: askreentr dl-replay <behaviours> <trace> <port>")
		}
		dlReplay(args[0], args[1], atoi(args[2]))
	case "dl-stress":
		if len(args) != 4 {
			fatal("usage: askreentr dl-stress <histories> <seed> <trace> <port>")
		}
		dlStress(atoi(args[0]), int64(atoi(args[1])), args[2], atoi(args[3]))
	case "req-replay":
		if len(args) != 3 {
			fatal("usage: askreentr req-replay <behaviours> <trace> <maxInFlight>")
		}
		reqReplay(args[0], args[1], atoi(args[2]))
	case "req-stress":
		if len(args) != 4 {
			fatal("usage: askreentr req-stress <histories> <seed> <trace> <maxInFlight>")
		}
		reqStress(atoi(args[0]), int64(atoi(args[1])), args[2], atoi(args[3]))
	default:
		fatal("unknown subcommand", os.Args[1])
	}
}
