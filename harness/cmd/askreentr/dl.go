package main

// C18: dead letters. Replays TLC-generated operation histories of specs/DeadLetter/Drops.tla on a REAL actor
// system (remoting enabled on loopback, no peer): local tells into a full non-blocking bounded mailbox,
// Unhandled(), inbound remote tells for a missing / stopped actor through deliverRemoteTellMessage, failed
// outbound batches through enqueueCoalescedFailure. Dead letters are observed by an event-stream subscriber.
//
//	askreentr dl-replay <behaviours.ndjson> <trace.ndjson> <port>
//	askreentr dl-stress <histories> <seed> <trace.ndjson> <port>

import (
	"context"
	"errors"
	"fmt"
	"math/rand"
	"runtime"
	"strconv"
	"strings"
	"sync"
	"sync/atomic"
	"time"

	"google.golang.org/protobuf/types/known/wrapperspb"

	"github.com/tochemey/goakt/v4/actor"
	"github.com/tochemey/goakt/v4/eventstream"
	"github.com/tochemey/goakt/v4/internal/commands"
	"github.com/tochemey/goakt/v4/reentrancy"
	"github.com/tochemey/goakt/v4/remote"
	"github.com/tochemey/goakt/v4/verifharness/vtrace"
)

type dlOp struct {
	Op  string `json:"op"`
	ID  int    `json:"id"`
	N   int    `json:"n"`
	Snd string `json:"snd"`
	Rcv string `json:"rcv"`
	Unh bool   `json:"unh"`
	Ok  bool   `json:"ok"`
}

type dlDelivery struct {
	rctx    *actor.ReceiveContext
	id      int
	unh     bool
	release chan struct{}
}

// dlTarget hands every message to the driver and completes it (or calls Unhandled) when released.
type dlTarget struct {
	w       *vtrace.Writer
	enter   chan *dlDelivery
	free    *atomic.Bool
	spin    int
	mu      sync.Mutex
	handled []int
}

func (t *dlTarget) handledIDs() []int {
	t.mu.Lock()
	defer t.mu.Unlock()
	return append([]int{}, t.handled...)
}

func (*dlTarget) PreStart(*actor.Context) error { return nil }
func (*dlTarget) PostStop(*actor.Context) error { return nil }
func (t *dlTarget) Receive(ctx *actor.ReceiveContext) {
	m, ok := ctx.Message().(*wrapperspb.Int64Value)
	if !ok {
		return
	}
	id, unh := int(m.GetValue()/2), m.GetValue()%2 == 1
	if !t.free.Load() {
		d := &dlDelivery{rctx: ctx, id: id, unh: unh, release: make(chan struct{})}
		t.enter <- d
		<-d.release
	} else {
		for i := 0; i < t.spin; i++ {
			runtime.Gosched()
		}
	}
	if unh {
		ctx.Unhandled()
		return
	}
	t.mu.Lock()
	t.handled = append(t.handled, id)
	t.mu.Unlock()
	t.w.Emit(map[string]any{"ev": "handled", "id": id, "n": 0, "snd": "", "rcv": ""})
}

// DoReq makes the actor Q send a message with ctx.Request: it travels in an AsyncRequest envelope.
type DoReq struct {
	To   *actor.PID
	V    int64
	Done chan error
}

type dlRequester struct{}

func (dlRequester) PreStart(*actor.Context) error { return nil }
func (dlRequester) PostStop(*actor.Context) error { return nil }
func (dlRequester) Receive(ctx *actor.ReceiveContext) {
	m, ok := ctx.Message().(*DoReq)
	if !ok {
		return
	}
	call := ctx.Request(m.To, wrapperspb.Int64(m.V))
	var err error
	if call == nil {
		err = actor.VerifContextErr(ctx)
		if err == nil {
			err = errors.New("request refused")
		}
		ctx.Err(nil)
	}
	m.Done <- err
}

type dlStats struct {
	Behaviours int   `json:"behaviours"`
	Steps      int   `json:"steps"`
	Drift      int   `json:"drift"`
	Events     int64 `json:"events"`
	Pred       int   `json:"pred_mismatch"`
}

type dlWorld struct {
	sys    actor.ActorSystem
	w      *vtrace.Writer
	sub    eventstream.Subscriber
	sender *actor.PID
	reqr   *actor.PID
	dl     *actor.PID
	port   int
	// per history
	pid      *actor.PID
	tname    string
	taddr    string
	seen     [][3]any // dead letters of this history (id, snd, rcv)
	handled  []int
	base     int64
	ntimeout int
}

func (x *dlWorld) wd() time.Duration { return 10 * time.Second * slow }

func (x *dlWorld) nameOfSender(p actor.Path) string {
	if p == nil {
		return "?"
	}
	switch {
	case p.Name() == x.sender.Name():
		return "S"
	case p.Name() == "remotesender":
		return "R"
	case p.Name() == "remotesender2":
		return "R2"
	case x.reqr != nil && p.Name() == x.reqr.Name():
		return "Q"
	case p.Name() == x.sys.NoSender().Name():
		return "N"
	}
	return "?" + p.Name()
}

func (x *dlWorld) nameOfReceiver(p actor.Path) string {
	if p == nil {
		return "?"
	}
	switch {
	case p.Name() == x.tname:
		return "T"
	case strings.HasPrefix(p.Name(), "missing"):
		return "M"
	case strings.HasPrefix(p.Name(), "faraway"):
		return "X"
	}
	return "?" + p.Name()
}

// drain reads the subscriber's buffered events and records the dead letters.
func (x *dlWorld) drain() int {
	n := 0
	for m := range x.sub.Iterator() {
		d, ok := m.Payload().(*actor.Deadletter)
		if !ok {
			continue
		}
		id, env := -1, 0
		switch v := d.Message().(type) {
		case *wrapperspb.Int64Value:
			id = int(v.GetValue() / 2)
		case *commands.AsyncRequest: // a ctx.Request envelope: the payload is inside
			if p, ok := v.Message.(*wrapperspb.Int64Value); ok {
				id, env = int(p.GetValue()/2), 1
			}
		}
		if id < 0 {
			continue // dead letters of other traffic (none expected)
		}
		snd, rcv := x.nameOfSender(d.Sender()), x.nameOfReceiver(d.Receiver())
		if strings.Contains(d.Reason(), "request timed out") {
			// filed by an Ask that gave up (not one of the drop causes): counted, accounted separately
			x.w.Emit(map[string]any{"ev": "deadt", "id": id, "n": env, "snd": snd, "rcv": rcv})
			x.ntimeout++
			n++
			continue
		}
		x.w.Emit(map[string]any{"ev": "dead", "id": id, "n": env, "snd": snd, "rcv": rcv})
		x.seen = append(x.seen, [3]any{id, snd, rcv})
		n++
	}
	return n
}

func (x *dlWorld) remoteAddr(name string) string {
	return fmt.Sprintf("goakt://%s@127.0.0.1:%d/%s", x.sys.Name(), x.port, name)
}

func (x *dlWorld) waitDeadletterIdle() {
	waitFor(x.wd(), func() bool { return actor.VerifIdleOf(x.dl) })
}

func newDLWorld(port int, w *vtrace.Writer) *dlWorld {
	sys := newSystem(actor.WithRemote(remote.NewConfig("127.0.0.1", port)))
	x := &dlWorld{sys: sys, w: w, port: port}
	var err error
	if x.sender, err = sys.Spawn(context.Background(), "localsender", idleActor{}, actor.WithLongLived()); err != nil {
		fatal(err)
	}
	if x.reqr, err = sys.Spawn(context.Background(), "dlrequester", dlRequester{}, actor.WithLongLived(),
		actor.WithReentrancy(reentrancy.New(reentrancy.WithMode(reentrancy.AllowAll)))); err != nil {
		fatal(err)
	}
	if x.sub, err = sys.Subscribe(); err != nil {
		fatal(err)
	}
	x.dl = actor.VerifDeadletterPID(sys)
	return x
}

func (x *dlWorld) newTarget(idx int, t *dlTarget, cap int) {
	x.tname = "dltarget" + strconv.Itoa(idx)
	pid, err := x.sys.Spawn(context.Background(), x.tname, t, actor.WithLongLived(), actor.WithMailbox(actor.NewNonBlockingBoundedMailbox(cap)))
	if err != nil {
		fatal(err)
	}
	x.pid, x.taddr = pid, actor.VerifAddressOf(pid)
	waitFor(x.wd(), func() bool { return actor.VerifIdleOf(pid) && actor.VerifIdleOf(x.dl) })
	x.drain()
	x.seen, x.handled, x.ntimeout = nil, nil, 0
	x.base = x.sys.Metric(context.Background()).DeadlettersCount()
}

func dlReplay(bfile, tfile string, port int) {
	behaviours, err := vtrace.ReadLines[[]dlOp](bfile)
	if err != nil {
		fatal(err)
	}
	w := mustTrace(tfile)
	x := newDLWorld(port, w)
	bg := context.Background()
	st := &dlStats{}
	batchMisses := 0
	for bi, b := range behaviours {
		var free atomic.Bool
		t := &dlTarget{w: w, enter: make(chan *dlDelivery, 64), free: &free}
		x.newTarget(bi, t, 2)
		w.Emit(map[string]any{"ev": "New", "id": 0, "n": 0, "snd": "", "rcv": ""})
		var cur *dlDelivery
		nid, nent, nenq := 0, 0, 0
		running := true
		var asks []context.CancelFunc
		var askWG sync.WaitGroup
		settle := func() {
			if cur == nil && nent < nenq {
				select {
				case d := <-t.enter:
					cur = d
					nent++
				case <-time.After(x.wd()):
					st.Drift++
				}
			} else if cur == nil {
				waitFor(x.wd(), func() bool { return actor.VerifIdleOf(x.pid) })
			}
			x.waitDeadletterIdle()
			x.drain()
		}
		deliverLocal := func(o dlOp, id int) bool {
			v := int64(id * 2)
			if o.Unh {
				v++
			}
			msg := wrapperspb.Int64(v)
			var err error
			snd, kind := o.Snd, "tell"
			switch o.Snd {
			case "S":
				err = x.sender.Tell(bg, x.pid, msg)
			case "Q": // ctx.Request from the actor Q: an AsyncRequest envelope
				kind = "req"
				done := make(chan error, 1)
				if err = actor.Tell(bg, x.reqr, &DoReq{To: x.pid, V: v, Done: done}); err == nil {
					select {
					case err = <-done:
					case <-time.After(x.wd()):
						err = errors.New("requester did not answer")
					}
				}
			case "A": // actor.Ask: returns only when its context is cancelled at the end of the history
				snd, kind = "N", "ask"
				if !running {
					_, err = actor.Ask(bg, x.pid, msg, time.Second)
				} else {
					cctx, cancel := context.WithCancel(bg)
					asks = append(asks, cancel)
					mlen0, nseen0 := x.pid.VerifMailboxLen(), len(x.seen)
					askWG.Add(1)
					go func() {
						defer askWG.Done()
						_, _ = actor.Ask(cctx, x.pid, msg, time.Hour)
					}()
					// the enqueue has happened once the message is queued, inside the handler, or dead-lettered
					waitFor(x.wd(), func() bool {
						x.drain()
						return x.pid.VerifMailboxLen() > mlen0 || len(t.enter) > 0 || len(x.seen) > nseen0
					})
				}
			default:
				err = actor.Tell(bg, x.pid, msg)
			}
			if err != nil {
				w.Emit(map[string]any{"ev": "reject", "id": id, "n": 0, "snd": snd, "rcv": "T", "k": kind})
				return false
			}
			w.Emit(map[string]any{"ev": "accept", "id": id, "n": 0, "snd": snd, "rcv": "T", "k": kind})
			return true
		}
		for _, o := range b {
			line := map[string]any{"ev": "step", "op": o.Op, "id": 0, "n": o.N, "snd": o.Snd, "rcv": o.Rcv, "unh": 0, "ok": 1, "total": 0, "pert": 0}
			if o.Unh {
				line["unh"] = 1
			}
			before := len(x.seen)
			switch o.Op {
			case "Tell":
				nid++
				line["id"] = nid
				if deliverLocal(o, nid) {
					// accepted: it is in the mailbox unless it was dropped as a dead letter (seen below)
					x.waitDeadletterIdle()
					x.drain()
					if len(x.seen) == before {
						nenq++
					}
				} else {
					line["ok"] = 0
				}
				settle()
			case "RemoteTell":
				nid++
				line["id"] = nid
				v := int64(nid * 2)
				if o.Unh {
					v++
				}
				rcv := x.taddr
				if o.Rcv == "M" {
					rcv = x.remoteAddr("missing" + strconv.Itoa(bi))
				}
				w.Emit(map[string]any{"ev": "accept", "id": nid, "n": 0, "snd": "R", "rcv": o.Rcv, "k": "remote"})
				if err := actor.VerifDeliverRemoteTell(x.sys, x.remoteAddr("remotesender"), rcv, wrapperspb.Int64(v)); err != nil {
					fatal("remote tell shim:", err)
				}
				x.waitDeadletterIdle()
				x.drain()
				if o.Rcv == "T" && running && len(x.seen) == before {
					nenq++
				}
				settle()
			case "Batch":
				var snds, rcvs []string
				var pls []any
				for i := 1; i <= o.N; i++ {
					nid++
					sname, slabel := "remotesender", "R"
					if i%2 == 0 { // the coalescer batches per destination: members come from different senders
						sname, slabel = "remotesender2", "R2"
					}
					snds = append(snds, x.remoteAddr(sname))
					rcvs = append(rcvs, fmt.Sprintf("goakt://faraway@127.0.0.1:%d/faraway%d", x.port+1, i))
					pls = append(pls, wrapperspb.Int64(int64(nid*2)))
					w.Emit(map[string]any{"ev": "accept", "id": nid, "n": 0, "snd": slabel, "rcv": "X", "k": "batch"})
				}
				line["id"] = nid - o.N + 1
				if err := actor.VerifCoalescedFailureFrom(x.sys, "127.0.0.1:"+strconv.Itoa(x.port+1), snds, rcvs, pls, errors.New("endpoint unreachable")); err != nil {
					fatal("coalesced failure shim:", err)
				}
				// the fan-out goroutine works asynchronously: wait for the n publications (bounded; once a few batches
				// have come up short the wait is cut down so that a broken fan-out does not stall the whole replay)
				bw := time.Second * slow
				if batchMisses > 3 {
					bw = 20 * time.Millisecond
				}
				if !waitFor(bw, func() bool {
					x.waitDeadletterIdle()
					x.drain()
					return len(x.seen) >= before+o.N && actor.VerifCoalescedFailureBacklog(x.sys) == 0
				}) {
					batchMisses++
				}
			case "Finish":
				if cur == nil {
					st.Drift++
					break
				}
				line["id"] = cur.id
				close(cur.release)
				cur = nil
				// the handler's own work (handled event / Unhandled) is done once the actor has moved on
				settle()
			case "Stop":
				if err := x.pid.Shutdown(bg); err != nil {
					fatal("shutdown", err)
				}
				running = false
				settle()
			case "Query":
				x.waitDeadletterIdle()
				total := x.sys.Metric(bg).DeadlettersCount() - x.base
				pert := int64(-1)
				if running {
					if m := x.pid.Metric(bg); m != nil {
						pert = int64(m.DeadlettersCount())
					}
				}
				line["total"], line["pert"] = total, pert
				w.Emit(map[string]any{"ev": "count", "id": total, "n": pert, "snd": "", "rcv": ""})
			case "Init":
				continue
			default:
				fatal("unknown op", o.Op)
			}
			dls := make([][3]any, len(x.seen))
			copy(dls, x.seen)
			mlen := 0
			if running {
				mlen = int(x.pid.VerifMailboxLen())
			}
			curID := 0
			if cur != nil {
				curID = cur.id
			}
			line["dl"], line["handled"], line["mlen"], line["cur"] = dls, t.handledIDs(), mlen, curID
			w.Emit(line)
			st.Steps++
		}
		// let everything still queued complete, then the final accounting
		free.Store(true)
		if cur != nil {
			close(cur.release)
			cur = nil
		}
		quiet := waitFor(x.wd(), func() bool {
			select {
			case d := <-t.enter:
				close(d.release)
			default:
			}
			return !running || actor.VerifIdleOf(x.pid)
		})
		// the Asks of this history give up now (each files its time-out dead letter, which is counted but is not a drop)
		for _, cancel := range asks {
			cancel()
		}
		askDone := make(chan struct{})
		go func() { askWG.Wait(); close(askDone) }()
		select {
		case <-askDone:
		case <-time.After(x.wd()):
			quiet = false
		}
		waitFor(x.wd(), func() bool { x.waitDeadletterIdle(); x.drain(); return x.ntimeout >= len(asks) })
		total := x.sys.Metric(bg).DeadlettersCount() - x.base
		w.Emit(map[string]any{"ev": "count", "id": total, "n": -1, "snd": "", "rcv": ""})
		qi := 0
		if quiet {
			qi = 1
		}
		w.Emit(map[string]any{"ev": "End", "id": qi, "n": 0, "snd": "", "rcv": ""})
		if running {
			_ = x.pid.Shutdown(bg)
		}
		st.Behaviours++
	}
	w.Emit(map[string]any{"ev": "New", "id": 0, "n": 0, "snd": "", "rcv": ""})
	st.Events = w.Count()
	w.Close()
	_ = x.sys.Stop(bg)
	printStats(st)
}

// dlStress: concurrent senders of every kind against a small non-blocking mailbox with a slow handler;
// the accounting is done at quiescence.
func dlStress(histories int, seed int64, tfile string, port int) {
	w := mustTrace(tfile)
	x := newDLWorld(port, w)
	bg := context.Background()
	rng := rand.New(rand.NewSource(seed))
	st := &dlStats{}
	lostWaits := 0
	for h := 0; h < histories; h++ {
		var free atomic.Bool
		free.Store(true)
		t := &dlTarget{w: w, enter: make(chan *dlDelivery, 1), free: &free, spin: rng.Intn(40)}
		x.newTarget(1000+h, t, 2<<rng.Intn(3))
		w.Emit(map[string]any{"ev": "New", "id": 0, "n": 0, "snd": "", "rcv": ""})
		var ids, naccepted atomic.Int64
		var wg sync.WaitGroup
		nsenders := 3 + rng.Intn(4)
		for s := 0; s < nsenders; s++ {
			kind := rng.Intn(6)
			n := 10 + rng.Intn(40)
			srng := rand.New(rand.NewSource(rng.Int63()))
			wg.Add(1)
			go func() {
				defer wg.Done()
				for i := 0; i < n; i++ {
					id := int(ids.Add(1))
					v := int64(id * 2)
					if srng.Intn(4) == 0 {
						v++
					}
					switch kind {
					case 0, 1:
						snd := "N"
						var err error
						if kind == 0 {
							snd = "S"
							err = x.sender.Tell(bg, x.pid, wrapperspb.Int64(v))
						} else {
							err = actor.Tell(bg, x.pid, wrapperspb.Int64(v))
						}
						ev := "accept"
						if err != nil {
							ev = "reject"
						} else {
							naccepted.Add(1)
						}
						w.Emit(map[string]any{"ev": ev, "id": id, "n": 0, "snd": snd, "rcv": "T", "k": "tell"})
					case 5: // ctx.Request from the actor Q (AsyncRequest envelope)
						done := make(chan error, 1)
						err := actor.Tell(bg, x.reqr, &DoReq{To: x.pid, V: v, Done: done})
						if err == nil {
							err = <-done
						}
						ev := "accept"
						if err != nil {
							ev = "reject"
						} else {
							naccepted.Add(1)
						}
						w.Emit(map[string]any{"ev": ev, "id": id, "n": 0, "snd": "Q", "rcv": "T", "k": "req"})
					case 2:
						naccepted.Add(1)
						w.Emit(map[string]any{"ev": "accept", "id": id, "n": 0, "snd": "R", "rcv": "T", "k": "remote"})
						_ = actor.VerifDeliverRemoteTell(x.sys, x.remoteAddr("remotesender"), x.taddr, wrapperspb.Int64(v))
					case 3:
						naccepted.Add(1)
						w.Emit(map[string]any{"ev": "accept", "id": id, "n": 0, "snd": "R", "rcv": "M", "k": "remote"})
						_ = actor.VerifDeliverRemoteTell(x.sys, x.remoteAddr("remotesender"), x.remoteAddr("missing"+strconv.Itoa(h)), wrapperspb.Int64(v))
					case 4:
						id2 := int(ids.Add(1))
						w.Emit(map[string]any{"ev": "accept", "id": id, "n": 0, "snd": "R", "rcv": "X", "k": "batch"})
						w.Emit(map[string]any{"ev": "accept", "id": id2, "n": 0, "snd": "R2", "rcv": "X", "k": "batch"})
						naccepted.Add(2)
						far := fmt.Sprintf("goakt://faraway@127.0.0.1:%d/faraway1", x.port+1)
						_ = actor.VerifCoalescedFailureFrom(x.sys, "127.0.0.1:1", []string{x.remoteAddr("remotesender"), x.remoteAddr("remotesender2")},
							[]string{far, far}, []any{wrapperspb.Int64(int64(id * 2)), wrapperspb.Int64(int64(id2 * 2))}, errors.New("endpoint unreachable"))
					}
					if srng.Intn(3) == 0 {
						runtime.Gosched()
					}
					st.Steps++
				}
			}()
		}
		wg.Wait()
		// quiescence, logically: every accepted message has shown up as handled or as a dead letter. The wait is
		// bounded; if it expires while everything is idle a message is really lost and the monitor reports it
		// (after a few such histories the wait is cut down so that a broken build does not stall the run).
		lw := 3 * time.Second * slow
		if lostWaits > 2 {
			lw = 100 * time.Millisecond
		}
		idle := func() bool {
			return actor.VerifIdleOf(x.pid) && actor.VerifIdleOf(x.dl) && actor.VerifCoalescedFailureBacklog(x.sys) == 0
		}
		if !waitFor(lw, func() bool {
			x.drain()
			return int64(len(x.seen)+len(t.handledIDs())) >= naccepted.Load() && idle()
		}) {
			lostWaits++
		}
		time.Sleep(time.Millisecond) // a duplicate publication would follow shortly
		x.waitDeadletterIdle()
		x.drain()
		quiet := idle()
		total := x.sys.Metric(bg).DeadlettersCount() - x.base
		pert := int64(-1)
		if m := x.pid.Metric(bg); m != nil {
			pert = int64(m.DeadlettersCount())
		}
		w.Emit(map[string]any{"ev": "count", "id": total, "n": pert, "snd": "", "rcv": ""})
		qi := 0
		if quiet {
			qi = 1
		}
		w.Emit(map[string]any{"ev": "End", "id": qi, "n": 0, "snd": "", "rcv": ""})
		_ = x.pid.Shutdown(bg)
		st.Behaviours++
	}
	w.Emit(map[string]any{"ev": "New", "id": 0, "n": 0, "snd": "", "rcv": ""})
	st.Events = w.Count()
	w.Close()
	_ = x.sys.Stop(bg)
	printStats(st)
}
