// Command streams executes TLC-enumerated stream cases (linear pipelines and
// junction graphs over a fixed stage vocabulary shared with specs/Stream/Sem.tla)
// with the REAL goakt stream API on int64 elements, on a real in-process actor
// system, and records what every sink observed.
//
//	streams sem    <cases.ndjson> <results.ndjson> [workers]   (C45 / C46 outputs)
//	streams demand <cases.ndjson> <trace.ndjson>               (protocol trace via verifhook "stream.recv")
//
// A case is
//
//	{"j":"Linear|Merge|Concat|Zip|Combine|Broadcast|Balance|Partition",
//	 "srcs":[{"inp":[..],"p":["Inc",..]},..], "post":[..], "branches":[[..],..],
//	 "x":{"d":0|n,"r":n,"fuse":0|1,"sink":"Collect|ForEach","jit":0|1}}
//
// srcs: the source pipelines (one for Linear and the fan-outs, several for the
// fan-ins); post: stages after a fan-in; branches: per-branch stages of a fan-out
// (one entry per sink). x is the execution configuration: it never changes the
// expected result.
package main

import (
	"context"
	"encoding/json"
	"fmt"
	"os"
	"regexp"
	"strconv"
	"sync"
	"sync/atomic"
	"syscall"
	"time"

	"github.com/tochemey/goakt/v4/actor"
	"github.com/tochemey/goakt/v4/internal/verifhook"
	"github.com/tochemey/goakt/v4/log"
	"github.com/tochemey/goakt/v4/stream"
	"github.com/tochemey/goakt/v4/verifharness/vtrace"
)

type srcCase struct {
	In []int64  `json:"inp"`
	P  []string `json:"p"`
}

type execCfg struct {
	D    int64  `json:"d"`    // demand window (InitialDemand) for flows and sinks; 0 = library default
	R    int64  `json:"r"`    // RefillThreshold when D > 0
	Fuse int    `json:"fuse"` // 1 = default fusion (FuseStateless), 0 = FuseNone
	Sink string `json:"sink"` // Collect | ForEach
	Jit  int    `json:"jit"`  // 1 = value-dependent sleeps in parallel workers / hook handler
}

type streamCase struct {
	ID       int        `json:"id"`
	J        string     `json:"j"`
	Srcs     []srcCase  `json:"srcs"`
	Post     []string   `json:"post"`
	Branches [][]string `json:"branches"`
	X        execCfg    `json:"x"`
	Reps     int        `json:"reps"` // > 1: materialize the SAME blueprint value (sources + flows) that many times, fresh sinks
	Par      int        `json:"par"`  // 1: the repetitions run concurrently, else one after the other
	Run      int        `json:"run"`  // which repetition this record is (1-based; set by the driver)
}

type result struct {
	streamCase
	Outs       [][]int64 `json:"outs"`
	Errs       []int64   `json:"errs"` // per sink: 0 = completed normally, v>0 = "boom" at value v, -1 = other error
	Done       []int     `json:"done"` // per sink: 1 = Done() closed in time
	ErrTxt     []string  `json:"errtxt"`
	Timeout    int       `json:"timeout"`
	Attempt    int       `json:"attempt"`    // 1, or 2 = second attempt (run alone) after a time-out / Run error
	Superseded int       `json:"superseded"` // 1 = a second attempt follows
	First      string    `json:"first"`      // what happened in the first attempt ("timeout" or the Run error)
	RunErr     string    `json:"runerr"`     // RunnableGraph.Run returned this error
	Us         int64     `json:"us"`
}

var boomRe = regexp.MustCompile(`boom@(\d+)`)

const batchWait = time.Hour // the batch timer never fires: chunking is purely by size

func jitter(x execCfg, v int64) {
	if x.Jit != 0 && v%2 == 1 {
		time.Sleep(200 * time.Microsecond)
	}
}

// via applies one vocabulary stage to src with the REAL stream constructors.
func via(src stream.Source[int64], name string, x execCfg) (stream.Source[int64], error) {
	fd := func(f stream.Flow[int64, int64]) stream.Flow[int64, int64] {
		if x.D > 0 {
			return stream.VerifFlowDemand(f, x.D, x.R)
		}
		return f
	}
	switch name {
	case "Inc":
		return stream.Via(src, fd(stream.Map(func(v int64) int64 { return v + 1 }))), nil
	case "Dbl":
		return stream.Via(src, fd(stream.Map(func(v int64) int64 { return v * 2 }))), nil
	case "Even":
		return stream.Via(src, fd(stream.Filter(func(v int64) bool { return v%2 == 0 }))), nil
	case "Odd":
		return stream.Via(src, fd(stream.Filter(func(v int64) bool { return v%2 != 0 }))), nil
	case "Err2", "Err3", "Err4":
		bad, _ := strconv.ParseInt(name[3:], 10, 64)
		return stream.Via(src, fd(stream.TryMap(func(v int64) (int64, error) {
			if v == bad {
				return 0, fmt.Errorf("boom@%d", bad)
			}
			return v, nil
		}))), nil
	case "Dup":
		return stream.Via(src, fd(stream.FlatMap(func(v int64) []int64 { return []int64{v, v} }))), nil
	case "Rep":
		return stream.Via(src, fd(stream.FlatMap(func(v int64) []int64 {
			out := []int64{}
			for i := int64(0); i < v%3; i++ {
				out = append(out, v)
			}
			return out
		}))), nil
	case "Split":
		f1 := stream.Map(func(v int64) []int64 { return []int64{v, v + 10} })
		f2 := stream.Flatten[int64]()
		if x.D > 0 {
			f1 = stream.VerifFlowDemand(f1, x.D, x.R)
			f2 = stream.VerifFlowDemand(f2, x.D, x.R)
		}
		return stream.Via(stream.Via(src, f1), f2), nil
	case "Sum":
		return stream.Via(src, fd(stream.Scan(int64(0), func(acc, v int64) int64 { return acc + v }))), nil
	case "Dedup":
		return stream.Via(src, fd(stream.Deduplicate[int64]())), nil
	case "BSum2", "BSum3", "BFlat2", "BFlat3":
		n, _ := strconv.Atoi(name[len(name)-1:])
		// the batch stage keeps the library demand window: a window smaller than the batch size can
		// only ever flush by timer (documented "flush early" behaviour), which says nothing about C45
		bs := stream.Via(src, stream.Batch[int64](n, batchWait))
		if name[1] == 'S' {
			// 100^len + sum: reveals both the chunk boundaries and the chunk sizes
			f := stream.Map(func(c []int64) int64 {
				s := int64(0)
				for _, v := range c {
					s += v
				}
				return int64(len(c))*1000 + s
			})
			if x.D > 0 {
				f = stream.VerifFlowDemand(f, x.D, x.R)
			}
			return stream.Via(bs, f), nil
		}
		f := stream.Flatten[int64]()
		if x.D > 0 {
			f = stream.VerifFlowDemand(f, x.D, x.R)
		}
		return stream.Via(bs, f), nil
	case "Buf1", "Buf2":
		n, _ := strconv.Atoi(name[3:])
		return stream.Via(src, stream.Buffer[int64](n, stream.DropTail)), nil
	case "OPar1", "OPar2", "OPar3":
		n, _ := strconv.Atoi(name[4:])
		return stream.Via(src, stream.OrderedParallelMap(n, func(v int64) int64 { jitter(x, v); return v + 1 })), nil
	case "FMC":
		return stream.Via(src, stream.FlatMapConcat(func(v int64) stream.Source[int64] { return stream.Of(v, v+10) })), nil
	case "FMM2":
		return stream.Via(src, stream.FlatMapMerge(2, func(v int64) stream.Source[int64] { jitter(x, v); return stream.Of(v, v+10) })), nil
	case "Par2", "Par3":
		n, _ := strconv.Atoi(name[3:])
		return stream.Via(src, stream.ParallelMap(n, func(v int64) int64 { jitter(x, v); return v + 1 })), nil
	}
	return src, fmt.Errorf("unknown stage %q", name)
}

func chain(src stream.Source[int64], p []string, x execCfg) (stream.Source[int64], error) {
	var err error
	for _, s := range p {
		if src, err = via(src, s, x); err != nil {
			return src, err
		}
	}
	return src, nil
}

// sinkRec is what one sink observed.
type sinkRec struct {
	mu    sync.Mutex
	items []int64
	coll  *stream.Collector[int64]
}

func (s *sinkRec) snapshot() []int64 {
	if s.coll != nil {
		return s.coll.Items()
	}
	s.mu.Lock()
	defer s.mu.Unlock()
	return append([]int64{}, s.items...)
}

func mkSink(x execCfg) (*sinkRec, stream.Sink[int64]) {
	rec := &sinkRec{}
	var sk stream.Sink[int64]
	if x.Sink == "ForEach" {
		sk = stream.ForEach(func(v int64) {
			rec.mu.Lock()
			rec.items = append(rec.items, v)
			rec.mu.Unlock()
		})
	} else {
		rec.coll, sk = stream.Collect[int64]()
	}
	if x.D > 0 {
		sk = stream.VerifSinkDemand(sk, x.D, x.R)
	}
	return rec, sk
}

// build assembles the case into one RunnableGraph per sink.
func build(c *streamCase) ([]stream.RunnableGraph, []*sinkRec, error) {
	heads, err := blueprint(c)
	if err != nil {
		return nil, nil, err
	}
	graphs, recs := attach(c, heads)
	return graphs, recs, nil
}

// attach terminates every head of a blueprint with a FRESH sink. The heads (Source values holding the
// source and flow stage descriptions) may be attached and Run several times: the stream package promises
// that a blueprint can be materialized repeatedly, every materialization with its own stage state.
func attach(c *streamCase, heads []stream.Source[int64]) ([]stream.RunnableGraph, []*sinkRec) {
	graphs := make([]stream.RunnableGraph, len(heads))
	recs := make([]*sinkRec, len(heads))
	for i, h := range heads {
		rec, sk := mkSink(c.X)
		g := h.To(sk)
		if c.X.Fuse == 0 {
			g = g.WithFusion(stream.FuseNone)
		}
		graphs[i], recs[i] = g, rec
	}
	return graphs, recs
}

// blueprint builds the sources, junction and flows of the case (everything but the sinks).
func blueprint(c *streamCase) ([]stream.Source[int64], error) {
	x := c.X
	srcs := make([]stream.Source[int64], len(c.Srcs))
	for i, sc := range c.Srcs {
		s, err := chain(stream.Of(sc.In...), sc.P, x)
		if err != nil {
			return nil, err
		}
		srcs[i] = s
	}
	var heads []stream.Source[int64] // one per sink, before the branch stages
	switch c.J {
	case "Linear":
		heads = []stream.Source[int64]{srcs[0]}
	case "Merge":
		heads = []stream.Source[int64]{stream.Merge(srcs...)}
	case "MergePref":
		heads = []stream.Source[int64]{stream.MergePreferred(0, srcs...)}
	case "Concat":
		heads = []stream.Source[int64]{stream.Concat(srcs...)}
	case "Zip":
		// positional tuples, encoded base 100 (all vocabulary values stay < 100)
		z := stream.Zip(srcs...)
		heads = []stream.Source[int64]{stream.Via(z, stream.Map(func(t []int64) int64 {
			e := int64(0)
			for _, v := range t {
				e = e*100 + v
			}
			return e
		}))}
	case "Combine":
		heads = []stream.Source[int64]{stream.Combine(srcs[0], srcs[1], func(a, b int64) int64 { return a*100 + b })}
	case "Broadcast":
		heads = stream.Broadcast(srcs[0], len(c.Branches))
	case "Balance":
		heads = stream.Balance(srcs[0], len(c.Branches))
	case "Partition":
		n := len(c.Branches)
		heads = stream.Partition(srcs[0], n, func(v int64) int { return int(v % int64(n)) })
	default:
		return nil, fmt.Errorf("unknown junction %q", c.J)
	}
	branches := c.Branches
	if len(branches) == 0 {
		branches = [][]string{{}}
	}
	if len(heads) != len(branches) {
		return nil, fmt.Errorf("case %d: %d heads for %d branches", c.ID, len(heads), len(branches))
	}
	for i, h := range heads {
		var err error
		if len(heads) == 1 {
			if h, err = chain(h, c.Post, x); err != nil {
				return nil, err
			}
		}
		if h, err = chain(h, branches[i], x); err != nil {
			return nil, err
		}
		heads[i] = h
	}
	return heads, nil
}

func classify(err error) (int64, string) {
	if err == nil {
		return 0, ""
	}
	if m := boomRe.FindStringSubmatch(err.Error()); m != nil {
		v, _ := strconv.ParseInt(m[1], 10, 64)
		return v, err.Error()
	}
	return -1, err.Error()
}

// runCase materializes the case on sys and waits for every sink.
func runCase(ctx context.Context, sys actor.ActorSystem, c *streamCase, timeout time.Duration) (*result, []string) {
	heads, err := blueprint(c)
	if err != nil {
		fmt.Fprintln(os.Stderr, "build:", err)
		os.Exit(2)
	}
	return runFrom(ctx, sys, c, heads, timeout)
}

// runFrom materializes the given blueprint (with fresh sinks) on sys and waits for every sink.
func runFrom(ctx context.Context, sys actor.ActorSystem, c *streamCase, heads []stream.Source[int64], timeout time.Duration) (*result, []string) {
	res := &result{streamCase: *c}
	t0 := time.Now()
	graphs, recs := attach(c, heads)
	handles := make([]stream.StreamHandle, len(graphs))
	ids := make([]string, len(graphs))
	for i, g := range graphs {
		h, err := g.Run(ctx, sys)
		if err != nil {
			// Run itself failed (seen: "wire stage N: actor is not alive"): nothing to wait for
			res.RunErr = err.Error()
			for _, started := range handles[:i] {
				started.Abort()
			}
			n := len(graphs)
			res.Outs, res.Errs, res.Done, res.ErrTxt = make([][]int64, n), make([]int64, n), make([]int, n), make([]string, n)
			for k := range res.Outs {
				res.Outs[k] = []int64{}
				res.Errs[k] = -1
			}
			res.Us = time.Since(t0).Microseconds()
			return res, ids
		}
		handles[i] = h
		ids[i] = h.ID()
	}
	deadline := time.After(timeout)
	res.Done = make([]int, len(handles))
	for i, h := range handles {
		select {
		case <-h.Done():
			res.Done[i] = 1
		case <-deadline:
			res.Timeout = 1
			deadline = time.After(time.Millisecond)
		}
	}
	if res.Timeout == 1 {
		for _, h := range handles {
			h.Abort()
		}
		for _, h := range handles {
			select {
			case <-h.Done():
			case <-time.After(5 * time.Second):
			}
		}
		time.Sleep(20 * time.Millisecond)
	}
	res.Outs = make([][]int64, len(handles))
	res.Errs = make([]int64, len(handles))
	res.ErrTxt = make([]string, len(handles))
	for i, h := range handles {
		if res.Done[i] == 1 {
			res.Errs[i], res.ErrTxt[i] = classify(h.Err())
		}
		done := make(chan []int64, 1)
		go func(r *sinkRec) { done <- r.snapshot() }(recs[i])
		select {
		case o := <-done:
			res.Outs[i] = o
		case <-time.After(5 * time.Second):
			res.Outs[i] = []int64{}
			res.Timeout = 1
		}
		if res.Outs[i] == nil {
			res.Outs[i] = []int64{}
		}
	}
	res.Us = time.Since(t0).Microseconds()
	return res, ids
}

func newSystem() actor.ActorSystem {
	sys, err := actor.NewActorSystem(fmt.Sprintf("verif-streams-%d", time.Now().UnixNano()), actor.WithLogger(log.DiscardLogger))
	if err != nil {
		fmt.Fprintln(os.Stderr, err)
		os.Exit(2)
	}
	if err := sys.Start(context.Background()); err != nil {
		fmt.Fprintln(os.Stderr, err)
		os.Exit(2)
	}
	return sys
}

func semMain(casesPath, outPath string, workers int) {
	cases, err := vtrace.ReadLines[streamCase](casesPath)
	if err != nil {
		fmt.Fprintln(os.Stderr, err)
		os.Exit(2)
	}
	sys := newSystem()
	defer sys.Stop(context.Background())
	ctx := context.Background()
	results := make([]*result, len(cases))
	extras := make([][]*result, len(cases)) // further repetitions of a case (Reps > 1)
	var next int64 = -1
	var firstTimeouts int64
	var wg sync.WaitGroup
	for w := 0; w < workers; w++ {
		wg.Add(1)
		go func() {
			defer wg.Done()
			for {
				// mass time-outs (a hang in the code under test, or a frozen machine): stop early instead of
				// waiting 10 s for every remaining case; what was executed is still recorded and judged
				if atomic.LoadInt64(&firstTimeouts) >= 40 {
					return
				}
				i := int(atomic.AddInt64(&next, 1))
				if i >= len(cases) {
					return
				}
				c := &cases[i]
				if c.Reps <= 1 {
					results[i], _ = runCase(ctx, sys, c, 10*time.Second)
				} else {
					// the same blueprint VALUE is materialized Reps times: stage state must not leak between runs
					heads, err := blueprint(c)
					if err != nil {
						fmt.Fprintln(os.Stderr, "build:", err)
						os.Exit(2)
					}
					runs := make([]*result, c.Reps)
					if c.Par == 1 {
						var rg sync.WaitGroup
						for k := range runs {
							rg.Add(1)
							go func(k int) {
								defer rg.Done()
								runs[k], _ = runFrom(ctx, sys, c, heads, 10*time.Second)
							}(k)
						}
						rg.Wait()
					} else {
						for k := range runs {
							runs[k], _ = runFrom(ctx, sys, c, heads, 10*time.Second)
						}
					}
					for k, r := range runs {
						r.Run = k + 1
					}
					results[i], extras[i] = runs[0], runs[1:]
				}
				if results[i].Timeout == 1 {
					atomic.AddInt64(&firstTimeouts, 1)
				}
			}
		}()
	}
	wg.Wait()
	executed := results[:0:0]
	executedCases := cases[:0:0]
	for i, r := range results {
		if r != nil {
			executed = append(executed, r)
			executedCases = append(executedCases, cases[i])
			for _, e := range extras[i] {
				executed = append(executed, e)
				executedCases = append(executedCases, cases[i])
			}
		}
	}
	skipped := 0
	for _, r := range results {
		if r == nil {
			skipped++
		}
	}
	results, cases = executed, executedCases
	// a time-out / Run error under load is re-run alone with a long deadline; both attempts are recorded
	// (the first one marked superseded) so that the monitor sees every real execution
	retried, timeouts := 0, 0
	var all []*result
	retryStart := time.Now()
	for i, r := range results {
		r.Attempt = 1
		all = append(all, r)
		if r.Timeout == 1 || r.RunErr != "" {
			if time.Since(retryStart) > 150*time.Second {
				timeouts++ // retry budget exhausted: stays a first attempt without a second one
				continue
			}
			retried++
			r.Superseded = 1
			second, _ := runCase(ctx, sys, &cases[i], 30*time.Second)
			second.Attempt = 2
			second.Run = r.Run
			second.First = "timeout"
			if r.RunErr != "" {
				second.First = r.RunErr
			}
			if second.Timeout == 1 {
				timeouts++
			}
			all = append(all, second)
		}
	}
	results = all
	w, err := vtrace.Create(outPath)
	if err != nil {
		fmt.Fprintln(os.Stderr, err)
		os.Exit(2)
	}
	var us int64
	for _, r := range results {
		w.Raw(r)
		us += r.Us
	}
	if err := w.Close(); err != nil {
		fmt.Fprintln(os.Stderr, err)
		os.Exit(2)
	}
	fmt.Printf("{\"cases\":%d,\"retried\":%d,\"timeouts\":%d,\"skipped\":%d,\"mean_us\":%d}\n", len(cases), retried, timeouts, skipped, us/int64(max(len(cases), 1)))
}

// ---------------------------------------------------------------- demand trace

// recorder is the verifhook handler of the demand runs: every "stream.recv" hit is
// projected through stream.VerifProbe and appended to the global event list.
type recorder struct {
	mu     sync.Mutex
	events []map[string]any
	jit    bool
	n      uint64
}

var stageRe = regexp.MustCompile(`^stream-(\d+)-(\d+)$`)

func (r *recorder) At(point string, obj any, _, _ int64) {
	if point != "stream.recv" {
		return
	}
	rctx, ok := obj.(*actor.ReceiveContext)
	if !ok {
		return
	}
	ev, ok := stream.VerifProbe(rctx)
	if !ok {
		return
	}
	m := stageRe.FindStringSubmatch(ev.Stage)
	if m == nil || ev.Msg == "other" { // lifecycle messages (PostStart ...) are not part of the protocol
		return
	}
	idx, _ := strconv.Atoi(m[2])
	val := int64(-1)
	switch v := ev.Val.(type) {
	case int64:
		val = v
	case []int64:
		val = int64(len(v)) * 1000
		for _, e := range v {
			val += e
		}
	}
	cpl := 0
	if ev.Completing {
		cpl = 1
	}
	r.mu.Lock()
	r.n++
	k := r.n
	r.events = append(r.events, map[string]any{"op": "Recv", "sid": m[1], "node": idx, "kind": ev.Kind, "msg": ev.Msg,
		"n": ev.N, "val": val, "credit": ev.Credit, "demand": ev.Demand, "buf": ev.Buf, "cpl": cpl})
	r.mu.Unlock()
	if r.jit && (k*2654435761)%7 < 2 {
		time.Sleep(time.Duration(50+(k*40503)%300) * time.Microsecond)
	}
}

func (r *recorder) Fault(string, any, int64) int { return 0 }

// actorChain lists, for a linear case run with fusion off, the kind and the demand window of every
// stage ACTOR between source and sink (a BSumN stage is two actors: the batch actor and the Map that
// encodes the chunk, which is the identity on the recorded value), followed by the sink's window.
func actorChain(c *streamCase) ([]string, []map[string]int64) {
	win := func(d, r int64) map[string]int64 { return map[string]int64{"d": d, "r": r} }
	fd, fr := int64(224), int64(64)
	if c.X.D > 0 {
		fd, fr = c.X.D, c.X.R
	}
	kinds := []string{}
	wins := []map[string]int64{}
	for _, s := range c.Srcs[0].P {
		switch s {
		case "BSum2", "BSum3":
			kinds = append(kinds, s, "Id")
			wins = append(wins, win(224, 64), win(fd, fr))
		case "Buf1", "Buf2":
			n, _ := strconv.ParseInt(s[3:], 10, 64)
			kinds = append(kinds, "Id")
			wins = append(wins, win(n, n/4))
		default:
			kinds = append(kinds, s)
			wins = append(wins, win(fd, fr))
		}
	}
	wins = append(wins, win(fd, fr))
	return kinds, wins
}

func demandMain(casesPath, outPath string) {
	cases, err := vtrace.ReadLines[streamCase](casesPath)
	if err != nil {
		fmt.Fprintln(os.Stderr, err)
		os.Exit(2)
	}
	sys := newSystem()
	defer sys.Stop(context.Background())
	ctx := context.Background()
	w, err := vtrace.Create(outPath)
	if err != nil {
		fmt.Fprintln(os.Stderr, err)
		os.Exit(2)
	}
	timeouts := 0
	for i := range cases {
		c := &cases[i]
		rec := &recorder{jit: c.X.Jit != 0}
		verifhook.Install(rec)
		res, ids := runCase(ctx, sys, c, 10*time.Second)
		time.Sleep(2 * time.Millisecond) // let the last stage actors finish their turn
		verifhook.Uninstall()
		rec.mu.Lock()
		evs := rec.events
		rec.mu.Unlock()
		if res.Timeout == 1 {
			timeouts++
		}
		kinds, wins := actorChain(c)
		inp := c.Srcs[0].In
		if inp == nil {
			inp = []int64{}
		}
		hdr := map[string]any{"op": "New", "id": c.ID, "p": c.Srcs[0].P, "x": c.X, "kinds": kinds, "w": wins, "inp": inp,
			"outs": res.Outs, "errs": res.Errs, "done": res.Done, "timeout": res.Timeout}
		w.Raw(hdr)
		for _, e := range evs {
			if e["sid"] == ids[0] {
				delete(e, "sid")
				w.Raw(e)
			}
		}
	}
	n := w.Count()
	if err := w.Close(); err != nil {
		fmt.Fprintln(os.Stderr, err)
		os.Exit(2)
	}
	fmt.Printf("{\"cases\":%d,\"events\":%d,\"timeouts\":%d}\n", len(cases), n, timeouts)
}

// spinMain is the witness of the fixed finding StoppedStageSpinsWorker: n trivial pipelines are run one
// after the other on ONE actor system (each is given `each` to complete), then the process' own CPU
// consumption is measured while the system is idle. Before the fix every stage actor that stopped with
// messages left in its disposed BoundedMailbox kept one dispatcher worker spinning: after ~NumCPU
// pipelines nothing completes any more and the idle system burns CPU.
func spinMain(outPath string, n int, each time.Duration) {
	sys := newSystem()
	ctx := context.Background()
	w, err := vtrace.Create(outPath)
	if err != nil {
		fmt.Fprintln(os.Stderr, err)
		os.Exit(2)
	}
	completed := 0
	for i := 0; i < n; i++ {
		c := &streamCase{ID: i + 1, J: "Linear", Srcs: []srcCase{{In: []int64{1, 2, 3}, P: []string{"Inc"}}}, Post: []string{},
			Branches: [][]string{{}}, X: execCfg{Fuse: 1, Sink: "Collect"}}
		res, _ := runCase(ctx, sys, c, each)
		if res.Timeout == 0 {
			completed++
		}
		w.Raw(res)
	}
	time.Sleep(200 * time.Millisecond)
	cpu0 := processCPU()
	t0 := time.Now()
	time.Sleep(500 * time.Millisecond)
	burn := float64(processCPU()-cpu0) / float64(time.Since(t0))
	if err := w.Close(); err != nil {
		fmt.Fprintln(os.Stderr, err)
		os.Exit(2)
	}
	fmt.Printf("{\"cases\":%d,\"completed\":%d,\"idle_cpu_cores\":%.2f}\n", n, completed, burn)
	done := make(chan struct{})
	go func() { _ = sys.Stop(context.Background()); close(done) }()
	select {
	case <-done:
	case <-time.After(10 * time.Second):
	}
}

func processCPU() time.Duration {
	var ru syscall.Rusage
	if err := syscall.Getrusage(syscall.RUSAGE_SELF, &ru); err != nil {
		return 0
	}
	return time.Duration(ru.Utime.Nano() + ru.Stime.Nano())
}

func main() {
	if len(os.Args) == 5 && os.Args[1] == "spin" {
		n, _ := strconv.Atoi(os.Args[3])
		ms, _ := strconv.Atoi(os.Args[4])
		spinMain(os.Args[2], n, time.Duration(ms)*time.Millisecond)
		return
	}
	if len(os.Args) >= 4 && os.Args[1] == "sem" {
		workers := 8
		if len(os.Args) >= 5 {
			workers, _ = strconv.Atoi(os.Args[4])
		}
		semMain(os.Args[2], os.Args[3], workers)
		return
	}
	if len(os.Args) == 4 && os.Args[1] == "demand" {
		demandMain(os.Args[2], os.Args[3])
		return
	}
	if len(os.Args) == 3 && os.Args[1] == "one" {
		// debugging aid: run one case given as JSON on the command line, print the result
		var c streamCase
		if err := json.Unmarshal([]byte(os.Args[2]), &c); err != nil {
			fmt.Fprintln(os.Stderr, err)
			os.Exit(2)
		}
		sys := newSystem()
		defer sys.Stop(context.Background())
		res, _ := runCase(context.Background(), sys, &c, 5*time.Second)
		b, _ := json.Marshal(res)
		fmt.Println(string(b))
		return
	}
	fmt.Fprintln(os.Stderr, "usage: streams sem <cases> <results> [workers] | demand <cases> <trace> | spin <results> <n> <ms-each> | one '<case json>'")
	os.Exit(2)
}
