// Command readyqueue drives the REAL goakt dispatcher ready queue
// (actor/ready_queue.go, worker.go, dispatcher.go) for property C05.
//
//	readyqueue replay <workers> <behaviours.ndjson> <events.ndjson> <steps.ndjson>
//	    executes TLC behaviours of specs/ReadyQueue/ReadyQueue.tla (walks of its state graph) one
//	    atomic step at a time through the puppet scheduler (verifhook gates in ready_queue.go).
//	readyqueue stress <rq|disp> <workers> <histories> <seed> <events.ndjson>
//	    free-running pushers / workers / close; "rq" = harness goroutines calling take,
//	    "disp" = the real dispatcher with its real worker goroutines (worker.run).
//	readyqueue seq <behaviours.ndjson> <events.ndjson> <ops.ndjson>
//	    sequential macro-operation behaviours of specs/ReadyQueue/RQSeq.tla (real ring capacities).
//
// events.ndjson is judged by specs/ReadyQueue/Trace_RQMon.tla (the property monitor),
// steps.ndjson / ops.ndjson by the conformance specs Trace_ReadyQueue.tla / Trace_RQSeq.tla.
package main

import (
	"encoding/json"
	"fmt"
	"math/rand"
	"os"
	"runtime"
	"sort"
	"strconv"
	"sync"
	"sync/atomic"
	"time"

	"github.com/tochemey/goakt/v4/actor"
	"github.com/tochemey/goakt/v4/verifharness/sched"
	"github.com/tochemey/goakt/v4/verifharness/vtrace"
)

func fatal(v ...any) {
	fmt.Fprintln(os.Stderr, v...)
	os.Exit(2)
}

// ---------------------------------------------------------------- event log (monitor input)

type events struct{ w *vtrace.Writer }

func (e events) emit(ev, t string, id int, ws []string, n, g int, ls []int, run []string) {
	if ws == nil {
		ws = []string{}
	}
	if ls == nil {
		ls = []int{}
	}
	if run == nil {
		run = []string{}
	}
	e.w.Emit(map[string]any{"ev": ev, "t": t, "id": id, "ws": ws, "n": n, "g": g, "ls": ls, "run": run})
}
func (e events) simple(ev, t string, id int) { e.emit(ev, t, id, nil, 0, 0, nil, nil) }

// guard runs one call into the real code; a panic there is recorded as an observation ("panic") and stops
// further generation (the queue's mutexes may be left locked, so the history is not finalized).
var panicked atomic.Bool

func guard(ev events, t string, f func()) (ok bool) {
	defer func() {
		if r := recover(); r != nil {
			panicked.Store(true)
			deadlineHits.Store(maxDeadlineHits)
			ev.emit("panic", t, 0, nil, 0, 0, nil, []string{fmt.Sprint(r)})
			ok = false
		}
	}()
	f()
	return true
}

// waitOrPanic waits for wg; it gives up (false) when a guarded call has panicked, because other threads may
// then block forever on a mutex the panicking call left locked.
func waitOrPanic(wg *sync.WaitGroup) bool {
	ch := make(chan struct{})
	go func() { wg.Wait(); close(ch) }()
	for {
		select {
		case <-ch:
			return !panicked.Load()
		case <-time.After(20 * time.Millisecond):
			if panicked.Load() {
				return false
			}
		}
	}
}

// quiescence deadline: operations take microseconds; the deadline is only reached when something is
// really stuck (it then becomes a monitor finding, so it is deliberately generous)
var quiesceDeadline = 10 * time.Second

// number of histories whose quiescence deadline expired; generation stops after maxDeadlineHits of them
var deadlineHits atomic.Int64

const maxDeadlineHits = 3

func wname(i int) string { return "w" + strconv.Itoa(i) }

// ---------------------------------------------------------------- replay

type step struct {
	A    string   `json:"a"`
	Args []any    `json:"args"`
	Wk   []string `json:"wk"` // workers in `woken` after the step (model)
}

var pointOf = map[string]string{
	"TakeCall": "take", "LPushCall": "lpush", "PushCall": "push", "CloseCall": "close",
	"LPopProbe": "rq.lpop.probe", "LPopLock": "rq.lpop.lock", "LPopStore": "rq.lpop.store",
	"GPopProbe": "rq.gpop.probe", "GPopLock": "rq.gpop.lock", "GPopStore": "rq.gpop.store",
	"StealProbe": "rq.steal.probe", "StealLock1": "rq.steal.lock1", "StealLock2": "rq.steal.lock2",
	"StealStore1": "rq.steal.store1", "StealStore2": "rq.steal.store2",
	"ParkLock": "rq.park.lock", "ParkStore": "rq.park.store", "ParkWait": "rq.park.wait",
	"LPushLock": "rq.lpush.lock", "LPushStore": "rq.lpush.store",
	"PushLock": "rq.push.lock", "PushStore": "rq.push.store", "CloseLock": "rq.close.lock",
}

type replayStats struct {
	Behaviours int      `json:"behaviours"`
	Steps      int      `json:"steps"`
	Drift      int      `json:"drift"`
	Watchdog   int      `json:"watchdog"`
	Events     int64    `json:"events"`
	StepLines  int64    `json:"step_lines"`
	DriftAt    []string `json:"drift_at"`
	Aborted    bool     `json:"aborted"` // stopped early: too much drift or repeated quiescence deadlines
}

// tracker of harness-side thread state (what the monitor calls "blocked" / "running")
type tracker struct {
	mu     sync.Mutex
	done   map[string]bool
	inTake map[string]bool
	exited map[string]bool
}

func newTracker() *tracker {
	return &tracker{done: map[string]bool{}, inTake: map[string]bool{}, exited: map[string]bool{}}
}
func (t *tracker) set(m map[string]bool, k string, v bool) { t.mu.Lock(); m[k] = v; t.mu.Unlock() }

// finalize: wait for quiescence, record it, close if needed, join, drain. threads = every logical thread
// name; workers = names of worker threads.
func finalize(q *actor.VerifReadyQueue, ev events, tr *tracker, threads []string, nworkers int, closeCalled func() bool,
	doClose func(), waitExit func(d time.Duration) []string, tick func()) {
	if panicked.Load() {
		return
	}
	deadline := time.Now().Add(quiesceDeadline)
	var blocked, running []string
	parked, g := -1, -1
	ls := make([]int, nworkers)
	for {
		blocked, running = nil, nil
		tr.mu.Lock()
		for _, t := range threads {
			switch {
			case tr.done[t]:
			case tr.inTake[t]:
				blocked = append(blocked, t)
			default:
				running = append(running, t)
			}
		}
		tr.mu.Unlock()
		if len(running) == 0 {
			if closeCalled() {
				// closed: quiescent when every worker has left take
				if len(blocked) == 0 {
					if g2, ls2, p2, ok := q.TryLens(); ok {
						g, ls, parked = g2, ls2, p2
						break
					}
				}
			} else if g2, ls2, p2, ok := q.TryLens(); ok {
				// open: quiescent when the blocked workers sleep on the condvar and nothing is queued. `parked`
				// also counts signalled workers that have not run yet, so queued work + parked workers is a
				// verdict only if it persists until the deadline.
				g, ls, parked = g2, ls2, p2
				empty := g == 0
				for _, n := range ls {
					if n > 0 {
						empty = false
					}
				}
				if parked == len(blocked) && (empty || len(blocked) == 0) {
					break
				}
			}
		}
		if time.Now().After(deadline) {
			deadlineHits.Add(1)
			break
		}
		if tick != nil {
			tick()
		}
		time.Sleep(100 * time.Microsecond)
	}
	sort.Strings(blocked)
	sort.Strings(running)
	ev.emit("quiesce", "", 0, blocked, parked, g, ls, running)
	if !closeCalled() {
		ev.simple("close", "h", 0)
		if !guard(ev, "h", doClose) {
			return
		}
	}
	notExited := waitExit(quiesceDeadline)
	sort.Strings(notExited)
	ev.emit("joined", "", 0, notExited, 0, 0, nil, nil)
	if len(notExited) == 0 && len(running) == 0 {
		// drain what is left through the real take (never blocks: the queue is closed)
		for i := 0; i < nworkers; i++ {
			for {
				var it *actor.VerifItem
				var ok bool
				if !guard(ev, "h", func() { it, ok = q.Take(i) }) {
					return
				}
				if !ok || it == nil {
					break
				}
				ev.simple("drain", "h", it.ID)
			}
		}
	}
}

func replay(nworkers int, behaviours [][]step, ev events, stepw *vtrace.Writer, st *replayStats) {
	for bi, b := range behaviours {
		if deadlineHits.Load() >= maxDeadlineHits || st.Drift >= 40 {
			st.Aborted = true
			break
		}
		ev.w.Raw(map[string]any{"ev": "New", "t": "", "id": 0, "ws": []string{}, "n": 0, "g": 0, "ls": []int{}, "run": []string{}})
		stepw.Raw(map[string]any{"a": "New"})
		q := actor.VerifNewReadyQueue(nworkers)
		s := sched.New()
		s.Watchdog = time.Second
		for _, o := range q.Objs() {
			s.Control(o)
		}
		tr := newTracker()
		var closeCalled atomic.Bool
		// thread programs
		progs := map[string][]string{}
		var order []string
		for _, x := range b {
			var op string
			switch x.A {
			case "TakeCall":
				op = "take"
			case "LPushCall":
				op = "lpush"
			case "PushCall":
				op = "push"
			case "CloseCall":
				op = "close"
			default:
				continue
			}
			t := "c"
			if len(x.Args) > 0 {
				t = x.Args[0].(string)
			}
			if _, ok := progs[t]; !ok {
				order = append(order, t)
			}
			progs[t] = append(progs[t], op)
		}
		for _, t := range order {
			t := t
			prog := progs[t]
			idx, _ := strconv.Atoi(t[1:])
			if _, err := s.Go(t, func() {
				defer tr.set(tr.done, t, true)
				k := 0
				for _, op := range prog {
					s.Yield(op, 0, 0)
					switch op {
					case "take":
						tr.set(tr.inTake, t, true)
						var it *actor.VerifItem
						var ok bool
						if !guard(ev, t, func() { it, ok = q.Take(idx) }) {
							return
						}
						tr.set(tr.inTake, t, false)
						if !ok {
							ev.simple("exit", t, 0)
							tr.set(tr.exited, t, true)
							return
						}
						id := -1
						if it != nil {
							id = it.ID
						}
						ev.simple("take", t, id)
					case "lpush":
						k++
						id := 100 + idx*10 + k
						ev.simple("issue", t, id)
						if !guard(ev, t, func() { q.PushLocal(idx, &actor.VerifItem{ID: id}) }) {
							return
						}
					case "push":
						k++
						id := idx*10 + k
						ev.simple("issue", t, id)
						if !guard(ev, t, func() { q.Push(&actor.VerifItem{ID: id}) }) {
							return
						}
					case "close":
						closeCalled.Store(true)
						ev.simple("close", t, 0)
						if !guard(ev, t, q.Close) {
							return
						}
					}
				}
			}); err != nil {
				fatal("go", err)
			}
		}
		released := map[string]bool{} // inside cond.Wait (or on its way out), not yet awaited
		drift := ""
		callPoint := map[string]bool{"take": true, "lpush": true, "push": true, "close": true}
		// observeQuiet records an observation when no operation is in flight: every thread is between two
		// operations (parked at a driver-side call gate), finished, or asleep inside cond.Wait. "rest": some
		// worker is inside its turn, the global ring must be empty if anybody sleeps; "quiesce": every worker
		// sleeps or has exited, all rings must be empty. A sleeping worker next to queued work is re-read
		// until the deadline (a signalled worker needs microseconds to get going).
		observeQuiet := func() {
			var waiting []string
			workersQuiet := true
			for _, t := range order {
				if released[t] {
					waiting = append(waiting, t)
					continue
				}
				pend, parked := s.Pending(t)
				if !parked || !(pend.Done || callPoint[pend.Point]) {
					return // an operation is in flight
				}
				if t[0] == 'w' {
					// a worker between two operations is inside its turn and will come back to take:
					// only sleeping or exited workers are quiet (ReadyQueue.tla: Quiet vs AtRest)
					tr.mu.Lock()
					ex := tr.exited[t]
					tr.mu.Unlock()
					if !ex {
						workersQuiet = false
					}
				}
			}
			if len(waiting) == 0 || closeCalled.Load() {
				return
			}
			sort.Strings(waiting)
			kind := "rest"
			if workersQuiet {
				kind = "quiesce"
			}
			deadline := time.Now().Add(quiesceDeadline)
			for {
				g, ls, parked, ok := q.TryLens()
				queued := g > 0
				if workersQuiet {
					for _, n := range ls {
						queued = queued || n > 0
					}
				}
				if ok && !queued {
					ev.emit(kind, "", 0, waiting, parked, g, ls, nil)
					return
				}
				if time.Now().After(deadline) {
					deadlineHits.Add(1)
					if ok {
						ev.emit(kind, "", 0, waiting, parked, g, ls, nil)
					}
					return
				}
				time.Sleep(100 * time.Microsecond)
			}
		}
		settle := func(w string) bool {
			if !released[w] {
				return true
			}
			if _, err := s.Await(w); err != nil {
				return false
			}
			delete(released, w)
			return true
		}
		for si, x := range b {
			if x.A == "Done" {
				continue
			}
			t := "c"
			if len(x.Args) > 0 {
				t = x.Args[0].(string)
			}
			switch x.A {
			case "Wake":
				if !settle(t) {
					drift = fmt.Sprintf("b%d s%d Wake(%s): signalled worker did not come back", bi, si, t)
				}
			case "ParkWait":
				pend, parked := s.Pending(t)
				if !parked || pend.Done || pend.Point != pointOf[x.A] {
					drift = fmt.Sprintf("b%d s%d %s(%s): thread at %v", bi, si, x.A, t, pend)
					break
				}
				if err := s.Release(t); err != nil {
					drift = fmt.Sprintf("b%d s%d release %s: %v", bi, si, t, err)
					break
				}
				released[t] = true
				dl := time.Now().Add(2 * time.Second)
				for !q.TryParkMu() {
					if time.Now().After(dl) {
						drift = fmt.Sprintf("b%d s%d ParkWait(%s): parkMu not released", bi, si, t)
						break
					}
					runtime.Gosched()
				}
			default:
				want, ok := pointOf[x.A]
				if !ok {
					fatal("unknown action", x.A)
				}
				pend, parked := s.Pending(t)
				if !parked || pend.Done || pend.Point != want {
					drift = fmt.Sprintf("b%d s%d %s(%s): thread at %v", bi, si, x.A, t, pend)
					break
				}
				if _, err := s.Step(t); err != nil {
					if _, ok := err.(sched.ErrWatchdog); ok {
						st.Watchdog++
					}
					drift = fmt.Sprintf("b%d s%d %s(%s): %v", bi, si, x.A, t, err)
				}
			}
			if drift != "" {
				observeQuiet()
				break
			}
			// signalled workers leave cond.Wait on their own: wait until they are parked again
			for _, w := range x.Wk {
				if !settle(w) {
					drift = fmt.Sprintf("b%d s%d %s(%s): signalled worker %s did not come back", bi, si, x.A, t, w)
					break
				}
			}
			if drift != "" {
				observeQuiet()
				break
			}
			st.Steps++
			observeQuiet()
			sh := q.Shape()
			wk := x.Wk
			if wk == nil {
				wk = []string{}
			}
			stepw.Raw(map[string]any{"a": x.A, "t": t, "g": sh.Global, "l": sh.Locals, "gc": sh.GlobalCount, "la": sh.LocalAtomic,
				"pk": sh.Parked, "cl": sh.Closed, "wk": wk})
		}
		if drift != "" {
			st.Drift++
			if len(st.DriftAt) < 5 {
				st.DriftAt = append(st.DriftAt, drift)
			}
			stepw.Raw(map[string]any{"a": "Drift"})
		}
		s.FreeRun()
		// a released thread that reached a gate just before the gates opened is parked unobserved: let it go
		unstick := func() {
			for w := range released {
				if p, ok := s.TryAwait(w, time.Microsecond); ok {
					if p.Done {
						delete(released, w)
					} else {
						_ = s.Release(w)
					}
				}
			}
		}
		finalize(q, ev, tr, order, nworkers, closeCalled.Load, q.Close, func(d time.Duration) []string {
			dl := time.Now().Add(d)
			for !s.Join(5*time.Millisecond) && time.Now().Before(dl) {
				unstick()
			}
			var ne []string
			tr.mu.Lock()
			for _, t := range order {
				if !tr.done[t] {
					ne = append(ne, t)
				}
			}
			tr.mu.Unlock()
			return ne
		}, unstick)
		s.Close()
		st.Behaviours++
	}
	ev.w.Raw(map[string]any{"ev": "End", "t": "", "id": 0, "ws": []string{}, "n": 0, "g": 0, "ls": []int{}, "run": []string{}})
}

// ---------------------------------------------------------------- stress

// one history: nworkers workers, 1-3 pushers, bursts that overflow the local ring (256) and grow the global
// ring (64), random close.
func stressRQ(nworkers int, rng *rand.Rand, ev events) {
	q := actor.VerifNewReadyQueue(nworkers)
	tr := newTracker()
	var closeCalled atomic.Bool
	var threads []string
	var wg sync.WaitGroup
	var nextID atomic.Int64
	nextID.Store(1000)
	npush := 1 + rng.Intn(3)
	scenario := rng.Intn(4)
	// per-worker scripts drawn up front (the rng is not shared with the goroutines)
	type wscript struct {
		burstAfter int // after this many takes push a burst locally
		burst      int
		yields     int
	}
	ws := make([]wscript, nworkers)
	for i := range ws {
		ws[i] = wscript{burstAfter: rng.Intn(4), burst: []int{0, 1, 3, 40, 300, 600}[rng.Intn(6)], yields: rng.Intn(3)}
		if scenario == 0 {
			ws[i].burst = []int{0, 1, 2}[rng.Intn(3)]
		}
	}
	for i := 0; i < nworkers; i++ {
		i := i
		t := wname(i)
		threads = append(threads, t)
		sc := ws[i]
		wg.Add(1)
		go func() {
			defer wg.Done()
			defer tr.set(tr.done, t, true)
			takes := 0
			for {
				tr.set(tr.inTake, t, true)
				var it *actor.VerifItem
				var ok bool
				if !guard(ev, t, func() { it, ok = q.Take(i) }) {
					return
				}
				tr.set(tr.inTake, t, false)
				if !ok {
					ev.simple("exit", t, 0)
					tr.set(tr.exited, t, true)
					return
				}
				id := -1
				if it != nil {
					id = it.ID
				}
				ev.simple("take", t, id)
				takes++
				for y := 0; y < sc.yields; y++ {
					runtime.Gosched()
				}
				if takes == sc.burstAfter+1 {
					for k := 0; k < sc.burst; k++ {
						id := int(nextID.Add(1))
						ev.simple("issue", t, id)
						if !guard(ev, t, func() { q.PushLocal(i, &actor.VerifItem{ID: id}) }) {
							return
						}
					}
				}
			}
		}()
	}
	var pwg sync.WaitGroup
	for p := 1; p <= npush; p++ {
		t := "p" + strconv.Itoa(p)
		n := []int{1, 2, 5, 70, 200}[rng.Intn(5)]
		if scenario == 0 {
			n = 1 + rng.Intn(3)
		}
		pause := rng.Intn(3)
		pwg.Add(1)
		go func() {
			defer pwg.Done()
			for k := 0; k < n; k++ {
				id := int(nextID.Add(1))
				ev.simple("issue", t, id)
				if !guard(ev, t, func() { q.Push(&actor.VerifItem{ID: id}) }) {
					return
				}
				if pause == 1 {
					runtime.Gosched()
				} else if pause == 2 && k%16 == 0 {
					time.Sleep(20 * time.Microsecond)
				}
			}
		}()
	}
	earlyClose := rng.Intn(4) == 0
	if earlyClose {
		d := time.Duration(rng.Intn(300)) * time.Microsecond
		pwg.Add(1)
		go func() {
			defer pwg.Done()
			time.Sleep(d)
			closeCalled.Store(true)
			ev.simple("close", "c", 0)
			guard(ev, "c", q.Close)
		}()
	}
	if !waitOrPanic(&pwg) {
		return // a queue operation panicked (its mutexes may be left locked): the history ends here
	}
	finalize(q, ev, tr, threads, nworkers, closeCalled.Load, q.Close, func(d time.Duration) []string {
		ch := make(chan struct{})
		go func() { wg.Wait(); close(ch) }()
		select {
		case <-ch:
		case <-time.After(d):
		}
		var ne []string
		tr.mu.Lock()
		for _, t := range threads {
			if !tr.done[t] {
				ne = append(ne, t)
			}
		}
		tr.mu.Unlock()
		return ne
	}, nil)
}

// exitObserver records "worker.exit" hook hits of a real dispatcher.
type exitObserver struct {
	mu     sync.Mutex
	exited map[int]bool
}

func stressDisp(nworkers int, rng *rand.Rand, ev events) {
	d := actor.VerifNewDispatcher(nworkers)
	q := d.Queue()
	s := sched.New() // no logical threads: hooks only observe
	s.Control(d.Obj())
	xo := &exitObserver{exited: map[int]bool{}}
	tr := newTracker()
	s.Obs = func(thread, point string, obj any, a, b int64) {
		if point == "worker.exit" {
			xo.mu.Lock()
			xo.exited[int(a)] = true
			xo.mu.Unlock()
			t := wname(int(a))
			ev.simple("exit", t, 0)
			tr.mu.Lock()
			tr.inTake[t] = false
			tr.done[t] = true
			tr.mu.Unlock()
		}
	}
	defer s.Close()
	var threads []string
	for i := 0; i < nworkers; i++ {
		threads = append(threads, wname(i))
		tr.inTake[wname(i)] = true // a real worker is inside take whenever it is not inside runTurn
	}
	var nextID atomic.Int64
	nextID.Store(1000)
	var closeCalled atomic.Bool
	resched := []int{0, 0, 1, 3, 300}[rng.Intn(5)]
	var bigBursts atomic.Int64 // at most two local-ring overflows per history (keeps traces small)
	var onTurn func(w int, it *actor.VerifItem, reschedule func(*actor.VerifItem))
	onTurn = func(w int, it *actor.VerifItem, reschedule func(*actor.VerifItem)) {
		t := wname(w)
		tr.set(tr.inTake, t, false)
		ev.simple("take", t, it.ID)
		if it.ID%7 == 0 { // this "actor" exhausts its throughput budget: re-enqueue on the local ring
			n := resched
			if n > 3 && bigBursts.Add(1) > 2 {
				n = 1
			}
			for k := 0; k < n; k++ {
				id := int(nextID.Add(1))*7 + 1 // not divisible by 7: rescheduled items end their turn
				ev.simple("issue", t, id)
				reschedule(&actor.VerifItem{ID: id, OnTurn: onTurn})
			}
		}
		tr.set(tr.inTake, t, true)
	}
	d.Start()
	npush := 1 + rng.Intn(3)
	var pwg sync.WaitGroup
	for p := 1; p <= npush; p++ {
		t := "p" + strconv.Itoa(p)
		n := []int{1, 3, 70, 200}[rng.Intn(4)]
		pwg.Add(1)
		go func() {
			defer pwg.Done()
			for k := 0; k < n; k++ {
				id := int(nextID.Add(1)) * 7
				if k%3 != 0 {
					id++
				}
				ev.simple("issue", t, id)
				if !guard(ev, t, func() { d.Schedule(&actor.VerifItem{ID: id, OnTurn: onTurn}) }) {
					return
				}
				if k%8 == 0 {
					runtime.Gosched()
				}
			}
		}()
	}
	if rng.Intn(4) == 0 {
		dly := time.Duration(rng.Intn(300)) * time.Microsecond
		pwg.Add(1)
		go func() {
			defer pwg.Done()
			time.Sleep(dly)
			closeCalled.Store(true)
			ev.simple("close", "c", 0)
			d.SignalStop()
		}()
	}
	if !waitOrPanic(&pwg) {
		return // a queue operation panicked (its mutexes may be left locked): the history ends here
	}
	finalize(q, ev, tr, threads, nworkers, closeCalled.Load, d.SignalStop, func(dl time.Duration) []string {
		deadline := time.Now().Add(dl)
		for {
			xo.mu.Lock()
			n := len(xo.exited)
			xo.mu.Unlock()
			if n == nworkers || time.Now().After(deadline) {
				break
			}
			time.Sleep(100 * time.Microsecond)
		}
		var ne []string
		xo.mu.Lock()
		for i := 0; i < nworkers; i++ {
			if !xo.exited[i] {
				ne = append(ne, wname(i))
			}
		}
		xo.mu.Unlock()
		return ne
	}, nil)
}

// ---------------------------------------------------------------- sequential macro operations

type seqOp struct {
	Op string `json:"op"`
	W  int    `json:"w"`
	N  int    `json:"n"`
}

type seqStats struct {
	Behaviours int   `json:"behaviours"`
	Ops        int   `json:"ops"`
	Skipped    int   `json:"skipped_takes"` // takes the model expected to succeed but the real queue was empty
	Events     int64 `json:"events"`
	OpLines    int64 `json:"op_lines"`
	Spills     int   `json:"spills"`
	Grows      int   `json:"grows"`
	Steals     int   `json:"multi_item_steals"`
}

func seqReplay(nworkers int, behaviours [][]seqOp, ev events, opw *vtrace.Writer, st *seqStats) {
	for _, b := range behaviours {
		if deadlineHits.Load() >= maxDeadlineHits {
			break
		}
		ev.w.Raw(map[string]any{"ev": "New", "t": "", "id": 0, "ws": []string{}, "n": 0, "g": 0, "ls": []int{}, "run": []string{}})
		opw.Raw(map[string]any{"op": "New"})
		q := actor.VerifNewReadyQueue(nworkers)
		tr := newTracker()
		closed := false
		next := 1
		line := func(op string, w, n int, ids []int, exit bool) {
			g, ls, _, _ := q.TryLens()
			sh := q.Shape()
			if ids == nil {
				ids = []int{}
			}
			opw.Raw(map[string]any{"op": op, "w": w, "n": n, "ids": ids, "exit": exit, "gl": g, "ll": ls, "gcap": sh.GlobalCap})
		}
		stuck := false
		for _, o := range b {
			if stuck {
				break
			}
			st.Ops++
			switch o.Op {
			case "push", "lpush":
				ids := make([]int, 0, o.N)
				capBefore := q.Shape().GlobalCap
				gBefore, _, _, _ := q.TryLens()
				for k := 0; k < o.N; k++ {
					id := next
					next++
					ids = append(ids, id)
					ev.simple("issue", "h", id)
					if !guard(ev, "h", func() {
						if o.Op == "push" {
							q.Push(&actor.VerifItem{ID: id})
						} else {
							q.PushLocal(o.W, &actor.VerifItem{ID: id})
						}
					}) {
						stuck = true
						break
					}
				}
				if stuck {
					break
				}
				gAfter, _, _, _ := q.TryLens()
				if o.Op == "lpush" && gAfter > gBefore {
					st.Spills++
				}
				if q.Shape().GlobalCap > capBefore {
					st.Grows++
				}
				line(o.Op, o.W, o.N, ids, false)
			case "take":
				var ids []int
				exit := false
				for k := 0; k < o.N; k++ {
					g, ls, _, _ := q.TryLens()
					total := g
					for _, x := range ls {
						total += x
					}
					if total == 0 && !closed {
						st.Skipped++ // the real queue lost items: a real take would block; the monitor sees the loss at the end
						break
					}
					ownBefore := ls[o.W]
					// the model says this take finds an item; a real take that blocks anyway is a finding
					type res struct {
						it *actor.VerifItem
						ok bool
					}
					ch := make(chan res, 1)
					go func() {
						var r res
						guard(ev, wname(o.W), func() { r.it, r.ok = q.Take(o.W) })
						ch <- r
					}()
					var it *actor.VerifItem
					var ok bool
					select {
					case r := <-ch:
						it, ok = r.it, r.ok
						if panicked.Load() {
							stuck = true
						}
					case <-time.After(quiesceDeadline):
						deadlineHits.Add(1)
						g2, ls2, pk2, _ := q.TryLens()
						ev.emit("quiesce", "", 0, []string{wname(o.W)}, pk2, g2, ls2, nil)
						stuck = true
						closed = true
						ev.simple("close", "h", 0)
						q.Close()
						<-ch
					}
					if stuck {
						break
					}
					if !ok {
						ev.simple("exit", wname(o.W), 0)
						exit = true
						break
					}
					id := -1
					if it != nil {
						id = it.ID
					}
					ev.simple("take", wname(o.W), id)
					ids = append(ids, id)
					if ownBefore == 0 && g == 0 && q.LocalLen(o.W) > 0 {
						st.Steals++
					}
				}
				line("take", o.W, o.N, ids, exit)
			case "close":
				closed = true
				ev.simple("close", "h", 0)
				if !guard(ev, "h", q.Close) {
					stuck = true
					break
				}
				line("close", 0, 0, nil, false)
			}
		}
		finalize(q, ev, tr, nil, nworkers, func() bool { return closed }, q.Close, func(time.Duration) []string { return nil }, nil)
		st.Behaviours++
	}
	ev.w.Raw(map[string]any{"ev": "End", "t": "", "id": 0, "ws": []string{}, "n": 0, "g": 0, "ls": []int{}, "run": []string{}})
}

// ---------------------------------------------------------------- burst witnesses (schedules the puppet cannot gate)

// A burst witness is the operation-level projection of a TLC counterexample in which several pushes land
// between a Signal and the signalled worker's wake-up (the wake-up happens inside the Go runtime, so it cannot
// be gated). It is reproduced with GOMAXPROCS(1): the signalled goroutine is only made runnable, the pushing
// goroutine keeps the processor and performs the whole burst before anybody else runs.
//
//	{"op":"take","t":"w0"}   worker w0 calls take and holds its turn (does not come back) once it returns
//	{"op":"push","n":2}      n pushes back to back
type burstOp struct {
	Op string `json:"op"`
	T  string `json:"t"`
	N  int    `json:"n"`
}

func burstReplay(nworkers int, behaviours [][]burstOp, ev events) {
	old := runtime.GOMAXPROCS(1)
	defer runtime.GOMAXPROCS(old)
	for _, b := range behaviours {
		if deadlineHits.Load() >= maxDeadlineHits {
			break
		}
		ev.w.Raw(map[string]any{"ev": "New", "t": "", "id": 0, "ws": []string{}, "n": 0, "g": 0, "ls": []int{}, "run": []string{}})
		q := actor.VerifNewReadyQueue(nworkers)
		tr := newTracker()
		var threads []string
		var wg sync.WaitGroup
		release := make(chan struct{})
		next := 0
		// settle: every started worker either sleeps on the condvar or holds its turn, and (if somebody sleeps)
		// the global ring is empty; gives up at the deadline
		settle := func() (sleepers []string, g int, ls []int, parked int, ok bool) {
			deadline := time.Now().Add(quiesceDeadline)
			for {
				sleepers = nil
				busy := false
				tr.mu.Lock()
				for _, t := range threads {
					if tr.inTake[t] {
						sleepers = append(sleepers, t)
					} else if !tr.done[t] && !tr.exited[t] {
						busy = true // between start and take / between take and turn
					}
				}
				tr.mu.Unlock()
				var lok bool
				g, ls, parked, lok = q.TryLens()
				if lok && !busy && parked == len(sleepers) && (g == 0 || len(sleepers) == 0) {
					return sleepers, g, ls, parked, true
				}
				if time.Now().After(deadline) {
					return sleepers, g, ls, parked, false
				}
				time.Sleep(200 * time.Microsecond)
			}
		}
		for _, o := range b {
			switch o.Op {
			case "take":
				t := o.T
				idx, _ := strconv.Atoi(t[1:])
				threads = append(threads, t)
				tr.set(tr.inTake, t, true)
				wg.Add(1)
				go func() {
					defer wg.Done()
					var it *actor.VerifItem
					var ok bool
					if !guard(ev, t, func() { it, ok = q.Take(idx) }) {
						return
					}
					if !ok {
						ev.simple("exit", t, 0)
						tr.mu.Lock()
						tr.inTake[t], tr.exited[t], tr.done[t] = false, true, true
						tr.mu.Unlock()
						return
					}
					ev.simple("take", t, it.ID)
					tr.mu.Lock()
					tr.inTake[t], tr.done[t] = false, true // holds its turn: never comes back to take
					tr.mu.Unlock()
					<-release
				}()
				settle()
			case "push":
				items := make([]*actor.VerifItem, o.N)
				for k := range items {
					next++
					items[k] = &actor.VerifItem{ID: next}
					ev.simple("issue", "p1", next)
				}
				func() { // the burst: nothing in here blocks or yields
					for _, it := range items {
						q.Push(it)
					}
				}()
				sleepers, g, ls, parked, ok := settle()
				sort.Strings(sleepers)
				if !ok {
					deadlineHits.Add(1)
				}
				if len(sleepers) > 0 {
					ev.emit("rest", "", 0, sleepers, parked, g, ls, nil)
				}
			}
		}
		close(release)
		var blocked []string
		tr.mu.Lock()
		for _, t := range threads {
			if tr.inTake[t] {
				blocked = append(blocked, t)
			}
		}
		tr.mu.Unlock()
		finalize(q, ev, tr, blocked, nworkers, func() bool { return false }, q.Close, func(d time.Duration) []string {
			ch := make(chan struct{})
			go func() { wg.Wait(); close(ch) }()
			select {
			case <-ch:
			case <-time.After(d):
			}
			var ne []string
			tr.mu.Lock()
			for _, t := range blocked {
				if !tr.exited[t] && tr.inTake[t] {
					ne = append(ne, t)
				}
			}
			tr.mu.Unlock()
			return ne
		}, nil)
	}
	ev.w.Raw(map[string]any{"ev": "End", "t": "", "id": 0, "ws": []string{}, "n": 0, "g": 0, "ls": []int{}, "run": []string{}})
}

func main() {
	if len(os.Args) < 2 {
		fatal("usage: readyqueue replay|stress|seq ...")
	}
	switch os.Args[1] {
	case "replay":
		if len(os.Args) != 6 {
			fatal("usage: readyqueue replay <workers> <behaviours> <events> <steps>")
		}
		nw, _ := strconv.Atoi(os.Args[2])
		behaviours, err := vtrace.ReadLines[[]step](os.Args[3])
		if err != nil {
			fatal(err)
		}
		w, err := vtrace.Create(os.Args[4])
		if err != nil {
			fatal(err)
		}
		sw, err := vtrace.Create(os.Args[5])
		if err != nil {
			fatal(err)
		}
		st := &replayStats{}
		replay(nw, behaviours, events{w}, sw, st)
		st.Events = w.Count()
		st.StepLines = sw.Count()
		if err := w.Close(); err != nil {
			fatal(err)
		}
		if err := sw.Close(); err != nil {
			fatal(err)
		}
		out, _ := json.Marshal(st)
		fmt.Println(string(out))
	case "burst":
		if len(os.Args) != 5 {
			fatal("usage: readyqueue burst <workers> <behaviours> <events>")
		}
		nw, _ := strconv.Atoi(os.Args[2])
		behaviours, err := vtrace.ReadLines[[]burstOp](os.Args[3])
		if err != nil {
			fatal(err)
		}
		w, err := vtrace.Create(os.Args[4])
		if err != nil {
			fatal(err)
		}
		burstReplay(nw, behaviours, events{w})
		cnt := w.Count()
		if err := w.Close(); err != nil {
			fatal(err)
		}
		fmt.Printf("{\"behaviours\":%d,\"events\":%d,\"deadline_hits\":%d}\n", len(behaviours), cnt, deadlineHits.Load())
	case "seq":
		if len(os.Args) != 6 {
			fatal("usage: readyqueue seq <workers> <behaviours> <events> <ops>")
		}
		nw, _ := strconv.Atoi(os.Args[2])
		behaviours, err := vtrace.ReadLines[[]seqOp](os.Args[3])
		if err != nil {
			fatal(err)
		}
		w, err := vtrace.Create(os.Args[4])
		if err != nil {
			fatal(err)
		}
		ow, err := vtrace.Create(os.Args[5])
		if err != nil {
			fatal(err)
		}
		st := &seqStats{}
		seqReplay(nw, behaviours, events{w}, ow, st)
		st.Events = w.Count()
		st.OpLines = ow.Count()
		if err := w.Close(); err != nil {
			fatal(err)
		}
		if err := ow.Close(); err != nil {
			fatal(err)
		}
		out, _ := json.Marshal(st)
		fmt.Println(string(out))
	case "stress":
		if len(os.Args) != 7 {
			fatal("usage: readyqueue stress <rq|disp> <workers> <histories> <seed> <events>")
		}
		nw, _ := strconv.Atoi(os.Args[3])
		n, _ := strconv.Atoi(os.Args[4])
		seed, _ := strconv.ParseInt(os.Args[5], 10, 64)
		w, err := vtrace.Create(os.Args[6])
		if err != nil {
			fatal(err)
		}
		rng := rand.New(rand.NewSource(seed))
		ev := events{w}
		for i := 0; i < n && deadlineHits.Load() < maxDeadlineHits; i++ {
			w.Raw(map[string]any{"ev": "New", "t": "", "id": 0, "ws": []string{}, "n": 0, "g": 0, "ls": []int{}, "run": []string{}})
			nwi := nw
			if nw == 0 {
				nwi = 1 + rng.Intn(4)
			}
			if os.Args[2] == "disp" {
				stressDisp(nwi, rng, ev)
			} else {
				stressRQ(nwi, rng, ev)
			}
		}
		w.Raw(map[string]any{"ev": "End", "t": "", "id": 0, "ws": []string{}, "n": 0, "g": 0, "ls": []int{}, "run": []string{}})
		cnt := w.Count()
		if err := w.Close(); err != nil {
			fatal(err)
		}
		fmt.Printf("{\"histories\":%d,\"events\":%d}\n", n, cnt)
	default:
		fatal("unknown subcommand", os.Args[1])
	}
}
