package main

// C28 — the pooled TCP client (internal/net.Client) behind RemoteAsk / RemoteBatchAsk.
//
//	remoting pool-replay <behaviours.ndjson> <trace.ndjson> <maxIdle> <workers>
//	    executes walks of the ConnPool.tla state graph on the real inet.Client against a loopback
//	    inet.ProtoServer whose echo handler holds every request until the walk releases it.
//	remoting pool-stress <maxIdle> <callers> <exchanges> <histories> <seed> <trace.ndjson>
//	    free-running concurrent SendProto / SendBatchProto callers with random deadlines against an
//	    echo server with random reply delays.

import (
	"context"
	"encoding/json"
	"fmt"
	"math/rand"
	"strconv"
	"sync"
	"time"

	"google.golang.org/protobuf/proto"
	"google.golang.org/protobuf/types/known/wrapperspb"

	inet "github.com/tochemey/goakt/v4/internal/net"
	"github.com/tochemey/goakt/v4/verifharness/vtrace"
)

// pline is one trace line of the pool traces (all fields always present).
type pline struct {
	Op   string `json:"op"`   // New | Start | Reply | Timeout | Result | Free | End
	C    string `json:"c"`    // caller
	Sh   int    `json:"sh"`   // short deadline
	N    int    `json:"n"`    // requests in the exchange
	X    int    `json:"x"`    // connection number (dial order as seen by the server)
	Req  int    `json:"req"`  // request answered (Reply)
	Want []int  `json:"want"` // request ids of the exchange
	Got  []int  `json:"got"`  // reply ids returned to the caller
	Err  string `json:"err"`  // error class returned to the caller ("" = none)
	Fin  int    `json:"fin"`  // Reply: 1 when it completes the caller's exchange
	Br   string `json:"br"`
}

func (l pline) norm() pline {
	if l.Want == nil {
		l.Want = []int{}
	}
	if l.Got == nil {
		l.Got = []int{}
	}
	return l
}

// ---------------------------------------------------------------- echo server with held replies

type arrival struct {
	id   int
	conn string
}

type echoServer struct {
	ps      *inet.ProtoServer
	addr    string
	mu      sync.Mutex
	hold    bool
	waiting map[int]chan struct{}
	arrived chan arrival
	delay   func(id int) time.Duration // free-running mode
}

func (s *echoServer) handler(_ context.Context, conn inet.Connection, req proto.Message) (proto.Message, error) {
	v, ok := req.(*wrapperspb.Int64Value)
	if !ok {
		return nil, fmt.Errorf("unexpected request %T", req)
	}
	id := int(v.GetValue())
	s.mu.Lock()
	hold := s.hold
	var rel chan struct{}
	if hold {
		rel = make(chan struct{})
		s.waiting[id] = rel
	}
	d := s.delay
	s.mu.Unlock()
	if hold {
		s.arrived <- arrival{id: id, conn: conn.ClientAddr().String()}
		<-rel
	} else if d != nil {
		if w := d(id); w > 0 {
			time.Sleep(w)
		}
	}
	return wrapperspb.Int64(int64(id)), nil
}

func (s *echoServer) release(id int) bool {
	s.mu.Lock()
	rel := s.waiting[id]
	delete(s.waiting, id)
	s.mu.Unlock()
	if rel == nil {
		return false
	}
	close(rel)
	return true
}

func (s *echoServer) releaseAll() {
	s.mu.Lock()
	w := s.waiting
	s.waiting = map[int]chan struct{}{}
	s.mu.Unlock()
	for _, rel := range w {
		close(rel)
	}
}

func startEchoServer(hold bool) *echoServer {
	s := &echoServer{hold: hold, waiting: map[int]chan struct{}{}, arrived: make(chan arrival, 1024)}
	ps, err := inet.NewProtoServer("127.0.0.1:0", inet.WithProtoHandler("google.protobuf.Int64Value", s.handler))
	if err != nil {
		fatal("proto server:", err)
	}
	if err := ps.Listen(); err != nil {
		fatal("listen:", err)
	}
	go func() { _ = ps.Serve() }()
	s.ps = ps
	s.addr = ps.ListenAddr().String()
	time.Sleep(20 * time.Millisecond)
	return s
}

// ---------------------------------------------------------------- one exchange on the real client

type result struct {
	got []int
	err string
}

func errClass(err error) string {
	if err == nil {
		return ""
	}
	if ne, ok := err.(interface{ Timeout() bool }); ok && ne.Timeout() {
		return "timeout"
	}
	if err == context.DeadlineExceeded || err == context.Canceled {
		return "timeout"
	}
	return "error:" + err.Error()
}

func exchange(cl *inet.Client, ctx context.Context, reqs []int) result {
	if len(reqs) == 1 {
		resp, err := cl.SendProto(ctx, wrapperspb.Int64(int64(reqs[0])))
		if err != nil {
			return result{err: errClass(err)}
		}
		v, ok := resp.(*wrapperspb.Int64Value)
		if !ok {
			return result{got: []int{-1}}
		}
		return result{got: []int{int(v.GetValue())}}
	}
	msgs := make([]proto.Message, len(reqs))
	for i, r := range reqs {
		msgs[i] = wrapperspb.Int64(int64(r))
	}
	resps, err := cl.SendBatchProto(ctx, msgs)
	if err != nil {
		return result{err: errClass(err)}
	}
	got := make([]int, len(resps))
	for i, r := range resps {
		if v, ok := r.(*wrapperspb.Int64Value); ok {
			got[i] = int(v.GetValue())
		} else {
			got[i] = -1
		}
	}
	return result{got: got}
}

// ---------------------------------------------------------------- pool-replay

const shortDeadline = 120 * time.Millisecond

type poolStats struct {
	Behaviours int    `json:"behaviours"`
	Completed  int    `json:"completed"`
	Drift      int    `json:"drift"`
	Steps      int    `json:"steps"`
	Events     int64  `json:"events"`
	FirstDrift string `json:"first_drift"`
}

func argI(x step, i int) int {
	if i < len(x.Args) {
		switch v := x.Args[i].(type) {
		case float64:
			return int(v)
		case string:
			n, _ := strconv.Atoi(v)
			return n
		}
	}
	return 0
}

func crank(c string) int { n, _ := strconv.Atoi(c[1:]); return n }

// runPoolWalk executes one walk and returns its trace lines and "" or the drift reason.
//
// Request ids on the wire carry the walk's number (base*1000 + id) so that a frame of an earlier walk that the
// server reads late (the rest of a batch whose caller timed out) cannot be mistaken for one of this walk; the
// trace shows the ids without the base, a foreign id is shown negated.
func runPoolWalk(b []step, srv *echoServer, maxIdle int, base int) (out []pline, drift string, steps int) {
	local := func(ids []int) []int {
		o := make([]int, len(ids))
		for i, v := range ids {
			if v/1000 == base {
				o[i] = v % 1000
			} else {
				o[i] = -v
			}
		}
		return o
	}
	put := func(l pline) {
		l.Want, l.Got = local(l.Want), local(l.Got)
		if l.Req != 0 {
			l.Req = local([]int{l.Req})[0]
		}
		out = append(out, l.norm())
	}
	put(pline{Op: "New", N: maxIdle})
	cl := inet.NewClient(srv.addr, inet.WithMaxIdleConns(maxIdle))
	defer cl.Close()
	connNo := map[string]int{}
	exNo := map[string]int{}
	resCh := map[string]chan result{}
	wantOf := map[string][]int{}
	readCnt := map[string]int{}
	pendOn := map[int][]int{} // connection number -> held request ids in arrival order (driver's view)
	await := func(want int) (arrival, bool) {
		for {
			select {
			case a := <-srv.arrived:
				if a.id/1000 != base { // late frame of an earlier walk: answer it, it goes nowhere
					srv.release(a.id)
					continue
				}
				if a.id != want {
					return a, false
				}
				return a, true
			case <-time.After(15 * time.Second):
				return arrival{}, false
			}
		}
	}
	// awaitOr is await that gives up as soon as the caller has returned (its deadline passed before the write)
	awaitOr := func(want int, ch chan result) (arrival, bool) {
		for {
			select {
			case a := <-srv.arrived:
				if a.id/1000 != base {
					srv.release(a.id)
					continue
				}
				return a, a.id == want
			case r := <-ch:
				ch <- r // keep it for the end-of-walk collection
				return arrival{id: -1, conn: "caller returned early: " + r.err}, false
			case <-time.After(15 * time.Second):
				return arrival{}, false
			}
		}
	}
	waitRes := func(c string, d time.Duration) (result, bool) {
		select {
		case r := <-resCh[c]:
			return r, true
		case <-time.After(d):
			return result{}, false
		}
	}
walk:
	for i, x := range b {
		switch x.A {
		case "Start":
			c, sh, n := argS(x, 0), argS(x, 1) == "TRUE", argI(x, 2)
			exNo[c]++
			reqs := make([]int, n)
			for k := range reqs {
				reqs[k] = base*1000 + crank(c)*100 + exNo[c]*10 + k + 1
			}
			wantOf[c], readCnt[c] = reqs, 0
			ch := make(chan result, 1)
			resCh[c] = ch
			d := 60 * time.Second
			if sh {
				d = shortDeadline
			}
			go func() {
				ctx, cancel := context.WithTimeout(context.Background(), d)
				defer cancel()
				ch <- exchange(cl, ctx, reqs)
			}()
			a, ok := awaitOr(reqs[0], ch)
			if !ok {
				drift = fmt.Sprintf("step %d Start(%s): request %d did not reach the server (got %v)", i, c, reqs[0], a)
				break walk
			}
			if _, seen := connNo[a.conn]; !seen {
				connNo[a.conn] = len(connNo) + 1
			}
			xn := connNo[a.conn]
			pendOn[xn] = append(pendOn[xn], reqs...)
			put(pline{Op: "Start", C: c, Sh: b2i(sh), N: n, X: xn, Want: reqs})
		case "Reply":
			xn := argI(x, 0)
			if len(pendOn[xn]) == 0 {
				drift = fmt.Sprintf("step %d Reply(%d): nothing pending", i, xn)
				break walk
			}
			r := pendOn[xn][0]
			pendOn[xn] = pendOn[xn][1:]
			// whose request is it, and does this reply complete the exchange?
			owner := ""
			for c, w := range wantOf {
				if _, running := resCh[c]; running && w[0]/10 == r/10 {
					owner = c
				}
			}
			if !srv.release(r) {
				drift = fmt.Sprintf("step %d Reply(%d): request %d is not held by the server", i, xn, r)
				break walk
			}
			if owner == "" {
				drift = fmt.Sprintf("step %d Reply(%d): nobody waits for request %d", i, xn, r)
				break walk
			}
			readCnt[owner]++
			if readCnt[owner] < len(wantOf[owner]) {
				// the next frame of the batch reaches the handler once this reply is written
				if a, ok := await(pendOn[xn][0]); !ok {
					drift = fmt.Sprintf("step %d Reply(%d): next request %d did not arrive (got %v)", i, xn, pendOn[xn][0], a)
					break walk
				}
				put(pline{Op: "Reply", C: owner, X: xn, Req: r, Want: wantOf[owner]})
				break
			}
			res, ok := waitRes(owner, 15*time.Second)
			if !ok {
				drift = fmt.Sprintf("step %d Reply(%d): the exchange of %s did not return", i, xn, owner)
				break walk
			}
			delete(resCh, owner)
			put(pline{Op: "Reply", C: owner, X: xn, Req: r, Fin: 1, Want: wantOf[owner], Got: res.got, Err: res.err})
		case "Timeout":
			c := argS(x, 0)
			r, ok := waitRes(c, shortDeadline+15*time.Second)
			if !ok {
				drift = fmt.Sprintf("step %d Timeout(%s): the exchange did not return", i, c)
				break walk
			}
			delete(resCh, c)
			// its connection is gone: the server's replies to it go nowhere
			put(pline{Op: "Timeout", C: c, Want: wantOf[c], Got: r.got, Err: r.err})
			for xn, q := range pendOn {
				var keep []int
				for _, id := range q {
					if id/10 != wantOf[c][0]/10 {
						keep = append(keep, id)
					}
				}
				pendOn[xn] = keep
			}
		default:
			fatal("unknown action", x.A)
		}
		steps++
	}
	// end of the walk (or drift): let everything finish and record what the callers got
	put(pline{Op: "Free", Br: drift})
	deadline := time.After(20 * time.Second)
	for len(resCh) > 0 {
		srv.releaseAll()
		for c, ch := range resCh {
			select {
			case r := <-ch:
				put(pline{Op: "Result", C: c, Want: wantOf[c], Got: r.got, Err: r.err})
				delete(resCh, c)
			default:
			}
		}
		select {
		case <-srv.arrived:
		case <-time.After(2 * time.Millisecond):
		case <-deadline:
			put(pline{Op: "Stuck"})
			return out, "callers did not return", steps
		}
	}
	srv.releaseAll()
	for {
		select {
		case <-srv.arrived:
			continue
		default:
		}
		break
	}
	put(pline{Op: "End"})
	return out, drift, steps
}

func b2i(b bool) int {
	if b {
		return 1
	}
	return 0
}

func poolReplayMain(args []string) {
	if len(args) != 4 {
		fatal("usage: remoting pool-replay <behaviours> <trace> <maxIdle> <workers>")
	}
	behaviours, err := vtrace.ReadLines[[]step](args[0])
	if err != nil {
		fatal(err)
	}
	w, err := vtrace.Create(args[1])
	if err != nil {
		fatal(err)
	}
	maxIdle, _ := strconv.Atoi(args[2])
	workers, _ := strconv.Atoi(args[3])
	st := &poolStats{}
	var mu sync.Mutex
	outs := make([][]pline, len(behaviours))
	next := 0
	var wg sync.WaitGroup
	for k := 0; k < workers; k++ {
		wg.Add(1)
		go func() {
			defer wg.Done()
			srv := startEchoServer(true)
			defer srv.ps.Shutdown(time.Second)
			for {
				mu.Lock()
				i := next
				next++
				mu.Unlock()
				if i >= len(behaviours) {
					return
				}
				out, drift, steps := runPoolWalk(behaviours[i], srv, maxIdle, i+1)
				mu.Lock()
				outs[i] = out
				st.Behaviours++
				st.Steps += steps
				if drift == "" {
					st.Completed++
				} else {
					st.Drift++
					if st.FirstDrift == "" {
						st.FirstDrift = drift
					}
				}
				mu.Unlock()
			}
		}()
	}
	wg.Wait()
	for _, o := range outs {
		for _, l := range o {
			w.Raw(l)
		}
	}
	w.Raw(pline{Op: "New"}.norm())
	st.Events = w.Count()
	if err := w.Close(); err != nil {
		fatal(err)
	}
	js, _ := json.Marshal(st)
	fmt.Println(string(js))
}

// ---------------------------------------------------------------- pool-stress

func poolStressMain(args []string) {
	if len(args) != 6 {
		fatal("usage: remoting pool-stress <maxIdle> <callers> <exchanges> <histories> <seed> <trace>")
	}
	maxIdle, _ := strconv.Atoi(args[0])
	ncallers, _ := strconv.Atoi(args[1])
	nex, _ := strconv.Atoi(args[2])
	histories, _ := strconv.Atoi(args[3])
	seed, _ := strconv.ParseInt(args[4], 10, 64)
	w, err := vtrace.Create(args[5])
	if err != nil {
		fatal(err)
	}
	rng := rand.New(rand.NewSource(seed))
	srv := startEchoServer(false)
	var dmu sync.Mutex
	drng := rand.New(rand.NewSource(seed + 1))
	srv.mu.Lock()
	srv.delay = func(int) time.Duration {
		dmu.Lock()
		defer dmu.Unlock()
		switch drng.Intn(6) {
		case 0:
			return time.Duration(8+drng.Intn(10)) * time.Millisecond // beyond the short deadline
		case 1:
			return time.Duration(drng.Intn(3)) * time.Millisecond
		}
		return 0
	}
	srv.mu.Unlock()
	timeouts, oks := 0, 0
	for h := 0; h < histories; h++ {
		w.Raw(pline{Op: "New", N: maxIdle}.norm())
		cl := inet.NewClient(srv.addr, inet.WithMaxIdleConns(maxIdle))
		var wg sync.WaitGroup
		var mu sync.Mutex
		for c := 1; c <= ncallers; c++ {
			c := c
			plan := make([][2]int, nex) // (n, short)
			for e := range plan {
				plan[e] = [2]int{1 + rng.Intn(3), rng.Intn(3)}
			}
			wg.Add(1)
			go func() {
				defer wg.Done()
				for e := 1; e <= nex; e++ {
					n, sh := plan[e-1][0], plan[e-1][1] == 0
					reqs := make([]int, n)
					for k := range reqs {
						reqs[k] = c*100 + e*10 + k + 1
					}
					d := 30 * time.Second
					if sh {
						d = 6 * time.Millisecond
					}
					ctx, cancel := context.WithTimeout(context.Background(), d)
					r := exchange(cl, ctx, reqs)
					cancel()
					mu.Lock()
					if r.err == "" {
						oks++
					} else {
						timeouts++
					}
					w.Raw(pline{Op: "Result", C: "c" + strconv.Itoa(c), Sh: b2i(sh), N: n, Want: reqs, Got: r.got, Err: r.err}.norm())
					mu.Unlock()
				}
			}()
		}
		wg.Wait()
		cl.Close()
		w.Raw(pline{Op: "End"}.norm())
	}
	w.Raw(pline{Op: "New"}.norm())
	n := w.Count()
	if err := w.Close(); err != nil {
		fatal(err)
	}
	_ = srv.ps.Shutdown(time.Second)
	fmt.Printf("{\"histories\":%d,\"ok\":%d,\"errors\":%d,\"events\":%d}\n", histories, oks, timeouts, n)
}
