package main

import (
	"context"
	"encoding/json"
	"errors"
	"fmt"
	"math/rand"
	"net"
	nethttp "net/http"
	"runtime"
	"strconv"
	"sync"
	"sync/atomic"
	"time"

	"google.golang.org/protobuf/proto"
	"google.golang.org/protobuf/types/known/wrapperspb"

	gerrors "github.com/tochemey/goakt/v4/errors"
	"github.com/tochemey/goakt/v4/internal/address"
	"github.com/tochemey/goakt/v4/internal/internalpb"
	inet "github.com/tochemey/goakt/v4/internal/net"
	"github.com/tochemey/goakt/v4/internal/remoteclient"
	"github.com/tochemey/goakt/v4/remote"
	"github.com/tochemey/goakt/v4/verifharness/sched"
	"github.com/tochemey/goakt/v4/verifharness/vtrace"
)

// ---------------------------------------------------------------- trace lines

// line is one NDJSON trace line; every field is always present so that the TLA+ trace
// specs can read any of them.
type line struct {
	Op  string `json:"op"`  // New | End | Free | acc | rej | dlv | dead | xclose | <action name>
	T   string `json:"t"`   // logical thread
	ID  int    `json:"id"`  // message id (stream*1000 + k; stream = caller rank)
	Br  string `json:"br"`  // observed branch / reject reason / status
	IDs []int  `json:"ids"` // batch contents (dlv, dead, WFlush)
	MDs []int  `json:"mds"` // per-message metadata ids seen on the wire (dlv)
	Q   int    `json:"q"`   // len(channel) after the step
	B   int    `json:"b"`   // maxBatch (New)
}

type tracer struct{ w *vtrace.Writer }

func (t tracer) put(l line) {
	if l.IDs == nil {
		l.IDs = []int{}
	}
	if l.MDs == nil {
		l.MDs = []int{}
	}
	t.w.Raw(l)
}

// ---------------------------------------------------------------- context propagator (per-message header)

type idKey struct{}

const idHeader = "X-Verif-Id"

// idPropagator writes the caller-unique id carried by the context into a header.
type idPropagator struct{}

func (idPropagator) Inject(ctx context.Context, h nethttp.Header) error {
	if v, ok := ctx.Value(idKey{}).(int); ok {
		h.Set(idHeader, strconv.Itoa(v))
	}
	return nil
}

func (idPropagator) Extract(ctx context.Context, h nethttp.Header) (context.Context, error) {
	if s := h.Get(idHeader); s != "" {
		n, err := strconv.Atoi(s)
		if err != nil {
			return ctx, err
		}
		return context.WithValue(ctx, idKey{}, n), nil
	}
	return ctx, nil
}

var _ remote.ContextPropagator = idPropagator{}

// ---------------------------------------------------------------- scripted loopback receiver

const (
	modeOK        = iota
	modeFailProto // handler answers with an internalpb.Error: the batch is not delivered
	modeFailConn  // handler fails: the server closes the connection without a reply
	modeLostReply // the batch IS delivered, then the connection is closed without a reply (the response is lost)
)

type tellServer struct {
	ps    *inet.ProtoServer
	host  string
	port  int
	mode  atomic.Int32
	delay atomic.Int64               // nanoseconds the handler sleeps (stress)
	rnd   atomic.Pointer[func() int] // optional: mode chooser (stress)
	tr    atomic.Pointer[tracer]
	dec   remote.Serializer
}

func decodeID(dec remote.Serializer, m *internalpb.RemoteMessage) int {
	v, err := dec.Deserialize(m.GetMessage())
	if err != nil {
		return -1
	}
	if x, ok := v.(*wrapperspb.Int64Value); ok {
		return int(x.GetValue())
	}
	return -2
}

func mdID(m *internalpb.RemoteMessage) int {
	md := m.GetMetadata()
	if md == nil {
		return 0
	}
	for k, v := range md {
		if nethttp.CanonicalHeaderKey(k) == idHeader {
			n, err := strconv.Atoi(v)
			if err != nil {
				return -1
			}
			return n
		}
	}
	return 0
}

func (s *tellServer) handler(_ context.Context, _ inet.Connection, req proto.Message) (proto.Message, error) {
	r, ok := req.(*internalpb.RemoteTellRequest)
	if !ok {
		return nil, errors.New("unexpected request")
	}
	if d := s.delay.Load(); d > 0 {
		time.Sleep(time.Duration(d))
	}
	mode := int(s.mode.Load())
	if f := s.rnd.Load(); f != nil {
		mode = (*f)()
	}
	switch mode {
	case modeFailProto:
		return &internalpb.Error{Code: internalpb.Code_CODE_INTERNAL_ERROR, Message: "scripted failure"}, nil
	case modeFailConn:
		return nil, errors.New("scripted failure")
	}
	br := ""
	if mode == modeLostReply {
		br = "lostreply"
	}
	ids := make([]int, 0, len(r.GetRemoteMessages()))
	mds := make([]int, 0, len(r.GetRemoteMessages()))
	for _, m := range r.GetRemoteMessages() {
		ids = append(ids, decodeID(s.dec, m))
		mds = append(mds, mdID(m))
	}
	if t := s.tr.Load(); t != nil {
		t.put(line{Op: "dlv", Br: br, IDs: ids, MDs: mds})
	}
	if mode == modeLostReply {
		return nil, errors.New("scripted: reply lost")
	}
	return &internalpb.RemoteTellResponse{}, nil
}

func startTellServer(dec remote.Serializer) *tellServer {
	s := &tellServer{dec: dec}
	ps, err := inet.NewProtoServer("127.0.0.1:0", inet.WithProtoHandler("internalpb.RemoteTellRequest", s.handler))
	if err != nil {
		fatal("proto server:", err)
	}
	if err := ps.Listen(); err != nil {
		fatal("listen:", err)
	}
	go func() { _ = ps.Serve() }()
	s.ps = ps
	h, p, _ := net.SplitHostPort(ps.ListenAddr().String())
	s.host = h
	s.port, _ = strconv.Atoi(p)
	// wait until the accept loop answers
	deadline := time.Now().Add(10 * time.Second)
	for time.Now().Before(deadline) {
		c, err := net.DialTimeout("tcp", ps.ListenAddr().String(), time.Second)
		if err == nil {
			c.Close()
			return s
		}
		time.Sleep(5 * time.Millisecond)
	}
	fatal("proto server does not accept connections")
	return nil
}

// ---------------------------------------------------------------- the client under test

type rig struct {
	cl   remoteclient.Client
	vc   remoteclient.VerifCoalescer
	srv  *tellServer
	tr   tracer
	to   *address.Address
	from map[string]*address.Address
}

func newRig(srv *tellServer, tr tracer, maxBatch int, callers []string) *rig {
	r := &rig{srv: srv, tr: tr, from: map[string]*address.Address{}}
	var nDead atomic.Int64
	onErr := func(_ string, msgs []*internalpb.RemoteMessage, _ error) {
		if nDead.Add(1) > 500 {
			return // a writer that fails the same batch over and over: 500 dead-letter lines say enough
		}
		ids := make([]int, 0, len(msgs))
		for _, m := range msgs {
			ids = append(ids, decodeID(srv.dec, m))
		}
		tr.put(line{Op: "dead", IDs: ids})
	}
	r.cl = remoteclient.NewClient(
		remoteclient.WithSendCoalescing(maxBatch),
		remoteclient.WithCoalescingErrorHandler(onErr),
		remoteclient.WithClientContextPropagator(idPropagator{}),
	)
	r.to = address.New("rcv", "sys", srv.host, srv.port)
	for _, p := range callers {
		r.from[p] = address.New(p, "sys", srv.host, srv.port)
	}
	return r
}

// tell performs one RemoteTell and classifies its result: "" accepted, else the reject reason.
func (r *rig) tell(ctx context.Context, p string, id int) string {
	err := r.cl.RemoteTell(context.WithValue(ctx, idKey{}, id), r.from[p], r.to, wrapperspb.Int64(int64(id)))
	switch {
	case err == nil:
		r.tr.put(line{Op: "acc", T: p, ID: id})
		return ""
	case errors.Is(err, gerrors.ErrRemoteSendBackpressure) || errors.Is(err, context.Canceled) || errors.Is(err, context.DeadlineExceeded):
		r.tr.put(line{Op: "rej", T: p, ID: id, Br: "ctx"})
		return "ctx"
	case errors.Is(err, gerrors.ErrRemoteSendFailure):
		r.tr.put(line{Op: "rej", T: p, ID: id, Br: "closed"})
		return "closed"
	default:
		r.tr.put(line{Op: "rej", T: p, ID: id, Br: "other:" + err.Error()})
		return "other"
	}
}

// ---------------------------------------------------------------- coal-replay

type step struct {
	A    string `json:"a"`
	Args []any  `json:"args"`
}

var expectPoint = map[string]string{
	"Call": "call", "SCheck": "coal.submit.check", "SFast": "coal.submit.fast", "SSlow": "coal.submit.slow",
	"WSelect": "coal.run.select", "WDrain": "coal.run.drain", "WFlush": "coal.run.flush",
	"XClose": "call", "XWait": "coal.close.wait",
	// the repaired close protocol (see Coalescer.tla): wait for in-flight submits, then stop the writer
	"SEnter": "coal.submit.enter", "XStop": "coal.close.lock",
}

type replayStats struct {
	Behaviours int    `json:"behaviours"`
	Runs       int    `json:"runs"`
	Completed  int    `json:"completed"` // walks followed to their end
	Diverged   int    `json:"diverged"`  // runs in which a Go select with several ready cases chose another branch
	Drift      int    `json:"drift"`     // runs in which the real code was not where the model expects it
	Watchdog   int    `json:"watchdog"`
	Steps      int    `json:"steps"`
	Events     int64  `json:"events"`
	Unfinished int    `json:"unfinished"` // walks never completed within the retry budget
	Aborted    bool   `json:"aborted"`    // gave up after repeated watchdog expiries (the real code hangs)
	FirstDrift string `json:"first_drift"`
}

func rankOf(p string) int { n, _ := strconv.Atoi(p[1:]); return n }

func argS(x step, i int) string {
	if i < len(x.Args) {
		if s, ok := x.Args[i].(string); ok {
			return s
		}
		return fmt.Sprint(x.Args[i])
	}
	return ""
}

// runWalk executes one walk; returns "ok" | "diverged" | "drift" | "watchdog".
func runWalk(b []step, srv *tellServer, tr tracer, maxBatch int, st *replayStats) string {
	tr.put(line{Op: "New", B: maxBatch})
	s := sched.New()
	s.Watchdog = 8 * time.Second
	s.ControlAll()
	s.AdoptAt("coal.run.select", "w")
	s.DetachAt("coal.run.exit") // the writer's return: reported as Done with the step that leaves the loop
	defer s.Close()

	nmsgs := map[string]int{}
	var callers []string
	withClose := false
	for _, x := range b {
		switch x.A {
		case "Call":
			p := argS(x, 0)
			if nmsgs[p] == 0 {
				callers = append(callers, p)
			}
			nmsgs[p]++
		case "XClose":
			withClose = true
		}
	}
	r := newRig(srv, tr, maxBatch, callers)
	srv.tr.Store(&tr)
	srv.mode.Store(modeOK)
	vc, ok := remoteclient.VerifCoalescerFor(r.cl, srv.host, srv.port)
	if !ok {
		fatal("no coalescer")
	}
	r.vc = vc
	wname, ok := s.WaitAdopted(30 * time.Second)
	if !ok {
		fatal("writer goroutine was not adopted")
	}

	var mu sync.Mutex
	lastRet := map[string]string{}
	cancels := map[string]context.CancelFunc{}
	for _, p := range callers {
		p := p
		n := nmsgs[p]
		if _, err := s.Go(p, func() {
			for k := 1; k <= n; k++ {
				s.Yield("call", 0, 0)
				ctx, cancel := context.WithCancel(context.Background())
				mu.Lock()
				cancels[p] = cancel
				mu.Unlock()
				res := r.tell(ctx, p, rankOf(p)*1000+k)
				cancel()
				mu.Lock()
				lastRet[p] = res
				mu.Unlock()
			}
		}); err != nil {
			fatal("go", err)
		}
	}
	var closed atomic.Bool
	if withClose {
		if _, err := s.Go("x", func() {
			s.Yield("call", 0, 0)
			// logged BEFORE the call: whatever is accepted after this line may have been sent after done was closed
			// (class "late" of the monitor); what was accepted before it was certainly sent before
			tr.put(line{Op: "xclose"})
			r.cl.Close()
			closed.Store(true)
		}); err != nil {
			fatal("go", err)
		}
	}

	status := "ok"
	fail := func(kind, why string) {
		status = kind
		if kind != "diverged" && st.FirstDrift == "" {
			st.FirstDrift = why
		}
	}
walk:
	for i, x := range b {
		t := wname
		switch x.A[0] {
		case 'X':
			t = "x"
		case 'W':
		default:
			t = argS(x, 0)
		}
		want := "" // prescribed branch
		got := ""  // observed branch
		id := 0
		var ids []int
		if x.A == "Cancel" {
			pend, parked := s.Pending(t)
			if !parked || pend.Done || pend.Point != "coal.submit.slow" {
				fail("drift", fmt.Sprintf("step %d Cancel(%s): thread at %v", i, t, pend))
				break walk
			}
			mu.Lock()
			c := cancels[t]
			mu.Unlock()
			c()
			tr.put(line{Op: "Cancel", T: t, Q: r.vc.Queued()})
			st.Steps++
			continue
		}
		pend, parked := s.Pending(t)
		if !parked || pend.Done || pend.Point != expectPoint[x.A] {
			fail("drift", fmt.Sprintf("step %d %s%v: thread %s at %v (parked=%v), expected %s", i, x.A, x.Args, t, pend, parked, expectPoint[x.A]))
			break walk
		}
		switch x.A {
		case "SCheck", "SFast", "SSlow":
			want = argS(x, 1)
		case "WSelect", "WDrain":
			want = argS(x, 0)
		case "WFlush":
			want = argS(x, 0)
			if want == "ok" {
				srv.mode.Store(modeOK)
			} else if want == "lost" {
				srv.mode.Store(modeLostReply)
			} else if (st.Runs+i)%2 == 0 {
				srv.mode.Store(modeFailProto)
			} else {
				srv.mode.Store(modeFailConn)
			}
		}
		before := pend
		next, err := s.Step(t)
		if err != nil {
			var wd sched.ErrWatchdog
			if errors.As(err, &wd) {
				st.Watchdog++
				fail("watchdog", fmt.Sprintf("step %d %s%v: %v", i, x.A, x.Args, err))
			} else {
				fail("drift", fmt.Sprintf("step %d %s%v: %v", i, x.A, x.Args, err))
			}
			break walk
		}
		st.Steps++
		mu.Lock()
		ret := lastRet[t]
		mu.Unlock()
		retBr := func() string {
			if ret == "" {
				return "send"
			}
			return ret
		}
		switch x.A {
		case "SCheck":
			if !next.Done && next.Point == "coal.submit.fast" {
				got = "next"
			} else {
				got = retBr()
			}
		case "SFast":
			if !next.Done && next.Point == "coal.submit.slow" {
				got = "next"
			} else {
				got = retBr()
			}
		case "SSlow":
			got = retBr()
		case "WSelect":
			if !next.Done && next.Point == "coal.run.drain" && next.A == 0 {
				got = "done"
			} else {
				got = "in"
			}
		case "WDrain":
			got = "empty"
			if !next.Done && (next.Point == "coal.run.drain" || next.Point == "coal.run.flush") && next.A == before.A+1 {
				got = "recv"
			}
		case "WFlush":
			got = want
		}
		if x.A == "Call" || x.A[0] == 'S' {
			id = rankOf(t) * 1000 // the message index is tracked by the trace specs
		}
		tr.put(line{Op: x.A, T: t, ID: id, Br: got, IDs: ids, Q: r.vc.Queued()})
		if got != want {
			fail("diverged", "")
			break walk
		}
	}
	// let everything finish, close the client if the walk did not, and record quiescence
	tr.put(line{Op: "Free", Br: status})
	s.FreeRun()
	if !withClose {
		tr.put(line{Op: "xclose"})
		r.cl.Close()
		closed.Store(true)
	}
	if !s.Join(10 * time.Second) {
		st.Watchdog++
		if status == "ok" {
			status = "watchdog"
		}
		if st.FirstDrift == "" {
			st.FirstDrift = "threads did not finish after free run"
		}
		tr.put(line{Op: "Stuck"})
		return status
	}
	r.cl.Close() // idempotent for the coalescer under test
	tr.put(line{Op: "End", Q: r.vc.Queued()})
	return status
}

// ---------------------------------------------------------------- coal-witness
//
// The schedule of Coalescer.tla's counterexample for Defects={LateSubmit}: a submit has passed its done check
// and is about to send when Close begins.  The repaired code makes Close wait for it (inflight lock) before the
// writer is told to stop; if Close is NOT held back, the schedule goes on as in the counterexample (the writer does
// its final drain and leaves, then the send succeeds) and the monitor sees an accepted message without a fate.
func coalWitnessMain(args []string) {
	if len(args) != 2 {
		fatal("usage: remoting coal-witness <rounds> <trace>")
	}
	rounds, _ := strconv.Atoi(args[0])
	w, err := vtrace.Create(args[1])
	if err != nil {
		fatal(err)
	}
	tr := tracer{w}
	srv := startTellServer(remoteclient.NewClient().Serializer(nil))
	srv.tr.Store(&tr)
	held, through, broken, early := 0, 0, 0, 0
	for r := 0; r < rounds; r++ {
		tr.put(line{Op: "New", B: 1})
		s := sched.New()
		s.Watchdog = 8 * time.Second
		s.ControlAll()
		s.AdoptAt("coal.run.select", "w")
		s.DetachAt("coal.run.exit")
		rg := newRig(srv, tr, 1, []string{"p1"})
		srv.mode.Store(modeOK)
		vc, ok := remoteclient.VerifCoalescerFor(rg.cl, srv.host, srv.port)
		if !ok {
			fatal("no coalescer")
		}
		wname, ok := s.WaitAdopted(30 * time.Second)
		if !ok {
			fatal("writer goroutine was not adopted")
		}
		s.Go("p1", func() {
			s.Yield("call", 0, 0)
			rg.tell(context.Background(), "p1", 1001)
		})
		s.Go("x", func() {
			s.Yield("call", 0, 0)
			tr.put(line{Op: "xclose"})
			rg.cl.Close()
		})
		at := func(t, point string) bool {
			p, parked := s.Pending(t)
			return parked && !p.Done && p.Point == point
		}
		okSoFar := true
		step := func(t, from string) {
			if okSoFar && at(t, from) {
				if _, err := s.Step(t); err != nil {
					okSoFar = false
				}
			} else {
				okSoFar = false
			}
		}
		step("p1", "call")              // RemoteTell up to submit
		step("p1", "coal.submit.enter") // takes the in-flight lock
		step("p1", "coal.submit.check") // done is still open
		step("x", "call")               // close(done)
		if okSoFar && at("p1", "coal.submit.fast") && at("x", "coal.close.lock") {
			_ = s.Release("x") // asks for the exclusive lock: must wait for p1
			if _, parked := s.TryAwait("x", 300*time.Millisecond); parked {
				// Close was not held back: carry on exactly as in the counterexample
				through++
				step(wname, "coal.run.select") // stop is closed, the channel is empty
				step(wname, "coal.run.drain")  // final drain finds nothing: the writer leaves
				step("p1", "coal.submit.fast") // the send succeeds behind the writer's back
				step("x", "coal.close.wait")
			} else {
				held++
				// Close waits. The writer must not have been told to stop yet: released into its select it
				// has to block (channel empty, stop open) until p1's message arrives.
				_ = s.Release(wname)
				if pw, parked := s.TryAwait(wname, 150*time.Millisecond); parked {
					early++ // the writer got through its select: it was stopped while a submit is in flight
					if !pw.Done {
						step(wname, "coal.run.drain") // final drain finds nothing: the writer leaves
					}
					step("p1", "coal.submit.fast") // the send succeeds behind the writer's back
				} else {
					step("p1", "coal.submit.fast") // send, return, release the lock: Close can go on
					_, _ = s.Await(wname)          // the writer received the message
				}
				_, _ = s.Await("x")
			}
		} else {
			broken++ // the code is not shaped as the schedule expects (hooks moved?): nothing to witness
		}
		tr.put(line{Op: "Free"})
		s.FreeRun()
		if !s.Join(10 * time.Second) {
			tr.put(line{Op: "Stuck"})
			s.Close()
			continue
		}
		rg.cl.Close()
		tr.put(line{Op: "End", Q: vc.Queued()})
		s.Close()
	}
	tr.put(line{Op: "New"})
	_ = srv.ps.Shutdown(2 * time.Second)
	n := w.Count()
	if err := w.Close(); err != nil {
		fatal(err)
	}
	fmt.Printf("{\"rounds\":%d,\"close_held_back\":%d,\"close_went_through\":%d,\"writer_stopped_early\":%d,\"unexpected_shape\":%d,\"events\":%d}\n",
		rounds, held, through, early, broken, n)
}

func coalReplayMain(args []string) {
	if len(args) != 4 {
		fatal("usage: remoting coal-replay <behaviours> <trace> <maxBatch> <retries>")
	}
	behaviours, err := vtrace.ReadLines[[]step](args[0])
	if err != nil {
		fatal(err)
	}
	w, err := vtrace.Create(args[1])
	if err != nil {
		fatal(err)
	}
	maxBatch, _ := strconv.Atoi(args[2])
	retries, _ := strconv.Atoi(args[3])
	tr := tracer{w}
	dec := remoteclient.NewClient().Serializer(nil)
	srv := startTellServer(dec)
	st := &replayStats{}
	for _, b := range behaviours {
		if st.Watchdog >= 3 {
			st.Aborted = true // the code under test hangs again and again: judge what was recorded so far
			break
		}
		st.Behaviours++
		done := false
		for a := 0; a <= retries && !done; a++ {
			st.Runs++
			switch runWalk(b, srv, tr, maxBatch, st) {
			case "ok":
				st.Completed++
				done = true
			case "diverged":
				st.Diverged++
			case "drift":
				st.Drift++
				done = true // deterministic: retrying does not help
			default:
				done = true
			}
		}
		if !done {
			st.Unfinished++
		}
	}
	tr.put(line{Op: "New"})
	_ = srv.ps.Shutdown(2 * time.Second)
	st.Events = w.Count()
	if err := w.Close(); err != nil {
		fatal(err)
	}
	out, _ := json.Marshal(st)
	fmt.Println(string(out))
}

// ---------------------------------------------------------------- coal-stress

func coalStressMain(args []string) {
	if len(args) != 6 {
		fatal("usage: remoting coal-stress <maxBatch> <callers> <msgs> <histories> <seed> <trace>")
	}
	maxBatch, _ := strconv.Atoi(args[0])
	ncallers, _ := strconv.Atoi(args[1])
	nmsgs, _ := strconv.Atoi(args[2])
	histories, _ := strconv.Atoi(args[3])
	seed, _ := strconv.ParseInt(args[4], 10, 64)
	w, err := vtrace.Create(args[5])
	if err != nil {
		fatal(err)
	}
	tr := tracer{w}
	rng := rand.New(rand.NewSource(seed))
	dec := remoteclient.NewClient().Serializer(nil)
	srv := startTellServer(dec)
	srv.tr.Store(&tr)
	stuck := 0
	for h := 0; h < histories; h++ {
		tr.put(line{Op: "New", B: maxBatch})
		var callers []string
		for p := 1; p <= ncallers; p++ {
			callers = append(callers, "p"+strconv.Itoa(p))
		}
		r := newRig(srv, tr, maxBatch, callers)
		// transport script: mostly ok, sometimes failing, sometimes slow (so that the queue fills up)
		failPct := rng.Intn(30)
		var smu sync.Mutex
		srng := rand.New(rand.NewSource(rng.Int63()))
		chooser := func() int {
			smu.Lock()
			defer smu.Unlock()
			if srng.Intn(100) < failPct {
				return modeFailProto + srng.Intn(3) // proto error | connection closed | delivered but the reply is lost
			}
			return modeOK
		}
		srv.rnd.Store(&chooser)
		srv.delay.Store(int64(rng.Intn(4)) * int64(200*time.Microsecond))
		var wg sync.WaitGroup
		total := ncallers * nmsgs
		var sent atomic.Int64
		for _, p := range callers {
			p := p
			yields := make([]int, nmsgs)
			tmo := make([]int, nmsgs)
			for i := range yields {
				yields[i] = rng.Intn(4)
				tmo[i] = rng.Intn(10) // 0: short deadline (backpressure), else none
			}
			wg.Add(1)
			go func() {
				defer wg.Done()
				for k := 1; k <= nmsgs; k++ {
					for y := 0; y < yields[k-1]; y++ {
						runtime.Gosched()
					}
					ctx, cancel := context.Background(), context.CancelFunc(func() {})
					if tmo[k-1] == 0 {
						ctx, cancel = context.WithTimeout(ctx, 300*time.Microsecond)
					}
					r.tell(ctx, p, rankOf(p)*1000+k)
					cancel()
					sent.Add(1)
				}
			}()
		}
		// close after a random share of the messages was submitted
		closeAt := int64(rng.Intn(total + 1))
		for sent.Load() < closeAt {
			runtime.Gosched()
		}
		doneCh := make(chan struct{})
		go func() {
			tr.put(line{Op: "xclose"}) // before the call, see runWalk
			r.cl.Close()
			wg.Wait()
			// a RemoteTell that raced with Close may have made the client build a fresh coalescer: close again so that
			// every writer goroutine has finished before the history is judged
			r.cl.Close()
			close(doneCh)
		}()
		select {
		case <-doneCh:
			tr.put(line{Op: "End", Q: 0})
		case <-time.After(30 * time.Second):
			stuck++
			tr.put(line{Op: "Stuck"})
		}
		if stuck >= 3 {
			break // the code under test hangs again and again: judge what was recorded so far
		}
	}
	tr.put(line{Op: "New"})
	srv.rnd.Store(nil)
	_ = srv.ps.Shutdown(2 * time.Second)
	n := w.Count()
	if err := w.Close(); err != nil {
		fatal(err)
	}
	fmt.Printf("{\"histories\":%d,\"stuck\":%d,\"events\":%d}\n", histories, stuck, n)
}
