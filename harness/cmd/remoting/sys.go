package main

// System-level legs: two REAL actor systems in one process, remoting enabled on 127.0.0.1 ports (no cluster),
// a context propagator that writes a caller-unique header.
//
//	remoting sys-tell <callers> <msgs> <receivers> <rounds> <seed> <trace.ndjson>
//	    C29 (+ C27 end to end): concurrent goroutines Tell remote actors through the coalescing client; every
//	    receiving actor records (message id, id restored from ReceiveContext.Context()).  Trace in the format of
//	    Mon_Coalescer.tla (acc / dlv with ids+mds / End).
//	remoting sys-ask <callers> <asks> <rounds> <seed> <trace.ndjson>
//	    C28 + C29: concurrent Ask / BatchAsk over the pooled connections, some of them timing out; every reply must
//	    answer its own request, the context id restored at the receiver must be the one injected for that call.
//	    Trace in the format of Mon_ConnPool.tla (Result / inj / recv).
//	remoting sys-dead <callers> <msgs> <rounds> <seed> <trace.ndjson>
//	    C27 dead-letter leg: tells to an endpoint nobody listens on; every accepted message must come back as a
//	    Deadletter event on the sender's event stream.

import (
	"context"
	"fmt"
	"math/rand"
	"net"
	"runtime"
	"strconv"
	"sync"
	"sync/atomic"
	"time"

	"google.golang.org/protobuf/types/known/wrapperspb"

	"github.com/tochemey/goakt/v4/actor"
	"github.com/tochemey/goakt/v4/internal/verifhook"
	"github.com/tochemey/goakt/v4/log"
	"github.com/tochemey/goakt/v4/remote"
	"github.com/tochemey/goakt/v4/verifharness/vtrace"
)

func freePort() int {
	l, err := net.Listen("tcp", "127.0.0.1:0")
	if err != nil {
		fatal(err)
	}
	defer l.Close()
	return l.Addr().(*net.TCPAddr).Port
}

func newRemoteSystem(name string) (actor.ActorSystem, int) {
	var lastErr error
	for try := 0; try < 5; try++ {
		port := freePort()
		sys, err := actor.NewActorSystem(name, actor.WithLogger(log.DiscardLogger),
			actor.WithRemote(remote.NewConfig("127.0.0.1", port, remote.WithContextPropagator(idPropagator{}))))
		if err != nil {
			fatal(err)
		}
		if err := sys.Start(context.Background()); err != nil {
			lastErr = err
			continue
		}
		return sys, port
	}
	fatal("cannot start actor system:", lastErr)
	return nil, 0
}

func ctxID(ctx context.Context) int {
	if v, ok := ctx.Value(idKey{}).(int); ok {
		return v
	}
	return 0
}

type idle struct{}

func (idle) PreStart(*actor.Context) error { return nil }
func (idle) Receive(*actor.ReceiveContext) {}
func (idle) PostStop(*actor.Context) error { return nil }

// ---------------------------------------------------------------- sys-tell

type tellRcv struct {
	tr    tracer
	count *atomic.Int64
}

func (tellRcv) PreStart(*actor.Context) error { return nil }
func (tellRcv) PostStop(*actor.Context) error { return nil }
func (a tellRcv) Receive(rc *actor.ReceiveContext) {
	if m, ok := rc.Message().(*wrapperspb.Int64Value); ok {
		a.tr.put(line{Op: "dlv", IDs: []int{int(m.GetValue())}, MDs: []int{ctxID(rc.Context())}})
		a.count.Add(1)
	}
}

// flushObs counts the batch sizes the coalescer's writer sends (observation only).
type flushObs struct {
	batches, multi, msgs atomic.Int64
}

func (o *flushObs) At(point string, _ any, a, _ int64) {
	if point == "coal.run.flush" {
		o.batches.Add(1)
		o.msgs.Add(a)
		if a > 1 {
			o.multi.Add(1)
		}
	}
}
func (o *flushObs) Fault(string, any, int64) int { return 0 }

func sysTellMain(args []string) {
	if len(args) != 6 {
		fatal("usage: remoting sys-tell <callers> <msgs> <receivers> <rounds> <seed> <trace>")
	}
	ncallers, _ := strconv.Atoi(args[0])
	nmsgs, _ := strconv.Atoi(args[1])
	nrcv, _ := strconv.Atoi(args[2])
	rounds, _ := strconv.Atoi(args[3])
	seed, _ := strconv.ParseInt(args[4], 10, 64)
	w, err := vtrace.Create(args[5])
	if err != nil {
		fatal(err)
	}
	tr := tracer{w}
	rng := rand.New(rand.NewSource(seed))
	obs := &flushObs{}
	verifhook.Install(obs)
	defer verifhook.Uninstall()
	bg := context.Background()
	sysA, _ := newRemoteSystem("sysa")
	sysB, portB := newRemoteSystem("sysb")
	sender, err := sysA.Spawn(bg, "sender", idle{}, actor.WithLongLived())
	if err != nil {
		fatal(err)
	}
	var received atomic.Int64
	targets := make([]*actor.PID, nrcv)
	for i := range targets {
		name := "rcv" + strconv.Itoa(i+1)
		if _, err := sysB.Spawn(bg, name, tellRcv{tr: tr, count: &received}, actor.WithLongLived()); err != nil {
			fatal(err)
		}
		if targets[i], err = sender.RemoteLookup(bg, "127.0.0.1", portB, name); err != nil {
			fatal("lookup:", err)
		}
	}
	stuck := 0
	for r := 0; r < rounds; r++ {
		tr.put(line{Op: "New"})
		received.Store(0)
		var accepted atomic.Int64
		var wg sync.WaitGroup
		for c := 1; c <= ncallers; c++ {
			c := c
			yields := make([]int, nmsgs)
			tgt := make([]int, nmsgs)
			for i := range yields {
				yields[i] = rng.Intn(3)
				tgt[i] = rng.Intn(nrcv)
			}
			wg.Add(1)
			go func() {
				defer wg.Done()
				seq := make([]int, nrcv)
				for k := 0; k < nmsgs; k++ {
					for y := 0; y < yields[k]; y++ {
						runtime.Gosched()
					}
					t := tgt[k]
					seq[t]++
					id := (c*10+t+1)*1000 + seq[t] // stream = (caller, receiver)
					err := sender.Tell(context.WithValue(bg, idKey{}, id), targets[t], wrapperspb.Int64(int64(id)))
					if err == nil {
						tr.put(line{Op: "acc", T: "c" + strconv.Itoa(c), ID: id})
						accepted.Add(1)
					} else {
						tr.put(line{Op: "rej", T: "c" + strconv.Itoa(c), ID: id, Br: err.Error()})
					}
				}
			}()
		}
		wg.Wait()
		deadline := time.Now().Add(30 * time.Second)
		for received.Load() < accepted.Load() && time.Now().Before(deadline) {
			time.Sleep(time.Millisecond)
		}
		if received.Load() < accepted.Load() {
			stuck++
			tr.put(line{Op: "Stuck"})
		} else {
			time.Sleep(2 * time.Millisecond) // a duplicate would arrive right behind
			tr.put(line{Op: "End"})
		}
	}
	tr.put(line{Op: "New"})
	_ = sysA.Stop(bg)
	_ = sysB.Stop(bg)
	n := w.Count()
	if err := w.Close(); err != nil {
		fatal(err)
	}
	fmt.Printf("{\"rounds\":%d,\"stuck\":%d,\"events\":%d,\"batches\":%d,\"batches_gt1\":%d,\"batched_msgs\":%d}\n",
		rounds, stuck, n, obs.batches.Load(), obs.multi.Load(), obs.msgs.Load())
}

// ---------------------------------------------------------------- sys-ask

type askRcv struct {
	w    *vtrace.Writer
	slow time.Duration
}

func (askRcv) PreStart(*actor.Context) error { return nil }
func (askRcv) PostStop(*actor.Context) error { return nil }
func (a askRcv) Receive(rc *actor.ReceiveContext) {
	if m, ok := rc.Message().(*wrapperspb.Int32Value); ok {
		id := int(m.GetValue())
		a.w.Raw(pline{Op: "recv", Req: id, X: ctxID(rc.Context())}.norm())
		if a.slow > 0 {
			time.Sleep(a.slow)
		}
		rc.Response(wrapperspb.Int32(int32(id)))
	}
}

func sysAskMain(args []string) {
	if len(args) != 5 {
		fatal("usage: remoting sys-ask <callers> <asks> <rounds> <seed> <trace>")
	}
	ncallers, _ := strconv.Atoi(args[0])
	nasks, _ := strconv.Atoi(args[1])
	rounds, _ := strconv.Atoi(args[2])
	seed, _ := strconv.ParseInt(args[3], 10, 64)
	w, err := vtrace.Create(args[4])
	if err != nil {
		fatal(err)
	}
	rng := rand.New(rand.NewSource(seed))
	bg := context.Background()
	sysA, _ := newRemoteSystem("sysa")
	sysB, portB := newRemoteSystem("sysb")
	sender, err := sysA.Spawn(bg, "sender", idle{}, actor.WithLongLived())
	if err != nil {
		fatal(err)
	}
	const nfast = 3
	var fast []*actor.PID
	for i := 0; i < nfast; i++ {
		name := "echo" + strconv.Itoa(i+1)
		if _, err := sysB.Spawn(bg, name, askRcv{w: w}, actor.WithLongLived()); err != nil {
			fatal(err)
		}
		p, err := sender.RemoteLookup(bg, "127.0.0.1", portB, name)
		if err != nil {
			fatal("lookup:", err)
		}
		fast = append(fast, p)
	}
	if _, err := sysB.Spawn(bg, "slow", askRcv{w: w, slow: 25 * time.Millisecond}, actor.WithLongLived()); err != nil {
		fatal(err)
	}
	slow, err := sender.RemoteLookup(bg, "127.0.0.1", portB, "slow")
	if err != nil {
		fatal("lookup:", err)
	}
	oks, errs := 0, 0
	var mu sync.Mutex
	for r := 0; r < rounds; r++ {
		w.Raw(pline{Op: "New"}.norm())
		var wg sync.WaitGroup
		for c := 1; c <= ncallers; c++ {
			c := c
			kind := make([]int, nasks)
			tgt := make([]int, nasks)
			for i := range kind {
				kind[i] = rng.Intn(8) // 0: slow actor with a short timeout, 1-2: batch ask, else single ask
				tgt[i] = rng.Intn(nfast)
			}
			wg.Add(1)
			go func() {
				defer wg.Done()
				panicked := false
				for k := 1; k <= nasks; k++ {
					base := c*100 + k*10 // ids base+1..base+3
					var want, got []int
					var err error
					func() {
						// a reply that does not belong to the request can make the client panic (index out of range in
						// RemoteBatchAsk): record it as the outcome of this exchange instead of losing the whole run
						defer func() {
							if p := recover(); p != nil {
								got = append(got, -9)
								w.Raw(pline{Op: "Result", C: "c" + strconv.Itoa(c), N: len(want), Want: want, Got: got, Err: "", Br: fmt.Sprint("panic: ", p)}.norm())
								panicked = true
							}
						}()
						ctx := context.WithValue(bg, idKey{}, base+1)
						switch kind[k-1] {
						case 0:
							want = []int{base + 1}
							w.Raw(pline{Op: "inj", Req: base + 1, X: base + 1}.norm())
							var resp any
							resp, err = sender.Ask(ctx, slow, wrapperspb.Int32(int32(base+1)), 8*time.Millisecond)
							if v, ok := resp.(*wrapperspb.Int32Value); ok && err == nil {
								got = []int{int(v.GetValue())}
							}
						case 1, 2:
							n := 2 + kind[k-1]%2
							msgs := make([]any, n)
							for i := range msgs {
								want = append(want, base+1+i)
								msgs[i] = wrapperspb.Int32(int32(base + 1 + i))
								w.Raw(pline{Op: "inj", Req: base + 1 + i, X: base + 1}.norm()) // one context for the whole batch
							}
							var ch chan any
							ch, err = sender.BatchAsk(ctx, fast[tgt[k-1]], msgs, 20*time.Second)
							if err == nil {
								for resp := range ch {
									if v, ok := resp.(*wrapperspb.Int32Value); ok {
										got = append(got, int(v.GetValue()))
									} else {
										got = append(got, -1)
									}
								}
							}
						default:
							want = []int{base + 1}
							w.Raw(pline{Op: "inj", Req: base + 1, X: base + 1}.norm())
							var resp any
							resp, err = sender.Ask(ctx, fast[tgt[k-1]], wrapperspb.Int32(int32(base+1)), 20*time.Second)
							if v, ok := resp.(*wrapperspb.Int32Value); ok && err == nil {
								got = []int{int(v.GetValue())}
							} else if err == nil {
								got = []int{-1}
							}
						}
					}()
					if panicked {
						panicked = false
						continue
					}
					es := ""
					if err != nil {
						es = "error:" + err.Error()
					}
					mu.Lock()
					if err == nil {
						oks++
					} else {
						errs++
					}
					mu.Unlock()
					w.Raw(pline{Op: "Result", C: "c" + strconv.Itoa(c), N: len(want), Want: want, Got: got, Err: es}.norm())
				}
			}()
		}
		wg.Wait()
		time.Sleep(30 * time.Millisecond) // let the slow actor finish the asks that timed out
		w.Raw(pline{Op: "End"}.norm())
	}
	w.Raw(pline{Op: "New"}.norm())
	_ = sysA.Stop(bg)
	_ = sysB.Stop(bg)
	n := w.Count()
	if err := w.Close(); err != nil {
		fatal(err)
	}
	fmt.Printf("{\"rounds\":%d,\"ok\":%d,\"errors\":%d,\"events\":%d}\n", rounds, oks, errs, n)
}

// ---------------------------------------------------------------- sys-dead

func sysDeadMain(args []string) {
	if len(args) != 5 {
		fatal("usage: remoting sys-dead <callers> <msgs> <rounds> <seed> <trace>")
	}
	ncallers, _ := strconv.Atoi(args[0])
	nmsgs, _ := strconv.Atoi(args[1])
	rounds, _ := strconv.Atoi(args[2])
	w, err := vtrace.Create(args[4])
	if err != nil {
		fatal(err)
	}
	tr := tracer{w}
	bg := context.Background()
	sysA, _ := newRemoteSystem("sysa")
	sysB, portB := newRemoteSystem("sysb")
	sender, err := sysA.Spawn(bg, "sender", idle{}, actor.WithLongLived())
	if err != nil {
		fatal(err)
	}
	if _, err := sysB.Spawn(bg, "gone", idle{}, actor.WithLongLived()); err != nil {
		fatal(err)
	}
	target, err := sender.RemoteLookup(bg, "127.0.0.1", portB, "gone")
	if err != nil {
		fatal("lookup:", err)
	}
	sub, err := sysA.Subscribe()
	if err != nil {
		fatal(err)
	}
	// the receiving node goes away: every later flush fails
	if err := sysB.Stop(bg); err != nil {
		fatal(err)
	}
	stuck := 0
	for r := 0; r < rounds; r++ {
		tr.put(line{Op: "New"})
		var accepted atomic.Int64
		var wg sync.WaitGroup
		for c := 1; c <= ncallers; c++ {
			c := c
			wg.Add(1)
			go func() {
				defer wg.Done()
				for k := 1; k <= nmsgs; k++ {
					id := (r%9+1)*100000 + c*1000 + k
					if err := sender.Tell(context.WithValue(bg, idKey{}, id), target, wrapperspb.Int64(int64(id))); err == nil {
						tr.put(line{Op: "acc", T: "c" + strconv.Itoa(c), ID: id})
						accepted.Add(1)
					} else {
						tr.put(line{Op: "rej", T: "c" + strconv.Itoa(c), ID: id, Br: err.Error()})
					}
				}
			}()
		}
		wg.Wait()
		dead := int64(0)
		deadline := time.Now().Add(30 * time.Second)
		for dead < accepted.Load() && time.Now().Before(deadline) {
			for m := range sub.Iterator() {
				if d, ok := m.Payload().(*actor.Deadletter); ok {
					if v, ok := d.Message().(*wrapperspb.Int64Value); ok {
						tr.put(line{Op: "dead", IDs: []int{int(v.GetValue())}})
						dead++
					}
				}
			}
			time.Sleep(time.Millisecond)
		}
		if dead < accepted.Load() {
			stuck++
			tr.put(line{Op: "Stuck", Q: int(accepted.Load() - dead)})
		} else {
			tr.put(line{Op: "End"})
		}
	}
	tr.put(line{Op: "New"})
	_ = sysA.Stop(bg)
	n := w.Count()
	if err := w.Close(); err != nil {
		fatal(err)
	}
	fmt.Printf("{\"rounds\":%d,\"stuck\":%d,\"events\":%d}\n", rounds, stuck, n)
}
