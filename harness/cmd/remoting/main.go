// Command remoting drives goakt's REAL remoting client objects and records NDJSON
// traces that TLC judges (specs/Remote).
//
//	remoting coal-replay <behaviours.ndjson> <trace.ndjson> <maxBatch> <retries>
//	    C27: executes walks of the Coalescer.tla state graph step by step on the real send
//	    coalescer (real remoteclient.Client + inet.Client against a loopback ProtoServer whose
//	    handler is scripted ok/fail) through the puppet scheduler.
//	remoting coal-stress <maxBatch> <callers> <msgs> <histories> <seed> <trace.ndjson>
//	    C27: free-running concurrent RemoteTell callers, scripted transport failures, close at a
//	    random moment.
//	remoting coal-witness <rounds> <trace.ndjson>
//	    C27: the hand-translated counterexample schedule of the repaired LateSubmit defect (submit racing with close).
//	remoting pool-replay | pool-stress ...   C28, see pool.go
//	remoting sys-tell | sys-ask | sys-dead ...   C29 / C28 / C27 on two real actor systems, see sys.go
package main

import (
	"fmt"
	"os"
)

func fatal(v ...any) {
	fmt.Fprintln(os.Stderr, v...)
	os.Exit(2)
}

func main() {
	if len(os.Args) < 2 {
		fatal("usage: remoting coal-replay|coal-stress|pool|meta ...")
	}
	switch os.Args[1] {
	case "coal-replay":
		coalReplayMain(os.Args[2:])
	case "coal-stress":
		coalStressMain(os.Args[2:])
	case "coal-witness":
		coalWitnessMain(os.Args[2:])
	case "pool-replay":
		poolReplayMain(os.Args[2:])
	case "pool-stress":
		poolStressMain(os.Args[2:])
	case "sys-tell":
		sysTellMain(os.Args[2:])
	case "sys-ask":
		sysAskMain(os.Args[2:])
	case "sys-dead":
		sysDeadMain(os.Args[2:])
	default:
		fatal("unknown subcommand", os.Args[1])
	}
}
