// Package vtrace writes NDJSON traces (one JSON object per line) consumed by the
// Trace_*.tla specifications through CommunityModules' ndJsonDeserialize, and
// reads the behaviour/case files TLC generates.
package vtrace

import (
	"bufio"
	"encoding/json"
	"fmt"
	"os"
	"sort"
	"sync"
	"sync/atomic"
)

// Writer is a concurrency-safe NDJSON writer. Emit assigns a global sequence
// number under the writer's lock; callers that need an event ordered with a
// state change must call Emit while holding the lock that protects that state.
type Writer struct {
	mu   sync.Mutex
	f    *os.File
	w    *bufio.Writer
	seq  int64
	n    int64
	aseq int64 // lock-free sequence for buffered emission
}

// Create opens path for writing.
func Create(path string) (*Writer, error) {
	f, err := os.Create(path)
	if err != nil {
		return nil, err
	}
	return &Writer{f: f, w: bufio.NewWriterSize(f, 1<<20)}, nil
}

// Emit writes one event. "seq" is added automatically (1-based).
func (w *Writer) Emit(ev map[string]any) {
	w.mu.Lock()
	defer w.mu.Unlock()
	w.seq++
	ev["seq"] = w.seq
	b, err := json.Marshal(ev)
	if err != nil {
		panic(fmt.Sprintf("vtrace: %v", err))
	}
	w.w.Write(b)
	w.w.WriteByte('\n')
	w.n++
}

// Raw writes v as one line without adding a sequence number.
func (w *Writer) Raw(v any) {
	w.mu.Lock()
	defer w.mu.Unlock()
	b, err := json.Marshal(v)
	if err != nil {
		panic(fmt.Sprintf("vtrace: %v", err))
	}
	w.w.Write(b)
	w.w.WriteByte('\n')
	w.n++
}

// NextSeq reserves the next global sequence number without taking the writer lock
// (for per-goroutine buffers flushed later with EmitBuffered).
func (w *Writer) NextSeq() int64 { return atomic.AddInt64(&w.aseq, 1) }

// EmitBuffered writes events that already carry a "seq" obtained from NextSeq, sorted by it.
// Do not mix with Emit on the same Writer between two flushes.
func (w *Writer) EmitBuffered(evs []map[string]any) {
	sort.Slice(evs, func(i, j int) bool { return evs[i]["seq"].(int64) < evs[j]["seq"].(int64) })
	w.mu.Lock()
	defer w.mu.Unlock()
	for _, ev := range evs {
		b, err := json.Marshal(ev)
		if err != nil {
			panic(fmt.Sprintf("vtrace: %v", err))
		}
		w.w.Write(b)
		w.w.WriteByte('\n')
		w.n++
	}
}

// Count returns the number of lines written.
func (w *Writer) Count() int64 { w.mu.Lock(); defer w.mu.Unlock(); return w.n }

// Close flushes and closes the file.
func (w *Writer) Close() error {
	w.mu.Lock()
	defer w.mu.Unlock()
	if err := w.w.Flush(); err != nil {
		return err
	}
	return w.f.Close()
}

// ReadLines reads an NDJSON file into a slice of generic values.
func ReadLines[T any](path string) ([]T, error) {
	f, err := os.Open(path)
	if err != nil {
		return nil, err
	}
	defer f.Close()
	var out []T
	sc := bufio.NewScanner(f)
	sc.Buffer(make([]byte, 1<<20), 1<<28)
	for sc.Scan() {
		line := sc.Bytes()
		if len(line) == 0 {
			continue
		}
		var v T
		if err := json.Unmarshal(line, &v); err != nil {
			return nil, fmt.Errorf("%s: %w", path, err)
		}
		out = append(out, v)
	}
	return out, sc.Err()
}
