#!/bin/sh
# usage: tools/mutant_test.sh <name> <patch.diff> <Cxx> [<Cxx>...]   — applies the patch in a scratch worktree of /repo HEAD,
# runs the quick checks against it (VERIF_REPO), prints the verdict lines, removes the worktree.
name=$1; patch=$2; shift 2
wt=/tmp/wt/mut-$name
git -C /repo worktree remove --force $wt 2>/dev/null
git -C /repo worktree add -q -f $wt HEAD || exit 2
if ! git -C $wt apply $patch; then echo "MUTANT $name: patch does not apply"; git -C /repo worktree remove --force $wt; exit 2; fi
for pid in "$@"; do
  out=$(cd /verif && VERIF_REPO=$wt ./tools/check $pid --tier quick 2>&1); rc=$?
  echo "MUTANT $name check=$pid exit=$rc :: $(echo "$out" | grep -E 'VIOLATION|INFRA-ERROR|OK:' | tail -2 | tr '\n' ' ')"
done
git -C /repo worktree remove --force $wt
