#!/usr/bin/env python3
"""Print the DESIGN.md 9.21 summary table (id, engine, level, fixed, known) from MANIFEST.json and known_findings.json;
with --write, replace the table in DESIGN.md in place."""
import json, os, re, sys
V = os.path.dirname(os.path.dirname(os.path.abspath(__file__)))
m = json.load(open(os.path.join(V, "MANIFEST.json")))
kf = json.load(open(os.path.join(V, "known_findings.json")))["findings"]
rows = ["| id | engine | level | fixed (fix: commits in /repo) | known (recorded, not repaired) |", "|---|---|---|---|---|"]
for c in m["checks"]:
    pid = c["property_id"]
    fx = [f["id"] for f in kf if f["property"] == pid and f["status"] == "fixed"]
    kn = [f["id"] for f in kf if f["property"] == pid and f["status"] == "known"]
    rows.append("| %s | %s | %s | %s | %s |" % (pid, c["engine"], c["level_claimed"]["category"], ", ".join(fx) or "-", ", ".join(kn) or "-"))
table = "\n".join(rows)
if "--write" in sys.argv:
    p = os.path.join(V, "DESIGN.md")
    s = open(p).read()
    s2 = re.sub(r"\| id \| engine \| level \| fixed \(fix: commits in /repo\).*?\n\n", table + "\n\n", s, count=1, flags=re.S)
    open(p, "w").write(s2)
print(table)
print("checks %d; fixed entries %d (distinct ids %d); known entries %d (distinct ids %d)" % (
    len(m["checks"]), sum(f["status"] == "fixed" for f in kf), len({f["id"] for f in kf if f["status"] == "fixed"}),
    sum(f["status"] == "known" for f in kf), len({f["id"] for f in kf if f["status"] == "known"})))
