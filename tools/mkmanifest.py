#!/usr/bin/env python3
"""Assemble /verif/MANIFEST.json from checks/*.json parts (one per group) so that groups can be
added independently. Properties without a check are listed under not_applicable with the reason
from checks/_not_applicable.json (or 'not yet covered')."""
import glob, json, os, subprocess, sys
V = os.path.dirname(os.path.dirname(os.path.abspath(__file__)))
props = [json.loads(l)["id"] for l in open(os.path.join(V, "properties.jsonl")) if l.strip()]
checks, engines = [], []
for p in sorted(glob.glob(os.path.join(V, "checks", "*.json"))):
    if os.path.basename(p).startswith("_"):
        continue
    part = json.load(open(p))
    for c in part.get("checks", []):
        pid = c["property_id"]
        c.setdefault("quick_cmd", "./tools/check %s --tier quick" % pid)
        c.setdefault("thorough_cmd", "./tools/check %s --tier thorough" % pid)
        c.setdefault("evidence_file", "/verif/evidence/%s.json" % pid)
        c.setdefault("replay_cmd_template", "./tools/check %s --replay {path}" % pid)
        checks.append(c)
    engines += part.get("engines", [])
checks.sort(key=lambda c: c["property_id"])
claimed = {c["property_id"] for c in checks}
na_reasons = json.load(open(os.path.join(V, "checks", "_not_applicable.json")))
na = [{"property_id": p, "reason": na_reasons.get(p, "not yet covered by a bound specification in this revision")}
      for p in props if p not in claimed]
hooks_commits = subprocess.run(["git", "-C", "/repo", "log", "--format=%h %s", "--grep=^verif:"], capture_output=True, text=True).stdout.strip().splitlines()
m = {
    "version": 1,
    "setup_cmd": "./tools/setup",
    "hooks": {
        "guard": "verif",
        "enable": "go build -tags verif (checks build /verif/harness/cmd/* against /repo's working tree with -tags verif)",
        "baseline_off_cmd": "cd /repo && GOFLAGS=-mod=mod go test -vet=off -count=1 -timeout 25m ./...",
        "source_commits": [l.split()[0] for l in hooks_commits],
        "add_only": True,
    },
    "engines": engines,
    "checks": checks,
    "not_applicable": na,
    "notes": "Model-based verification with explicit TLA+ specifications (specs/), TLC exhaustive/simulation runs, and "
             "conformance binding to the real code (TLC-generated behaviours replayed on real objects; recorded traces judged by TLC). "
             "See DESIGN.md. Checks accept VERIF_SEED and VERIF_TIER; VERIF_REPO (default /repo) selects the tree under test.",
}
json.dump(m, open(os.path.join(V, "MANIFEST.json"), "w"), indent=1)
print("MANIFEST.json: %d checks, %d not_applicable" % (len(checks), len(na)))
