"""Read a TLC state graph (`-dump dot,actionlabels`) and derive behaviours from it.

Graph.load(path)            nodes (id -> {var: tla-text}), edges (u, v, action-name, [args]), root
Graph.edge_cover(rng, ...)  a set of walks from the initial state that together traverse EVERY edge
                            of the graph at least once (each walk is extended to a terminal state),
                            i.e. every transition of the bounded model is exercised on the real code.
A walk is a list of steps {"a": action, "args": [...], "to": node-id}."""
import re, collections, json

_NODE = re.compile(r'^(-?\d+) \[label="(.*?)"(?:,style = filled\]|,tooltip=)', re.S)
_EDGE = re.compile(r'^(-?\d+) -> (-?\d+) \[label="(.*?)",color')


def _unescape(s):
    return s.replace('\\\\', '\x00').replace('\\n', '\n').replace('\\"', '"').replace('\x00', '\\')


def parse_state(label):
    """'/\\ x = 1\n/\\ y = <<>>' -> {'x': '1', 'y': '<<>>'} (values may span lines)."""
    out = {}
    cur = None
    for line in label.split("\n"):
        m = re.match(r'^/\\ (\w+) = (.*)$', line)
        if m:
            cur = m.group(1)
            out[cur] = m.group(2)
        elif cur is not None:
            out[cur] += "\n" + line
    return out


def parse_action(label):
    """'Swap("p1")' -> ('Swap', ['p1']);  'Deq' -> ('Deq', []); 'Set("a", 1)' -> ('Set', ['a', 1])"""
    m = re.match(r'^(\w+)(?:\((.*)\))?$', label.strip(), re.S)
    if not m:
        return label, []
    name, rest = m.group(1), m.group(2)
    args = []
    if rest:
        for a in re.findall(r'"(?:[^"\\]|\\.)*"|-?\d+|TRUE|FALSE|\w+', rest):
            if a.startswith('"'):
                args.append(a[1:-1])
            elif re.match(r'^-?\d+$', a):
                args.append(int(a))
            else:
                args.append(a)
    return name, args


class Graph:
    def __init__(self):
        self.nodes = {}      # id -> raw label text
        self.out = collections.defaultdict(list)   # id -> [(v, action, args)]
        self.root = None
        self.nedges = 0

    @staticmethod
    def load(path):
        g = Graph()
        with open(path) as f:
            for line in f:
                if " -> " in line[:48]:
                    m = _EDGE.match(line)
                    if m:
                        name, args = parse_action(_unescape(m.group(3)))
                        g.out[m.group(1)].append((m.group(2), name, args))
                        g.nedges += 1
                    continue
                m = _NODE.match(line)
                if m:
                    nid = m.group(1)
                    if nid not in g.nodes:
                        g.nodes[nid] = _unescape(m.group(2))
                    if g.root is None and "style = filled]" in line:
                        g.root = nid
        if g.root is None and g.nodes:
            g.root = next(iter(g.nodes))
        return g

    def state(self, nid):
        return parse_state(self.nodes[nid])

    def bfs_parents(self):
        par = {self.root: None}
        dq = collections.deque([self.root])
        while dq:
            u = dq.popleft()
            for (v, a, args) in self.out.get(u, []):
                if v not in par:
                    par[v] = (u, a, args)
                    dq.append(v)
        return par

    def path_to(self, par, nid):
        steps = []
        while par[nid] is not None:
            u, a, args = par[nid]
            steps.append({"a": a, "args": args, "to": nid})
            nid = u
        steps.reverse()
        return steps

    def edge_cover(self, rng, max_len=200, max_walks=None, skip_self_loops=True):
        par = self.bfs_parents()
        uncovered = set()
        for u, outs in self.out.items():
            if u not in par:
                continue
            for i, (v, a, args) in enumerate(outs):
                if skip_self_loops and u == v:
                    continue
                uncovered.add((u, i))
        order = sorted(uncovered)
        rng.shuffle(order)
        walks = []
        for (u, i) in order:
            if (u, i) not in uncovered:
                continue
            walk = self.path_to(par, u)
            cur = u
            idx = i
            while True:
                v, a, args = self.out[cur][idx]
                walk.append({"a": a, "args": args, "to": v})
                uncovered.discard((cur, idx))
                cur = v
                if len(walk) >= max_len:
                    break
                outs = [(j, o) for j, o in enumerate(self.out.get(cur, [])) if not (skip_self_loops and o[0] == cur)]
                if not outs:
                    break
                unc = [j for j, o in outs if (cur, j) in uncovered]
                idx = rng.choice(unc) if unc else rng.choice([j for j, o in outs])
            walks.append(walk)
            if max_walks and len(walks) >= max_walks:
                break
        return walks, len(uncovered)
