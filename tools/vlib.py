"""Common machinery for the /verif checks (python3 stdlib only).

A check is a python module tools/groups/<name>.py with
    PROPERTIES = ["C48", ...]            # property ids it decides
    def run(ctx, pid): ...               # raises Violation / Infra, or returns normally
`tools/check <pid> --tier quick|thorough` finds the module, builds a Ctx and calls run.

Verdict rules (DESIGN.md 2.6):
  exit 0  property held on everything explored (KNOWN-FINDING lines allowed)
  exit 1  "VIOLATION property=<id> replay=<path>"
  exit 2  infrastructure problem (never a violation)
"""
import json, os, re, shutil, subprocess, sys, time, random, hashlib, threading

VERIF = os.path.dirname(os.path.dirname(os.path.abspath(__file__)))
REPO = os.environ.get("VERIF_REPO", "/repo")
TLA_CP = "/opt/veriftools/tla/tla2tools.jar:/opt/veriftools/tla/CommunityModules-deps.jar"
NCPU = os.cpu_count() or 4


class Violation(Exception):
    def __init__(self, pid, replay, msg=""):
        super().__init__(msg)
        self.pid, self.replay, self.msg = pid, replay, msg


class Infra(Exception):
    pass


def go_env():
    e = dict(os.environ)
    e["GOFLAGS"] = "-mod=mod -p=%d" % max(2, NCPU // 4)
    e["GOPROXY"] = "off"
    e.setdefault("GOTOOLCHAIN", "auto")
    if e.get("GOTOOLCHAIN") == "auto":
        e.pop("GOSUMDB", None)  # GOSUMDB=off breaks the cached-toolchain switch
    e.setdefault("GOCACHE", os.path.expanduser("~/.cache/go-build"))
    return e


class TLCResult:
    def __init__(self):
        self.exit = None
        self.out = ""
        self.generated = 0
        self.distinct = 0
        self.queue = 0
        self.depth = 0
        self.violated = None      # name of violated invariant / property, or "deadlock", "postcondition", "assumption"
        self.error = None         # non-property error text (parse error, runtime error ...)
        self.wall = 0.0
        self.rundir = None
        self.coverage = {}        # action -> (total, distinct) when -coverage used
        self.finished = False

    @property
    def ok(self):
        return self.finished and self.violated is None and self.error is None

    def counterexample(self):
        """Text of the error trace (between 'Error:' and the final stats)."""
        m = re.search(r"Error: .*?(?=\n\d+ states generated|\nThe number of states generated|\Z)", self.out, re.S)
        return m.group(0) if m else ""


_RE_STATS = re.compile(r"(\d+) states generated, (\d+) distinct states found, (\d+) states left on queue")
_RE_DEPTH = re.compile(r"The depth of the complete state graph search is (\d+)")
_RE_SIMSTATS = re.compile(r"The number of states generated: (\d+)")


def parse_tlc(out, res):
    for m in _RE_STATS.finditer(out):
        res.generated, res.distinct, res.queue = int(m.group(1)), int(m.group(2)), int(m.group(3))
    m = _RE_DEPTH.search(out)
    if m:
        res.depth = int(m.group(1))
    m = _RE_SIMSTATS.search(out)
    if m and not res.generated:
        res.generated = int(m.group(1))
    res.finished = ("Model checking completed" in out) or ("Finished in" in out) or ("Finished computing" in out)
    m = re.search(r"Error: Invariant (\S+) is violated", out)
    if m:
        res.violated = m.group(1)
    m = re.search(r"Error: Action property (\S+) is violated", out)
    if m:
        res.violated = m.group(1)
    if "Error: Temporal properties were violated" in out:
        res.violated = "temporal"
    m = re.search(r"Error: Temporal property (\S+) was violated", out)
    if m:
        res.violated = m.group(1)
    if re.search(r"Error: Deadlock reached", out):
        res.violated = "deadlock"
    if re.search(r"[Pp]ost-?condition", out) and "Error:" in out and res.violated is None:
        if re.search(r"Error: .*[Pp]ost-?condition", out, re.S):
            res.violated = "postcondition"
    m = re.search(r"Error: Assumption .* is false", out)
    if m:
        res.violated = "assumption"
    if res.violated is None and "Error:" in out:
        m = re.search(r"Error: (.*)", out)
        res.error = m.group(1) if m else "unknown TLC error"
        # multi-line detail
        idx = out.find("Error:")
        res.error = out[idx:idx + 1500]
    for m in re.finditer(r"^<(\w+) line \d+, col \d+ to line \d+, col \d+ of module \w+>: (\d+):(\d+)", out, re.M):
        res.coverage[m.group(1)] = (int(m.group(3)), int(m.group(2)))


class Ctx:
    def __init__(self, pid, tier, seed, group):
        self.pid, self.tier, self.seed, self.group = pid, tier, seed, group
        self.t0 = time.time()
        self.rng = random.Random(seed)
        self.scratch = os.path.join(VERIF, ".scratch", "%s-%s-%d" % (pid, tier, os.getpid()))
        shutil.rmtree(self.scratch, ignore_errors=True)
        os.makedirs(self.scratch)
        self.tlc_runs = []
        self.known_seen = []
        self.notes = []
        self._n = 0
        self._lock = threading.RLock()   # ctx.tmp / ctx.tlc may be used from worker threads

    # ---------------------------------------------------------------- misc
    @property
    def quick(self):
        return self.tier == "quick"

    def log(self, *a):
        print("[%s %6.1fs]" % (self.pid, time.time() - self.t0), *a, flush=True)

    def cleanup(self):
        shutil.rmtree(self.scratch, ignore_errors=True)

    def tmp(self, name):
        with self._lock:
            self._n += 1
            return os.path.join(self.scratch, "%02d-%s" % (self._n, name))

    def replay_dir(self):
        d = os.path.join(VERIF, "replays", self.pid)
        os.makedirs(d, exist_ok=True)
        return d

    def save_replay(self, name, *paths, text=None):
        """Copy artefacts of a violation to /verif/replays/<pid>/ and return the main path."""
        d = self.replay_dir()
        main = None
        for p in paths:
            dst = os.path.join(d, name + "-" + os.path.basename(p))
            shutil.copy(p, dst)
            main = main or dst
        if text is not None:
            dst = os.path.join(d, name + ".txt")
            with open(dst, "w") as f:
                f.write(text)
            main = main or dst
        return main

    # ---------------------------------------------------------------- Go harness
    def build(self, cmd):
        """Build harness/cmd/<cmd> with -tags verif against REPO's current working tree."""
        hdir = os.path.join(VERIF, "harness")
        bindir = os.path.join(VERIF, ".bin")
        os.makedirs(bindir, exist_ok=True)
        suffix = "" if REPO == "/repo" else "-" + hashlib.sha1(REPO.encode()).hexdigest()[:8]
        out = os.path.join(bindir, cmd + suffix)
        args = ["go", "build", "-tags", "verif", "-o", out]
        if REPO != "/repo":
            modfile = os.path.join(self.scratch, "go.mod")
            with open(os.path.join(hdir, "go.mod")) as f:
                mod = f.read().replace("=> /repo", "=> " + REPO)
            with open(modfile, "w") as f:
                f.write(mod)
            shutil.copy(os.path.join(hdir, "go.sum"), os.path.join(self.scratch, "go.sum"))
            args += ["-modfile=" + modfile]
        args += ["./cmd/" + cmd]
        t = time.time()
        p = subprocess.run(args, cwd=hdir, env=go_env(), stdout=subprocess.PIPE, stderr=subprocess.STDOUT, text=True)
        if p.returncode != 0:
            raise Infra("harness build failed (%s):\n%s" % (cmd, p.stdout[-4000:]))
        self.log("built %s in %.1fs" % (cmd, time.time() - t))
        return out

    def run(self, argv, timeout=600, cwd=None, env=None, check=True, stdin=None):
        e = dict(os.environ)
        e["VERIF_SEED"] = str(self.seed)
        e["VERIF_TIER"] = self.tier
        if env:
            e.update(env)
        try:
            p = subprocess.run(argv, cwd=cwd or self.scratch, env=e, stdout=subprocess.PIPE, stderr=subprocess.PIPE,
                               text=True, timeout=timeout, input=stdin)
        except subprocess.TimeoutExpired:
            raise Infra("timeout after %ss: %s" % (timeout, " ".join(argv[:4])))
        if check and p.returncode != 0:
            raise Infra("command failed (%d): %s\n%s\n%s" % (p.returncode, " ".join(argv[:6]), p.stdout[-3000:], p.stderr[-3000:]))
        return p

    # ---------------------------------------------------------------- TLC
    def tlc(self, spec_dir, cfg, module=None, *, workers=None, simulate=None, depth=None, deadlock_check=True,
            extra=None, timeout=900, files=None, coverage=False, heap="8g", dfs=False, props=None, name=None,
            dump_dot=False, seed=None, expect_fail=False):
        """Run TLC on specs/<spec_dir>/<cfg>. Returns TLCResult. `files`: {name_in_rundir: source_path}.
        simulate: "num=500" etc. (adds -simulate). dfs: use StateDeque queue (trace validation)."""
        src = os.path.join(VERIF, "specs", spec_dir)
        rundir = self.tmp("tlc-" + (name or cfg.replace(".cfg", "")))
        os.makedirs(rundir)
        for fn in os.listdir(src):
            if fn.endswith(".tla") or fn.endswith(".cfg"):
                shutil.copy(os.path.join(src, fn), rundir)
        for k, v in (files or {}).items():
            shutil.copy(v, os.path.join(rundir, k))
        if module is None:
            # cfg "MC_Foo.cfg" -> module "MC_Foo" if exists
            module = cfg[:-4]
        if not os.path.exists(os.path.join(rundir, module + ".tla")):
            raise Infra("no module %s.tla for cfg %s" % (module, cfg))
        if workers is None:
            workers = 1 if (dfs or simulate) else max(2, NCPU // 4)
        # keep each JVM's helper threads (GC, JIT) proportional to its TLC workers: many checks run side by side
        java = ["java", "-XX:+UseParallelGC", "-XX:ActiveProcessorCount=%d" % max(2, int(workers)), "-Xmx" + heap, "-Xss64m"]
        if dfs:
            java.append("-Dtlc2.tool.queue.IStateQueue=StateDeque")
        for k, v in (props or {}).items():
            java.append("-D%s=%s" % (k, v))
        java += ["-cp", TLA_CP, "tlc2.TLC"]
        args = java + ["-config", cfg, "-metadir", os.path.join(rundir, "meta"), "-noGenerateSpecTE"]
        args += ["-workers", str(workers)]
        if simulate:
            args += ["-simulate", simulate]
        if depth:
            args += ["-depth", str(depth)]
        if not deadlock_check:
            args += ["-deadlock"]
        if coverage:
            args += ["-coverage", "1"]
        if dump_dot:
            args += ["-dump", "dot,actionlabels", os.path.join(rundir, "graph.dot")]
        args += ["-seed", str(seed if seed is not None else self.seed)]
        args += (extra or [])
        args += [module]
        res = TLCResult()
        res.rundir = rundir
        t = time.time()
        try:
            p = subprocess.run(args, cwd=rundir, stdout=subprocess.PIPE, stderr=subprocess.STDOUT, text=True, timeout=timeout)
        except subprocess.TimeoutExpired as ex:
            out = ex.stdout.decode() if isinstance(ex.stdout, bytes) else (ex.stdout or "")
            with open(os.path.join(rundir, "tlc.out"), "w") as f:
                f.write(out)
            subprocess.run(["pkill", "-f", rundir], check=False)
            raise Infra("TLC timeout after %ss on %s/%s" % (timeout, spec_dir, cfg))
        res.wall = time.time() - t
        res.exit = p.returncode
        res.out = p.stdout
        with open(os.path.join(rundir, "tlc.out"), "w") as f:
            f.write(res.out)
        parse_tlc(res.out, res)
        self.tlc_runs.append({"spec": spec_dir + "/" + cfg, "generated": res.generated, "distinct": res.distinct,
                              "depth": res.depth, "wall_s": round(res.wall, 2), "violated": res.violated,
                              "mode": "simulate" if simulate else ("trace" if dfs else "bfs")})
        if res.error and not expect_fail:
            raise Infra("TLC error on %s/%s:\n%s" % (spec_dir, cfg, res.error))
        if not res.finished and res.violated is None and not expect_fail:
            raise Infra("TLC did not finish on %s/%s (exit %s):\n%s" % (spec_dir, cfg, res.exit, res.out[-2000:]))
        return res

    def tlc_must_hold(self, spec_dir, cfg, **kw):
        """Design-level obligation: the spec's invariants hold in the bounded model. A failure here is a
        defect of the model (or a stale Defects set), i.e. infrastructure, not a property verdict on the code."""
        r = self.tlc(spec_dir, cfg, **kw)
        if r.violated:
            raise Infra("design-level check failed: %s/%s violates %s\n%s" % (spec_dir, cfg, r.violated, r.counterexample()[:3000]))
        return r

    def states(self):
        return sum(r["distinct"] or r["generated"] for r in self.tlc_runs), sum(r["generated"] for r in self.tlc_runs)

    # ---------------------------------------------------------------- known findings
    def known_findings(self):
        p = os.path.join(VERIF, "known_findings.json")
        if not os.path.exists(p):
            return []
        with open(p) as f:
            return [x for x in json.load(f).get("findings", []) if x.get("property") == self.pid]

    def is_known(self, finding_id):
        for x in self.known_findings():
            if x.get("id") == finding_id and x.get("status") == "known":
                return x
        return None

    def report_known(self, finding_id, what):
        line = "KNOWN-FINDING: property=%s %s: %s" % (self.pid, finding_id, what)
        if finding_id not in self.known_seen:
            self.known_seen.append(finding_id)
            print(line, flush=True)

    # ---------------------------------------------------------------- evidence
    def evidence(self, level, coverage, assumptions=None, violations=0):
        d = {
            "property_id": self.pid,
            "tier": self.tier,
            "seed": int(self.seed),
            "level": level,
            "coverage": coverage,
            "assumptions": assumptions or [],
            "wall_s": round(time.time() - self.t0, 2),
            "violations": violations,
        }
        cov = d["coverage"]
        cov.setdefault("tlc_runs", self.tlc_runs)
        cov.setdefault("known_findings_seen", self.known_seen)
        cov.setdefault("repo", REPO)
        # evidence/ describes /repo itself; a run against another tree (VERIF_REPO, e.g. a mutant worktree) writes elsewhere
        edir = os.path.join(VERIF, "evidence") if os.path.realpath(REPO) == "/repo" else os.path.join(VERIF, ".scratch", "evidence-other-tree")
        os.makedirs(edir, exist_ok=True)
        path = os.path.join(edir, self.pid + ".json")
        tmp = path + ".tmp%d" % os.getpid()
        with open(tmp, "w") as f:
            json.dump(d, f, indent=1, default=str)
        os.replace(tmp, path)
        return path


def read_ndjson(path):
    out = []
    with open(path) as f:
        for line in f:
            line = line.strip()
            if line:
                out.append(json.loads(line))
    return out


def write_ndjson(path, rows):
    with open(path, "w") as f:
        for r in rows:
            f.write(json.dumps(r, separators=(",", ":")) + "\n")


def parse_sim_behaviours(out, marker="BEHAVIOUR"):
    """Extract JSON payloads printed by TLC as  <<"BEHAVIOUR", "<json>">>  (PrintT of a tuple)."""
    res = []
    for m in re.finditer(r'<<"%s", "((?:[^"\\]|\\.)*)">>' % marker, out):
        s = m.group(1)
        s = s.encode().decode("unicode_escape") if "\\" in s else s
        try:
            res.append(json.loads(s))
        except Exception:
            pass
    return res


def tuples(out, tag):
    """All  <<"tag", v1, v2, ...>>  tuples printed by TLC (PrintT), robust against TLC wrapping long tuples
    over several lines. Returns a list of lists; elements are int, str, or raw text (sets/records)."""
    res = []
    for m in re.finditer(r'<<\s*"%s"\s*,(.*?)>>(?=\s*(?:\n|$))' % re.escape(tag), out, re.S):
        body = re.sub(r'\s+', ' ', m.group(1)).strip()
        elems, depth, cur, instr = [], 0, "", False
        for ch in body:
            if ch == '"' :
                instr = not instr
            if not instr:
                if ch in "{[(<":
                    depth += 1
                elif ch in "}])>":
                    depth -= 1
                elif ch == "," and depth == 0:
                    elems.append(cur.strip())
                    cur = ""
                    continue
            cur += ch
        if cur.strip():
            elems.append(cur.strip())
        vals = []
        for e in elems:
            if re.fullmatch(r'-?\d+', e):
                vals.append(int(e))
            elif len(e) >= 2 and e[0] == '"' and e[-1] == '"':
                vals.append(e[1:-1])
            else:
                vals.append(e)
        res.append(vals)
    return res


def sample(rng, items, k):
    items = list(items)
    if len(items) <= k:
        return items
    return rng.sample(items, k)
