"""C38 / C39 / C40 - CRDT merge laws, convergence of delta + full-state replication, wire codec.

spec -> code: specs/Crdt/Crdt.tla replicates one key of each of the seven CRDT types between replicas the way
actor/replicator.go does (update = Apply + Delta + ResetDelta, deltas delivered in any order / duplicated,
full-state merges, compaction; everything that travels goes through the codec).  TLC enumerates every step
history of length D (BFS over Gen_Crdt) and random longer walks with 3 replicas and batched updates; each is
executed by harness/cmd/crdt on the REAL crdt objects and the real ddata codec.
code -> spec: TLC judges the recorded real states:
  C38  Mon_CrdtLaws   laws on real merges of jointly reachable triples        (laws.ndjson)
  C39  Mon_CrdtConv   value bounds / equal-knowledge-equal-value / join        (steps.ndjson)
  C40  Mon_CrdtCodec  decode(encode(x)) keeps value + metadata + merge results (codec.ndjson)
  all  Trace_Crdt     step-wise conformance with the transcription (drift, not a verdict)
Design level: Crdt.tla with Defects = {} satisfies Laws, Growing and Convergence (tlc_must_hold); with the Defects of
the known findings it must violate them (otherwise the Defects set is stale).

C41 - tombstones in the replicator: specs/Crdt/Replicator.tla (one action per handler of actor/replicator.go);
TLC-generated message interleavings are executed by harness/cmd/crdtrepl on REAL replicator actors (three in-process
actor systems, publications captured from the real TopicActor); Mon_Replicator judges the public Get results,
Trace_Replicator validates store / tombstones / versions / publications step by step."""
import collections, json, os, re
from concurrent.futures import ThreadPoolExecutor
import vlib


def par(*thunks):
    """run independent (mostly TLC-bound) stages side by side; the first exception is re-raised"""
    with ThreadPoolExecutor(max_workers=len(thunks)) as ex:
        futs = [ex.submit(t) for t in thunks]
        return [f.result() for f in futs]

PROPERTIES = ["C38", "C39", "C40", "C41"]
SPEC = "Crdt"

# deviations of the code that are recorded as known findings (see known_findings.d/crdt.json); the conformance
# spec runs with exactly these, i.e. it describes the code as it is
KNOWN = {"C38": ["ORMapValueDrop"], "C39": ["LWWSetOverwrites", "ORMapValueDrop"], "C40": []}
TYPES = ["gcounter", "pncounter", "flag", "lww", "mvreg", "orset", "ormap"]


def gen(ctx, cfg, simulate=None, timeout=900, name=None):
    r = ctx.tlc(SPEC, cfg, module="Gen_Crdt", simulate=simulate, depth=30 if simulate else None, deadlock_check=False,
                timeout=timeout, workers=1 if simulate else None, name=name or cfg[:-4])
    return vlib.parse_sim_behaviours(r.out), r


def shape(b):
    return json.dumps([b["ty"]] + [[s["a"], s["r"], s["q"], s["id"], [[o["k"], o["x"], o["n"]] for o in s["ops"]]] for s in b["h"]])


def cut(rows, line):
    """the behaviour (New ... next New) containing 1-based line number `line` of steps.ndjson"""
    i = line - 1
    start = max(j for j in range(i + 1) if rows[j]["a"] == "New")
    end = next((j for j in range(i + 1, len(rows)) if rows[j]["a"] == "New"), len(rows))
    return rows[start:end], i - start


REPL_DEFECTS = ["UpdateIgnoresTombstone", "DeltaIgnoresTombstone", "FullStateIgnoresTombstone", "PruneDropsTombstones"]


def run_replicator(ctx, pid):
    """C41 on real replicator actors (specs/Crdt/Replicator.tla)."""
    quick = ctx.quick
    with open(os.path.join(vlib.VERIF, "specs", SPEC, "MC_Replicator.cfg")) as f:
        base = f.read()

    def design():
        mc = ctx.tlc_must_hold(SPEC, "MC_Replicator.cfg" if quick else "MC_Replicator_t.cfg", module="MC_Replicator",
                               timeout=600 if quick else 2400, workers=4 if quick else 6)
        for dname in (REPL_DEFECTS[1:2] if quick else REPL_DEFECTS):     # vacuity: each missing check is seen by the invariant
            cfgp = ctx.tmp("MC_Replicator_%s.cfg" % dname)
            with open(cfgp, "w") as f:
                f.write(base.replace("Defects = {}", 'Defects = {"%s"}' % dname))
            r = ctx.tlc(SPEC, "MC_def.cfg", module="MC_Replicator", files={"MC_def.cfg": cfgp}, expect_fail=True, timeout=600,
                        workers=2, name="def-" + dname)
            if not r.violated:
                raise vlib.Infra("Replicator.tla with Defects={%s} does not violate the tombstone properties (vacuous spec)" % dname)
        return mc

    mc, (exh, _), (sim, _) = par(
        design,
        lambda: gen_r(ctx, "Gen_Replicator.cfg" if quick else "Gen_Replicator_t.cfg"),
        lambda: gen_r(ctx, "Sim_Replicator.cfg", simulate="num=%d" % (150 if quick else 2000), name="rsim", timeout=1500))
    ctx.log("design: tombstoned keys stay out of the store in %d distinct states; each missing check violates it" % mc.distinct)
    if len(exh) < 1000 or len(sim) < 200:
        raise vlib.Infra("behaviour generation produced too little (%d exhaustive, %d random)" % (len(exh), len(sim)))
    sim = vlib.sample(ctx.rng, sim, 1200 if quick else 20000)
    behaviours = exh + sim
    bfile = ctx.tmp("behaviours.ndjson")
    vlib.write_ndjson(bfile, behaviours)
    ctx.log("behaviours: %d exhaustive (depth %d, 2 replicas, 1 key) + %d random (depth 12, 3 replicas, 2 keys)"
            % (len(exh), len(exh[0]["h"]), len(sim)))
    exe = ctx.build("crdtrepl")
    trace = ctx.tmp("trace.ndjson")
    p = ctx.run([exe, bfile, trace], timeout=1800)
    stats = json.loads(p.stdout.strip().splitlines()[-1])
    ctx.log("real execution: %s" % stats)
    if stats["watchdog"] > len(behaviours) // 50:
        raise vlib.Infra("too many behaviours abandoned by the watchdog: %d" % stats["watchdog"])
    nlines = stats["events"]
    mon, conf = par(
        lambda: ctx.tlc(SPEC, "Mon_Replicator.cfg", dfs=True, files={"trace.ndjson": trace}, timeout=2400, heap="12g"),
        lambda: ctx.tlc(SPEC, "Trace_Replicator.cfg", dfs=True, files={"trace.ndjson": trace}, timeout=2400, heap="12g", expect_fail=True))
    if mon.depth != nlines + 1:
        raise vlib.Infra("monitor did not consume the whole trace (%d of %d)" % (mon.depth - 1, nlines))
    mism = [tuple(t) for t in vlib.tuples(mon.out, "MISMATCH")]
    if len(mism) != mon.out.count('"MISMATCH"') or any(len(t) != 3 or not isinstance(t[0], int) for t in mism):
        raise vlib.Infra("unparsed MISMATCH lines in monitor output")
    drift = None
    rows = None
    if conf.violated:
        drift = "invariant %s violated on the real trace at line %d" % (conf.violated, conf.depth)
    elif conf.error:
        drift = "conformance spec could not evaluate line %d" % conf.depth
    elif conf.depth != nlines + 1:
        rows = vlib.read_ndjson(trace)
        e = rows[max(conf.depth, 1) - 1]
        drift = "real trace rejected at line %d of %d: %s" % (conf.depth, nlines, json.dumps({x: e.get(x) for x in ("a", "r", "q", "k", "id", "out", "pub", "note")}))
    if drift:
        ctx.log("conformance drift (not a verdict): " + drift)

    def rshape(b):
        return json.dumps([[s["a"], s["r"], s["q"], s["k"], s["id"]] for s in b["h"]])

    def nontrivial(b):     # a tombstone exists and something arrives afterwards at a replica
        acts = [s["a"] for s in b["h"]]
        return "Delete" in acts and any(a.startswith("Recv") or a == "Update" for a in acts[acts.index("Delete") + 1:])
    shapes = {rshape(b) for b in behaviours if nontrivial(b)}
    cov = {
        "states": ctx.states()[0], "transitions": ctx.states()[1],
        "traces_validated_against_impl": len(behaviours),
        "samples": [json.loads(rshape(b)) for b in (exh[len(exh) // 3], sim[0], sim[-1])],
        "evaluations": nlines, "distinct_nontrivial": len(shapes),
        "rule": "every step history of length D over {Update, Delete, RecvDelta, RecvTomb, SendDigest, RecvDigest, RecvFull, Prune} x 2 "
                "replicas x 1 key (TLC BFS) plus seeded TLC random walks (3 replicas, 2 keys, depth 12), executed on real replicator "
                "actors; non-trivial = distinct history with a Delete followed by an update or an incoming message; evaluations = recorded "
                "real steps, each followed by a public Get of every key on every replica",
        "exhaustive": True, "exhaustive_histories": len(exh), "random_walks": len(sim), "real": stats,
        "conformance_drift": drift, "monitor_mismatches": len(mism),
    }
    assumptions = [
        "one replicator per in-process actor system, no cluster: coordinated reads/writes (WriteTo/ReadFrom != 0), cross-datacenter batches, "
        "snapshot restore and supervisor restarts of the replicator are not explored",
        "tombstone TTL = 1h: no expiry inside a run; prune is explored only before expiry",
        "publications are captured by a collector subscribed to the real TopicActor and delivered by the driver in the order TLC chose",
    ]
    if mism:
        rows = rows or vlib.read_ndjson(trace)
        line, r, k = mism[0]
        beh, i = cut(rows, line)
        snippet = ctx.tmp("violation.ndjson")
        vlib.write_ndjson(snippet, beh[:i + 1])
        rp = ctx.save_replay("seed%d" % ctx.seed, snippet)
        ctx.evidence("model_checking", cov, assumptions, violations=len(mism))
        raise vlib.Violation(pid, rp, "monitor: replica %s holds the tombstone of key %s but Get returns a value after step %s (%d mismatches)"
                             % (r, k, json.dumps({x: beh[i][x] for x in ("a", "r", "q", "k", "id")}), len(mism)))
    ctx.evidence("model_checking", cov, assumptions)


def gen_r(ctx, cfg, simulate=None, timeout=900, name=None):
    r = ctx.tlc(SPEC, cfg, module="Gen_Replicator", simulate=simulate, depth=40 if simulate else None, deadlock_check=False,
                timeout=timeout, workers=1 if simulate else None, name=name or cfg[:-4])
    return vlib.parse_sim_behaviours(r.out), r


def run(ctx, pid):
    if pid == "C41":
        return run_replicator(ctx, pid)
    quick = ctx.quick
    # ---- 1. design level, 2. behaviours (independent TLC runs, side by side) ------------------------------
    def design():
        cfgs = ["MC_Crdt.cfg"] if quick else ["MC_Crdt_t.cfg", "MC_Crdt_b.cfg"]
        return [ctx.tlc_must_hold(SPEC, c, module="MC_Crdt", timeout=600 if quick else 3000, workers=4 if quick else 6) for c in cfgs]

    def known():
        return ctx.tlc(SPEC, "MC_CrdtKnown.cfg", module="MC_Crdt", timeout=600, expect_fail=True, workers=2, name="known")

    mcs, kn, (exh, _), (sim, _) = par(
        design, known,
        lambda: gen(ctx, "Gen_Crdt.cfg" if quick else "Gen_Crdt_t.cfg"),
        lambda: gen(ctx, "Sim_Crdt.cfg", simulate="num=%d" % (100 if quick else 1500), name="sim", timeout=1500))
    mc = mcs[0]
    ctx.log("design: Defects={}: Laws and Convergence hold in %s distinct states" % [m.distinct for m in mcs])
    if not kn.violated:
        raise vlib.Infra("the model with the Defects of the known findings satisfies the properties: Defects set is stale")
    ctx.log("design: with the known findings' Defects the model violates %s (as it must)" % kn.violated)
    if len(exh) < 1000 or len(sim) < 200:
        raise vlib.Infra("behaviour generation produced too little (%d exhaustive, %d random)" % (len(exh), len(sim)))
    # random walks come with every variant of their last step; keep a seeded sample
    sim = vlib.sample(ctx.rng, sim, 1200 if quick else 25000)
    behaviours = exh + sim
    bfile = ctx.tmp("behaviours.ndjson")
    vlib.write_ndjson(bfile, behaviours)
    per_type = collections.Counter(b["ty"] for b in behaviours)
    ctx.log("behaviours: %d exhaustive (depth %d, 2 replicas) + %d random (depth 9, 3 replicas, batches); per type %s"
            % (len(exh), len(exh[0]["h"]), len(sim), dict(per_type)))
    if set(per_type) != set(TYPES):
        raise vlib.Infra("a CRDT type has no behaviour: %s" % per_type)

    # ---- 3. the real code --------------------------------------------------------------------------------
    exe = ctx.build("crdt")
    outdir = ctx.tmp("real")
    os.makedirs(outdir)
    p = ctx.run([exe, "replay", bfile, outdir, "12" if pid == "C40" else "3", {"C38": "laws", "C39": "steps", "C40": "codec"}[pid]], timeout=1200, check=False)
    if p.returncode == 3:      # the codec refused a value of the supported domain: a C40 matter
        msg = p.stderr.strip().splitlines()[-1]
        if pid == "C40":
            rp = ctx.save_replay("seed%d" % ctx.seed, bfile, text=msg)
            ctx.evidence("model_checking", {"evaluations": len(behaviours), "distinct_nontrivial": len(behaviours),
                                            "rule": "see docs/crdt.md", "samples": [msg]}, [], violations=1)
            raise vlib.Violation(pid, rp, "codec: " + msg)
        raise vlib.Infra("driver: " + msg)
    if p.returncode != 0:
        raise vlib.Infra("driver failed (%d): %s" % (p.returncode, p.stderr[-2000:]))
    stats = json.loads(p.stdout.strip().splitlines()[-1])
    steps = os.path.join(outdir, "steps.ndjson")
    ctx.log("real execution: %s" % stats)

    # ---- 5. the property monitor -------------------------------------------------------------------------
    if pid == "C38":
        trace, cfg, nlines = os.path.join(outdir, "laws.ndjson"), "Mon_CrdtLaws.cfg", stats["laws"]
    elif pid == "C39":
        trace, cfg, nlines = steps, "Mon_CrdtConv.cfg", stats["steps"]
    else:
        trace, cfg, nlines = os.path.join(outdir, "codec.ndjson"), "Mon_CrdtCodec.cfg", stats["codec"]
    cap = 25000 if quick else 400000
    if pid != "C39" and nlines > cap:      # records are independent of each other: judge a seeded sample
        with open(trace) as f:
            recs = f.read().splitlines()
        # stratified by CRDT type: types with few records (flag, counters) are kept whole
        keep = [i for i, r in enumerate(recs) if '"rec":"key"' in r]
        by_ty = collections.defaultdict(list)
        for i, r in enumerate(recs):
            if '"rec":"key"' not in r:
                by_ty[re.search(r'"ty":"(\w+)"', r).group(1)].append(i)
        budget, chosen = cap - len(keep), []
        for k, (ty, idx) in enumerate(sorted(by_ty.items(), key=lambda kv: len(kv[1]))):
            share = budget // (len(by_ty) - k)
            take = idx if len(idx) <= share else ctx.rng.sample(idx, share)
            chosen += take
            budget -= len(take)
        recs = [recs[i] for i in sorted(keep + chosen)]
        cap = len(recs)
        trace = ctx.tmp("sampled.ndjson")
        with open(trace, "w") as f:
            f.write("\n".join(recs) + "\n")
        ctx.log("judging a seeded sample of %d of %d records" % (cap, nlines))
        nlines = cap
    mon, conf = par(
        lambda: ctx.tlc(SPEC, cfg, dfs=True, files={"trace.ndjson": trace}, timeout=2400, heap="12g"),
        lambda: ctx.tlc(SPEC, "Trace_Crdt.cfg", dfs=True, files={"trace.ndjson": steps}, timeout=2400, heap="12g", expect_fail=True))
    if mon.depth != nlines + 1:
        raise vlib.Infra("monitor did not consume the whole trace (%d of %d)" % (mon.depth - 1, nlines))
    # conformance (drift only, never a verdict)
    drift = None
    if conf.error:
        drift = "conformance spec could not evaluate line %d: %s" % (conf.depth, conf.error[:300])
    elif conf.depth != stats["steps"] + 1:
        rows = vlib.read_ndjson(steps)
        beh, k = cut(rows, max(conf.depth, 1))
        drift = "real trace rejected at line %d of %d (type %s, step %s)" % (conf.depth, stats["steps"], beh[0]["ty"],
                                                                               json.dumps({x: beh[k][x] for x in ("a", "r", "q", "id", "ops")}))
    if drift:
        ctx.log("conformance drift (not a verdict): " + drift)
    # <<"MISMATCH", line, type, kind, [replica,] cause-or-flavour>>
    tl = vlib.tuples(mon.out, "MISMATCH")
    if len(tl) != mon.out.count('"MISMATCH"') or any(len(t) != (5 if pid == "C39" else 4) or not isinstance(t[0], int) for t in tl):
        raise vlib.Infra("unparsed MISMATCH lines in monitor output")
    mism = [(t[0], t[1], t[2], t[-1]) for t in tl]

    known, unknown = [], []
    for m in mism:
        cause = m[3] if pid != "C40" else ""
        if cause and cause in KNOWN[pid] and ctx.is_known(cause):
            known.append(m)
        else:
            unknown.append(m)
    for cause in sorted({m[3] for m in known}):
        ms = [m for m in known if m[3] == cause]
        ctx.report_known(cause, "%d recorded real results (first: %s %s, line %d of %s)"
                         % (len(ms), ms[0][1], ms[0][2], ms[0][0], os.path.basename(trace)))

    # ---- 6. evidence -------------------------------------------------------------------------------------
    def nontrivial(b):
        acts = {s["a"] for s in b["h"]}
        return "Update" in acts and ("Deliver" in acts or "Merge" in acts)
    shapes = {shape(b) for b in behaviours if nontrivial(b)}
    samples = [json.loads(shape(b)) for b in (exh[0], exh[len(exh) // 2], sim[0], sim[-1])]
    cov = {
        "states": ctx.states()[0], "transitions": ctx.states()[1],
        "traces_validated_against_impl": len(behaviours),
        "samples": samples,
        "evaluations": {"C38": min(stats["law_triples"], nlines), "C39": stats["steps"], "C40": min(stats["codec"], nlines)}[pid],
        "distinct_nontrivial": len(shapes),
        "rule": "every step history of length D over {Update, Deliver, Merge, Compact} x 7 CRDT types x 2 replicas (TLC BFS) plus "
                "seeded TLC random walks (3 replicas, batched updates, depth 9); non-trivial = distinct history that contains an "
                "update and a delivery or full-state merge; evaluations = " +
                {"C38": "distinct (a,b,c) triples of real states whose real merges were judged",
                 "C39": "recorded real steps judged", "C40": "real encode/decode round trips and merge comparisons judged"}[pid],
        "exhaustive": True, "exhaustive_histories": len(exh), "random_walks": len(sim), "per_type": dict(per_type),
        "real": stats, "conformance_drift": drift,
        "monitor_mismatches": len(mism), "monitor_mismatches_known": len(known),
        "design_states_defects_empty": [m.distinct for m in mcs], "design_known_defects_violate": kn.violated,
    }
    assumptions = [
        "replica i uses node id n_i only; LWW timestamps strictly increase per node",
        "update = mutators + Delta() + ResetDelta() atomically, as in replicator.handleUpdate (mutators on a value with an "
        "un-shipped delta merged in between are not explored)",
        "ORMap values are GCounters; elements / register values: Go primitives of the CBOR serializer's registry (and protobuf "
        "wrappers as register values)",
        "bounded: <= 3 replicas, 2 elements, history length as stated",
    ]
    if unknown:
        line, ty, kind, cause = unknown[0]
        if pid == "C39":
            rows = vlib.read_ndjson(steps)
            beh, k = cut(rows, line)
            snippet = ctx.tmp("violation.ndjson")
            vlib.write_ndjson(snippet, beh[:k + 1])
            what = "after step %s" % json.dumps({x: beh[k][x] for x in ("a", "r", "q", "id", "ops")})
        else:
            with open(trace) as f:
                row = f.read().split("\n")[line - 1]
            snippet = ctx.tmp("violation.ndjson")
            with open(snippet, "w") as f:
                f.write(row + "\n")
            what = "record %d of %s" % (line, os.path.basename(trace))
        rp = ctx.save_replay("seed%d" % ctx.seed, snippet)
        kinds = collections.Counter((m[1], m[2]) for m in unknown)
        ctx.evidence("model_checking", cov, assumptions, violations=len(unknown))
        raise vlib.Violation(pid, rp, "monitor: real %s violates '%s' (%s); %d mismatches in all: %s"
                             % (ty, kind, what, len(unknown), dict(("%s/%s" % k, v) for k, v in kinds.items())))
    ctx.evidence("model_checking", cov, assumptions)
