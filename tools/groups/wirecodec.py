"""wirecodec -- C23 (wire frames round-trip; concatenated frames read back in order; truncated /
malformed / oversized input -> error, never a panic, an out-of-range read or an allocation beyond the
frame limit).  Honestly scoped: the part of C23 that has STRUCTURE is decided by a spec.

  spec -> code   specs/WireCodec/Frame.tla holds the frame grammar (an encoder over abstract frames:
                 length-field CLAIMS versus the actual layout) and the decoder transcribed step by step
                 from internal/net.  TLC enumerates the whole abstract domain (Gen_Frame: base frames x
                 one deviating length field x deviation classes, slack, truncation at every field
                 boundary +-1, position in a concatenation of 1..3 frames), checks the design theorems on
                 the model decoder (accept iff well-formed, decode(encode(m)) = m, order, consumption,
                 allocation bound) and prints every case with its bytes.
  code           harness/cmd/wirecodec concretises every case into real bytes, runs the REAL decoders
                 (serializer Unmarshal / UnmarshalWithMetadata, client readProtoFrame +
                 unmarshalProtoResponse, server handleConn), recovers panics, measures frame-buffer
                 requests (hook in FramePool.Get) and heap bytes, and records one NDJSON event per case;
                 well-formed cases are additionally encoded by the REAL encoder (round trip); seeded
                 random bytes / byte flips are run for the robustness clause only (sampling).
  code -> spec   TLC (Trace_Frame) re-encodes and decodes every recorded case with the model and judges
                 the real results.  VIOLATION only when this monitor rejects a recorded real execution.
"""
import json, os, threading
import vlib

PROPERTIES = ["C23"]
SPEC = "WireCodec"
MAXFRAME = 262144
SLACK = "MetaSlack"


def _marks(out, marker, arity):
    ts = vlib.tuples(out, marker)
    if len(ts) != out.count('"%s"' % marker) or any(len(t) != arity or not isinstance(t[0], int) for t in ts):
        raise vlib.Infra("could not parse every %s tuple printed by TLC (%d parsed, %d printed)" % (marker, len(ts), out.count('"%s"' % marker)))
    return ts


def _monitor(ctx, rows, cfg, cat, parts, timeout, name):
    """Run Trace_Frame over rows (split into `parts` chunks judged side by side). Returns (mismatches, drift):
    mismatches = {row index: [(entry, clause)]}."""
    n = len(rows)
    bounds = [(i * n // parts, (i + 1) * n // parts) for i in range(parts)]
    bounds = [(a, b) for a, b in bounds if b > a]
    res = {}

    def go(k, a, b):
        try:
            f = ctx.tmp("%s-%d.ndjson" % (name, k))
            vlib.write_ndjson(f, rows[a:b])
            res[k] = ctx.tlc(SPEC, cfg, module="Trace_Frame", dfs=True, files={"trace.ndjson": f, "catalogue.json": cat},
                             timeout=timeout, heap="6g", name="%s-%d" % (name, k))
        except Exception as e:
            res[k] = e
    ths = [threading.Thread(target=go, args=(k, a, b)) for k, (a, b) in enumerate(bounds)]
    for t in ths:
        t.start()
    for t in ths:
        t.join()
    mism, drift = {}, []
    for k, (a, b) in enumerate(bounds):
        r = res[k]
        if isinstance(r, Exception):
            raise r if isinstance(r, vlib.Infra) else vlib.Infra("monitor run failed: %r" % (r,))
        if r.violated or r.depth != (b - a) + 1:
            raise vlib.Infra("monitor did not consume its whole trace chunk (%d of %d lines, %s)" % (r.depth - 1, b - a, r.violated))
        for t in _marks(r.out, "MISMATCH", 3):
            mism.setdefault(a + t[0] - 1, []).append((t[1], t[2]))
        for t in _marks(r.out, "DRIFT", 2):
            drift.append(a + t[0] - 1)
    return mism, drift


def _subject(row):
    c = row["c"]
    return c["frames"][c["pos"] - 1]


def run(ctx, pid):
    quick = ctx.quick
    exe = ctx.build("wirecodec")
    cat = ctx.tmp("catalogue.json")
    p = ctx.run([exe, "catalogue", str(MAXFRAME)])
    with open(cat, "w") as f:
        f.write(p.stdout)
    committed = os.path.join(vlib.VERIF, "specs", SPEC, "catalogue.json")
    if os.path.exists(committed) and json.load(open(committed)) != json.loads(p.stdout):
        ctx.log("note: the driver's catalogue differs from specs/WireCodec/catalogue.json (the fresh one is used)")
    files = {"catalogue.json": cat}

    # 0. the theorems bite: each named defect branch of the model violates the theorem it should (tiny domain),
    #    side by side with the enumeration of the real domain
    side = {}

    def defects():
        try:
            for cfg, want in (("MC_Frame_nomax.cfg", "InvAlloc"), ("MC_Frame_presize.cfg", "InvAlloc"),
                              ("MC_Frame_slack.cfg", "InvRejects")):
                d = ctx.tlc(SPEC, cfg, module="MC_Frame", deadlock_check=False, timeout=600, expect_fail=True, files=files, workers=2)
                if want is None:
                    if not (d.error and "out-of-range" in d.error) and not d.violated:
                        raise vlib.Infra("%s should make the model read out of range or violate a theorem, got %r / %r" % (cfg, d.violated, (d.error or "")[:200]))
                elif d.violated != want:
                    raise vlib.Infra("%s should violate %s in the model, got %r %s" % (cfg, want, d.violated, (d.error or "")[:300]))
                side[cfg] = d.violated or "out-of-range read"
        except Exception as e:
            side["error"] = e
    th = threading.Thread(target=defects)
    th.start()

    # 1. design theorems on the model decoder + enumeration of the abstract domain (one exhaustive TLC run)
    mc = ctx.tlc_must_hold(SPEC, "MC_Frame.cfg" if quick else "MC_Frame_t.cfg", module="MC_Frame", deadlock_check=False,
                           timeout=900 if quick else 5400, workers=4 if quick else 6, files=files, heap="8g")
    th.join()
    if "error" in side:
        e = side["error"]
        raise e if isinstance(e, vlib.Infra) else vlib.Infra("model defect checks failed: %r" % (e,))
    seen, cases = set(), []
    for c in vlib.parse_sim_behaviours(mc.out, marker="CASE"):
        k = json.dumps(c["c"], sort_keys=True)
        if k not in seen:
            seen.add(k)
            cases.append(c)
    nbase = sum(1 for c in cases if c["c"]["kind"] == "wf")
    if len(cases) != mc.distinct - 1 - nbase or len(cases) < 2000:
        raise vlib.Infra("case enumeration incomplete: %d cases, %d base states, %d TLC states" % (len(cases), nbase, mc.distinct))
    ctx.rng.shuffle(cases)
    cfile = ctx.tmp("cases.ndjson")
    vlib.write_ndjson(cfile, cases)
    kinds = {}
    for c in cases:
        kinds[c["c"]["kind"]] = kinds.get(c["c"]["kind"], 0) + 1
    ctx.log("model: %d states, theorems hold for 4 entry points; %d cases %s; defect branches: %s" % (mc.distinct, len(cases), json.dumps(kinds, sort_keys=True), json.dumps(side, sort_keys=True)))

    # 2. the real decoders on every case (+ real encoder on the well-formed ones, + seeded sampling)
    nfuzz = 1000 if quick else 20000
    trace = ctx.tmp("trace.ndjson")
    p = ctx.run([exe, "run", cfile, trace, str(MAXFRAME), str(nfuzz)], timeout=1800)
    stats = json.loads(p.stdout.strip().splitlines()[-1])
    ctx.log("driver: %s" % json.dumps(stats, sort_keys=True))
    rows = vlib.read_ndjson(trace)
    if stats["dec"] != len(cases) or stats["rt"] != nbase or stats["fuzz"] != nfuzz or len(rows) != stats["events"]:
        raise vlib.Infra("driver recorded %d dec / %d rt / %d fuzz events for %d cases / %d well-formed / %d samples"
                         % (stats["dec"], stats["rt"], stats["fuzz"], len(cases), nbase, nfuzz))
    if sum(stats["acc_" + e] for e in ("ser", "serm", "cli", "srv")) < nbase:
        raise vlib.Infra("the real decoders accepted almost nothing: the binding is broken")

    # 3. TLC judges the recording against the strict design (Defects = {})
    mism, drift = _monitor(ctx, rows, "Trace_Frame.cfg", cat, 4 if quick else 6, 1500 if quick else 5400, "mon")
    # 3b. lines the strict design rejects are judged again against the model of the code as found
    #     (Defects = {MetaSlack}): what that branch explains is the known finding, the rest is a violation
    known_lines, bad = [], dict(mism)
    if mism:
        idx = sorted(mism)
        m2, _ = _monitor(ctx, [rows[i] for i in idx], "Trace_Frame_asfound.cfg", cat, 1, 900, "asfound")
        bad = {idx[j]: v for j, v in m2.items()}
        known_lines = [i for i in idx if i not in bad]
    if known_lines and not ctx.is_known(SLACK):
        for i in known_lines:
            bad[i] = mism[i]
        known_lines = []
    if known_lines:
        r = rows[known_lines[0]]
        ctx.report_known(SLACK, "%d of %d recorded cases are decoded the way only the model branch Defects={MetaSlack} explains: bytes after the "
                         "deadline inside the metadata section are ignored (e.g. %s %s, slack %d: real serm accepted %d frame(s))"
                         % (len(known_lines), len(rows), r["c"]["kind"], json.dumps(_subject(r)["dev"]), _subject(r)["slack"], len(r["r"]["serm"]["acc"])))

    dec_rows = [r for r in rows if r["kind"] != "fuzz"]
    nontrivial = len({json.dumps(r["c"], sort_keys=True) for r in dec_rows if r["c"]["kind"] != "wf"})
    samples = [{"case": r["c"], "bytes": r["len"], "cli": r["r"]["cli"], "serm": r["r"]["serm"]} for r in
               ([x for x in dec_rows if x["c"]["kind"] == "dev"][:1] + [x for x in dec_rows if x["c"]["kind"] == "cut"][:1] + [x for x in rows if x["kind"] == "rt"][:1])]
    cov = {
        "evaluations": 4 * len(rows), "distinct_nontrivial": nontrivial,
        "rule": "TLC enumerates base frames (legacy / metadata format; empty, small, nested and at-the-limit internalpb messages; metadata nil / 0..2 headers "
                "with key and value lengths incl. 0 and 65535; deadline none / future / past) x contexts (alone, after / before / between well-formed frames) x "
                "{well-formed, one length field (total, nameLen, metaLen, count, klen, vlen) claiming a deviation class (exact-1, +1, 0, 7, 8, 11, 12, 255, 256, "
                "max-1, max, max+1, 0xFFFFFFFF; u16: -1, +1, 0, 65535), slack byte after the deadline, stream cut at every field boundary and boundary+-1"
                + ("" if quick else ", two deviating fields one of them the total, deviating frames cut one byte short") +
                "}; every case is run through 4 real decode entry points (evaluations = events x 4); non-trivial = distinct cases that are not plain well-formed "
                "(a deviation, a slack byte or a cut); random bytes / byte flips (sampling) are counted in evaluations only",
        "samples": samples, "exhaustive": True,
        "states": ctx.states()[0], "transitions": ctx.states()[1],
        "structured_cases": len(cases), "case_kinds": kinds, "well_formed_cases_also_encoded_by_real_encoder": nbase,
        "sampled_byte_strings": nfuzz, "events_validated": len(rows),
        "frames_accepted_by_real_decoders": {e: stats["acc_" + e] for e in ("ser", "serm", "cli", "srv")},
        "sampled_strings_accepted": {e: stats.get("fuzzacc_" + e, 0) for e in ("ser", "serm", "cli", "srv")},
        "real_encoder_differs_from_model_encoder": len(drift), "real_panics": stats.get("panic", 0),
        "monitor_mismatch_lines_strict": len(mism), "known_finding_lines": len(known_lines),
        "model_defect_branches_checked": side, "frame_limit": MAXFRAME,
    }
    assumptions = [
        "NOT covered: arbitrary protobuf contents (a handful of real internalpb messages: RemoteTellResponse (empty), RemoteAskGrainResponse (small and "
        "sized to the frame limit -1/0/+1), RemoteAskRequest (nested)); value-level protobuf fidelity is left to the protobuf library",
        "NOT covered: all byte strings. The structured part is exhaustive only over the abstract domain of MC_Frame.tla (one deviating length field per frame"
        + ("" if quick else ", or the total plus one other") + ", 1..3 frames, <= 2 headers); random bytes and byte flips are seeded sampling of the robustness clause only",
        "two environment oracles are idealised in the model: the registry knows exactly the catalogue type names, the protobuf parser accepts a payload region "
        "iff it is byte-equal to a catalogue payload of that type (or empty); when the model's decoder asks the parser about any other region the monitor does "
        "not judge that frame's accept/reject (only no panic, allocation, and the frames before it)",
        "u32 values >= 2^29 are one class (written as 0xFFFFFFFF); type names are real registry names (< 256 bytes, first four bytes ASCII), which is what the "
        "client's and the server's format detection rely on",
        "allocation = the size passed to FramePool.Get (exact, verif hook) and the process-wide heap bytes (runtime.MemStats.TotalAlloc delta) around each entry "
        "point, bounded by 64 KiB + 6 x stream length + 2 x buffer requests + 64 x header-map hint (protobuf keeps unknown fields of a garbage payload: ~4.5x); "
        "frame limit 256 KiB (WithMaxFrameSize), not the 16 MiB default",
        "the server entry point is handleConn on an in-memory connection (no TCP, no TLS / compression wrappers); bytes consumed are not observable there (bufio)",
        "deadline equality is by class (none / +1h / -1h within 30 s); the decoder rebases the remaining time on its own clock",
        "trusted: TLC, the JSON trace I/O, the driver's run-length projection of decoded keys / values, Go's runtime.MemStats",
    ]
    if drift:
        ctx.log("drift (not a verdict): the real encoder's bytes differ from the model encoder's on %d well-formed cases, first: %s" % (len(drift), json.dumps(rows[drift[0]]["c"])[:300]))
    if bad:
        lines = sorted(bad)[:50]
        snippet = ctx.tmp("violation.ndjson")
        vlib.write_ndjson(snippet, [dict(rows[i], _line=i + 1, _clauses=["%s:%s" % (e, t) for e, t in bad[i]]) for i in lines])
        rp = ctx.save_replay("seed%d" % ctx.seed, snippet)
        ctx.evidence("exploration", cov, assumptions, violations=len(bad))
        r = rows[lines[0]]
        e0, t0 = bad[lines[0]][0]
        what = ("%s case, subject frame %s" % (r["c"]["kind"], json.dumps(_subject(r)))) if r["kind"] != "fuzz" else "sampled byte string (%s)" % r["c"]["src"]
        raise vlib.Violation(pid, rp, "monitor: clause '%s' fails for entry point %s on %s: real %s; %d recorded cases fail"
                             % (t0, e0, what, json.dumps(r["r"].get(e0, {}))[:400], len(bad)))
    ctx.evidence("exploration", cov, assumptions)
